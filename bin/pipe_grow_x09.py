"""Growth suite X09 (ActProtocol): the activation PROTOCOL and the error behaviour of the standard network and of the fast
solver on non-modular networks of any topology, beyond the feed-forward agreement of C12 and the flush equivalence of
C13, plus the helper operations of Species and Organism that are not quota arithmetic.  Same binding as X01..X05 (B2):
TLC checks the laws of spec/ActProtocol.tla on every network x call sequence in scope (MC_ActProtocol) and prints every
behaviour with the observation the specification assigns after EVERY call; harness/cmd/vh_x09 replays them on real
networks / fast solvers / species / organisms.  Not a claimed property (no entry in CHECKS / MANIFEST.json): run with
`bin/check --property X09 --tier quick|thorough`; writes evidence/X09.json."""
from concurrent.futures import ThreadPoolExecutor

from pipelines import pipeline, cat_files, spec_must_hold, write_lines, replay_cases, B2
from vlib import Infra, CORES

CHECKS = {}

EXTRA = {
 "X09": dict(
  title="every call of the network / solver interface returns the error class, the boolean and leaves the per-node state the protocol says, on networks of any topology; species and organism helpers do what their names say",
  text="spec/ActProtocol.tla extends Solvers.tla (same network record, same standard / fast solver state). Standard network: LoadSensors with ANY number of values as the two walks of the code next to a per-node definition (exact length: every sensor incl. bias takes its value; otherwise input neurons take values in order, bias nodes 1.0; too few values: run-time panic after a partial load; surplus silently ignored) and the statement of what it should mean (only the input vector, or input + bias values; anything else an error that loads nothing); NNode.SensorLoad on any node; ActivateSteps / Activate as the loop of the code keeping the TRACE of states after every pass (per node: activation, activations count, lastActivation, lastActivation2, isActive), ForwardSteps, RecursiveSteps (= ForwardSteps(depth), depth may be 0), Relax (not implemented), Flush + FlushbackCheck. Laws checked by TLC after every call: the error class is exactly zero / exceeded / nil and the boolean is (err = nil); a zero / not-implemented error leaves the state untouched; success means every output has been activated at least once, after at least one pass, and the loop stopped at the first pass where that held; failure means exactly maxSteps passes were made; with at least as many attempts as neurons (Activate: 20) the call succeeds IFF every output that is still off is reachable, through links that are not time-delayed, from ANY sensor (loaded or not) or from an already active neuron (Reach, a graph definition); per pass: flags only rise, only reachable neurons become active, every active neuron is activated exactly once from the values BEFORE the pass, GetActiveOutTd after the pass is GetActiveOut before it, sensors untouched; active <=> count > 0 for neurons; agreement with StdActivateSteps / StdForwardSteps / StdLoad of Solvers.tla. Fast solver: LoadSensors of a wrong length (size error, nothing loaded), ForwardSteps(k <= 0) (FALSE, no error), RecursiveSteps on cyclic networks, Relax(maxSteps, delta) with the returned flag and the number of steps (state = ForwardSteps(j); delta <= 0: one step, TRUE; delta > 0: j = first step that moved no neuron by more than delta, else maxSteps and FALSE; maxSteps <= 0: FALSE), Flush; frame: only LoadSensors / Flush write sensor signals, bias signals stay 1. Static: NodeCount / LinkCount / Complexity of both (fast LinkCount = connections + neurons with a non-zero FOLDED bias), Incoming / Outgoing lists as built by ConnectFrom resp. AddIncoming + AddOutgoing, Network.IsRecurrent as the counted depth-first search next to reachability along links not marked recurrent (never a false alarm; exact unless the visit budget ran out). Second half: Species.addOrganism / removeOrganism (error unless exactly one entry went; order of the others kept) / firstOrganism / findChampion (maximal under Organisms.Less, first afterwards, a permutation; ties in either order) / lastImproved / Size, and Organism.Phenotype (cached until UpdatePhenotype whatever happens to the genome) / UpdatePhenotype (always a new network expressing the genome as it is now; a genome without genes is an error and drops the cache) / NewOrganism (takes over the genome's phenotype) / CheckChampionChildDamaged as state machines. The replayer builds every network three ways (ConnectFrom, AddIncoming + AddOutgoing, genome + Genesis where a genome can say it), runs the call sequence and compares after EVERY call: error class, boolean, ReadOutputs, OutputIsOff and per node ActivationsCount, Activation, GetActiveOut, GetActiveOutTd, isActive, lastActivation2, FlushbackCheck (standard network) resp. all neuron signals and the pre-accumulation array (fast solver).",
  note="Exhaustive within (BFS; every simple digraph of the shape incl. the empty one, self-loops, cycles, isolated and unreachable outputs; weights dealt 1, 2, -1 (, 0) by link position; integer-closed activations, the unbounded ones only on acyclic networks): quick - {input, hidden, output}: up to 4 links x 2 (allNodes order, activation scheme) x every sequence of 2 calls over 9 standard / 8 fast-solver calls; up to 2 links x every sequence of 3 calls over 7 / 6 calls; the same shape with time-delayed links up to 3 links x 2 calls; {input, bias, 2 outputs} and {2 bias, output} with time-delayed links up to 2 links x 2 calls over the edge alphabet (LoadSensors with the bias value / 2 surplus values / a second vector, ActivateSteps(-1), ForwardSteps(0 / 2 / -1), Network.Relax, SensorLoad on a sensor and on a neuron; fast: short load, ForwardSteps(-1 / 2), Relax(0, .), Relax(3, 0.5), Relax(3, 2), Relax(2, -1)); static cases for all three recurrence markings x both construction methods; species: 3 organisms x 2 key assignments (ties) x every sequence of 4 of {add i, remove i, findChampion}; organism: 3-gene genome x 2 enable patterns x with / without a phenotype on the genome x every sequence of 4 of {Phenotype, UpdatePhenotype, toggle gene 1 / 3, empty the gene list}; CheckChampionChildDamaged on 18 combinations. Thorough: all 63 link sets of {input, hidden, output} x 5 variants x sequences of 3 over the full alphabets, time-delayed links up to 4 links, {input, bias, hidden, output}, {input, 2 hidden, output}, {2 bias, output}, {2 inputs, 2 outputs}, sequences of 4 calls on up to 2 links, species / organism sequences of 5 (about 1.46 million states, 1.29 million behaviours). Values are integers (dyadic): comparison is ==. Species.removeOrganism / firstOrganism / lastImproved have no export shim: the replayer binds the library's own functions at link time (go:linkname); harness/shim_x09.go.txt is the shim that would replace that. OBSERVATIONS (recorded in coverage.actprotocol.observations, never a violation): (1) Network.LoadSensors never returns an error: with fewer values than input neurons it PANICS (index out of range, network.go LoadSensors, default branch `node.SensorLoad(sensors[counter])`) after having loaded the sensors before the missing value; with more values than input neurons (and not exactly len(inputs)) it silently ignores the surplus - ErrNetUnsupportedSensorsArraySize is only ever returned by the fast solver; MC_ActProtocol_should.cfg states what it should do as an invariant that is EXPECTED to fail on the as-coded model. A library that rejects such vectors with an error and loads nothing is accepted by the replayer. (2) The two Solver implementations disagree on the vector with bias values: the network accepts len(inputs) values (the bias takes the given value), the fast solver rejects it. (3) ForwardSteps(0): the network answers ErrZeroActivationStepsRequested, the fast solver (false, nil); negative step counts: (false, nil) on both ForwardSteps, ErrNetExceededMaxActivationAttempts on ActivateSteps. (4) fast Relax(maxSteps, delta <= 0) performs ONE step whatever maxSteps; Relax(0, .) is (false, nil). (5) Network.RecursiveSteps fails with the zero-steps error on a network with a hidden node whose outputs have no incoming link (depth 0). (6) Activate succeeds on a network whose sensors were never loaded (sensors count as sources of activity whether loaded or not; an output fed only through an earlier neuron of allNodes becomes active in the same pass and reads zeros). (7) fast LinkCount differs from the network's when a neuron has several bias links or a bias weight of 0. (8) Network.IsRecurrent answers false for a link that would close a loop when its visit budget runs out on a cycle of links not marked recurrent. (9) findChampion panics on a species without organisms; Organism.Phenotype hands out the cached network after the genome changed until UpdatePhenotype is called; after a failed UpdatePhenotype Genome.Phenotype still points to the old network. Not covered: modular networks, parallel links, NaN / infinite values, concurrent use. Trusted: TLC, the replayer's construction of networks / organisms.",
  technique=B2),
}

QUICK = ["MC_ActProtocol.cfg", "MC_ActProtocol_seq.cfg", "MC_ActProtocol_edge.cfg", "MC_ActProtocol_td.cfg",
         "MC_ActProtocol_gen.cfg"]
THOROUGH = ["MC_ActProtocol_thorough.cfg", "MC_ActProtocol_seq_thorough.cfg", "MC_ActProtocol_edge_thorough.cfg",
            "MC_ActProtocol_td_thorough.cfg", "MC_ActProtocol_wide_thorough.cfg", "MC_ActProtocol_gen_thorough.cfg"]


def _must_fail(ctx, module, cfg, invariant):
    """Model sanity / specification-level observation: the as-coded model must violate the `should` statement."""
    r = ctx.tlc(module, cfg, timeout=600, workers=2, count=False)
    ctx.tlc_runs[-1]["note"] = "EXPECTED to violate %s: the as-coded LoadSensors is not what it should be (observation 1)" % invariant
    if r.violated != invariant:
        raise Infra("%s/%s was expected to violate %s but TLC reported %s" % (module, cfg, invariant, r.violated or "no error"))
    ctx.extra.setdefault("model_sanity", []).append("%s violates %s as expected" % (cfg, invariant))


def _run(ctx, replay, module, cfgs, command, cases_name, kind, extra_args=None, timeout=1500, regen_on_replay=False, par=3):
    cases_file = ctx.path(cases_name)
    if replay is not None and not regen_on_replay:
        write_lines(cases_file, replay_cases(replay))
    else:
        # the configurations are independent: a few TLC runs side by side, the workers shared out between them
        par = max(1, min(par, len(cfgs)))
        workers = max(2, min(CORES, 16) // par)

        def one(cfg):
            return ctx.tlc(module, cfg, timeout=timeout, workers=workers)
        with ThreadPoolExecutor(max_workers=par) as ex:
            runs = list(ex.map(one, cfgs))
        files = []
        for cfg, mc in zip(cfgs, runs):
            spec_must_hold(mc, "%s/%s" % (module, cfg))
            files.append(mc.cases_file)
        n = cat_files(cases_file, files)
        ctx.exhaustive = True
        ctx.extra.setdefault("scope", {})["cases"] = n
        ctx.extra["scope"]["configs"] = cfgs
    rep_file = ctx.path(kind + "_report.json")
    _, rep, _ = ctx.vh([command, "-cases", cases_file, "-out", rep_file] + (extra_args or []), pkg="vh_x09",
                       expect_report=rep_file, timeout=timeout)
    ctx.add_report(rep, kind, traces=rep.get("cases", 0))
    if rep.get("extra"):
        ctx.extra[kind] = rep["extra"]
    return rep


# ------------------------------------------------------------------------------------------------ X09
@pipeline("X09")
def x09(ctx, replay):
    thorough = ctx.tier == "thorough" or (replay is not None and replay.get("tier") == "thorough")
    ctx.rule = ("MC_ActProtocol (5 / 6 configurations): every network in scope x every call sequence of the configured length "
                "on the standard network and on the fast solver, one static case per network x recurrence marking x "
                "construction method, every species / organism operation sequence, the CheckChampionChildDamaged table; "
                "each behaviour carries the observation the specification assigns after EVERY call and is replayed on "
                "real objects (networks built three ways) with every observable compared after every call; "
                "non-trivial = call sequence in which some call returns an error class other than nil or the boolean "
                "FALSE (standard / fast), static case with an unreachable output or an IsRecurrent query that ran out of "
                "budget, species sequence with an absent / panic outcome or a tie broken by the sort, organism sequence "
                "that observes a stale cached phenotype or a Genesis error, damaged = TRUE")
    ctx.assumptions = ["non-modular networks, simple digraphs (no parallel links), integer weights / inputs and integer-closed "
                       "activation functions (exact IEEE arithmetic)",
                       "LoadSensors with an unsupported number of values is specified as coded (panic / silent acceptance); a "
                       "library that answers with an error and loads nothing is accepted too (observation, see note)",
                       "findChampion on an empty species: the panic of the code or a nil answer are both accepted",
                       "ties under Organisms.Less may be ordered either way by sort.Sort"]
    if replay is None:
        _must_fail(ctx, "MC_ActProtocol", "MC_ActProtocol_should.cfg", "ShouldRejectBadLoads")
    _run(ctx, replay, "MC_ActProtocol", THOROUGH if thorough else QUICK, "replay", "actprotocol_cases.ndjson", "actprotocol",
         timeout=2400)

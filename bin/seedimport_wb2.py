#!/usr/bin/env python3
"""seedimport_wb.py <family> <k> <prop> <checks,comma> <summary>  -- imports /tmp/wb2/<family>/<k> as seeded/wb-<prop>-<family><k>"""
import json, os, shutil, sys
fam, k, prop, checks, summary = sys.argv[1:6]
src = "/tmp/wb2/%s/%s" % (fam, k)
d = "/verif/seeded/wb2-%s-%s%s" % (prop, fam, k)
os.makedirs(d, exist_ok=True)
for f in ("patch.diff", "demo_test.go", "notes.md"):
    if os.path.exists(os.path.join(src, f)):
        shutil.copy(os.path.join(src, f), d)
m = {"property": prop, "checks_expected": checks.split(","),
     "origin": "WHITE-BOX adversary: a sub-agent that read /verif (specs, pipelines, harness) and looked for what the quick checks cannot see; the change escaped the checks as they were at the time",
     "summary": summary,
     "files_touched": sorted(set(l[6:].strip() for l in open(os.path.join(d, "patch.diff")) if l.startswith("+++ b/")))}
json.dump(m, open(os.path.join(d, "meta.json"), "w"), indent=1)
print(d)

"""Shared infrastructure of the goNEAT verification checks: scratch handling, harness build, TLC runs,
verdict and evidence writing.  See DESIGN.md sections 6 and 8."""
import json
import os
import re
import shutil
import subprocess
import sys
import threading
import time

VERIF = os.path.dirname(os.path.dirname(os.path.abspath(__file__)))
REPO = os.environ.get("VERIF_REPO", "/repo")
SPEC = os.path.join(VERIF, "spec")
HARNESS = os.path.join(VERIF, "harness")
CACHE = os.path.join(VERIF, ".cache")
# runs against a scratch copy of goNEAT (VERIF_REPO) never touch the committed evidence or the replay directory
ALT = os.path.realpath(REPO) != "/repo"
EVIDENCE = os.path.join(CACHE, "alt-evidence") if ALT else os.path.join(VERIF, "evidence")
GOENV = {"GOFLAGS": "-mod=mod", "GOPROXY": "off", "GOSUMDB": "off", "GOTOOLCHAIN": "local"}
CORES = os.cpu_count() or 4
try:        # VERIF_CORES caps the parallelism of one check (development: several checks side by side)
    CORES = max(2, min(CORES, int(os.environ.get("VERIF_CORES", CORES))))
except ValueError:
    pass


class Infra(Exception):
    """Anything that is not a verdict: build failure, TLC crash/timeout, dead driver."""


class LibraryPanic(Infra):
    """The harness process died because goNEAT itself panicked inside a goroutine that goNEAT started (the reproduction
    goroutines of the parallel executor): no recover() of the harness can catch that, the Go runtime ends the process.  This IS
    behaviour of the code under check on an input the harness handed it, so a pipeline whose property covers that executor may
    turn it into a violation; everywhere else it stays what Infra is (exit 2)."""

    def __init__(self, msg, excerpt, args):
        Infra.__init__(self, msg)
        self.excerpt, self.cmd_args = excerpt, args


def library_goroutine_panic(out):
    """The text of the crashing goroutine when (a) the process ended with a Go panic / fatal error, (b) that goroutine was created by
    goNEAT code and (c) no frame of it belongs to the harness; else None."""
    m = re.search(r"^(panic: |fatal error: ).*?\n\ngoroutine \d+ \[running\]:\n(.*?)(?:\n\n|\Z)", out, re.S | re.M)
    if not m:
        return None
    block = m.group(2)
    if "verifharness/" in block or re.search(r"^main\.", block, re.M):
        return None
    if not re.search(r"^created by github\.com/yaricom/goNEAT/", block, re.M):
        return None
    return (m.group(0))[:2500]


class TLCResult:
    def __init__(self):
        self.ok = False
        self.violated = None       # name of violated invariant / property
        self.generated = 0
        self.distinct = 0
        self.output = ""
        self.error = None
        self.last_state = {}       # variables of the last state of a counterexample (raw text)
        self.wall = 0.0
        self.printed = []          # PrintT output lines


class Ctx:
    def __init__(self, prop, tier, seed):
        self.prop, self.tier, self.seed = prop, tier, seed
        self.t0 = time.time()
        self.work = os.path.join(CACHE, "%s-%s-%d" % (prop, tier, os.getpid()))
        shutil.rmtree(self.work, ignore_errors=True)
        os.makedirs(self.work)
        self.specdir = os.path.join(self.work, "spec")
        shutil.copytree(SPEC, self.specdir)
        self.states = 0
        self.transitions = 0
        self.traces = 0
        self.evaluations = 0
        self.nontrivial = 0
        self.samples = []
        self.rule = ""
        self.assumptions = []
        self.violations = []       # dicts: what, signature, replay (payload)
        self.tlc_runs = []
        self.extra = {}
        self.exhaustive = None
        self._vh = {}
        self._lock = threading.Lock()
        self._ntlc = 0

    # ---------------------------------------------------------------- scratch
    def path(self, *p):
        return os.path.join(self.work, *p)

    def cleanup(self):
        shutil.rmtree(self.work, ignore_errors=True)

    def budget_left(self, total):
        return total - (time.time() - self.t0)

    # ---------------------------------------------------------------- harness
    def instrumented_repo(self, patch):
        """A scratch copy of the goNEAT tree under check (its CURRENT working tree) with the instrumentation patch applied
        (build-tag guarded hook lines that are deliberately NOT kept in /repo itself: they sit in the middle of the functions
        most likely to be edited).  Returns the directory, or None when the patch does not apply in full - the code at the hook
        sites was changed; the caller then skips the stage that needs the hooks.  Removed by cleanup()."""
        if "instrumented" in self._vh:
            return self._vh["instrumented"]
        d = os.path.join("/tmp", "verif-instr-%d-%s" % (os.getpid(), self.prop))
        shutil.rmtree(d, ignore_errors=True)
        src = os.path.realpath(REPO)
        p = subprocess.run(["rsync", "-a", "--exclude", ".git", "--exclude", "/out", "--exclude", "/contents", src + "/", d + "/"],
                           capture_output=True, text=True)
        if p.returncode != 0:
            raise Infra("cannot copy the goNEAT tree for instrumentation: %s" % p.stderr[-500:])
        self._instr_dir = d
        p = subprocess.run(["patch", "-p1", "--fuzz=0", "--no-backup-if-mismatch", "-s", "-i", patch], cwd=d, capture_output=True, text=True)
        if p.returncode != 0:
            self.extra["instrumentation"] = "hook patch does not apply to this tree (code at the hook sites changed): " + (p.stdout + p.stderr)[-300:]
            shutil.rmtree(d, ignore_errors=True)
            self._vh["instrumented"] = None
            return None
        self._vh["instrumented"] = d
        return d

    def vh_binary(self, race=False, pkg="vh", repo=None):
        key = pkg + ("-race" if race else "-plain") + ("-instr" if repo else "")
        if key in self._vh:
            return self._vh[key]
        env = dict(os.environ, **GOENV)
        try:
            # atomic and only when needed: several checks may run at the same time in one /verif
            src, dst = os.path.join(REPO, "go.sum"), os.path.join(HARNESS, "go.sum")
            with open(src, "rb") as f:
                want = f.read()
            have = None
            if os.path.exists(dst):
                with open(dst, "rb") as f:
                    have = f.read()
            if have != want:
                tmp = "%s.%d.tmp" % (dst, os.getpid())
                with open(tmp, "wb") as f:
                    f.write(want)
                os.replace(tmp, dst)
        except OSError as e:
            raise Infra("cannot copy go.sum: %s" % e)
        os.makedirs(os.path.join(CACHE, "bin"), exist_ok=True)
        out = os.path.join(CACHE, "bin", "vh-%s-%d" % (key, os.getpid()))
        modflag = []
        if ALT or repo:
            # a scratch copy of goNEAT (VERIF_REPO / instrumented copy): same harness module with the replace directive pointing there
            alt = os.path.join(CACHE, "bin", "alt-%d%s.mod" % (os.getpid(), "-instr" if repo else ""))
            with open(os.path.join(HARNESS, "go.mod")) as f:
                mod = f.read().replace("=> /repo", "=> " + os.path.realpath(repo or REPO))
            with open(alt, "w") as f:
                f.write(mod)
            shutil.copy(os.path.join(REPO, "go.sum"), alt[:-4] + ".sum")
            modflag = ["-modfile=" + alt]
            self._vh["altmod" + ("-instr" if repo else "")] = alt
            self._vh["altsum" + ("-instr" if repo else "")] = alt[:-4] + ".sum"
        cmd = ["go", "build", "-tags", "verif"] + modflag + (["-race"] if race else []) + ["-o", out, "./cmd/" + pkg]
        p = subprocess.run(cmd, cwd=HARNESS, env=env, capture_output=True, text=True)
        if p.returncode != 0:
            raise Infra("harness build failed (a change to goNEAT altered an interface the harness binds to?):\n" + p.stderr[-4000:])
        self._vh[key] = out
        return out

    def vh(self, args, race=False, timeout=1800, env=None, expect_report=None, stdin=None, pkg="vh", repo=None):
        """Run a harness command. Returns (exit code, report dict or None, stdout+stderr)."""
        e = dict(os.environ)
        e["VERIF_SEED"] = str(self.seed)
        if env:
            e.update(env)
        try:
            p = subprocess.run([self.vh_binary(race, pkg, repo)] + args, cwd=self.work, env=e, capture_output=True,
                               text=True, timeout=timeout, input=stdin)
        except subprocess.TimeoutExpired:
            raise Infra("harness command timed out: vh %s" % " ".join(args))
        rep = None
        if expect_report:
            try:
                with open(expect_report) as f:
                    rep = json.load(f)
            except (OSError, ValueError):
                rep = None
        if p.returncode not in (0, 1):
            ex = library_goroutine_panic(p.stdout + p.stderr)
            if ex:
                raise LibraryPanic("goNEAT panicked inside a goroutine of its own while the harness ran: vh %s\n%s" % (" ".join(args), ex), ex, args)
        if p.returncode not in (0, 1) or (expect_report and rep is None):
            raise Infra("harness command failed (exit %d): vh %s\n%s" % (p.returncode, " ".join(args), (p.stdout + p.stderr)[-4000:]))
        return p.returncode, rep, p.stdout + p.stderr

    def drop_binaries(self):
        for k, b in self._vh.items():
            if k == "instrumented" or not b:
                continue
            try:
                os.remove(b)
            except OSError:
                pass
        d = getattr(self, "_instr_dir", None)
        if d:
            shutil.rmtree(d, ignore_errors=True)

    # ---------------------------------------------------------------- TLC
    def tlc(self, module, cfg=None, env=None, workers=None, timeout=900, simulate=None, depth=None,
            extra=None, count=True, xss=False, dfs=False):
        """Run TLC on spec/<module>.tla with config <cfg> (default <module>.cfg)."""
        cfg = cfg or (module + ".cfg")
        workers = workers or min(CORES, 16)
        with self._lock:
            self._ntlc += 1
            idx = self._ntlc
        meta = self.path("meta-%d" % idx)
        cmd = ["tlc", "-workers", str(workers), "-metadir", meta, "-config", cfg]
        if simulate:
            cmd += ["-simulate", simulate]
        if depth:
            cmd += ["-depth", str(depth)]
        if extra:
            cmd += extra
        cmd += [module + ".tla"]
        e = dict(os.environ)
        jopts = []
        if xss:
            jopts.append("-Xss512m")
        if dfs:
            jopts.append("-Dtlc2.tool.queue.IStateQueue=StateDeque")
        if jopts:
            e["JAVA_TOOL_OPTIONS"] = " ".join(jopts)
        if env:
            e.update({k: str(v) for k, v in env.items()})
        t0 = time.time()
        r = TLCResult()
        raw = self.path("tlc-%d.out" % idx)
        try:
            with open(raw, "w") as fo:
                p = subprocess.run(["timeout", str(int(timeout))] + cmd, cwd=self.specdir, env=e, stdout=fo,
                                   stderr=subprocess.STDOUT, text=True)
        except OSError as ex:
            raise Infra("cannot run tlc: %s" % ex)
        r.wall = time.time() - t0
        # stream the output: JSON cases printed by the spec go to a file (deduplicated), the rest is kept as text
        r.cases_file = self.path("tlc-%d.cases.ndjson" % idx)
        r.ncases = 0
        keep, seen, errs = [], set(), []
        with open(raw, errors="replace") as fi, open(r.cases_file, "w") as fc:
            for line in fi:
                if line.startswith('"{'):
                    h = hash(line)
                    if h in seen:
                        continue
                    seen.add(h)
                    try:
                        fc.write(json.loads(line))
                        fc.write("\n")
                        r.ncases += 1
                    except ValueError:
                        pass
                elif not line.startswith(("Parsing file", "Semantic processing", "Linting of")):
                    if line.startswith("Error: ") and len(errs) < 20:
                        errs.append(line)       # (the behaviour printed after it can be longer than what is kept below)
                    keep.append(line)
                    if len(keep) > 6000:
                        del keep[:3000]
        del seen
        os.remove(raw)
        out = "".join(keep)
        r.output = out
        shutil.rmtree(meta, ignore_errors=True)
        if p.returncode == 124:
            raise Infra("TLC timed out after %ds on %s/%s" % (timeout, module, cfg))
        m = re.findall(r"(\d+) states generated, (\d+) distinct states found", out)
        if m:
            r.generated, r.distinct = int(m[-1][0]), int(m[-1][1])
        else:
            m = re.findall(r"The number of states generated: (\d+)", out)
            if m:
                r.generated = r.distinct = int(m[-1])
        r.printed = [l for l in out.splitlines() if l.startswith("<<")]
        eo = "".join(errs) + out
        mv = re.search(r"Error: Invariant (\S+) is violated", eo) or re.search(r"Error: Action property (\S+) is violated", eo) \
            or re.search(r"Error: Temporal properties were violated", eo)
        if mv:
            r.violated = mv.group(1) if mv.groups() else "temporal"
            # variables of the final state in the printed behaviour
            blocks = re.split(r"\nState \d+: ", out)
            if len(blocks) > 1:
                last = blocks[-1]
                for vm in re.finditer(r"^/\\ (\w+) = (.*?)(?=^/\\ |\Z)", last, re.S | re.M):
                    r.last_state[vm.group(1)] = vm.group(2).strip()
        elif "No error has been found" in out or (simulate and p.returncode == 0 and "Error:" not in out):
            r.ok = True
        else:
            r.error = out[-6000:]
        with self._lock:
            if count:
                self.states += r.distinct
                self.transitions += r.generated
            self.tlc_runs.append({"module": module, "cfg": cfg, "generated": r.generated, "distinct": r.distinct,
                              "ok": r.ok, "violated": r.violated, "wall_s": round(r.wall, 2),
                              "mode": "simulate" if simulate else "bfs"})
        if r.error and not r.violated:
            raise Infra("TLC failed on %s/%s:\n%s" % (module, cfg, r.error))
        return r

    # ---------------------------------------------------------------- verdicts
    def violation(self, what, signature, replay):
        self.violations.append({"what": what, "signature": signature, "replay": replay})

    def add_report(self, rep, kind, replay_extra=None, traces=0):
        """Fold a harness report into the coverage counters and its failures into violations."""
        self.evaluations += rep.get("evaluations", 0)
        self.nontrivial += rep.get("distinct_nontrivial", 0)
        self.traces += traces
        for s in rep.get("samples", []):
            if len(self.samples) < 4:
                self.samples.append(s)
        for f in rep.get("failures", []):
            payload = {"kind": kind, "failure": f}
            if replay_extra:
                payload.update(replay_extra)
            self.violation(f.get("what", "?"), f.get("signature", kind), payload)


def load_known():
    p = os.path.join(VERIF, "known_findings.json")
    try:
        with open(p) as f:
            return json.load(f)
    except OSError:
        return {"findings": [], "fixed": []}


def finish(ctx, level="model_checking"):
    """Write evidence, print verdict lines, return exit code."""
    known = [k for k in load_known().get("findings", []) if k.get("property") == ctx.prop]
    known_sigs = {k["signature"]: k for k in known}
    new, listed = [], {}
    for v in ctx.violations:
        if v["signature"] in known_sigs:
            listed[v["signature"]] = known_sigs[v["signature"]]
        else:
            new.append(v)
    os.makedirs(EVIDENCE, exist_ok=True)
    cov = {
        "states": ctx.states, "transitions": ctx.transitions,
        "traces_validated_against_impl": ctx.traces,
        "evaluations": ctx.evaluations, "distinct_nontrivial": ctx.nontrivial,
        "rule": ctx.rule, "samples": ctx.samples[:4] if ctx.samples else ["(no sample recorded)"],
        "tlc_runs": ctx.tlc_runs,
    }
    if ctx.exhaustive is not None:
        cov["exhaustive"] = ctx.exhaustive
    cov.update(ctx.extra)
    ev = {
        "property_id": ctx.prop, "tier": ctx.tier, "seed": ctx.seed, "level": level,
        "coverage": cov, "assumptions": ctx.assumptions,
        "wall_s": round(time.time() - ctx.t0, 2), "violations": len(new),
    }
    if listed:
        ev["known_findings_seen"] = sorted(listed)
    with open(os.path.join(EVIDENCE, ctx.prop + ".json"), "w") as f:
        json.dump(ev, f, indent=1, default=str)
    for sig, k in sorted(listed.items()):
        print("KNOWN-FINDING: property=%s %s" % (ctx.prop, k.get("what", sig)))
    code = 0
    if new:
        rdir = os.path.join(CACHE, "alt-replays") if ALT else os.path.join(VERIF, "replays")
        os.makedirs(rdir, exist_ok=True)
        rp = os.path.join(rdir, "%s-%s-seed%d.json" % (ctx.prop, ctx.tier, ctx.seed))
        with open(rp, "w") as f:
            json.dump({"property": ctx.prop, "tier": ctx.tier, "seed": ctx.seed,
                       "violations": new[:20]}, f, indent=1, default=str)
        for v in new[:5]:
            print("  violation: %s" % str(v["what"])[:600])
        print("VIOLATION property=%s replay=%s" % (ctx.prop, rp))
        code = 1
    else:
        print("OK property=%s tier=%s seed=%d states=%d transitions=%d traces=%d evaluations=%d nontrivial=%d wall=%.1fs" % (
            ctx.prop, ctx.tier, ctx.seed, ctx.states, ctx.transitions, ctx.traces, ctx.evaluations, ctx.nontrivial,
            time.time() - ctx.t0))
    return code


def infra_exit(ctx, msg):
    sys.stdout.flush()
    print("INFRA property=%s: %s" % (ctx.prop if ctx else "?", msg), file=sys.stderr)
    return 2

"""Growth suite X11 (Evaluator): the generation-evaluation protocol of the shipped example evaluators (examples/xor,
examples/pole, examples/pole2 Markov) together with Generation.FillPopulationStatistics and the result files of experiment/utils - code of the
repository that none of the 20 listed properties reaches.  TLC checks the laws of spec/Evaluator.tla on every small
population (MC_Evaluator); harness/cmd/vh_x11 calls the real GenerationEvaluate on real populations (evolved XOR / pole
populations, hand-made XOR solvers of graded quality injected at random positions) and TLC validates every call against
the specification (Trace_Evaluator, binding B1).  Not a claimed property: `bin/check --property X11 --tier quick|thorough`;
writes evidence/X11.json."""
import json
import re

from pipelines import pipeline, spec_must_hold, B1
from vlib import Infra

CHECKS = {}

EXTRA = {
 "X11": dict(
  title="an example evaluator's GenerationEvaluate leaves the generation record, the winner flags and the result files its protocol says",
  text="spec/Evaluator.tla: organisms are evaluated in the order of Population.Organisms; a winner becomes champion when there is none or its fitness is STRICTLY greater (Solved, WinnerNodes = genome nodes, WinnerGenes = enabled genes, WinnerEvals = PopSize * generation + genome id; an 'optimal' genome file for every such champion with 5 (XOR) / 7 (pole) nodes); FillPopulationStatistics: diversity, per species (list order) age, best fitness, complexity (phenotype nodes + links) of a best organism; unsolved: the champion is a best organism of the FIRST species holding the population's best fitness; population file gen_<id> iff solved or id % PrintEvery = 0; winner files (plain genome, XOR also DOT, Cytoscape) named after the champion's phenotype node-link counts iff solved; the output directory holds exactly these files. Fitness scales: XOR fitness = (4 - e)^2, Error = e^2, winner iff fitness > 15.5; pole: fitness + error = 1, winner iff fitness = 1. MC_Evaluator checks on every population in scope: solved iff somebody won; the champion is the FIRST winner of maximal fitness; unsolved champions are of maximal fitness in the population; the file laws; champions along the walk strictly increase.",
  note="Design level exhaustive: <= 3 (thorough 5) organisms x 3 (5) fitness classes around the winner threshold x 2 genome sizes x every split into <= 2 species in either order x 3 generation numbers x 2 evaluators. Conformance by trace validation of seeded scenarios (quick 60, thorough 1500 calls): populations of 8-30 evolved for 1-4 epochs under random fitness (several species), XOR populations with 0-3 hand-made solvers (1 or 2 hidden nodes; weight scale 1 = near miss, 2 / 3 / 3 / 6 = winners, equal scales give EXACT fitness ties) at random positions, pole populations with win thresholds 3 / 10 / 40 / 200 steps and fixed or random start state; generation ids 0-10, PrintEvery 1 / 2 / 3 / 10, trial ids 0-2. Every run also corrupts copies of the recorded trace (winner evaluations, a removed / an added file, another champion, the solved flag, a winner flag, a complexity) and requires Trace_Evaluator to reject each. Fixed point 2^-20 for fitness values (2^-10 inside the squared XOR relation: TLC has 32-bit integers). The double-pole Markov evaluator (examples/pole2) is driven too (same protocol, files pole2_*, no optimal dump; random populations never balance 100 000 steps, so only its unsolved path is exercised). Not covered: the physics of the carts, the non-Markov double-pole generalisation test, the parallel pole evaluators, the content of the written files (X06 / C15 cover the writers), executor.go. OBSERVATION (not a violation): an XOR organism whose network has depth 0 is skipped by the evaluation and keeps whatever fitness / winner flag it had before.",
  technique=B1),
}

TAMPERS = [
    ("winner evaluations + 1", "solved", lambda e: e["post"].__setitem__("we", e["post"]["we"] + 1)),
    ("a result file removed", "files", lambda e: e["files"].pop()),
    ("an extra file", "any", lambda e: e["files"].append("0/extra")),
    ("solved flag flipped", "any", lambda e: e["post"].__setitem__("solved", not e["post"]["solved"])),
    ("champion's winner flag cleared", "solved", lambda e: e["orgs"][e["post"]["champ"] - 1].__setitem__("win", False)),
    ("a species' complexity + 1", "any", lambda e: e["post"]["cplx"].__setitem__(0, e["post"]["cplx"][0] + 1)),
    ("a species' age + 1", "any", lambda e: e["post"]["age"].__setitem__(0, e["post"]["age"][0] + 1)),
    ("diversity + 1", "any", lambda e: e["post"].__setitem__("diversity", e["post"]["diversity"] + 1)),
    ("winner nodes + 1", "solved", lambda e: e["post"].__setitem__("wn", e["post"]["wn"] + 1)),
]


@pipeline("X11")
def x11(ctx, replay):
    thorough = ctx.tier == "thorough"
    ctx.rule = ("MC_Evaluator: every population in scope (laws of the protocol as invariants); trace = one line per real call of "
                "xor / pole GenerationEvaluate on a real population with the organisms as the evaluation left them, the species as "
                "listed before, the generation record and the files afterwards; Trace_Evaluator re-derives record and files per line; "
                "non-trivial = solved generations (a winner exists)")
    ctx.assumptions = ["fitness values in fixed point 2^-20 (2^-10 inside the squared XOR relation)",
                       "ties between best organisms of a species may be resolved either way (sort.Sort is not stable)"]
    if replay is None:
        mc = ctx.tlc("MC_Evaluator", "MC_Evaluator_thorough.cfg" if thorough else "MC_Evaluator.cfg", timeout=1800)
        spec_must_hold(mc, "MC_Evaluator")
        ctx.exhaustive = True
    seed = ctx.seed
    n = 1500 if thorough else 60
    if replay is not None:
        for v in replay.get("violations", []):
            p = v.get("replay", {})
            if p.get("kind") == "evaluator-trace":
                seed, n = p.get("seed", seed), p.get("scenarios", n)
    trace = ctx.path("evaluator_trace.ndjson")
    rep_file = ctx.path("evaluator_report.json")
    _, rep, _ = ctx.vh(["record-evaluator", "-out", trace, "-report", rep_file, "-dir", ctx.path("evalout"), "-scenarios", str(n)],
                       pkg="vh_x11", expect_report=rep_file, env={"VERIF_SEED": str(seed)}, timeout=3000)
    r = ctx.tlc("Trace_Evaluator", env={"TRACE": trace}, workers=1, timeout=1800)
    with open(trace) as f:
        lines = [json.loads(l) for l in f if l.strip()]
    if r.violated:
        clauses = [c for c in re.findall(r"(\w+) \|-> FALSE", r.last_state.get("verdict", "")) if c != "ok"]
        m = re.search(r"i = (\d+)", "i = " + r.last_state.get("i", ""))
        idx = int(m.group(1)) if m else 0
        ev = lines[idx - 1] if 0 < idx <= len(lines) else None
        brief = None
        if ev:
            brief = {k: ev[k] for k in ("kind", "id", "trial", "printevery", "popsize", "post", "files", "errtext") if k in ev}
            brief["organisms"] = [[o["gid"], o["fit"], o["win"], o["nodes"]] for o in ev["orgs"]]
        ctx.violation("call #%d (%s evaluator, generation %s) is rejected by Trace_Evaluator: clause(s) %s false: %s" % (
            idx, (ev or {}).get("kind"), (ev or {}).get("id"), ", ".join(clauses) or "?", json.dumps(brief)[:900]),
            "evaluator-trace " + ",".join(clauses), {"kind": "evaluator-trace", "seed": seed, "scenarios": n, "line": idx, "failure": {"what": clauses}})
    elif not r.ok:
        raise Infra("Trace_Evaluator did not accept the trace:\n" + r.output[-2000:])
    else:
        ctx.traces += rep.get("cases", 0)
        # the binding bites: corrupted copies of the trace must be rejected
        rejected = 0
        for name, need, fn in TAMPERS:
            cand = [i for i, e in enumerate(lines) if (need == "any" or (need == "solved" and e["post"]["solved"]) or (need == "files" and e["files"]))
                    and e["post"]["cplx"]]
            if not cand:
                continue
            bad = json.loads(json.dumps(lines))
            fn(bad[cand[len(cand) // 2]])
            tf = ctx.path("tampered.ndjson")
            with open(tf, "w") as f:
                for e in bad:
                    f.write(json.dumps(e) + "\n")
            t = ctx.tlc("Trace_Evaluator", env={"TRACE": tf}, workers=1, timeout=600, count=False)
            ctx.tlc_runs[-1]["note"] = "corrupted trace (%s): EXPECTED to be rejected" % name
            if not t.violated:
                raise Infra("Trace_Evaluator accepted a corrupted trace (%s): the trace specification lost its bite" % name)
            rejected += 1
        ctx.extra["corrupted_traces_rejected"] = rejected
    ctx.evaluations += rep.get("evaluations", 0)
    ctx.nontrivial += rep.get("distinct_nontrivial", 0)
    for s in rep.get("samples", [])[:2]:
        ctx.samples.append(s)
    ctx.extra["evaluator"] = rep.get("extra", {})

#!/bin/bash
# usage: seedimport.sh Cxx  -- copies /tmp/mut/Cxx/{A,B} into /verif/seeded/Cxx-{A,B} with a meta.json skeleton
p=$1
for v in A B; do
  src=/tmp/mut/$p/$v
  [ -f $src/patch.diff ] || continue
  dst=/verif/seeded/$p-$v
  mkdir -p $dst
  cp $src/patch.diff $src/demo_test.go $dst/ 2>/dev/null
  [ -f $src/notes.md ] && cp $src/notes.md $dst/notes.md
  python3 - $p $dst <<'PY'
import json,sys,os
p,dst=sys.argv[1:3]
m={"property":p,"checks_expected":[p],"origin":"sub-agent given only the property text and its own scratch worktree (nothing from /verif)",
   "needs_to_manifest":"see notes.md","files_touched":sorted(set(l[6:].strip() for l in open(os.path.join(dst,'patch.diff')) if l.startswith('+++ b/')))}
mp=os.path.join(dst,'meta.json')
if not os.path.exists(mp): json.dump(m,open(mp,'w'),indent=1)
PY
done
ls /verif/seeded | grep $p

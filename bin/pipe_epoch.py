"""Population-level checks: C02 (epoch conserves size / partition / ages) and C10 (champions survive), plus the shared
epoch-trace machinery used by C01, C03 and C06 for their population-level clauses.  Real populations are constructed and
turned over by the real executors; TLC validates every recorded generation against spec/Trace_Epoch.tla (binding B1)."""
import json
from concurrent.futures import ThreadPoolExecutor

from pipelines import pipeline, spec_must_hold, B1
from vlib import Infra, LibraryPanic, CORES

FAMILIES = 10
PRESETS = 7
STARTS = ["xor", "rich", "random", "read", "outfirst", "notrait", "pool-notrait", "pool-rich"]


def scenarios(seed, tier):
    """Deterministic scenario matrix: every fitness family x every preset, both executors, all constructors."""
    out = []
    if tier == "quick":
        sizes, epochs, reps = [3, 5, 8, 12, 20, 30], 12, 1
    else:
        sizes, epochs, reps = [3, 4, 5, 8, 12, 20, 30, 50, 80], 30, 6
    k = 0
    for rep in range(reps):
        for fam in range(FAMILIES):
            for pre in range(PRESETS):
                size = sizes[(k + rep) % len(sizes)]
                ep = epochs if size <= 30 else max(8, epochs // 3)
                if pre == 6:
                    size = max(size, 50)  # enough organisms for several long-lived species that each expect more than two offspring
                    ep = max(ep, 16)
                if pre in (2, 4):
                    ep = max(ep, 14)     # fast-stagnation presets: delta coding fires after DropOffAge + 5 epochs without a record
                    if size >= 12 and fam % 2 == 0:
                        size += 1        # odd sizes: delta coding splits PopSize unevenly between the two best species
                out.append({"seed": seed * 100000 + k, "popsize": size, "executor": "par" if k % 3 == 2 else "seq",
                            "start": STARTS[(k // 2) % len(STARTS)], "fitness": fam, "epochs": ep, "preset": pre})
                k += 1
    return out


def chunk(scs, budget):
    """Group scenarios into trace files of bounded size (cost ~ popsize * epochs)."""
    groups, cur, cost = [], [], 0
    for s in scs:
        c = s["popsize"] * (s["epochs"] + 1)
        if cur and cost + c > budget:
            groups.append(cur)
            cur, cost = [], 0
        cur.append(s)
        cost += c
    if cur:
        groups.append(cur)
    return groups


def record_and_validate(ctx, idx, scs, env=None):
    trace = ctx.path("epochs-%d.ndjson" % idx)
    rep_file = ctx.path("epochs-%d.report.json" % idx)
    _, rep, _ = ctx.vh(["record-epochs", "-out", trace, "-report", rep_file, "-scenarios", json.dumps(scs)],
                       pkg="vh_genome", expect_report=rep_file, timeout=3000, env=env)
    r = ctx.tlc("Trace_Epoch", env={"TRACE": trace}, workers=1, timeout=3000, xss=True)
    if not r.ok:
        raise Infra("epoch trace validation did not complete: %s\n%s" % (r.violated, r.output[-2000:]))
    fails = []
    with open(r.cases_file) as f:
        for line in f:
            if line.strip():
                fails.append(json.loads(line))
    return {"scs": scs, "trace": trace, "rep": rep, "fails": fails, "events": r.distinct - 1}


def scenario_of_line(trace, l):
    """The scenario (init event) a trace line belongs to, plus a compact rendering of the line."""
    sc, ev = None, None
    with open(trace) as f:
        for i, line in enumerate(f, 1):
            if i > l:
                break
            e = json.loads(line)
            if e["ev"] == "init":
                sc = e.get("scenario")
            if i == l:
                ev = {"ev": e["ev"], "gen": e.get("gen"), "how": e.get("how"), "errtext": e.get("errtext"),
                      "popsize": e.get("popsize"), "organisms": len(e.get("orgs", [])),
                      "species": [[s["id"], s["age"], len(s["members"]), s["quota"]] for s in e.get("species", [])],
                      "quotas": e.get("quotas")}
    return sc, ev


def epoch_traces(ctx, replay, prop):
    """Record + validate epoch traces; fold failures of `prop` into violations. Returns aggregated recorder stats."""
    if replay is not None:
        scs = []
        for v in replay.get("violations", []):
            p = v.get("replay", {})
            if p.get("kind") == "epochs" and p.get("scenario") and p["scenario"] not in scs:
                scs.append(p["scenario"])
        groups = [[s] for s in scs[:12]]
    else:
        scs = scenarios(ctx.seed, ctx.tier)
        if prop == "C03":
            # "for all start genomes": a modular start genome (two modules: control nodes and control genes hold node ids and
            # innovation numbers of their own, above those of the plain nodes and genes) - numbers issued later must exceed these too
            scs = scs + [{"seed": ctx.seed * 100000 + 9000 + k, "popsize": [8, 14][k % 2], "executor": ["seq", "par"][k % 2], "start": "modular",
                          "fitness": [6, 2][k % 2], "epochs": 6, "preset": [0, 5][k % 2],
                          "override": {"addnode": 0.4, "addlink": 0.4}} for k in range(2 if ctx.tier == "quick" else 6)]
        groups = chunk(scs, 1200 if ctx.tier == "quick" else 2500)
    if not groups:
        return {}
    ctx.vh_binary(pkg="vh_genome")
    with ThreadPoolExecutor(max_workers=max(2, min(CORES - 2, 12))) as ex:
        def guarded(a):
            try:
                return record_and_validate(ctx, a[0] + 100, a[1])
            except LibraryPanic as e:
                return {"panic": e, "scs": a[1]}
        results = list(ex.map(guarded, enumerate(groups)))
    stats, nonconf = {}, []
    for res in [r for r in results if "panic" in r]:
        # goNEAT panicked in a goroutine of its own (parallel executor) and took the recorder down: for C02 ("turning over an
        # epoch succeeds") that is the violation; the other properties that share these traces cannot decide without them
        if prop != "C02":
            raise res["panic"]
        e = res["panic"]
        ctx.violation("a reproduction goroutine of the parallel executor panicked while the scenarios %s ... were evolved: %s"
                      % (json.dumps(res["scs"][:2]), e.excerpt[:600]), "C02 goroutine panic",
                      {"kind": "epochs", "scenario": res["scs"][0] if res["scs"] else None, "panic": e.excerpt})
    results = [r for r in results if "panic" not in r]
    for res in results:
        ctx.traces += len(res["scs"])
        ctx.evaluations += res["events"]
        for k, v in res["rep"].get("extra", {}).get("stats", {}).items():
            stats[k] = stats.get(k, 0) + v
        for f in res["fails"]:
            mine = [x for x in f["fails"] if x.startswith(prop + ":")]
            nonconf += [x for x in f["fails"] if x.startswith("conf:")]
            if mine:
                sc, ev = scenario_of_line(res["trace"], f["l"])
                sig = "%s epoch %s" % (prop, mine[0])
                if ev and ev.get("errtext"):
                    # an error is identified by its text and by how the population was constructed
                    sig = "%s epoch error [%s] start=%s" % (prop, ev["errtext"][:80], (sc or {}).get("start"))
                ctx.violation("scenario %s, generation %s: %s%s" % (json.dumps(sc), f.get("gen", "construction"), "; ".join(mine),
                                                                    (" [" + ev["errtext"][:200] + "]") if ev and ev.get("errtext") else ""),
                              sig,
                              {"kind": "epochs", "scenario": sc, "line": f["l"], "clauses": mine, "event": ev})
    ctx.extra["epoch_stats"] = stats
    if nonconf:
        ctx.extra["epoch_nonconformance"] = {"count": len(nonconf), "first": nonconf[:5]}
    if results and len(ctx.samples) < 3:
        sc, ev = scenario_of_line(results[0]["trace"], 2)
        ctx.samples.append({"scenario": sc, "generation_1": ev})
    ctx.extra.setdefault("scope", {})["epoch_scenarios"] = sum(len(g) for g in groups)
    return stats


def quota_size_cases(ctx, replay, prop, pattern=r"population size|total|offspring|progeny|error"):
    """B2 (DESIGN.md 7/C02): the behaviours of MC_Quota (Quota.tla: adjust, apportion, make-up, steal, delta coding) installed in
    real populations and run through the real prepare / reproduce / finalize phases; every failure that concerns the TOTAL of the
    quotas, the number of offspring or the population size is a violation of `prop` (the per-species arithmetic belongs to C09)."""
    import os
    import re
    from pipelines import cat_files, write_lines
    cases_file = ctx.path("quota_cases_%s.ndjson" % prop)
    if replay is not None:
        cases = [v["replay"]["failure"]["case"] for v in replay.get("violations", [])
                 if v.get("replay", {}).get("kind") == "quota-size" and v["replay"].get("failure", {}).get("case") is not None]
        if not cases:
            return
        write_lines(cases_file, cases)
    else:
        cfg = "MC_Quota_thorough.cfg" if ctx.tier == "thorough" else "MC_Quota.cfg"
        mc = ctx.tlc("MC_Quota", cfg, timeout=3000)
        spec_must_hold(mc, cfg)
        cat_files(cases_file, [mc.cases_file])
    rep_file = ctx.path("quota_report_%s.json" % prop)
    _, rep, _ = ctx.vh(["replay-quota", "-cases", cases_file, "-out", rep_file], pkg="vh_species", expect_report=rep_file, timeout=3000)
    ctx.evaluations += rep.get("evaluations", 0)
    ctx.traces += rep.get("extra", {}).get("behaviours_compared", 0)
    for f in rep.get("failures", []):
        if re.search(pattern, f.get("what", "")):
            ctx.violation(f["what"], "%s quota-size %s" % (prop, f.get("stage", "")), {"kind": "quota-size", "failure": f})
    ctx.extra.setdefault("scope", {})["quota_behaviours_replayed"] = rep.get("cases", 0)
    ctx.extra["scope"]["champion_copies_checked_in_quota_behaviours"] = rep.get("extra", {}).get("champion_copies_checked", 0)


@pipeline("C02")
def c02(ctx, replay):
    ctx.rule = ("scenario matrix: 10 fitness families (finite values at the top of the float64 range whose sums over several species overflow, all-zero, constant, linear, heavy-tailed, single dominant, stagnating, distinct "
                "random, structure-driven, tiny distinct positive values around 1e-7) x 7 option presets (many species / stolen babies / fast stagnation with delta coding / one "
                "species with everybody surviving / heavy stealing with linear compatibility / mating-heavy with interspecies mating / "
                "several long-lived mid-sized species with heavy stealing) x "
                "population sizes 3..30 (thorough ..80) x constructors (NewPopulation from four start genomes incl. one whose sensors are not first in id order and one whose nodes and genes carry no trait, NewPopulationRandom, "
                "ReadPopulation of an evolved population, populations assembled from the genomes of an operator lineage) x sequential and parallel executor; every epoch is one trace line with the "
                "whole population, validated by TLC (Trace_Epoch) against the clauses of C02; in addition every behaviour of MC_Quota "
                "(exhaustive small populations through adjust / apportion / make-up / stolen babies / delta coding) is installed in "
                "a real population and run through the real prepare, reproduce and finalize phases: quotas, offspring and the final "
                "population must total the population size; non-trivial = epochs of populations with more than one species")
    ctx.assumptions = ["fitness values are finite and non-negative (quantifier)", "organism / species identity is pointer identity"]
    if replay is None:
        mc = ctx.tlc("MC_Epoch", "MC_Epoch_thorough.cfg" if ctx.tier == "thorough" else "MC_Epoch.cfg", timeout=3000)
        spec_must_hold(mc, "MC_Epoch")
    st = epoch_traces(ctx, replay, "C02")
    ctx.nontrivial = st.get("epochs-multi-species", 0)
    quota_size_cases(ctx, replay, "C02")
    if replay is None or any(v.get("replay", {}).get("kind") == "x10" for v in replay.get("violations", [])):
        import pipe_grow_x10
        pipe_grow_x10.reproduce_traces(ctx, replay, "C02")


@pipeline("C10")
def c10(ctx, replay):
    ctx.rule = ("same scenario matrix as C02; the clause is evaluated by TLC on every epoch whose fitness values are distinct and "
                "positive (families linear, heavy-tailed, dominant, stagnating, distinct random, structure-driven): for every species "
                "of the previous generation whose quota (Species.ExpectedOffspring as left by the epoch) exceeds 5, some organism of the "
                "new generation has a genome equal in every genetic field to that of the species' fittest organism (by logged order "
                "ranks); non-trivial = species with quota > 5 seen")
    ctx.assumptions = ["distinct positive fitness (quantifier): the fittest organism of a species is unique",
                       "champions carry disabled and recurrent genes because the runs use raised structural mutation rates"]
    if replay is None:
        mc = ctx.tlc("MC_Epoch", "MC_Epoch_thorough.cfg" if ctx.tier == "thorough" else "MC_Epoch.cfg", timeout=3000)
        spec_must_hold(mc, "MC_Epoch")
    st = epoch_traces(ctx, replay, "C10")
    ctx.nontrivial = st.get("species-quota>5", 0)
    # every behaviour of MC_Quota (incl. stolen babies with an under-filled pool, delta coding) through a whole real epoch on
    # organisms with pairwise different weights: a species whose quota exceeds 5 must leave an unmodified copy of (one of) its
    # fittest organism(s)
    quota_size_cases(ctx, replay, "C10", pattern=r"champion:")
    if replay is None or any(v.get("replay", {}).get("kind") == "x10" for v in replay.get("violations", [])):
        import pipe_grow_x10
        pipe_grow_x10.reproduce_traces(ctx, replay, "C10")


_NOTE = ("Trace validation of seeded scenarios (quick: 63 scenarios x 12-14 epochs, population 3..30; thorough: 378 scenarios x up to 30 "
         "epochs, population 3..80), not exhaustive; MC_Epoch explores the turnover protocol exhaustively on the abstract model only. "
         "Trusted: TLC, the projection of the population (harness/cmd/vh_genome/epoch.go).")
CHECKS = {
 "C02": dict(text="Every recorded epoch of real populations under both executors is validated by TLC against Trace_Epoch: no error, exact size, no survivor of the old generation, organisms/species lists and back pointers agree (by object identity), no empty species, unique species ids that exceed every id seen before when new, unique genome ids, and the ageing rule including the constructed-species exception; MC_Epoch checks the same clauses on the abstract turnover protocol for all small populations, and every behaviour of MC_Quota (exact model of the apportionment incl. stolen babies and delta coding) is replayed through the real prepare / reproduce / finalize phases for conservation of the total.",
             note=_NOTE, technique=B1, ref="DESIGN.md 7/C02"),
 "C10": dict(text="For every recorded epoch with distinct positive fitness TLC checks that each species of the previous generation whose quota exceeded 5 has an unmodified copy of its fittest organism's genome in the new generation (all genetic fields compared on the projected records); covers the champion-clone and the super-champion (stolen babies, delta coding) branches under both executors.",
             note=_NOTE, technique=B1, ref="DESIGN.md 7/C10"),
}

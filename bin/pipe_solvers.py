"""Checks C12 (all solvers compute the feed-forward function) and C13 (flush makes a network indistinguishable from a
fresh one): spec/Solvers.tla model-checked by MC_Solvers / MC_Flush, every generated behaviour replayed on real networks
and fast solvers by harness/cmd/vh_solvers (binding B2 of DESIGN.md)."""
from pipelines import pipeline, cat_files, spec_must_hold, write_lines, replay_cases, B2
from vlib import Infra

CHECKS = {
 "C12": dict(
  text="Solvers.tla transcribes the standard solver (LoadSensors, the sum-then-activate sweep with its isActive wave, ActivateSteps, ForwardSteps) and the fast solver (index layout bias|input|output|hidden, bias links folded into per-neuron biases, forwardStep, ForwardSteps, RecursiveSteps, Relax) as step machines over integers, next to the definition TopoEval. TLC builds every simple DAG of a small node scope link by link (every neuron sensor-reachable, bias links, skip links, output-to-hidden links, two outputs, several allNodes orders), draws weights, integer-closed activation functions and an input vector, runs five fresh solver instances (Network.ForwardSteps(d), fast ForwardSteps(d), RecursiveSteps, Relax(d+1), Relax(d), then further propagation) and checks as an invariant that every one of them returns TopoEval after every call; larger graphs (7 nodes, up to 14 links, arbitrary link order) come from seeded TLC simulation. Every behaviour is rebuilt as a real network (through the network API, through a genome + Genesis, and with the bias value passed explicitly), and the real outputs after each call are compared == with the specification's integers; then the same topology is re-run twice with the other registered activation types (sigmoids, tanh, gaussians, sine, ...; reference = the case's topological order evaluated with the library's ActivateByType, tolerance 1e-9).",
  note="Exhaustive within (BFS, all simple DAGs with every neuron sensor-reachable, one canonical link order): quick - node shapes {input,bias,output,hidden}, {input,output,hidden} (no bias), {input,2 bias,output} up to 6 links with weights {-1,2}, inputs {-1,0,1}, 3 activation schemes, 2 allNodes orders; {2 inputs,bias,2 outputs} up to 4 links. Thorough adds weights {-1,1,2} x 7 schemes x 3 orders on the 4-node shapes, two hidden nodes (with and without bias) up to 5 links, {2 inputs,bias,hidden,2 outputs} and {2 inputs,2 bias,2 outputs} up to 4 links, and a model-sanity run (the recursive activation without the folded bias, i.e. the code as found, must violate the invariant). Everything larger is sampled: TLC -simulate seeded by VERIF_SEED over 6 shapes of 5-8 nodes (0-2 bias nodes, 1-2 hidden, 1-2 outputs), 4-14 links in any insertion order, 5 node orders, 7 schemes (1 200 behaviours quick, 48 000 thorough). Not covered: parallel links, modular networks, fewer than depth steps (outside the quantifier); step/sign activations only in the exact integer rounds (at an exactly cancelling sum their value legitimately depends on summation order). Network.RecursiveSteps of the STANDARD solver is not one of the four procedures of C12 and is not asserted. Trusted: TLC, the replayer's network construction, ActivateByType as the reference for non-integer activations (its numerics are C18's business).",
  technique=B2, ref="DESIGN.md 7/C12"),
 "C13": dict(
  text="On the same step machines (standard network incl. time-delayed links, lastActivation, isActive, activation counters; fast solver incl. the pre-accumulation array and the recursive-activation bookkeeping) TLC builds every simple digraph of a small scope - self-loops, 2-cycles, longer cycles, time-delayed links, bias links - lets an instance live through every history of API calls (LoadSensors, ForwardSteps(k), RecursiveSteps, ActivateSteps(k)/Relax(k,delta), Activate()/Relax(2,0)), flushes it, and runs every suffix of calls side by side with a twin created fresh at the flush; invariants: the flushed state equals the fresh state in everything a later call can observe, and after every suffix call outputs and error results coincide. The replayer combines, per network, every history with every suffix (evenly thinned above a cap) plus every suffix as its own history (repeated evaluation): a real instance runs history; Flush; suffix, a freshly built twin runs the suffix, and outputs (bit for bit) and error results must coincide after every suffix call, for the standard network and the fast solver, built through the network API and through Genesis, with the specification's activations and again with the library's other activation types. Larger graphs and longer histories come from seeded TLC simulation.",
  note="Exhaustive within (BFS, every simple digraph of the shape incl. self-loops and cycles): quick - {input,output,hidden}: all 63 link sets, 2 activation schemes, histories <= 2 calls and suffixes of 2 calls over 7 calls (2 load vectors, ForwardSteps 1/2, RecursiveSteps, ActivateSteps/Relax 2, Activate/Relax(2,0)); the same shape with time-delayed links up to 3 links; {input,bias,output,hidden} and {input,2 bias,output} up to 3 links. Thorough adds weights {-1,2} with histories <= 3 and suffixes of 3 (up to 3 links), bias + time-delayed links up to 4 links, and a model-sanity run (a flush that does nothing must violate SuffixEqual). Per network the replayer runs history x suffix up to a cap (400 quick / 3000 thorough, thinned by a hash of the pair index) plus every suffix as its own history. Simulation (seeded by VERIF_SEED): 6 shapes of 5-8 nodes, 2-14 links, time-delayed links, histories <= 4, suffixes of 3 (2 000 behaviours quick, 64 000 thorough). Real observations are also compared with the specification's (conformance); a divergence there is reported as an infrastructure error (the model no longer describes the code), not as a violation. Modular networks (control nodes) are outside the quantifier; the thorough tier records, as information only (never a verdict), how SolversModular.tla / MC_Modular (one multiply/max/min control node) compares with real modular networks. Trusted: TLC, the replayer's network construction.",
  technique=B2, ref="DESIGN.md 7/C13"),
}


def _must_fail(ctx, module, cfg, invariant):
    """Non-vacuity of the model: a deliberately wrong variant of the specification must violate the invariant."""
    r = ctx.tlc(module, cfg, timeout=600, workers=4, count=False)
    ctx.tlc_runs[-1]["note"] = "model sanity: a deliberately wrong model, EXPECTED to violate %s" % invariant
    if r.violated != invariant:
        raise Infra("model sanity: %s/%s was expected to violate %s but TLC reported %s - the invariant is vacuous"
                    % (module, cfg, invariant, r.violated or "no error"))
    ctx.extra.setdefault("model_sanity", []).append("%s violates %s as expected" % (cfg, invariant))


def _cfgs(ctx, module, cfgs, timeout):
    files = []
    for cfg in cfgs:
        mc = ctx.tlc(module, cfg, timeout=timeout)
        spec_must_hold(mc, cfg)
        files.append(mc.cases_file)
    return files


def _modular_information(ctx):
    """Information only (modular networks are outside the quantifiers of C12/C13): SolversModular.tla / MC_Modular
    against real networks with a control node.  Nothing here can change the verdict or the exit code."""
    info = {}
    try:
        mc = ctx.tlc("MC_Modular", "MC_Modular.cfg", timeout=900, workers=4, count=False)
        ctx.tlc_runs[-1]["note"] = "information only (modular networks), not part of the verdict"
        info["model"] = ("FlushRestores and SuffixEqual hold on SolversModular.tla within MC_Modular.cfg (%d states)" % mc.distinct
                         if mc.ok else "TLC reports %s violated on the model" % mc.violated)
        rep_file = ctx.path("modular_report.json")
        _, rep, _ = ctx.vh(["replay-modular", "-cases", mc.cases_file, "-out", rep_file], expect_report=rep_file,
                           pkg="vh_solvers", timeout=900)
        info["replay"] = rep.get("extra")
        info["pairs_replayed"] = rep.get("cases")
    except Exception as e:      # noqa: BLE001 - by design: information only
        info["error"] = str(e)[:500]
    ctx.extra["modular_networks_information_only"] = info


# ------------------------------------------------------------------------------------------------ C12
@pipeline("C12")
def c12(ctx, replay):
    thorough = ctx.tier == "thorough"
    ctx.rule = ("behaviours of MC_Solvers: a simple DAG in which every neuron is reachable from a sensor (built link by link; "
                "every link set of the BFS scopes, random link orders in simulation), weights, activation functions, an input "
                "vector, and the outputs after each call of five fresh solver instances (Network.ForwardSteps(d), fast "
                "ForwardSteps(d), RecursiveSteps, Relax(d+1,delta), Relax(d,delta), then further propagation; d = longest "
                "sensor-to-output path); each behaviour is replayed on real networks built three ways, outputs compared == "
                "after every call, then re-run twice with the other registered activation types against a topological "
                "evaluation with the library's own activation functions (1e-9); evaluations = solver calls whose outputs "
                "were compared; non-trivial = distinct behaviour with a bias link of non-zero weight and depth >= 2")
    ctx.assumptions = ["simple feed-forward graphs, every neuron sensor-reachable, at least depth steps (quantifier of C12)",
                       "integer weights/inputs and integer-closed activations make every IEEE operation exact (==); "
                       "1e-9 relative tolerance for the other activation types (summation order)",
                       "step and sign are exercised only in the exact rounds: at an exactly cancelling sum their value depends "
                       "on the floating-point summation order, which the statement allows"]
    cases_file = ctx.path("solver_cases.ndjson")
    if replay is not None:
        write_lines(cases_file, replay_cases(replay))
    else:
        cfgs = ["MC_Solvers.cfg", "MC_Solvers_wide.cfg", "MC_Solvers_chain.cfg"]
        if thorough:
            cfgs += ["MC_Solvers_thorough.cfg", "MC_Solvers_deep.cfg", "MC_Solvers_wide_thorough.cfg"]
        files = _cfgs(ctx, "MC_Solvers", cfgs, 3000)
        if thorough:
            # the code as found (recursive activation without the folded bias, F3) must fail C12 on the model
            _must_fail(ctx, "MC_Solvers", "MC_Solvers_asfound.cfg", "FeedForward")
        sim = ctx.tlc("MC_Solvers", "Sim_Solvers.cfg", simulate="num=%d" % (6000 if thorough else 300), depth=60,
                      extra=["-seed", str(ctx.seed)], workers=8 if thorough else 4, timeout=2400)
        spec_must_hold(sim, "MC_Solvers/simulate")
        files.append(sim.cases_file)
        n = cat_files(cases_file, files)
        ctx.exhaustive = True
        ctx.extra["scope"] = {"behaviours": n, "bfs_configs": cfgs,
                              "simulate": "6 node shapes of 5-8 nodes (0-2 bias, 1-2 hidden, 1-2 outputs), 4..14 links in any "
                                          "order, 5 node orders, 7 activation schemes, weights {-1,1,2}, inputs {-1,0,1}; "
                                          "seed %d" % ctx.seed}
    rep_file = ctx.path("solver_report.json")
    _, rep, _ = ctx.vh(["replay-solvers", "-cases", cases_file, "-out", rep_file], expect_report=rep_file,
                       pkg="vh_solvers", timeout=3000)
    ctx.add_report(rep, "solvers", traces=rep.get("cases", 0))


# ------------------------------------------------------------------------------------------------ C13
def _modular_flush(ctx, replay, thorough):
    """C13 speaks of networks of ANY topology: networks with control nodes (modules) too.  The behaviours of MC_ModularAct
    (growth suite X07: histories, Flush, suffixes on small modular networks, feed-forward and recurrent) are replayed in
    twin-only mode: the flushed real instance (standard network and fast solver) next to a freshly built twin, outputs,
    results and per-node activation state compared after every suffix call.  Nothing is compared with the values
    ModularAct.tla predicts here: how a modular network activates is not C13's business."""
    mod_cases = ctx.path("modular_flush_cases.ndjson")
    if replay is not None:
        lines = [v["replay"]["failure"]["case"] for v in replay.get("violations", [])
                 if v.get("replay", {}).get("kind") == "modular-flush" and v["replay"].get("failure", {}).get("case") is not None]
        if not lines:
            return
        write_lines(mod_cases, lines)
    else:
        cfgs = ["MC_ModularAct.cfg", "MC_ModularAct_two.cfg", "MC_ModularAct_rec.cfg"]
        if thorough:
            cfgs = ["MC_ModularAct_thorough.cfg", "MC_ModularAct_two_thorough.cfg", "MC_ModularAct_rec_thorough.cfg"]
        files = _cfgs(ctx, "MC_ModularAct", cfgs, 3000)
        n = cat_files(mod_cases, files)
        ctx.extra.setdefault("scope", {})["modular"] = {"configs": cfgs, "lines": n}
    rep_file = ctx.path("modular_flush_report.json")
    _, rep, _ = ctx.vh(["replay-modular", "-cases", mod_cases, "-out", rep_file, "-twin-only", "-maxpairs", "12" if thorough else "6"],
                       expect_report=rep_file, pkg="vh_x07", timeout=3000)
    rep["distinct_nontrivial"] = 0       # the non-trivial count of C13 stays "pairs on a network with feedback" of the main stage
    ctx.add_report(rep, "modular-flush", traces=(rep.get("extra") or {}).get("history_suffix_pairs", 0))
    ctx.extra["modular_flush"] = {"pairs": (rep.get("extra") or {}).get("history_suffix_pairs"), "networks": (rep.get("extra") or {}).get("networks")}


@pipeline("C13")
def c13(ctx, replay):
    thorough = ctx.tier == "thorough"
    ctx.rule = ("MC_Flush prints per network its histories (API calls before the flush with the specification's observations) "
                "and its suffixes (calls after the flush with the observations of a fresh twin); the replayer runs, per "
                "network, history x suffix (thinned evenly above the cap) plus every suffix as its own history: real instance "
                "= history; Flush; suffix, real twin = freshly built; suffix; outputs (bit for bit) and error results of "
                "standard network and fast solver compared after every suffix call, for networks built through the API and "
                "through Genesis, with integer-closed and with the other activation types; cases = history/suffix pairs, "
                "evaluations = API calls executed; non-trivial = pair on a network with feedback (cycle, self-loop or "
                "time-delayed link) whose history activates after loading sensors")
    ctx.assumptions = ["modular networks (control nodes): flushed instance against fresh twin only, on the networks of MC_ModularAct",
                       "a Flush that returns an error is reported as a violation (it never does on a non-modular network)",
                       "equal error results are part of 'behaves exactly like' (e.g. both report exceeded activation attempts)",
                       "the model does not generate calls after which a signal exceeds 1000 (simulation: 100) in magnitude (TLC integers are "
                       "32-bit; linear neurons in cycles grow geometrically)"]
    cases_file = ctx.path("flush_cases.ndjson")
    maxpairs = 3000 if thorough else 400
    if replay is not None:
        write_lines(cases_file, [v["replay"]["failure"]["case"] for v in replay.get("violations", [])
                                 if v.get("replay", {}).get("kind") == "flush" and v["replay"].get("failure", {}).get("case") is not None])
    else:
        cfgs = ["MC_Flush.cfg", "MC_Flush_td.cfg", "MC_Flush_bias.cfg"]
        if thorough:
            cfgs += ["MC_Flush_thorough.cfg", "MC_Flush_td_thorough.cfg"]
        files = _cfgs(ctx, "MC_Flush", cfgs, 3000)
        if thorough:
            # a flush that does nothing must fail C13 on the model (histories do leave observable state behind)
            _must_fail(ctx, "MC_Flush", "MC_Flush_noflush.cfg", "SuffixEqual")
        sim = ctx.tlc("MC_Flush", "Sim_Flush.cfg", simulate="num=%d" % (8000 if thorough else 500), depth=80,
                      extra=["-seed", str(ctx.seed)], workers=8 if thorough else 4, timeout=2400)
        spec_must_hold(sim, "MC_Flush/simulate")
        files.append(sim.cases_file)
        n = cat_files(cases_file, files)
        ctx.exhaustive = True
        ctx.extra["scope"] = {"history_and_suffix_lines": n, "bfs_configs": cfgs, "pairs_per_network_cap": maxpairs,
                              "simulate": "6 node shapes of 5-8 nodes (0-2 bias, 1-2 hidden, 1-2 outputs), 2..14 links (any "
                                          "digraph, time-delayed links), histories <= 4, suffixes of 3; seed %d" % ctx.seed}
    _modular_flush(ctx, replay, thorough)
    rep_file = ctx.path("flush_report.json")
    _, rep, _ = ctx.vh(["replay-flush", "-cases", cases_file, "-out", rep_file, "-maxpairs", str(maxpairs)],
                       expect_report=rep_file, pkg="vh_solvers", timeout=3000)
    ctx.add_report(rep, "flush", traces=rep.get("cases", 0))
    extra = rep.get("extra") or {}
    ctx.extra["replay"] = {k: extra.get(k) for k in ("networks", "recurrent_networks", "pairs", "conformance_mismatches")}
    if thorough and replay is None:
        _modular_information(ctx)
    if extra.get("conformance_mismatches") and not ctx.violations:
        raise Infra("C13: instance and twin agree everywhere, but %d observation(s) of the real code differ from the "
                    "specification's (Solvers.tla no longer describes the recurrent semantics of the solvers, so the "
                    "model-checked part says nothing about this code):\n%s"
                    % (extra["conformance_mismatches"], "\n".join(extra.get("conformance_examples") or [])[:3000]))

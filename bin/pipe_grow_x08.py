"""Growth suite X08 (DESIGN.md section 15): Validation - the self-checks and small value operations of goNEAT that no
other module of the specification covers: Genome.verify() / Population.Verify() next to the well-formedness definition
of spec/Genome.tla, the neat.Trait operations, the Gene / MIMOControlGene / Innovation constructors and predicates and the
enum <-> string tables.  Same binding as the other growth suites (B2): TLC checks the laws of spec/Validation.tla on every
case in scope and prints each with the result the specification assigns; `vh_x08` builds the real objects, runs the real
code and compares.  Not a claimed property (no entry in CHECKS / MANIFEST.json): run with
`bin/check --property X08 --tier quick|thorough`, evidence in evidence/X08.json."""
from pipelines import pipeline, cat_files, spec_must_hold, write_lines, replay_cases, B2

CHECKS = {}

EXTRA = {
 "X08": dict(
  title="the genome self-check accepts every well-formed non-empty genome and rejects exactly what its steps say; traits, genes, control genes, innovation records and the enum tables hold what their constructors were given",
  text="(1) Genome.verify() is specified in spec/Validation.tla clause by clause as the code performs it (three emptiness tests; per gene the scan of the node list for both end-point ids, in before out; the node-order loop with its running id; the pairwise duplicate test that skips a gene compared with itself; the two-disables-in-a-row loop that only runs above 500 nodes) NEXT TO its definition (first failing clause) and NEXT TO WellFormed of spec/Genome.tla, evaluated on the genome decorated with object identities the way the harness projector does. TLC checks on every genome in scope: loop = definition; no false rejection (WellFormed and non-empty and not the >500-node disabled rule => accepted) and the only rejections of well-formed genomes are no_genes / no_traits / two_disabled; end-point ids: rejected iff EndpointsOwn is broken; node order: rejected iff some id DESCENDS (two equal ids in a row pass, so NodesAscending is only partly covered); duplicates: rejected iff two DISTINCT gene objects carry the same link; the verdict is a function of node ids, link keys, gene-object identity and - above the limit - enabled flags only (innovation numbers, roles, trait references, weights and where the pointers lead are never looked at). Population.Verify(): the error of the first failing genome, (true, nil) otherwise, also without organisms. (2) NewTrait (8 zeros, id 0), NewTraitCopy (equal, independent parameters), NewTraitAvrg (element-wise mean n/16 of n/8 operands, id of the first, error on different lengths, commutative apart from the id, between its operands), Trait.Mutate as the loop of the code over an explicit draw script (one uniform per parameter; if it EXCEEDS prob an integer for the sign and a uniform m; p + sign*m*power clamped at 0) next to its element-wise definition with the number of draws consumed, frame, bounds and monotonicity, Trait.String from the %f rendering of eighths. (3) NewGene / NewGeneWithTrait / NewConnectionGene / NewGeneCopy as the gene records of Genome.tla (copy: weight and recurrence from the link, innovation, mutation number and ENABLED flag from the gene, ends and trait as given; a copy onto the same ends and trait is the same gene), NewMIMOGene / NewMIMOGeneCopy and hasIntersection (IO nodes = inputs then outputs of the control node at construction; a copy takes the IO nodes of ITS control node), the three innovation constructors as LinkRec / NodeRec of Genome.tla with the type codes, NeuronTypeName / NeuronTypeByName / NodeTypeName over all 256 codes and a palette of names (one-to-one, round trip, unknown -> error with code 127), node type from neuron type, the supported genome encodings (1, 2; anything else ErrUnsupportedGenomeEncoding from reader and writer). Every case is replayed on real objects: verify() through the export shim VerifVerify and Population.Verify() on a one-genome population, with the WellFormed clauses re-evaluated by the replayer ON THE REAL OBJECTS and compared with the specification's clause table.",
  note="Exhaustive within (quick): every node list up to 3 over ids {1 input, 2 hidden, 3 output} (any order, repetitions) x every gene list up to 2 over innovation {1,2} x source {1,2} x target {1,2,3} x recurrent flag, one trait; 270 trait-list / trait-reference variants on a sound structure (no trait, two traits, swapped, duplicate trait id, nil / dangling / foreign trait objects); 2520 wiring variants (end points that are foreign objects with the right id, one gene object listed twice); all 16 enabled patterns of 4 genes at 3, 500 and 501 nodes plus broken genomes at 503 nodes; populations up to 3 over a palette of 5 genomes. Thorough: ids {1..4 bias} and innovation {1,2,3} with source 1..3, gene lists up to 3 over a 24-gene pool x node lists up to 3 (MC_Validation_genes3_thorough), populations up to 4. Traits: every parameter vector up to length 2 (3) over {-3,0,1,8(,21)}/8, the 8 rotations of an 8-vector covering every residue mod 8 and both signs, constant 8-vectors; avg on all pairs; Mutate for power {0,.5,1,2(,8)} x prob {-1/8,0,.5,1,9/8}: on the model every draw script over the grid for vectors up to 2 and two strided script families through all grid draws for longer ones; on the code 24 learned seeds per case (math/rand cannot be stubbed: the source is seeded, read as the specification says Mutate consumes it, seeded again, the real Mutate is called, the next stream value must be the predicted one); the expected parameter is the specification's element rule evaluated on the learned draws in exact rationals (power is a power of two: the code rounds once, the expectation is the rational rounded to nearest, comparison ==) and must lie inside the TLC-generated row between the neighbouring grid points. OBSERVATIONS (coverage.validation.observations and verify_detection, not violations): (a) verify() is weaker than WellFormed: unsorted or repeated innovation numbers, a link into a sensor, dangling or foreign trait references, end points that are foreign objects with a matching id, an id index that returns another node, two nodes with the SAME id (only a descent is an error) and one gene object listed twice (the duplicate test compares distinct objects only) are all accepted; (b) verify() rejects well-formed genomes without genes or without traits, and - only above 500 nodes - with two consecutive disabled genes, which two add-node mutations of neighbouring genes produce legitimately (the code comments `not necessarily a bad sign`); below 501 nodes that loop is dead code; (c) Trait.Mutate perturbs a parameter when the draw is GREATER than traitParamMutProb, i.e. the option is the probability of leaving a parameter alone (as in the original C++ NEAT): 1 never mutates, 0 always; (d) multipoint crossover hands the PARENT's MIMO control gene object to the child (seen while reaching hasIntersection through crossover). MIMOControlGene.hasIntersection is unexported: it is compared directly only when the harness is built with the proposed shim harness/shim_x08.go.txt (-tags x08shim); without it the predicate is observed through multipoint crossover for the probe sets that contain the genome's sensor and output (672 of 798 cases). Error classes of verify() are recognised by message fragments. Not covered: Gene.String / MIMOControlGene.String, genomeEncodingFromFileName (unexported; file-name dispatch is in X02/C15 territory), negative or zero node ids, NaN parameters. Trusted: TLC, math/rand determinism under rand.Seed, math/big.",
  technique=B2),
}


def _run(ctx, replay, module, cfgs, command, cases_name, kind, extra_args=None, timeout=1500):
    cases_file = ctx.path(cases_name)
    if replay is not None:
        write_lines(cases_file, replay_cases(replay))
    else:
        files = []
        for cfg in cfgs:
            mc = ctx.tlc(module, cfg, timeout=timeout, xss=True)     # verify() loops over 500-node genomes are recursive operators
            spec_must_hold(mc, "%s/%s" % (module, cfg))
            files.append(mc.cases_file)
        n = cat_files(cases_file, files)
        ctx.exhaustive = True
        ctx.extra.setdefault("scope", {})["cases"] = n
        ctx.extra["scope"]["configs"] = cfgs
    rep_file = ctx.path(kind + "_report.json")
    _, rep, _ = ctx.vh([command, "-cases", cases_file, "-out", rep_file] + (extra_args or []), pkg="vh_x08",
                       expect_report=rep_file, timeout=timeout)
    ctx.add_report(rep, kind, traces=rep.get("cases", 0))
    if rep.get("extra"):
        ctx.extra[kind] = rep["extra"]
    return rep


# ------------------------------------------------------------------------------------------------ X08
@pipeline("X08")
def x08(ctx, replay):
    thorough = ctx.tier == "thorough"
    ctx.rule = ("MC_Validation: every genome / population / trait operation / constructor call / enum code in scope, one TLC "
                "state each, with the result the specification assigns; each is built from real objects and run on the real "
                "code: verify() and Population.Verify() compared with the failing step of the specification's verify, the "
                "WellFormed clauses re-evaluated on the real objects, every field of every constructed value compared, "
                "Trait.Mutate on 24 learned seeds per case; non-trivial = non-empty genome with at least one WellFormed clause "
                "broken or well-formed genome that is rejected; population of >= 2 genomes with a failing one; copy / string "
                "of a non-empty trait, average of different vectors or of different lengths, Mutate case in which some seed "
                "perturbs some parameters and leaves others; gene copy of a disabled or recurrent gene, control gene with IO "
                "nodes and a non-empty probe set, innovation records, name lookups and the codes at the edge of each enum")
    ctx.assumptions = ["node ids and innovation numbers are positive; trait parameters, weights and mutation numbers are dyadic (n/8)",
                       "the error class of verify() is recognised by fragments of its message",
                       "rand.Seed re-seeds the global source deterministically; power is 0 or a power of two (one rounding per parameter)",
                       "hasIntersection is reached through multipoint crossover unless the proposed shim is installed"]
    cfgs = ["MC_Validation_thorough.cfg", "MC_Validation_genes3_thorough.cfg"] if thorough else ["MC_Validation.cfg"]
    _run(ctx, replay, "MC_Validation", cfgs, "replay-validation", "validation_cases.ndjson", "validation", timeout=2400)

"""Checks C07 (compatibility), C14 (activation depth), C19 (statistics), C20 (experiment protocol): model checking +
TLC-generated behaviours replayed on the implementation (binding B2 of DESIGN.md)."""
from pipelines import pipeline, cat_files, spec_must_hold, write_lines, replay_cases, B2

CHECKS = {
 "C07": dict(
  text="TLC explores both compatibility walks (transcribed from the code) on every pair of gene lists over K innovation numbers and checks them against the NEAT definition (plus termination and progress); every explored pair, plus structured long pairs, is replayed on the real code (both methods, both orders, 6 coefficient vectors, 3 scalings) against the counters the specification assigns.",
  note="Exhaustive within K<=4 (quick) / K<=5 (thorough) innovation numbers and mutation numbers {0,1,3}; long lists only by structured families up to 40 genes. Trusted: TLC, the projection <<E,D,S,M>> -> float formula in the replayer.",
  technique=B2, ref="DESIGN.md 7/C07"),
 "C14": dict(
  text="TLC model-checks the depth search (transcribed from NNode.Depth with its persistent traversal marks) over every link set of a small node scope and every query sequence with caps: longest-path equality on DAGs, termination/bounds on cyclic graphs, the cap law, clean marks and repeat-stability are invariants; every finished behaviour (and simulated behaviours on larger graphs with arbitrary incoming order) is replayed on real networks with result, error and marks compared after each query.",
  note="Exhaustive for 1 sensor + 3 neurons (quick), 4 neurons with <= 7 links (thorough); larger graphs by TLC simulation only. Termination decided by a 5 s watchdog. Trusted: TLC, the harness' network construction.",
  technique=B2, ref="DESIGN.md 7/C14"),
 "C19": dict(
  text="The statistics are specified as exact integer/rational definitions; TLC checks their laws (ordering of quantiles, permutation invariance, variance zero iff constant, ...) on every series in scope and emits every series in every order, the empty series and every experiment in scope with the values the definitions assign; the replayer builds real Floats / Experiment / Trial / Generation values and compares every accessor.",
  note="Exhaustive for series over 4 values up to length 4 (quick) / 5 values up to length 6 (thorough) at three power-of-two scalings, experiments up to 2x2 (quick) / 3x2 with champion fitness {-2,2} and 2x2 with {-2,0,2} (thorough) trials x generations; series also replayed at offsets 2^30 and -2^40. Floating-point tolerance 1e-12 only where a division is involved. Trusted: TLC, the replayer's construction of experiment records.",
  technique=B2, ref="DESIGN.md 7/C19"),
 "C20": dict(
  text="Experiment.Execute is specified as a step machine (one action per step visible to evaluator, observer or caller); the protocol clauses of C20 are invariants over its logs, checked by TLC for every script of outcomes (ok / solved / evaluator error / context cancelled while evaluating, with and without solved) in scope with and without an observer, and additionally for every single observer notification (trial started, generation evaluated, trial finished) during which the observer cancels the context; every behaviour is replayed through the real Execute with a scripted evaluator and a recording observer under both epoch executors and compared log for log.",
  note="Exhaustive for 2x2, 1x3, 3x1, 2x0 (quick) plus 2x3 (thorough) trials x generations. Population freshness and turnover are observed through pointer identity of populations and organisms. Trusted: TLC, the scripted evaluator/observer.",
  technique=B2, ref="DESIGN.md 7/C20"),
}



# ------------------------------------------------------------------------------------------------ C07
@pipeline("C07")
def c07(ctx, replay):
    thorough = ctx.tier == "thorough"
    ctx.rule = ("cases = every pair of ascending gene lists over innovation numbers 1..K with mutation numbers "
                "{0,1,3} vs 1 on matching genes (emitted by MC_Compat at its terminal states, K=%d) plus structured long "
                "pairs (Gen_Compat: prefixes, long excess tails, interleaved, disjoint ranges); each is measured on the "
                "real code with both methods, both argument orders, 6 coefficient vectors, 3 scalings; non-trivial = "
                "distinct case with at least one excess, one disjoint and one matching gene" % (6 if thorough else 4))
    ctx.assumptions = ["genes sorted by innovation number (quantifier of C07)",
                       "dyadic coefficients and mutation numbers so that every product is exact; 1e-12 relative "
                       "tolerance only for the single division by the matching count"]
    cases_file = ctx.path("compat_cases.ndjson")
    if replay is not None:
        write_lines(cases_file, replay_cases(replay))
    else:
        mc = ctx.tlc("MC_Compat", "MC_Compat_thorough.cfg" if thorough else "MC_Compat.cfg", timeout=1500)
        spec_must_hold(mc, "MC_Compat")
        fam = ctx.path("families.ndjson")
        g = ctx.tlc("Gen_Compat", "Gen_Compat_thorough.cfg" if thorough else "Gen_Compat.cfg", env={"OUT": fam},
                    workers=4, timeout=600, count=False)
        spec_must_hold(g, "Gen_Compat")
        ncases = cat_files(cases_file, [mc.cases_file, fam])
        ctx.exhaustive = True
        ctx.extra["scope"] = {"K": 6 if thorough else 4, "cases": ncases}
    rep_file = ctx.path("compat_report.json")
    _, rep, _ = ctx.vh(["replay-compat", "-cases", cases_file, "-out", rep_file], expect_report=rep_file)
    ctx.add_report(rep, "compat", traces=rep.get("cases", 0))


# ------------------------------------------------------------------------------------------------ C14
@pipeline("C14")
def c14(ctx, replay):
    thorough = ctx.tier == "thorough"
    ctx.rule = ("behaviours of MC_Depth: a network is built link by link (every link set over the node scope in BFS "
                "mode, random insertion orders in simulation mode), then queried for its activation depth MaxQ times "
                "with caps from Caps; each finished behaviour is replayed on a real network (built through the "
                "network API and expressed from a genome) comparing result, error and leftover traversal marks after "
                "every query; non-trivial = behaviour in which a query hit its cap")
    ctx.assumptions = ["non-modular networks (quantifier of C14)", "5 s watchdog per behaviour decides termination"]
    cases_file = ctx.path("depth_cases.ndjson")
    if replay is not None:
        write_lines(cases_file, replay_cases(replay))
    else:
        runs = []
        mc = ctx.tlc("MC_Depth", "MC_Depth_thorough.cfg" if thorough else "MC_Depth.cfg", timeout=2400)
        spec_must_hold(mc, "MC_Depth")
        runs.append(mc.cases_file)
        nh = ctx.tlc("MC_Depth", "MC_Depth_nohidden.cfg", timeout=600)
        spec_must_hold(nh, "MC_Depth/nohidden")
        runs.append(nh.cases_file)
        sim = ctx.tlc("MC_Depth", "Sim_Depth.cfg", simulate="num=%d" % (4000 if thorough else 150), depth=40,
                      extra=["-seed", str(ctx.seed)], timeout=1200)
        spec_must_hold(sim, "MC_Depth/simulate")
        runs.append(sim.cases_file)
        n = cat_files(cases_file, runs)
        ctx.exhaustive = True
        ctx.extra["scope"] = {"behaviours": n, "bfs": "1 sensor, 2 hidden, %d output(s), all link sets%s" % (
            2 if thorough else 1, " up to 7 links" if thorough else ""),
            "simulate": "2 sensors, 3 hidden, 2 outputs, <= 14 links, any insertion order, 3 queries"}
    rep_file = ctx.path("depth_report.json")
    _, rep, _ = ctx.vh(["replay-depth", "-cases", cases_file, "-out", rep_file], expect_report=rep_file)
    ctx.add_report(rep, "depth", traces=rep.get("cases", 0))


# ------------------------------------------------------------------------------------------------ C19
@pipeline("C19")
def c19(ctx, replay):
    thorough = ctx.tier == "thorough"
    ctx.rule = ("MC_Stats: every integer series over Vals of length 1..MaxLen in every order, the empty series, and every "
                "experiment of <= MaxTrials trials x <= MaxGens generations over the generation scope; each is built as a "
                "real Floats / Experiment value (series at 3 power-of-two scalings) and all accessors are compared with the "
                "exact rational values of the definitions; non-trivial = unsorted series, or experiment with both solved "
                "and unsolved trials")
    ctx.assumptions = ["finite series of integers scaled by powers of two (exact comparison for order statistics and sums, "
                       "1e-12 relative for mean/variance)",
                       "variance of a single element is undefined (NaN), as in the textbook sample variance",
                       "ties for the best organism of a trial may be resolved either way"]
    cases_file = ctx.path("stats_cases.ndjson")
    if replay is not None:
        write_lines(cases_file, replay_cases(replay))
    else:
        files = []
        for cfg in (["MC_Stats_thorough.cfg", "MC_Stats_thorough2.cfg"] if thorough else ["MC_Stats.cfg"]):
            mc = ctx.tlc("MC_Stats", cfg, timeout=2400)
            spec_must_hold(mc, cfg)
            files.append(mc.cases_file)
        n = cat_files(cases_file, files)
        ctx.exhaustive = True
        ctx.extra["scope"] = {"cases": n}
    rep_file = ctx.path("stats_report.json")
    _, rep, _ = ctx.vh(["replay-stats", "-cases", cases_file, "-out", rep_file], expect_report=rep_file)
    ctx.add_report(rep, "stats", traces=rep.get("cases", 0))


# ------------------------------------------------------------------------------------------------ C20
@pipeline("C20")
def c20(ctx, replay):
    thorough = ctx.tier == "thorough"
    ctx.rule = ("behaviours of MC_Experiment: every script over {ok, solved, fail, fail-with-a-cancel-like-error, fail-while-reporting-solved, cancel-while-evaluating, "
                "cancel-and-solved} for the configured runs x generations, with and without an observer, crossed with every single "
                "observer notification during which the observer cancels the context (or none); each is run "
                "through the real Experiment.Execute (sequential and parallel epoch executor, population of 8) with a "
                "scripted evaluator and a recording observer and compared with the specification's evaluator log, "
                "observer log, recorded trials, final population states and returned error; where the statement leaves the moment of "
                "the epoch turnover open the specification has two behaviours per input (turnover right after an unsolved evaluation, as "
                "the code does, or just before the next one) and a run is accepted when either explains it; every run is made twice "
                "on the same Experiment value; a new trial's population must be a fresh spawn (birth generation, species age, no shared organism); "
                "non-trivial = script that contains an outcome other than ok")
    ctx.assumptions = ["population identity is observed through *Population / *Organism pointers",
                       "nothing is asserted about a finish notification for a trial aborted by an error"]
    cases_file = ctx.path("exp_cases.ndjson")
    if replay is not None:
        # every admissible behaviour of the failing input (the specification may allow several, see Experiment.tla `lazy`)
        lines = []
        for v in replay.get("violations", []):
            f = v.get("replay", {}).get("failure", {})
            lines += f.get("cases") or ([f["case"]] if f.get("case") is not None else [])
        write_lines(cases_file, lines)
    else:
        cfgs = ["MC_Experiment.cfg", "MC_Experiment_small.cfg", "MC_Experiment_wide.cfg", "MC_Experiment_nogens.cfg"]
        if thorough:
            cfgs.append("MC_Experiment_thorough.cfg")
        files = []
        for cfg in cfgs:
            mc = ctx.tlc("MC_Experiment", cfg, timeout=2400)
            spec_must_hold(mc, cfg)
            files.append(mc.cases_file)
        n = cat_files(cases_file, files)
        ctx.exhaustive = True
        ctx.extra["scope"] = {"behaviours": n, "configs": cfgs}
    rep_file = ctx.path("exp_report.json")
    _, rep, _ = ctx.vh(["replay-experiment", "-cases", cases_file, "-out", rep_file], expect_report=rep_file, timeout=3000)
    ctx.add_report(rep, "experiment", traces=rep.get("cases", 0))

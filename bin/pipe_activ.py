"""Check C18 (activation functions match their definitions, ranges and names).

Two bindings of spec/Activations.tla to neat/math/activations.go (DESIGN.md 7/C18):
 B2  MC_Activations: TLC checks the registry laws, the exactly representable activations (exact dyadic arithmetic) and
     the module reducers on the model and prints every case; `vh_activ replay-activ` puts each case to the real
     NodeActivators (and network.ActivateNode / ActivateModule) and compares exactly.
 B1  Trace_Activations: `vh_activ eval-grid` records the outputs of every registered scalar activation on a grid of
     float64 inputs; TLC validates every row against the bit-exact definitions and against ActTables.tla, interval
     tables of the closed forms generated at check time by bin/gen_acttables.py (mpmath, 60 digits)."""
import json
import os
import shutil
import struct
import subprocess

from vlib import Infra, VERIF
from pipelines import pipeline, spec_must_hold, write_lines, cat_files, B1, B2

CHECKS = {
 "C18": dict(
  text="The registry of NodeActivators is specified as two finite maps built by the Register steps of the code; TLC checks that names and type codes stay one-to-one after every registration, that all 256 possible type codes and a set of unregistered names give an error unless registered, and that a scalar type is an error for the module lookup and vice versa; the exactly representable activations (both approximation sigmoids with their breakpoints, clipped linear, linear, absolute, step, sign, null) are specified in exact dyadic arithmetic and checked for range, monotonicity, continuity at the breakpoints and symmetry; the module reducers are specified as folds and checked against product / maximum / minimum; factories are specified as references to map cells (a registry is per factory): for each of 24 single extra registrations on a private factory TLC checks that every other factory still is the registry of NewNodeActivatorsFactory, and the replayer makes real private factories, registers with one of them and compares the default NodeActivators, a second private factory and a later one before/after on all type codes, names and probe values. Every case is replayed on the real NodeActivators (by Go constant, by registered name, through network.ActivateNode / ActivateModule) and compared exactly. For all 20 scalar activations the real outputs on a grid of float64 inputs up to +-1e300 are validated by a TLC trace specification: finite, inside the documented range, bit-exact for the six bit-determined functions, inside the generated closed-form interval (2^-28 units, +-1 unit) for the other fourteen, and non-decreasing along the grid for the sigmoid family, tanh, linear, clipped linear and step.",
  note="The approximation sigmoids are compared exactly only at inputs no finer than 1/4096 (a breakpoint displaced by less than that is seen only if it moves the value by more than 2^-28). Exhaustive within: every byte as type code, 39 names plus 6 derived spellings of each registered name; inputs k/64 plus b+-m/4096 (m<=16) around the breakpoints (quick) or k/4096 (thorough) for |x|<=8 plus +-2^j (j up to 996 and down to -1074); module vectors of length 1..4 over 5 (quick) / 8 (thorough, plus length 1..7 over 3) integers at 10 scalings (7 for the product) reaching 3e298. The transcendental forms are checked on a grid (about 5 000 / 46 000 float64 inputs incl. seeded random ones, neighbours of every breakpoint and saturation threshold, +-10^k and +-2^j up to 1e300), not on the real line; monotonicity of exp/tanh/division-based forms is judged on 2^-28 fixed-point values with one unit of slack. -0.0 is excluded. Trusted: TLC, mpmath, the float64 -> bit-chunk / fixed-point projection of the harness. A registration unknown to the specification is reported as exit 2 (the table must be extended), not as a violation.",
  technique=B2 + " + " + B1, ref="DESIGN.md 7/C18"),
}

PY_VT = "python3-vt"


def chunks_to_float(c):
    bits = (c[0] << 63) | (c[1] << 42) | (c[2] << 21) | c[3]
    return struct.unpack(">d", struct.pack(">Q", bits))[0]


def chunks_to_hex(c):
    return "%016x" % ((c[0] << 63) | (c[1] << 42) | (c[2] << 21) | c[3])


def gen_tables(ctx, grid_file, points=None):
    exe = shutil.which(PY_VT)
    if exe is None:
        raise Infra("%s (the interpreter that has mpmath) is not on PATH: cannot generate ActTables.tla" % PY_VT)
    cmd = [exe, os.path.join(VERIF, "bin", "gen_acttables.py"), "--tier", ctx.tier, "--seed", str(ctx.seed),
           "--out-tla", os.path.join(ctx.specdir, "ActTables.tla"), "--out-grid", grid_file]
    if points is not None:
        pf = ctx.path("points.txt")
        write_lines(pf, points)
        cmd += ["--points", pf]
    try:
        p = subprocess.run(cmd, capture_output=True, text=True, timeout=1200)
    except subprocess.TimeoutExpired:
        raise Infra("gen_acttables.py timed out")
    if p.returncode != 0:
        raise Infra("gen_acttables.py failed (mpmath unavailable?):\n" + (p.stdout + p.stderr)[-2000:])
    try:
        return json.loads(p.stdout.strip().splitlines()[-1])
    except (ValueError, IndexError):
        raise Infra("gen_acttables.py printed no summary:\n" + p.stdout[-500:])


def record_and_validate(ctx, points, tag):
    """grid (or the given points) -> real outputs -> TLC. Returns (list of bad reports from TLC, harness report, rows)."""
    grid_file = ctx.path("grid-%s.ndjson" % tag)
    info = gen_tables(ctx, grid_file, points)
    trace = ctx.path("trace-%s.ndjson" % tag)
    rep_file = ctx.path("grid-report-%s.json" % tag)
    _, rep, _ = ctx.vh(["eval-grid", "-grid", grid_file, "-trace", trace, "-out", rep_file], pkg="vh_activ",
                       expect_report=rep_file)
    r = ctx.tlc("Trace_Activations", env={"ACT_TRACE": trace}, workers=1, timeout=1500)
    bad, summary = [], None
    with open(r.cases_file) as f:
        for line in f:
            if line.strip():
                rec = json.loads(line)
                if rec.get("summary"):
                    summary = rec
                else:
                    bad.append(rec)
    if summary is None or summary.get("rows") != info["points"]:
        raise Infra("Trace_Activations did not consume the %d recorded rows (summary %r):\n%s" % (info["points"], summary, r.output[-2000:]))
    if bool(bad) != (summary.get("bad", 0) > 0):
        raise Infra("Trace_Activations: %d failures counted but %d reported" % (summary.get("bad", 0), len(bad)))
    if bool(bad) != (r.violated == "TraceOK"):
        raise Infra("Trace_Activations: verdict %r does not agree with %d reported rows\n%s" % (r.violated, len(bad), r.output[-2000:]))
    infra = [b for b in bad if str(b.get("bad", "")).startswith("infra")]
    if infra:
        raise Infra("trace rows are not what the specification expects (%s); functions recorded: %s; the specification's "
                    "registry table / closed forms must be brought in line with the code first"
                    % (infra[0]["bad"], rep.get("extra", {}).get("functions")))
    return bad, rep, info["points"], trace


def rows_by_hex(trace):
    out = {}
    with open(trace) as f:
        for line in f:
            row = json.loads(line)
            out[chunks_to_hex(row["x"])] = row
    return out


def grid_phase(ctx, replay, points):
    bad, grep, npoints, trace = record_and_validate(ctx, points, "a")
    ctx.add_report(grep, "activ-grid")
    if replay is None:
        ctx.traces += 1
        ctx.extra["scope"]["grid_points"] = npoints
        ctx.extra["scope"]["functions_recorded"] = grep.get("extra", {}).get("functions")
    if bad:
        # re-confirm on a fresh recording of the offending inputs only (DESIGN.md 6.1, verdict discipline); a broken
        # function fails at thousands of inputs: a few per (function, clause) are kept
        ctx.extra["grid_failures_reported_by_tlc"] = len(bad)
        per, chosen = {}, []
        for b in bad:
            k = (b["fn"], b["bad"])
            per[k] = per.get(k, 0) + 1
            if per[k] <= 3 and len(chosen) < 60:
                chosen.append(b)
        bad = chosen
        first = rows_by_hex(trace)
        hexes = set()
        for b in bad:
            hexes.add(chunks_to_hex(b["x"]))
            if b.get("px"):
                hexes.add(chunks_to_hex(b["px"]))
        bad2, _, _, trace2 = record_and_validate(ctx, sorted(hexes), "b")
        again = {(b["fn"], chunks_to_hex(b["x"]), b["bad"]) for b in bad2}
        second = rows_by_hex(trace2)
        for b in bad:
            hx = chunks_to_hex(b["x"])
            key = (b["fn"], hx, b["bad"])
            same = hx in second and second[hx]["ys"].get(b["fn"]) == first[hx]["ys"].get(b["fn"])
            if key not in again or not same:
                raise Infra("violation of %s by %s at x=%r was not reproduced on a second recording" % (b["bad"], b["fn"], chunks_to_float(b["x"])))
            x, y = chunks_to_float(b["x"]), chunks_to_float(b["y"][:4])
            if b["bad"] == "Monotone":
                what = "%s is not non-decreasing: f(%r) = %r but f(%r) = %r" % (
                    b["fn"], chunks_to_float(b["px"]), chunks_to_float(b["py"][:4]), x, y)
            elif b["bad"] == "Matches" and b.get("want"):
                what = "%s(%r) = %r (floor(y*2^28) = %d) is outside the closed-form interval [%d, %d]*2^-28 (%s)" % (
                    b["fn"], x, y, b["y"][4], b["want"][0], b["want"][1], b.get("form", ""))
            elif b["bad"] == "Matches":
                what = "%s(%r) = %r differs from its bit-exact definition" % (b["fn"], x, y)
            elif b["bad"] == "Finite":
                what = "%s(%r) = %r is not finite (a function registered beyond the specification's table: only finiteness is checked)" % (b["fn"], x, y)
            elif b["bad"] == "InRange":
                what = "%s(%r) = %r is outside the documented range" % (b["fn"], x, y)
            else:
                what = "%s(%r) = %r is not finite" % (b["fn"], x, y)
            sig = "activ grid %s %s" % (b["fn"], b["bad"])
            case = {"hex": hx, "fn": b["fn"], "clause": b["bad"]}
            if b.get("px"):
                case["prev_hex"] = chunks_to_hex(b["px"])
            ctx.violation(what, sig, {"kind": "activ-grid", "failure": {"case": case, "what": what}})


@pipeline("C18")
def c18(ctx, replay):
    thorough = ctx.tier == "thorough"
    ctx.rule = ("B2 cases = states of MC_Activations: every byte value as type code; every registered name, 16 unregistered "
                "names and (in the replayer) 6 derived spellings of each registered name; every exactly representable "
                "activation at every input n/2^G with |x| <= 8 and at +-2^j; every module reducer on every integer vector of "
                "length 1..4 over Vals at every scale 2^s; every one of 24 extra registrations (new / existing scalar / existing "
                "module type code x same / other existing / new name x scalar / module user function) applied to a private "
                "factory made by NewNodeActivatorsFactory, with the default factory, a second private one and a later one "
                "compared before/after on all 256 type codes and all names (run before and again after the other cases). B1 rows = one grid input with the outputs of all 20 scalar "
                "activations. non-trivial = registry case asking for an unknown type or name; scalar case at zero, within "
                "one grid step of a breakpoint (+-1, +-4), or with |x| >= 16 or |x| < 2^-60; module case with more than "
                "one input that is all-negative or scaled by >= 2^62; factory case that overrides an existing type code or takes "
                "an existing name; (grid rows are counted as evaluations only)")
    ctx.assumptions = ["inputs are finite float64 with |x| <= 1e300, -0.0 excluded (quantifier of C18, DESIGN.md section 9)",
                       "closed forms are read from the names and doc comments of activations.go: sine is sin(2x), tanh is "
                       "tanh(0.9x), ranges as commented (bipolar forms [-1,1], gaussian [0,1], clipped [-1,1]) or implied",
                       "tolerance against the closed form: one unit of 2^-28 on each side of the interval that contains "
                       "the 60-digit value; none for the exactly representable functions",
                       "monotonicity of forms computed through exp/tanh/division is compared on floor(y*2^28) with one unit "
                       "of slack (rounding noise of the library functions); exact float order for the others",
                       "module products are chosen so that the exact result is a normal float64 (no overflow/underflow)"]
    b2_cases = ctx.path("activ_cases.ndjson")
    points = None
    run_b2 = run_grid = True
    if replay is not None:
        cs, pts = [], []
        for v in replay.get("violations", []):
            c = v.get("replay", {}).get("failure", {}).get("case")
            if isinstance(c, dict) and "hex" in c:
                pts.append(c["hex"])
                if c.get("prev_hex"):
                    pts.append(c["prev_hex"])
            elif c is not None:
                cs.append(c)
        write_lines(b2_cases, cs)
        points = sorted(set(pts))
        run_b2, run_grid = bool(cs), bool(points)
    else:
        cfgs = ["MC_Activations_thorough.cfg", "MC_Activations_long.cfg"] if thorough else ["MC_Activations.cfg"]
        files = []
        for cfg in cfgs:
            mc = ctx.tlc("MC_Activations", cfg, timeout=1800)
            spec_must_hold(mc, "MC_Activations/" + cfg)
            files.append(mc.cases_file)
        n = cat_files(b2_cases, files)
        ctx.exhaustive = True
        ctx.extra["scope"] = {"b2_cases": n, "configs": cfgs,
                              "dyadic_inputs": "k/%d for |x| <= 8, b +- m/4096 around the breakpoints, +-2^j" % (4096 if thorough else 64)}
    drift = None
    if run_b2:
        rep_file = ctx.path("activ_report.json")
        _, rep, _ = ctx.vh(["replay-activ", "-cases", b2_cases, "-out", rep_file], pkg="vh_activ", expect_report=rep_file)
        ctx.add_report(rep, "activ", traces=rep.get("cases", 0))
        ex = rep.get("extra", {})
        ctx.extra["code_registry"] = ex.get("code_registry")
        ctx.extra["b2_case_kinds"] = ex.get("case_kinds")
        if ex.get("open_behaviour_differs"):
            ctx.extra["open_behaviour_differs"] = ex["open_behaviour_differs"]
        if ex.get("failing_cases_by_signature"):
            ctx.extra["failing_cases_by_signature"] = ex["failing_cases_by_signature"]
        drift = ex.get("drift")
    # registrations ADDED under new type codes and new names leave everything the specification tabulates untouched: the
    # registry clauses (one-to-one, unknown -> error) and finiteness are still checked for them on the code, their closed forms
    # are not known to the specification - noted in the evidence, the property is decided for the tabulated registry
    import re
    added_only = bool(drift) and all(
        re.search(r"the code registers (type \d+ as|the name) ", d) or
        (d.startswith("default factory before any private registration:") and re.search(r"specification (gives \(\"\", error=true\)|expects value=false)", d))
        for d in drift)
    if drift and added_only:
        ctx.extra["registrations_beyond_the_specification"] = drift[:12]
        ctx.assumptions.append("activation functions registered under type codes / names the specification does not tabulate are checked for the "
                               "registry clauses and for finite values only (no closed form known for them)")
        drift = None
    if drift and not ctx.violations:
        raise Infra("the registry of the code differs from the registry table of spec/Activations.tla without breaking C18 "
                    "(a registration was added, removed or renamed): extend the specification (and the closed forms in "
                    "bin/gen_acttables.py) before this check can decide the property:\n  " + "\n  ".join(drift[:12]))
    if drift:
        ctx.extra["registry_drift"] = drift
    if run_grid:
        try:
            grid_phase(ctx, replay, points)
        except Infra as e:
            # a registry that already violates the property (found above on the real code) can also make the recording
            # unusable for the trace specification: the violation stands, the recording problem is noted
            if not ctx.violations:
                raise
            ctx.extra["grid_phase_not_decided"] = str(e)[:600]

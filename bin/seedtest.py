#!/usr/bin/env python3
"""bin/seedtest.py <seeded-dir> [--props C01,C03] [--tier quick] [--full-tests] [--no-confirm]

Development helper (not a registered check): evaluates one seeded change kept under /verif/seeded/<name>/
(patch.diff, demo_test.go, meta.json) in a scratch worktree of /repo outside /repo and /verif:
  1. the patch applies, `go build ./...` works, the existing tests of the touched packages (or all, --full-tests) pass;
  2. the demonstration fails with the patch and passes without it;
  3. the quick (or given tier) checks of the listed properties report a VIOLATION with VERIF_REPO pointing at the patched tree.
Results are written back into meta.json ("evaluation")."""
import argparse
import json
import os
import re
import shutil
import subprocess
import sys
import time

VERIF = os.path.dirname(os.path.dirname(os.path.abspath(__file__)))
ENV = dict(os.environ, GOFLAGS="-mod=mod", GOPROXY="off", GOSUMDB="off", GOTOOLCHAIN="local")


def sh(cmd, cwd, timeout=3600, env=None):
    p = subprocess.run(cmd, cwd=cwd, env=env or ENV, capture_output=True, text=True, timeout=timeout, shell=isinstance(cmd, str))
    return p.returncode, p.stdout + p.stderr


def apply_patch(wt, patch):
    """git apply; hook sites added to /repo after a patch was written can shift its context: fall back to a 3-way merge, then
    to patch(1) with fuzz."""
    rc, out = sh(["git", "apply", patch], wt)
    if rc == 0:
        return rc, out
    rc2, out2 = sh(["git", "apply", "--3way", patch], wt)
    if rc2 == 0:
        sh(["git", "reset", "-q"], wt)
        return 0, out2
    sh(["git", "checkout", "-q", "--", "."], wt)
    rc3, out3 = sh("patch -p1 --fuzz=3 --no-backup-if-mismatch < %s" % patch, wt)
    return rc3, out + out2 + out3


def main():
    ap = argparse.ArgumentParser()
    ap.add_argument("dir")
    ap.add_argument("--props")
    ap.add_argument("--tier", default="quick")
    ap.add_argument("--full-tests", action="store_true")
    ap.add_argument("--no-confirm", action="store_true", help="skip steps 1-2 (already confirmed)")
    ap.add_argument("--seed", default="1")
    a = ap.parse_args()
    d = os.path.abspath(a.dir)
    meta_path = os.path.join(d, "meta.json")
    meta = json.load(open(meta_path)) if os.path.exists(meta_path) else {}
    props = (a.props.split(",") if a.props else meta.get("checks_expected", [meta.get("property")]))
    scratch = "/tmp/scratch/seed-%d" % os.getpid()
    wt = os.path.join(scratch, "repo")
    os.makedirs(scratch, exist_ok=True)
    rc, out = sh(["git", "-C", "/repo", "worktree", "add", "--detach", wt, "HEAD"], "/")
    if rc != 0:
        print(out)
        return 2
    ev = {"when": time.strftime("%Y-%m-%d %H:%M"), "repo_head": sh(["git", "-C", "/repo", "log", "--format=%h", "-1"], "/")[1].strip()}
    try:
        patch = os.path.join(d, "patch.diff")
        demo = os.path.join(d, "demo_test.go")
        first = open(demo).readline() if os.path.exists(demo) else ""
        m = re.search(r"(neat/[\w/]+|experiment[\w/]*|examples/[\w/]+)", first)
        demo_pkg = m.group(1).rstrip("/") if m else None
        demo_dst = os.path.join(wt, demo_pkg, "zz_seeded_demo_test.go") if demo_pkg else None
        race = "-race" in first or meta.get("demo_race")
        if not a.no_confirm:
            if demo_dst:
                shutil.copy(demo, demo_dst)
                rc0, o0 = sh("go test %s -count=1 -run . ./%s/ 2>&1 | tail -15" % ("-race" if race else "", demo_pkg), wt)
                ev["demo_without_patch"] = "pass" if re.search(r"^ok\s", o0, re.M) and "FAIL" not in o0 else "FAIL"
                os.remove(demo_dst)
            rc, out = apply_patch(wt, patch)
            if rc != 0:
                print("patch does not apply:\n" + out)
                ev["patch_applies"] = False
                return 2
            ev["patch_applies"] = True
            rc, out = sh(["go", "build", "./..."], wt)
            ev["builds"] = rc == 0
            touched = sorted(set(os.path.dirname(l[6:]) for l in open(patch) if l.startswith("+++ b/")))
            pk = "./..." if a.full_tests else " ".join("./%s/..." % t.split("/")[0] if False else "./%s/" % t for t in touched)
            rc, out = sh("go test -count=1 -vet=off -timeout 25m %s 2>&1 | tail -12" % pk, wt, timeout=3000)
            ev["existing_tests"] = {"packages": pk, "result": "pass" if "FAIL" not in out and "ok" in out else "FAIL", "tail": out[-600:]}
            if demo_dst:
                shutil.copy(demo, demo_dst)
                rc1, o1 = sh("go test %s -count=1 -run . ./%s/ 2>&1 | tail -25" % ("-race" if race else "", demo_pkg), wt)
                ev["demo_with_patch"] = "FAIL" if "FAIL" in o1 else "pass"
                ev["demo_with_patch_tail"] = o1[-500:]
                os.remove(demo_dst)
        else:
            rc, out = apply_patch(wt, patch)
            if rc != 0:
                print("patch does not apply:\n" + out)
                return 2
        results = {}
        for p in props:
            env = dict(os.environ, VERIF_REPO=wt, VERIF_SEED=a.seed, VERIF_CORES=os.environ.get("VERIF_CORES", "6"))
            t0 = time.time()
            rc, out = sh([os.path.join(VERIF, "bin", "check"), "--property", p, "--tier", a.tier], VERIF, env=env, timeout=7200)
            lines = [l for l in out.splitlines() if l.startswith(("VIOLATION", "OK ", "INFRA", "  violation", "KNOWN"))]
            results[p] = {"exit": rc, "verdict": "caught" if rc == 1 else ("missed" if rc == 0 else "infra"), "wall_s": round(time.time() - t0, 1),
                          "lines": [l[:300] for l in lines[:4]]}
            print(p, results[p]["verdict"], (lines[0][:200] if lines else out[-300:]))
        ev["checks_%s" % a.tier] = results
    finally:
        sh(["git", "-C", "/repo", "worktree", "remove", "--force", wt], "/")
        shutil.rmtree(scratch, ignore_errors=True)
        sh(["git", "-C", "/repo", "worktree", "prune"], "/")
    if os.path.exists(meta_path):
        meta = json.load(open(meta_path))     # re-read: the file may have been edited while the checks ran
    meta.setdefault("evaluation", {}).update(ev)
    with open(meta_path, "w") as f:
        json.dump(meta, f, indent=1)
    print(json.dumps({k: v for k, v in ev.items() if not k.endswith("tail")}, indent=1)[:1500])
    return 0


if __name__ == "__main__":
    sys.exit(main())

"""C16: the parallel epoch executor is race-free and preserves the population guarantees.
(i) InnovPar.tla model-checked over all interleavings + every schedule forced on real goroutines (B3) and validated by
Trace_InnovPar; (ii) lock-set invariant on real access events (Trace_LockSet); (iii) Go race detector on free-running
parallel epochs; (iv) the C01/C02/C03 clauses of Trace_Epoch on parallel epochs."""
import json
import os
import re
import subprocess

from pipelines import pipeline, spec_must_hold, cat_files, write_lines, B1
from vlib import Infra, LibraryPanic, CORES
import pipe_epoch

TECH = ("TLA+ model checking (TLC) of the registry protocol over all interleavings + TLC schedules forced on real goroutines and "
        "validated by a TLC trace spec + TLC lock-set invariant on real access events; Go race detector on free-running runs as ground truth")


def read_fails(path):
    out = []
    with open(path) as f:
        for line in f:
            if line.strip():
                out.append(json.loads(line))
    return out


def forced_schedules(ctx, replay, prop, cfgs, sim_n, asfound=True, clauses=None):
    """(i) protocol: TLC enumerates every maximal behaviour of InnovPar for the given scenarios (plus sampled 3-thread ones),
    each schedule is forced on real goroutines through the gates, the outcomes are validated by Trace_InnovPar.  The clauses
    of Trace_InnovPar are named C16:...; they are reported for `prop` (C03 re-uses the stage for its "one meaning per number /
    issued numbers are fresh" sentences, which hold under either executor)."""
    sched_file = ctx.path("schedules.ndjson")
    if replay is not None:
        cases = [v["replay"]["failure"]["case"] for v in replay.get("violations", []) if v.get("replay", {}).get("kind") == "schedule"
                 and v["replay"].get("failure", {}).get("case")]
        write_lines(sched_file, cases)
    else:
        files = []
        for sc in cfgs:
            mc = ctx.tlc("MC_InnovPar", "MC_InnovPar_%s.cfg" % sc, timeout=1800, workers=4)
            spec_must_hold(mc, "MC_InnovPar/" + sc)
            files.append(mc.cases_file)
        if sim_n:
            sim = ctx.tlc("MC_InnovPar", "Sim_InnovPar_3.cfg", simulate="num=%d" % sim_n, depth=40,
                          extra=["-seed", str(ctx.seed)], timeout=1200, workers=1)
            spec_must_hold(sim, "MC_InnovPar/3 threads")
            files.append(sim.cases_file)
        if asfound:
            af = ctx.tlc("MC_InnovPar", "MC_InnovPar_asfound.cfg", timeout=600, workers=2, count=False)
            if af.violated != "RaceFree":
                raise Infra("the as-found variant of InnovPar (unprotected read) must violate RaceFree - the model lost its bite")
        cat_files(sched_file, files)
    if os.path.getsize(sched_file) > 0:
        outc = ctx.path("schedules.out.ndjson")
        rep_file = ctx.path("schedules.report.json")
        _, rep, _ = ctx.vh(["replay-schedules", "-cases", sched_file, "-out", outc, "-report", rep_file], pkg="vh_genome",
                           expect_report=rep_file, timeout=3000)
        ctx.add_report(rep, "schedule", traces=0)
        r = ctx.tlc("Trace_InnovPar", env={"TRACE": outc}, workers=1, timeout=1800)
        if not r.ok:
            raise Infra("Trace_InnovPar did not complete: %s\n%s" % (r.violated, r.output[-2000:]))
        ctx.traces += r.distinct - 1
        nonconf = 0
        lines = None
        for f in read_fails(r.cases_file):
            mine = [x for x in f["fails"] if x.startswith("C16:") and (clauses is None or any(c in x for c in clauses))]
            nonconf += len([x for x in f["fails"] if x.startswith("conf:")])
            if mine:
                if prop != "C16":
                    mine = [prop + x[3:] for x in mine]
                if lines is None:
                    with open(sched_file) as fh:
                        lines = fh.readlines()
                case = json.loads(lines[f["l"] - 1]) if f["l"] - 1 < len(lines) else None
                ctx.violation("schedule %s: %s" % (json.dumps(case.get("sched")) if case else f["l"], "; ".join(mine)),
                              "%s schedule %s" % (prop, mine[0]), {"kind": "schedule", "failure": {"case": case, "clauses": mine}})
        ctx.extra["schedule_nonconformance"] = nonconf
        both_miss = 0
        with open(sched_file) as fh:
            for i, line in enumerate(fh):
                c = json.loads(line)
                if i < 2 and prop == "C16":
                    ctx.samples.append({"scenario": c["scenario"], "sched": c["sched"], "out": c["out"]})
                if all(not o["reused"] for t in c["out"] for o in t):
                    both_miss += 1
        if prop == "C16":
            ctx.nontrivial += both_miss
        ctx.extra["forced_schedules"] = {"scenarios": cfgs, "both_miss": both_miss}


@pipeline("C16")
def c16(ctx, replay):
    thorough = ctx.tier == "thorough"
    ctx.rule = ("(i) schedules = every maximal behaviour of InnovPar for 2 threads (scenarios split-split, link-link, split-link, split-linksplit; thorough: "
                "also two mutations per thread and sampled 3-thread schedules), each forced on real goroutines calling the real "
                "mutateAddNode / mutateAddLink on a shared real Population through a gate at every primitive; outcomes validated by "
                "Trace_InnovPar; (i') every interleaving of the primitive calls the real mutators themselves make (2 threads exhaustively, 3 threads "
                "up to a cap; also with a pre-filled registry) found by a stateless search over which parked goroutine runs next, same "
                "validation; (ii) every access to the innovation record in sequential and parallel epochs probed for the mutex "
                "(Trace_LockSet); (iii) free-running parallel epochs under the Go race detector at GOMAXPROCS 1/4/16; (iv) parallel "
                "epochs of the C02 scenario matrix validated by Trace_Epoch (C01/C02/C03 clauses); non-trivial = schedules in which "
                "both threads looked the registry up before either stored (both miss)")
    ctx.assumptions = ["non-modular genomes (quantifier)",
                       "data-race freedom of the Go program is decided on observed executions (race detector) and by the lock-set probe; "
                       "TLC decides the protocol for all interleavings within the model's bounds",
                       "a schedule the real code does not follow is nonconformance (information), not a violation"]
    ctx.vh_binary(pkg="vh_genome")
    # ---------------------------------------------------------------- (i) protocol: model checking + schedule replay
    cfgs = ["split-split", "link-link", "split-link", "split-linksplit"] + (["two-each"] if thorough else [])
    forced_schedules(ctx, replay, "C16", cfgs, 3000 if thorough else 150)
    # ---------------------------------------------------------------- (i') exploration of the code's own interleavings
    # A stateless search over which parked goroutine to release next visits EVERY interleaving of the primitive calls the real
    # mutators make (however many they make), also with a pre-filled registry; outcomes are judged by Trace_InnovPar.
    if replay is None or any(v.get("replay", {}).get("kind") == "explored" for v in replay.get("violations", [])):
        exo = ctx.path("explored.out.ndjson")
        rep_file = ctx.path("explored.report.json")
        _, rep, _ = ctx.vh(["explore-schedules", "-out", exo, "-report", rep_file, "-max", "3000" if thorough else "400"], pkg="vh_genome",
                           expect_report=rep_file, timeout=3000)
        ctx.add_report(rep, "explored", traces=0)
        r = ctx.tlc("Trace_InnovPar", env={"TRACE": exo}, workers=1, timeout=1800)
        if not r.ok:
            raise Infra("Trace_InnovPar did not complete on explored schedules: %s\n%s" % (r.violated, r.output[-2000:]))
        ctx.traces += r.distinct - 1
        ctx.extra["explored_schedules"] = rep.get("extra", {}).get("schedules_per_scenario")
        lines = None
        for f in read_fails(r.cases_file):
            mine = [x for x in f["fails"] if x.startswith("C16:")]
            if mine:
                if lines is None:
                    with open(exo) as fh:
                        lines = fh.readlines()
                case = json.loads(lines[f["l"] - 1]) if f["l"] - 1 < len(lines) else {}
                ctx.violation("explored schedule %s of %s: %s (genes %s)" % (json.dumps(case.get("sched")), case.get("scenario"), "; ".join(mine),
                                                                              json.dumps([[m["genes"] for m in t] for t in case.get("real", [])])),
                              "C16 explored " + mine[0], {"kind": "explored", "failure": {"scenario": case.get("scenario"), "order": case.get("prefix"), "clauses": mine}})
    if replay is not None and not any(v.get("replay", {}).get("kind") in ("lockset", "race", "epochs") for v in replay.get("violations", [])):
        return
    try:
        stages_on_free_running_epochs(ctx, replay, thorough)
    except LibraryPanic as e:
        # a reproduction goroutine of the parallel executor panicked (the process cannot survive that): the executor did not
        # preserve the population guarantees on a population the harness evolved with it
        ctx.violation("the parallel executor's reproduction goroutine panicked while evolving an ordinary population (vh %s): %s"
                      % (" ".join(e.cmd_args[:1]), e.excerpt[:700]), "C16 goroutine panic",
                      {"kind": "epochs", "failure": {"args": e.cmd_args, "panic": e.excerpt}})


def stages_on_free_running_epochs(ctx, replay, thorough):
    # ---------------------------------------------------------------- (ii) lock-set on real accesses
    acc = ctx.path("access.ndjson")
    rep_file = ctx.path("access.report.json")
    _, rep, _ = ctx.vh(["record-access", "-out", acc, "-report", rep_file, "-epochs", "12" if thorough else "5"], pkg="vh_genome",
                       expect_report=rep_file, timeout=1800)
    ctx.evaluations += rep.get("evaluations", 0)
    r = ctx.tlc("Trace_LockSet", env={"TRACE": acc}, workers=1, timeout=600)
    if not r.ok:
        raise Infra("Trace_LockSet did not complete: %s\n%s" % (r.violated, r.output[-2000:]))
    for f in read_fails(r.cases_file):
        ctx.violation("%s (%s executor, %d accesses)" % ("; ".join(f["fails"]), f.get("executor"), f.get("n", 0)),
                      "C16 lockset " + f["fails"][0], {"kind": "lockset", "failure": f})
    ctx.extra["registry_reads_probed"] = rep.get("distinct_nontrivial", 0)
    # ---------------------------------------------------------------- (iii) race detector, free running
    races = []
    runs = 0
    for procs in (["1", "4", "16"] if not thorough else ["1", "2", "4", "8", "16"]):
        for k in range(1 if not thorough else 4):
            rep_file = ctx.path("race-%s-%d.json" % (procs, k))
            code, rep, out = ctx.vh(["race-epochs", "-report", rep_file, "-runs", "3" if not thorough else "6", "-epochs",
                                     "5" if not thorough else "12", "-seed", str(ctx.seed * 100 + k)] + (["-long"] if k == 0 and procs in ("4", "16") else []),
                                    pkg="vh_genome", race=True,
                                    env={"GOMAXPROCS": procs, "GORACE": "halt_on_error=0 exitcode=0"}, expect_report=rep_file, timeout=3000)
            runs += 1
            ctx.evaluations += rep.get("evaluations", 0)
            lr = (rep.get("extra") or {}).get("long_record_innovations_in_one_generation")
            if lr:
                ctx.extra.setdefault("longest_innovation_record_of_a_generation_in_race_runs", []).append(lr)
            for f in rep.get("failures", [])[:2]:
                ctx.violation("free-running parallel epochs at GOMAXPROCS=%s: %s" % (procs, f.get("what")), "C16 epoch error " + str(f.get("signature")),
                              {"kind": "race", "gomaxprocs": procs, "failure": f})
            n = out.count("WARNING: DATA RACE")
            if n:
                first = out[out.index("WARNING: DATA RACE"):][:3000]
                funcs = sorted(set(re.findall(r"genetics\.\(\*?(\w+)\)\.(\w+)\(\)", first)))
                races.append((procs, n, first, funcs))
    # the log level is an option setting too: code that only runs at level debug is executed by the goroutines as well
    for k in range(1 if not thorough else 3):
        rep_file = ctx.path("race-debug-%d.json" % k)
        code, rep, out = ctx.vh(["race-epochs", "-report", rep_file, "-runs", "1" if not thorough else "3", "-epochs", "2" if not thorough else "5",
                                 "-seed", str(ctx.seed * 100 + 50 + k), "-loglevel", "debug"], pkg="vh_genome", race=True,
                                env={"GOMAXPROCS": "4", "GORACE": "halt_on_error=0 exitcode=0"}, expect_report=rep_file, timeout=3000)
        runs += 1
        ctx.evaluations += rep.get("evaluations", 0)
        n = out.count("WARNING: DATA RACE")
        if n:
            first = out[out.index("WARNING: DATA RACE"):][:3000]
            funcs = sorted(set(re.findall(r"genetics\.\(\*?(\w+)\)\.(\w+)\(\)", first)))
            races.append(("4, log level debug", n, first, funcs))
    for procs, n, first, funcs in races[:3]:
        top = ",".join("%s.%s" % f for f in funcs[:4])
        ctx.violation("Go race detector: %d data race report(s) in free-running parallel epochs at GOMAXPROCS=%s (%s)" % (n, procs, top),
                      "C16 race " + top, {"kind": "race", "gomaxprocs": procs, "report": first})
    ctx.extra["race_detector_runs"] = runs
    # ---------------------------------------------------------------- (iv) population guarantees under the parallel executor
    st = epoch_traces_all(ctx, replay)
    ctx.extra["parallel_epochs_validated"] = st.get("epochs:par", 0)


def epoch_traces_all(ctx, replay):
    """Like pipe_epoch.epoch_traces, but every C01/C02/C03 clause violated under the parallel executor is a C16 violation."""
    groups = None
    if replay is not None:
        scs = []
        for v in replay.get("violations", []):
            p = v.get("replay", {})
            if p.get("kind") == "epochs" and p.get("scenario") and p["scenario"] not in scs:
                scs.append(p["scenario"])
        groups = [[s] for s in scs[:12]]
    else:
        scs = [dict(sc, executor="par") for i, sc in enumerate(pipe_epoch.scenarios(ctx.seed, ctx.tier))
               if i % 2 == 0 or sc["executor"] == "par"]
        groups = pipe_epoch.chunk(scs, 900 if ctx.tier == "quick" else 2500)
    if not groups:
        return {}
    from concurrent.futures import ThreadPoolExecutor
    with ThreadPoolExecutor(max_workers=max(2, min(CORES - 2, 12))) as ex:
        # "all processor counts": the recorder processes run with 1, 2 and all processors in turn
        procs = [None, {"GOMAXPROCS": "1"}, {"GOMAXPROCS": "2"}]
        results = list(ex.map(lambda a: pipe_epoch.record_and_validate(ctx, a[0] + 300, a[1], env=procs[a[0] % 3] if len(groups) > 1 else procs[1]),
                              enumerate(groups)))
    stats = {}
    for res in results:
        ctx.traces += len(res["scs"])
        ctx.evaluations += res["events"]
        for k, v in res["rep"].get("extra", {}).get("stats", {}).items():
            stats[k] = stats.get(k, 0) + v
        for f in res["fails"]:
            mine = [x for x in f["fails"] if x[:4] in ("C01:", "C02:", "C03:")]
            if mine:
                sc, ev = pipe_epoch.scenario_of_line(res["trace"], f["l"])
                if sc and sc.get("executor") != "par":
                    continue
                ctx.violation("parallel executor, scenario %s, generation %s: %s" % (json.dumps(sc), f.get("gen", "construction"), "; ".join(mine)),
                              "C16 epoch " + mine[0], {"kind": "epochs", "scenario": sc, "line": f["l"], "clauses": mine, "event": ev})
    return stats


CHECKS = {
 "C16": dict(text="InnovPar.tla specifies the shared innovation-registry protocol (lookup snapshot, atomic counters, store under the mutex) with one action per primitive call; TLC checks one-meaning-per-number, fresh numbers, one split per node id and the lock-set invariant over ALL interleavings of 2 threads (and sampled 3-thread behaviours), and every one of these schedules is forced on real goroutines running the real mutators against a shared real Population (gate at every primitive), the real outcomes being validated by Trace_InnovPar; in addition the harness explores every interleaving of the primitive calls the code itself makes (independent of the model's step structure, also with a pre-filled registry) and TLC validates those outcomes with the same trace specification. The lock-set invariant is also evaluated on real access events of sequential and parallel epochs (mutex probe at the hook sites), the Go race detector watches free-running parallel epochs at several GOMAXPROCS, and the parallel epochs of the C02 scenario matrix are validated by Trace_Epoch for the C01/C02/C03 clauses.",
             note="Exhaustive: all interleavings of 2 threads x 1 mutation (3 scenarios; thorough also 2 mutations each), each replayed on real goroutines; 3 threads sampled (150 / 3000 schedules). Data-race freedom of the Go program itself is decided on observed free-running executions by the race detector plus the lock-set probe, not for every schedule (the gates of a forced schedule synchronise, so forced schedules cannot show races). Trusted: TLC, the Go race detector, the gate wrapper.",
             technique=TECH, ref="DESIGN.md 7/C16"),
}

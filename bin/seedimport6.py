#!/usr/bin/env python3
"""seedimport6.py <prop> <A|B> [checks,comma]  -- imports /tmp/mut6/<prop>/<v> as seeded/<prop>-r6<v> (summary = head of notes.md)"""
import json, os, re, shutil, sys
p, v = sys.argv[1:3]
checks = sys.argv[3] if len(sys.argv) > 3 else p
src = "/tmp/mut6/%s/%s" % (p, v)
d = "/verif/seeded/%s-r6%s" % (p, v)
os.makedirs(d, exist_ok=True)
for f in ("patch.diff", "demo_test.go", "notes.md"):
    if os.path.exists(os.path.join(src, f)):
        shutil.copy(os.path.join(src, f), d)
notes = open(os.path.join(d, "notes.md")).read() if os.path.exists(os.path.join(d, "notes.md")) else ""
summary = " ".join(re.sub(r"[#*`]", "", notes).split())[:600]
mp = os.path.join(d, "meta.json")
m = json.load(open(mp)) if os.path.exists(mp) else {}
m.update({"property": p, "checks_expected": checks.split(","),
     "origin": "sixth-round sub-agent given only the property text, its own scratch worktree and one-line summaries of the earlier rounds' ideas to avoid",
     "files_touched": sorted(set(l[6:].strip() for l in open(os.path.join(d, "patch.diff")) if l.startswith("+++ b/")))})
m.setdefault("summary", summary)
json.dump(m, open(mp, "w"), indent=1)
print(d)

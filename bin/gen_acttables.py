#!/usr/bin/env python3-vt
"""C18: generates the input grid of the activation-function check and the TLA+ module ActTables.tla holding, for every
activation with a transcendental / inexact closed form, one integer interval [lo,hi] (units 2^-28) per grid point that
contains the value of the closed-form definition.  The closed forms are taken from the names and doc comments of
neat/math/activations.go (NOT from running the code); they are evaluated with mpmath at 60 significant digits
(1400 bits for the sine of huge arguments).  The module is the oracle of the trace specification
spec/Trace_Activations.tla (DESIGN.md 7/C18, float strategy P4).

usage: gen_acttables.py --tier quick|thorough --seed N --out-tla ActTables.tla --out-grid grid.ndjson [--points f]
  --points f : instead of the tier's grid use the float64 bit patterns (16 hex digits, one per line) listed in f.
Needs mpmath (interpreter python3-vt)."""
import argparse
import json
import math
import random
import struct
import sys

try:
    import mpmath
    from mpmath import mp, mpf
except ImportError:                                         # pragma: no cover
    sys.stderr.write("gen_acttables: mpmath is not available in this interpreter (run with python3-vt)\n")
    sys.exit(3)

UNIT = 28                     # table unit 2^-28
XMAX = 1e300                  # quantifier of C18: |x| <= 1e300
DELTA = None                  # set in main(): bound on the mpmath evaluation error


def bits(x):
    return struct.unpack(">Q", struct.pack(">d", x))[0]


def frombits(b):
    return struct.unpack(">d", struct.pack(">Q", b))[0]


def chunks(x):
    """float64 -> (sign, c1, c2, c3): magnitude bits 62..42, 41..21, 20..0 (order of |x| = lexicographic order)."""
    b = bits(x)
    mag = b & ((1 << 63) - 1)
    return (b >> 63, mag >> 42, (mag >> 21) & ((1 << 21) - 1), mag & ((1 << 21) - 1))


def nextafter_n(x, n):
    """n float64 steps up (n>0) or down (n<0) from x, walking through zero as math.nextafter does"""
    for _ in range(abs(n)):
        x = math.nextafter(x, math.inf if n > 0 else -math.inf)
    return x


# ---------------------------------------------------------------------------------------------------------- the grid
def build_grid(tier, seed):
    thorough = tier == "thorough"
    pts = {0.0}

    def add(x):
        x = float(x)
        if x == 0.0:
            x = 0.0                                   # -0.0 is excluded from the domain (DESIGN.md section 9)
        if math.isfinite(x) and abs(x) <= XMAX:
            pts.add(x)

    def both(x):
        add(x)
        add(-x)

    # dense near zero and over the squashing ranges of all forms
    den, top = (64, 16) if thorough else (16, 12)
    for k in range(1, den * top + 1):
        both(k / den)
    # breakpoints of the piecewise forms, centres of the shifted sigmoids, and their neighbourhoods
    bps = [0.0, 0.5, 1.0, 2.0, 4.0, 2.4621365, 2.4621365 / 4.924273, 8.0]
    for b in bps:
        for j in range(2, 54, 2 if thorough else 6):
            for sg in (1, -1):
                both(b + sg * 2.0 ** -j)
        for n in range(-4, 5):
            both(nextafter_n(b, n))
    # smallest magnitudes
    for x in (5e-324, 1e-323, 2.2250738585072014e-308, 2.225073858507201e-308, 1e-300, 1e-200, 1e-100, 1e-30):
        both(x)
    # geometric sweeps up to the limit of the quantifier
    d10 = 8 if thorough else 1
    for k in range(-300 * d10, 300 * d10 + 1):
        both(10.0 ** (k / d10))
    for j in range(-1074, 997, 1 if thorough else 8):
        both(2.0 ** j)
    both(XMAX)
    both(nextafter_n(XMAX, -1))
    # saturation regions: where exp() over/underflows or 1+exp() rounds to 1 for each steepness in use
    step = 0.25 if thorough else 1.0
    x = 5.0
    while x <= 160.0:
        both(x)
        x += step
    x = 160.0
    while x <= 1700.0:
        both(x)
        x += 5.0 if thorough else 20.0
    for thr in (709.782712893384, 745.1332191019412, 36.7368005696771, 37.42994775023705, 19.061547465398498, 18.714973875118524):
        for kk in (1.0, 0.5, 4.924273, 0.9, 2.5, 2.0):
            for off in (-1.0, -1e-3, -1e-9, 0.0, 1e-9, 1e-3, 1.0):
                both(thr / kk + off)
                both((thr - 2.4621365) / kk + off)
                both((thr + 2.4621365) / kk + off)
    for thr in (26.0, 27.3, 38.6):                   # sqrt of the exp thresholds for the gaussians
        both(thr)
        both(thr / 2.5)
    # seeded random points: log-uniform magnitudes with random mantissas, and uniform points in the squashing ranges
    rnd = random.Random(1000003 * seed + (7 if thorough else 3))
    for _ in range(12000 if thorough else 300):
        e = rnd.uniform(-320, 300)
        add(rnd.choice((1, -1)) * rnd.uniform(1, 10) * 10.0 ** e)
    for _ in range(12000 if thorough else 300):
        add(rnd.uniform(-9, 9))
    for _ in range(3000 if thorough else 100):
        add(rnd.choice(bps) * rnd.choice((1, -1)) + rnd.uniform(-1, 1) * 2.0 ** -rnd.randint(1, 50))
    return sorted(pts)


# ------------------------------------------------------------------------------------------------ closed-form definitions
# every definition returns an enclosure (ylo, yhi) of the exact real value at the float64 input x (as mpf)
BIG = 5000      # |argument| beyond which exp() is replaced by its limit (e^-5000 << 2^-120)


def around(y):
    return (y - DELTA, y + DELTA)


def logistic(t):
    """1/(1+e^-t)"""
    if t > BIG:
        return (1 - DELTA, mpf(1))
    if t < -BIG:
        return (mpf(0), DELTA)
    return around(1 / (1 + mpmath.exp(-t)))


def gauss(t2):
    """e^-t2 for t2 >= 0"""
    if t2 > BIG:
        return (mpf(0), DELTA)
    return around(mpmath.exp(-t2))


def shift(iv, a, b):
    return (a * iv[0] + b, a * iv[1] + b)


K = mpf("4.924273")
S = mpf("2.4621365")


def approx_sigmoid(x):
    if x < -4:
        return mpf(0)
    if x < 0:
        return (x + 4) ** 2 / 32
    if x < 4:
        return 1 - (x - 4) ** 2 / 32
    return mpf(1)


def approx_steep(x):
    if x < -1:
        return mpf(0)
    if x < 0:
        return (x + 1) ** 2 / 2
    if x < 1:
        return 1 - (x - 1) ** 2 / 2
    return mpf(1)


def sine2(x):
    if abs(x) > 1e6:
        old = mp.prec
        mp.prec = 1400                                 # 2x has up to ~1000 integer bits; keeps > 300 fractional bits
        try:
            y = mpmath.sin(2 * x)
        finally:
            mp.prec = old
        return around(+y)
    return around(mpmath.sin(2 * x))


def tanh09(x):
    t = mpf("0.9") * x
    if t > BIG:
        return (1 - DELTA, mpf(1))
    if t < -BIG:
        return (mpf(-1), -1 + DELTA)
    return around(mpmath.tanh(t))


# name -> (closed form as text, function)
FORMS = [
    ("SigmoidPlainActivation", "1/(1+exp(-x))", lambda x: logistic(x)),
    ("SigmoidReducedActivation", "1/(1+exp(-x/2))", lambda x: logistic(x / 2)),
    ("SigmoidBipolarActivation", "2/(1+exp(-4.924273 x)) - 1", lambda x: shift(logistic(K * x), 2, -1)),
    ("SigmoidSteepenedActivation", "1/(1+exp(-4.924273 x))", lambda x: logistic(K * x)),
    ("SigmoidApproximationActivation", "0 | (x+4)^2/32 | 1-(x-4)^2/32 | 1 with breakpoints -4, 0, 4",
     lambda x: around(approx_sigmoid(x))),
    ("SigmoidSteepenedApproximationActivation", "0 | (x+1)^2/2 | 1-(x-1)^2/2 | 1 with breakpoints -1, 0, 1",
     lambda x: around(approx_steep(x))),
    ("SigmoidInverseAbsoluteActivation", "1/2 + x/(2(1+|x|))", lambda x: around(mpf("0.5") + x / (2 * (1 + abs(x))))),
    ("SigmoidLeftShiftedActivation", "1/(1+exp(-x-2.4621365))", lambda x: logistic(x + S)),
    ("SigmoidLeftShiftedSteepenedActivation", "1/(1+exp(-(4.924273 x+2.4621365)))", lambda x: logistic(K * x + S)),
    ("SigmoidRightShiftedSteepenedActivation", "1/(1+exp(-(4.924273 x-2.4621365)))", lambda x: logistic(K * x - S)),
    ("TanhActivation", "tanh(0.9 x)", tanh09),
    ("GaussianBipolarActivation", "2 exp(-(2.5 x)^2) - 1", lambda x: shift(gauss((mpf("2.5") * x) ** 2), 2, -1)),
    ("GaussianActivation", "exp(-x^2)", lambda x: gauss(x * x)),
    ("SineActivation", "sin(2 x)", sine2),
]


def interval(iv):
    lo, hi = iv
    return int(mpmath.floor(lo * 2 ** UNIT)) - 1, int(mpmath.floor(hi * 2 ** UNIT)) + 1


def main():
    global DELTA
    ap = argparse.ArgumentParser()
    ap.add_argument("--tier", default="quick")
    ap.add_argument("--seed", type=int, default=1)
    ap.add_argument("--out-tla", required=True)
    ap.add_argument("--out-grid", required=True)
    ap.add_argument("--points")
    a = ap.parse_args()
    mp.dps = 60
    DELTA = mpf(2) ** -120
    if a.points:
        pts = set()
        with open(a.points) as f:
            for line in f:
                line = line.strip()
                if line:
                    x = frombits(int(line, 16))
                    if math.isfinite(x) and abs(x) <= XMAX and bits(x) != 1 << 63:
                        pts.add(x)
        grid = sorted(pts)
    else:
        grid = build_grid(a.tier, a.seed)
    if not grid:
        sys.stderr.write("gen_acttables: empty grid\n")
        return 3
    with open(a.out_grid, "w") as f:
        for k, x in enumerate(grid, 1):
            f.write(json.dumps({"k": k, "hex": "%016x" % bits(x)}) + "\n")
    with open(a.out_tla, "w") as f:
        f.write("----------------------------- MODULE ActTables -----------------------------\n")
        f.write("(* GENERATED by bin/gen_acttables.py (tier %s, seed %d) - do not edit.                                   *)\n" % (a.tier, a.seed))
        f.write("(* GridX[k] is the k-th input (ascending) as <<sign, c1, c2, c3>> (see Activations.tla, float encoding).   *)\n")
        f.write("(* Tab[name][k] = <<lo, hi>>: the closed form of activation `name` at GridX[k], times 2^TabUnit, lies in    *)\n")
        f.write("(* [lo+1, hi-1] (evaluated with mpmath, %d digits); the extra unit on each side is the stated tolerance.    *)\n" % mp.dps)
        f.write("EXTENDS Integers\n")
        f.write("TabUnit == %d\nGridN == %d\n" % (UNIT, len(grid)))
        f.write("GridX == <<\n" + ",\n".join("<<%d,%d,%d,%d>>" % chunks(x) for x in grid) + ">>\n")
        for name, text, fn in FORMS:
            rows = []
            for x in grid:
                lo, hi = interval(fn(mpf(x)))
                if not (-2 ** 30 < lo <= hi < 2 ** 30):
                    sys.stderr.write("gen_acttables: interval out of the 32-bit range for %s at %r\n" % (name, x))
                    return 3
                rows.append("<<%d,%d>>" % (lo, hi))
            f.write("\\* %s(x) = %s\n" % (name, text))
            f.write("Tab_%s == <<\n%s>>\n" % (name, ",\n".join(rows)))
        f.write("Tab == [%s]\n" % ",\n        ".join("%s |-> Tab_%s" % (n, n) for n, _, _ in FORMS))
        f.write("ClosedForm == [%s]\n" % ",\n        ".join('%s |-> "%s"' % (n, t) for n, t, _ in FORMS))
        f.write("=============================================================================\n")
    print(json.dumps({"points": len(grid), "functions": len(FORMS)}))
    return 0


if __name__ == "__main__":
    sys.exit(main())

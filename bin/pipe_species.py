"""Checks C08 (speciation) and C09 (offspring quotas): TLC model checking of Speciation.tla / Quota.tla, TLC-generated
behaviours replayed on the real population code (binding B2), and real constructors / epochs recorded and validated by
the trace specifications Trace_Speciation / Trace_Quota (binding B1)."""
import json
import os
import re

from pipelines import pipeline, cat_files, spec_must_hold, write_lines, replay_cases, B2
from vlib import Infra

CHECKS = {
 "C08": dict(
  text="Speciation.tla states the rule (nearest representative among those closer than the threshold, else a new species with id LastSpecies+1) and transcribes Population.speciate; TLC checks the transcription against the rule, the partition, the founder-or-within-threshold consequence and id freshness for every existing population, batch, arrival order and threshold in scope, and emits every behaviour; each is rebuilt from real genomes/organisms/species and run through the real speciate under both compatibility methods (whole batch and organism by organism) comparing every organism's species, LastSpecies, membership lists and back pointers. In addition every speciate call of real constructors (NewPopulation, NewPopulationRandom, ReadPopulation), of the reproduction phase of both epoch executors and of evolved populations receiving foreign organisms is recorded with distances recomputed from the definition and validated by the TLC trace specification Trace_Speciation.",
  note="Exhaustive: genomes = every subset of 3 innovation numbers (quick; 4 thorough), up to 2-3 existing species with 1-2 members, batches of 2-3 arrivals in every order, thresholds straddling the distances including distance = threshold, integer/dyadic coefficients so that every float operation is exact. Larger scopes (5 innovation numbers, 4 species, 6 arrivals) by TLC simulation. Real evolved populations are sampled (seeded); there the arrival order inside an epoch is not observable, so epochs are checked for the consequence clause, 'no closer pre-existing species' and id freshness, while constructors and direct calls are re-executed arrival by arrival (fixed point 2^-20, tolerance 2 units). Trusted: TLC, the replayer's construction of populations, the recorder's independent distance function.",
  technique=B2 + " + " + "TLA+ trace validation (TLC) of recorded executions", ref="DESIGN.md 7/C08"),
 "C09": dict(
  text="Quota.tla transcribes the preparation phase of an epoch in exact integer arithmetic (adjustFitness: stagnation penalty, youth boost, sharing, parent cut-off; expected offspring = shared adjusted fitness / population mean; countOffspring floor-and-carry in species order; make-up offspring / population-died fallback; zero-quota purge; species sort and population stagnation; stolen babies; delta coding). TLC checks on every population in scope that quotas total the population size after every stage, that every quota is within one of its members' expected offspring (plus the single make-up offspring), the parent cut-off floor(t*n)+1 and the zero-quota purge, and emits every behaviour with every admissible float64 loss vector; each is installed in a real Population and run through the real adjustFitness / purgeZeroOffspringSpecies (compared after each), the real prepareForReproduction + Species.reproduce per species (offspring per species = quota) and the three executor phases of a whole epoch. In addition real populations evolved with real-valued fitness families under randomised options are recorded after the preparation phase and validated by the TLC trace specification Trace_Quota (fixed point 2^-20).",
  note="Exhaustive: populations of up to 6 organisms (quick; 8 thorough) in up to 3 (4) species, every multiset of raw fitness over 0..2 or 0..3 with at least one positive value, age classes covering fresh / stagnant / debt-exactly-0 / age 10 vs 11 / improving-now, survival thresholds 1/4, 1/2, 3/4, 1, babies stolen 1..N/2, population one or two epochs before delta coding; the coin of giveBabiesToTheBest (4th sorted species) is forced through the seed. A large-steal family (populations of 20 / 22 in 3-4 species of fixed sizes, one raw fitness per species, BabiesStolen 10 / 11 so that the hand-out blocks are 2, 2, 1 and the stolen pool can be smaller than a block) is enumerated with all robbable / not robbable / dying age-class combinations. Populations of 7..10 organisms in up to 5 species by TLC simulation. float64: where the exact cumulative expectation at a species boundary is an integer the floor may come out one lower - both outcomes are enumerated and the one the real arithmetic takes is compared exactly, except on inputs where every float operation is provably exact (no 0.01 penalty, power-of-two sizes, dyadic mean and expectations), where no loss is accepted; per-organism values to 1e-9 relative. Who receives stolen babies / the make-up offspring, the species order and the stagnation bookkeeping are compared too but only reported (the statement demands totals). Real-valued fitness is sampled (seeded), tolerance 4 units of 2^-20. Trusted: TLC, the replayer's construction of populations.",
  technique=B2 + " + " + "TLA+ trace validation (TLC) of recorded executions", ref="DESIGN.md 7/C09"),
}


def _trace_violation(ctx, r, trace_file, prop_inv):
    """Describe the offending line of a rejected trace (TLC stops at the first line whose verdict is false)."""
    idx = None
    try:
        idx = int(r.last_state.get("i", "").strip())
    except ValueError:
        pass
    ev = None
    if idx:
        with open(trace_file) as f:
            for n, line in enumerate(f, 1):
                if n == idx:
                    try:
                        ev = json.loads(line)
                    except ValueError:
                        ev = None
                    break
    return idx, ev


# ------------------------------------------------------------------------------------------------ C08
def _c08_record(ctx, scenarios, epochs, seed, tag):
    trace = ctx.path("spec_trace_%s.ndjson" % tag)
    rep_file = ctx.path("spec_rec_%s.json" % tag)
    _, rep, _ = ctx.vh(["rec-speciation", "-out", trace, "-report", rep_file, "-scenarios", str(scenarios),
                        "-epochs", str(epochs)], pkg="vh_species", expect_report=rep_file, env={"VERIF_SEED": str(seed)})
    r = ctx.tlc("Trace_Speciation", env={"TRACE": trace}, workers=1, timeout=1500)
    return trace, rep, r


@pipeline("C08")
def c08(ctx, replay):
    thorough = ctx.tier == "thorough"
    ctx.rule = ("B2 cases = behaviours of MC_Speciation (existing species with representative genomes over K innovation "
                "numbers, a batch arriving in some order, coefficients/threshold from a palette incl. distance = "
                "threshold), replayed through the real speciate with both compatibility methods, as one batch and one "
                "organism per call; B1 events = one per speciate call observed on real constructors / epochs / direct "
                "calls; non-trivial = behaviour or event in which some organism joined a species other than the first "
                "compatible one in list order, or founded a species while other species existed")
    ctx.assumptions = ["thresholds > 0, genes sorted by innovation number (quantifiers of C08 / C07)",
                       "model distances are exact in float64 (integer / dyadic coefficients, one mutation number per genome)",
                       "real distances: recomputed from the definition, fixed point 2^-20, tolerance 2 units - within it "
                       "either decision is accepted",
                       "several equally close species: any of them is accepted (the code takes the first)"]
    cases_file = ctx.path("spec_cases.ndjson")
    b1 = None
    if replay is not None:
        write_lines(cases_file, replay_cases(replay))
        for v in replay.get("violations", []):
            p = v.get("replay", {})
            if p.get("kind") == "speciation-trace":
                b1 = p
    else:
        runs = []
        cfgs = ["MC_Speciation.cfg", "MC_Speciation_hole.cfg"]
        if thorough:
            cfgs += ["MC_Speciation_thorough.cfg", "MC_Speciation_deep.cfg"]
        for cfg in cfgs:
            mc = ctx.tlc("MC_Speciation", cfg, timeout=2400)
            spec_must_hold(mc, cfg)
            runs.append(mc.cases_file)
        sim = ctx.tlc("MC_Speciation", "Sim_Speciation.cfg", simulate="num=%d" % (250 if thorough else 12), depth=14,
                      workers=4, extra=["-seed", str(ctx.seed)], timeout=1800)
        spec_must_hold(sim, "Sim_Speciation")
        runs.append(sim.cases_file)
        n = cat_files(cases_file, runs)
        ctx.exhaustive = True
        ctx.extra["scope"] = {"behaviours": n, "configs": cfgs,
                              "bfs": "K=3: <=2 species x 3 arrivals (coefficients 1/1/0, thr 2.0), <=1 x 2 with mutation numbers"
                                     + ("; K=4: <=2 x 2 over 6 parameter sets; K=3: <=3 x 3" if thorough else ""),
                              "simulate": "K=5, <=4 species, 6 arrivals, 8 parameter sets"}
    if replay is None or os.path.getsize(cases_file) > 0:
        rep_file = ctx.path("spec_report.json")
        _, rep, _ = ctx.vh(["replay-speciation", "-cases", cases_file, "-out", rep_file], pkg="vh_species",
                           expect_report=rep_file, timeout=3000)
        ctx.add_report(rep, "speciation", traces=rep.get("cases", 0))
        ctx.extra["b2"] = rep.get("extra", {})
    # ---- B1: recorded speciate calls validated by Trace_Speciation
    if replay is not None and b1 is None:
        return
    scen, epochs = (600, 14) if thorough else (60, 8)
    seed = ctx.seed
    if b1 is not None:
        scen, epochs, seed = b1["scenarios"], b1["epochs"], b1["seed"]
    trace, rep, r = _c08_record(ctx, scen, epochs, seed, "a")
    if r.violated:
        idx, ev = _trace_violation(ctx, r, trace, "Inv_C08")
        # re-confirm once (the parallel executor may deliver babies in another order: the verdict must not depend on it)
        trace2, _, r2 = _c08_record(ctx, scen, epochs, seed, "b")
        if not r2.violated:
            raise Infra("Trace_Speciation rejected line %s of a recorded trace but the re-recorded run was accepted "
                        "(unreproduced counterexample)" % idx)
        idx, ev = _trace_violation(ctx, r2, trace2, "Inv_C08")
        m = re.search(r"at \|-> (\d+)", r2.last_state.get("verdict", ""))
        what = ("recorded speciate call #%s (%s) is rejected by Trace_Speciation (%s): organism #%s of the call is not in "
                "the nearest compatible species / was not entitled to found one / ids are not fresh" % (
                    idx, (ev or {}).get("src"), r2.violated, m.group(1) if m else "?"))
        ctx.violation(what, "speciation-trace %s" % (ev or {}).get("src"),
                      {"kind": "speciation-trace", "seed": seed, "scenarios": scen, "epochs": epochs,
                       "line": idx, "event": ev if ev and len(json.dumps(ev)) < 20000 else None,
                       "failure": {"what": what}})
    elif not r.ok:
        raise Infra("Trace_Speciation did not accept the trace:\n" + r.output[-2000:])
    ctx.evaluations += rep.get("evaluations", 0)
    ctx.nontrivial += rep.get("distinct_nontrivial", 0)
    ctx.traces += rep.get("cases", 0)
    for s in rep.get("samples", [])[:1]:
        ctx.samples.append(s)
    ctx.extra["b1"] = rep.get("extra", {})
    ctx.extra["b1"]["speciate_calls_validated"] = rep.get("cases", 0)
    ctx.extra["b1"]["organisms_assigned"] = rep.get("evaluations", 0)


# ------------------------------------------------------------------------------------------------ C09
def _c09_record(ctx, scenarios, epochs, seed, tag):
    trace = ctx.path("quota_trace_%s.ndjson" % tag)
    rep_file = ctx.path("quota_rec_%s.json" % tag)
    _, rep, _ = ctx.vh(["rec-quota", "-out", trace, "-report", rep_file, "-scenarios", str(scenarios),
                        "-epochs", str(epochs)], pkg="vh_species", expect_report=rep_file, env={"VERIF_SEED": str(seed)})
    r = ctx.tlc("Trace_Quota", env={"TRACE": trace}, workers=1, timeout=1500)
    return trace, rep, r


@pipeline("C09")
def c09(ctx, replay):
    thorough = ctx.tier == "thorough"
    ctx.rule = ("B2 cases = behaviours of MC_Quota (population of species with integer raw fitness / ages / stagnation state, "
                "options, loss vector, coin) compared under the loss vector the real float64 arithmetic takes; B1 events = "
                "one per epoch of a real population with real-valued fitness; non-trivial = a fraction of an expected "
                "offspring is carried over a species boundary, or a make-up offspring is given, or babies are actually "
                "stolen, or delta coding fires")
    ctx.assumptions = ["finite non-negative fitness with at least one positive value; survival threshold in (0,1]; babies "
                       "stolen 0..N/2 (quantifier of C09)",
                       "float64 floor at an exact integer boundary of the cumulative expectation may be one lower: both "
                       "outcomes are modelled, the one taken is compared exactly",
                       "per-organism adjusted fitness / expected offspring compared to 1e-9 relative; real-valued runs: "
                       "fixed point 2^-20, tolerance 4 units",
                       "recipient of stolen babies / make-up offspring, species order, stagnation bookkeeping: reported, "
                       "not alarmed (the statement demands totals)"]
    cases_file = ctx.path("quota_cases.ndjson")
    b1 = None
    if replay is not None:
        write_lines(cases_file, replay_cases(replay))
        for v in replay.get("violations", []):
            p = v.get("replay", {})
            if p.get("kind") == "quota-trace":
                b1 = p
    else:
        cfg = "MC_Quota_thorough.cfg" if thorough else "MC_Quota.cfg"
        mc = ctx.tlc("MC_Quota", cfg, timeout=3000)
        spec_must_hold(mc, cfg)
        n = cat_files(cases_file, [mc.cases_file])
        ctx.exhaustive = True
        ctx.extra["scope"] = {"behaviours": n, "config": cfg}
    if replay is None or os.path.getsize(cases_file) > 0:
        rep_file = ctx.path("quota_report.json")
        _, rep, _ = ctx.vh(["replay-quota", "-cases", cases_file, "-out", rep_file], pkg="vh_species",
                           expect_report=rep_file, timeout=3000)
        ex = rep.get("extra", {})
        if replay is None and ex.get("inputs_without_matching_behaviour", 0) and not rep.get("failures"):
            raise Infra("MC_Quota: %d inputs were not compared under any loss vector (the model of float64 loss is "
                        "incomplete): %s" % (ex["inputs_without_matching_behaviour"], ex.get("unmatched_sample")))
        ctx.add_report(rep, "quota", traces=ex.get("behaviours_compared", 0))
        ctx.extra["b2"] = ex
    if replay is None:
        # larger populations (7..10 organisms, up to 5 species, all age classes and modes) by TLC simulation; a simulated
        # behaviour fixes ONE loss vector at random, so only those that agree with the real arithmetic are compared
        sim = ctx.tlc("MC_Quota", "Sim_Quota.cfg", simulate="num=%d" % (1000 if thorough else 12), depth=14, workers=8 if thorough else 4,
                      extra=["-seed", str(ctx.seed)], timeout=1800)
        spec_must_hold(sim, "Sim_Quota")
        sim_rep_file = ctx.path("quota_sim_report.json")
        _, srep, _ = ctx.vh(["replay-quota", "-cases", sim.cases_file, "-out", sim_rep_file], pkg="vh_species",
                            expect_report=sim_rep_file, timeout=3000)
        ctx.add_report(srep, "quota", traces=srep.get("extra", {}).get("behaviours_compared", 0))
        ctx.extra["b2_simulated"] = srep.get("extra", {})
        ctx.extra["scope"]["simulate"] = "7..10 organisms, <= 5 species, fitness 0..3, 9 age classes, babies stolen 0..5, 3 stagnation modes"
    if replay is not None and b1 is None:
        return
    scen, epochs = (800, 20) if thorough else (50, 10)
    seed = ctx.seed
    if b1 is not None:
        scen, epochs, seed = b1["scenarios"], b1["epochs"], b1["seed"]
    trace, rep, r = _c09_record(ctx, scen, epochs, seed, "a")
    if r.violated:
        trace2, _, r2 = _c09_record(ctx, scen, epochs, seed, "b")
        if not r2.violated:
            raise Infra("Trace_Quota rejected a recorded epoch but the re-recorded run was accepted (unreproduced counterexample)")
        idx, ev = _trace_violation(ctx, r2, trace2, "Inv_C09")
        clauses = re.findall(r"(\w+) \|-> FALSE", r2.last_state.get("verdict", ""))
        clauses = [c for c in clauses if c != "ok"]
        what = ("recorded epoch #%s (%s, generation %s, mode %s) is rejected by Trace_Quota: clause(s) %s false" % (
            idx, (ev or {}).get("src"), (ev or {}).get("gen"), (ev or {}).get("mode"), ", ".join(clauses) or "?"))
        ctx.violation(what, "quota-trace %s" % ",".join(clauses),
                      {"kind": "quota-trace", "seed": seed, "scenarios": scen, "epochs": epochs, "line": idx,
                       "event": ev if ev and len(json.dumps(ev)) < 20000 else None, "failure": {"what": what}})
    elif not r.ok:
        raise Infra("Trace_Quota did not accept the trace:\n" + r.output[-2000:])
    ctx.evaluations += rep.get("evaluations", 0)
    ctx.nontrivial += rep.get("distinct_nontrivial", 0)
    ctx.traces += rep.get("cases", 0)
    for s in rep.get("samples", [])[:1]:
        ctx.samples.append(s)
    ctx.extra["b1"] = rep.get("extra", {})
    ctx.extra["b1"]["epochs_validated"] = rep.get("cases", 0)

"""C17: evolution is reproducible from the seed.  The same scenarios are recorded in several separate processes under
perturbations that must not matter; spec/Determinism.tla consumes the runs in lock step (binding B1)."""
import json
import os
import subprocess
from concurrent.futures import ThreadPoolExecutor

from pipelines import pipeline, B1
from vlib import Infra
import pipe_epoch

ENVS = [
    {},
    {"GOMAXPROCS": "1", "GOGC": "10"},
    {"GOMAXPROCS": "16", "GOGC": "400", "VERIF_PADDING": "x" * 20000},
    {"GOMAXPROCS": "3", "GOGC": "off"},
    {"GOMAXPROCS": "2", "GODEBUG": "gctrace=0", "VERIF_PADDING": "y" * 777},
]


def det_scenarios(seed, tier):
    scs = [s for s in pipe_epoch.scenarios(seed, "quick") if True]
    for s in scs:
        s["executor"] = "seq"           # the statement is about the sequential executor
    modular = [{"seed": seed * 977 + 1, "popsize": 12, "executor": "seq", "start": "modular", "fitness": 6, "epochs": 8, "preset": 5},
               {"seed": seed * 977 + 2, "popsize": 20, "executor": "seq", "start": "modular", "fitness": 7, "epochs": 8, "preset": 0}]
    # structure-only speciation (no mutation-number term): exact ties between equally compatible species are common
    ties = [{"seed": seed * 613 + k, "popsize": 60, "executor": "seq", "start": "xor", "fitness": 7, "epochs": 20, "preset": [3, 0, 5, 1][k % 4],
             "override": {"mutdiff": 0, "thr": [2.5, 3.5][k // 4], "addnode": 0.2, "addlink": 0.3}} for k in range(8)]
    # re-seeded before every epoch: perturbed processes evolve another population of the same kind BETWEEN the epochs
    # (process-wide state that an unrelated population can touch must not matter); restored populations (read) are in
    reseed = [{"seed": seed * 389 + k, "popsize": [12, 20, 30][k % 3], "executor": "seq", "start": ["xor", "read", "rich", "random"][k % 4],
               "fitness": [2, 6, 7, 3][k % 4], "epochs": 12, "preset": [0, 3, 5, 1][k % 4], "reseed": True,
               "override": {"addnode": 0.3, "addlink": 0.3}} for k in range(4)]
    # the way callers evolve populations: seed the global source, then Experiment.Execute (two trials)
    execute = [{"seed": seed * 271 + k, "popsize": [10, 16][k % 2], "executor": "seq", "start": ["xor", "rich"][k % 2],
                "fitness": [6, 2][k % 2], "epochs": 6, "preset": [0, 5][k % 2], "via": "execute"} for k in range(2)]
    # wall-clock time: at log level debug (the same in every process), several species; one perturbed process lets more than a
    # second pass before two of the epochs, another a few milliseconds before each
    clock = [{"seed": seed * 151 + k, "popsize": [24, 40][k % 2], "executor": "seq", "start": ["rich", "xor"][k % 2], "fitness": [6, 7][k % 2],
              "epochs": 5, "preset": [0, 3][k % 2], "loglevel": "debug",
              "override": {"thr": [0.3, 0.2][k % 2], "addnode": 0.3, "addlink": 0.3}} for k in range(1 if tier == "quick" else 3)]
    # size: populations well beyond any size at which an implementation may switch algorithms (shipped configurations go up to 1000)
    bigpop = [{"seed": seed * 83 + k, "popsize": [300, 520, 1000][k % 3], "executor": "seq", "start": ["xor", "rich"][k % 2], "fitness": 6,
               "epochs": 3, "preset": [0, 3][k % 2], "fixed_epochs": True} for k in range(1 if tier == "quick" else 3)]
    modular = modular + ties + reseed + execute + clock + bigpop
    if tier == "quick":
        picked = scs[::4][:10] + modular
        for s in picked:
            s["epochs"] = max(8, s["epochs"] if s.get("override") else 0) if not (s.get("loglevel") or s.get("fixed_epochs")) else s["epochs"]
    else:
        picked = scs + modular + [dict(m, seed=m["seed"] + 10, preset=(m["preset"] + 1) % 6) for m in modular]
        for i, s in enumerate(picked):
            s["epochs"] = ((40 if s["popsize"] <= 20 else 20) if s.get("via") != "execute" else 10) if not (s.get("loglevel") or s.get("fixed_epochs")) else (5 if s.get("loglevel") else 3)
            s["seed"] = seed * 7919 + i
    return picked


@pipeline("C17")
def c17(ctx, replay):
    thorough = ctx.tier == "thorough"
    nproc = 6 if thorough else 5
    ctx.rule = ("scenarios = constructor (NewPopulation from two non-modular start genomes and a modular one with two modules, NewPopulationRandom, ReadPopulation) x option preset x "
                "fitness family x population size (plus modular genomes and structure-only speciation where exact distance ties are common), sequential executor; each list of scenarios is run in %d separate processes under "
                "different GOMAXPROCS / GOGC / environment size / heap ballast / an unrelated clock-seeded evolution before re-seeding "
                "(and, in the scenarios that re-seed before every epoch, also between the epochs, on a population of the same kind) / "
                "forced collections / the same scenario already run once earlier in the process; some scenarios go through Experiment.Execute (RandSeed 0); every construction and epoch is logged as SHA-1 digests of the exact float64 bit patterns of all "
                "organisms, the species table and the counters; Determinism.tla requires the l-th states of all runs to be identical; "
                "non-trivial = epochs compared across processes" % nproc)
    ctx.assumptions = ["the fitness function of the driver is deterministic (own seeded generator, not the global source)",
                       "SHA-1 digests of bit patterns stand for the states (P6)"]
    if replay is not None:
        groups = []
        for v in replay.get("violations", []):
            sc = v.get("replay", {}).get("scenarios")
            if sc and sc not in groups:
                groups.append(sc)
        groups = groups[:4]
    else:
        scs = det_scenarios(ctx.seed, ctx.tier)
        size = 5 if not thorough else 6
        groups = [scs[i:i + size] for i in range(0, len(scs), size)]
    ctx.vh_binary(pkg="vh_genome")

    def one_group(gi, scs):
        d = ctx.path("det-%d" % gi)
        os.makedirs(d, exist_ok=True)
        evals = 0
        for k in range(nproc):
            rep_file = os.path.join(d, "rep-%d.json" % (k + 1))
            _, rep, _ = ctx.vh(["record-digests", "-out", os.path.join(d, "run-%d.ndjson" % (k + 1)), "-report", rep_file,
                                "-perturb", str(k), "-scenarios", json.dumps(scs)], pkg="vh_genome", env=ENVS[k % len(ENVS)],
                               expect_report=rep_file, timeout=3000)
            evals = rep.get("evaluations", 0)
        r = ctx.tlc("Determinism", env={"RUNS": nproc, "DIR": d}, workers=1, timeout=1200)
        if not r.ok:
            raise Infra("Determinism.tla did not complete: %s\n%s" % (r.violated, r.output[-2000:]))
        fails = []
        with open(r.cases_file) as f:
            for line in f:
                if line.strip():
                    fails.append(json.loads(line))
        sample = None
        with open(os.path.join(d, "run-1.ndjson")) as f:
            lines = f.readlines()
            if len(lines) > 1:
                e = json.loads(lines[1])
                sample = {"scenario": scs[e["sc"]], "gen": e["gen"], "all": e.get("all"), "species": e.get("species"), "counters": e.get("counters")}
        return scs, evals, fails, sample

    with ThreadPoolExecutor(max_workers=4) as ex:
        results = list(ex.map(lambda a: one_group(a[0], a[1]), enumerate(groups)))
    for scs, evals, fails, sample in results:
        ctx.traces += nproc
        ctx.evaluations += evals * nproc
        ctx.nontrivial += evals
        if sample and len(ctx.samples) < 2:
            ctx.samples.append(sample)
        for f in fails:
            sc = scs[f["sc"]] if f["sc"] < len(scs) else None
            # re-confirm: two fresh processes, no perturbation, same scenario alone
            ctx.violation("runs %s of scenario %s diverge at generation %d: %s differs" % (f["runs"], json.dumps(sc), f["gen"], f["part"]),
                          "C17 divergence", {"kind": "determinism", "scenarios": [sc], "generation": f["gen"], "part": f["part"]})
    ctx.extra["scope"] = {"scenario_lists": len(groups), "processes_per_list": nproc,
                          "scenarios": sum(len(g) for g in groups)}


CHECKS = {
 "C17": dict(text="Determinism.tla defines a run as the sequence of population states after construction and after every epoch and requires the l-th states of all recorded runs of the same scenarios to be identical; the runs are recorded from the real code in 5 (quick) / 6 (thorough) separate processes under different GOMAXPROCS, GOGC, environment size, heap ballast, an unrelated clock-seeded evolution before re-seeding and forced collections, with bit-exact digests of every organism, the species table and the counters; TLC names the first diverging scenario, generation and part.",
             note="Sampled scenarios (quick: 16 scenarios x 8-20 epochs x 5 processes; thorough: 70 scenarios x 20-40 epochs x 6 processes); nondeterminism that shows only with low probability per epoch (e.g. a rarely executed map iteration) can be missed by a quick run. Trusted: TLC, SHA-1, the digest function (harness/cmd/vh_genome/determinism.go).",
             technique=B1, ref="DESIGN.md 7/C17"),
}

#!/usr/bin/env python3
"""bin/bentest.py <patch.diff> --props C01,C03 [--name x]

Development helper (not a registered check): applies a PROPERTY-PRESERVING change to a scratch worktree of /repo and runs
the quick checks of the given properties against it (VERIF_REPO).  Expected: exit 0 everywhere.  exit 1 = false alarm
(to be analysed: either the change does break the statement, or the check demands more than the statement), exit 2 = the
harness could not decide (build failure after an interface change, drift of a tabulated registry ...)."""
import argparse, json, os, shutil, subprocess, sys, time
VERIF = os.path.dirname(os.path.dirname(os.path.abspath(__file__)))
ENV = dict(os.environ, GOFLAGS="-mod=mod", GOPROXY="off", GOSUMDB="off", GOTOOLCHAIN="local")


def sh(cmd, cwd, timeout=3600, env=None):
    p = subprocess.run(cmd, cwd=cwd, env=env or ENV, capture_output=True, text=True, timeout=timeout, shell=isinstance(cmd, str))
    return p.returncode, p.stdout + p.stderr


def apply_patch(wt, patch):
    """git apply; hook sites added to /repo after a patch was written can shift its context: fall back to a 3-way merge, then
    to patch(1) with fuzz."""
    rc, out = sh(["git", "apply", patch], wt)
    if rc == 0:
        return rc, out
    rc2, out2 = sh(["git", "apply", "--3way", patch], wt)
    if rc2 == 0:
        sh(["git", "reset", "-q"], wt)
        return 0, out2
    sh(["git", "checkout", "-q", "--", "."], wt)
    rc3, out3 = sh("patch -p1 --fuzz=3 --no-backup-if-mismatch < %s" % patch, wt)
    return rc3, out + out2 + out3


def main():
    ap = argparse.ArgumentParser()
    ap.add_argument("patch")
    ap.add_argument("--props", required=True)
    ap.add_argument("--tier", default="quick")
    ap.add_argument("--seed", default="1")
    ap.add_argument("--out")
    a = ap.parse_args()
    scratch = "/tmp/scratch/ben-%d" % os.getpid()
    wt = os.path.join(scratch, "repo")
    os.makedirs(scratch, exist_ok=True)
    rc, out = sh(["git", "-C", "/repo", "worktree", "add", "--detach", wt, "HEAD"], "/")
    if rc != 0:
        print(out); return 2
    res = {"patch": a.patch, "when": time.strftime("%Y-%m-%d %H:%M")}
    try:
        rc, out = apply_patch(wt, os.path.abspath(a.patch))
        if rc != 0:
            print("patch does not apply:\n" + out); return 2
        rc, out = sh(["go", "build", "-tags", "verif", "./..."], wt)
        res["builds"] = rc == 0
        if rc != 0:
            print("does not build:\n" + out[-1500:]); return 2
        for p in a.props.split(","):
            env = dict(os.environ, VERIF_REPO=wt, VERIF_SEED=a.seed, VERIF_CORES=os.environ.get("VERIF_CORES", "6"))
            t0 = time.time()
            rc, out = sh([os.path.join(VERIF, "bin", "check"), "--property", p, "--tier", a.tier], VERIF, env=env, timeout=7200)
            lines = [l for l in out.splitlines() if l.startswith(("VIOLATION", "OK ", "INFRA", "  violation", "KNOWN"))]
            res[p] = {"exit": rc, "verdict": {0: "quiet", 1: "ALARM", 2: "undecided"}.get(rc, "?"), "wall_s": round(time.time() - t0, 1),
                      "lines": [l[:400] for l in lines[:3]] if rc else []}
            print(p, res[p]["verdict"], (lines[0][:300] if lines and rc else ""), ("" if rc != 2 else out[-600:]))
    finally:
        sh(["git", "-C", "/repo", "worktree", "remove", "--force", wt], "/")
        shutil.rmtree(scratch, ignore_errors=True)
        sh(["git", "-C", "/repo", "worktree", "prune"], "/")
    if a.out:
        json.dump(res, open(a.out, "w"), indent=1)
    return 0


if __name__ == "__main__":
    sys.exit(main())

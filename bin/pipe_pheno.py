"""Check C11 (a phenotype network expresses exactly the enabled part of its genome).

B2: MC_Phenotype enumerates every genome of a bounded scope, TLC checks the property on the specification (gene <-> link
bijection, the transcribed lookups of network_graph.go against the defined multigraph on every ordered id pair, counts)
and emits every genome with the network and the query answers the specification assigns; the replayer expresses each
with the real Genesis and asks the real graph view.
B1 (cache clause): organisms of real lineage steps and real epochs (both executors) are recorded with their current genome
and whatever Organism.Phenotype() returns; Trace_PhenoCache evaluates `phenotype = Genesis(current genome)` as the
invariant Inv_C11_Cache."""
import json
import re

from vlib import Infra, CORES
from pipelines import pipeline, spec_must_hold, write_lines, replay_cases, cat_files, B2

CHECKS = {
 "C11": dict(
  text="Genome expression and the network's graph view are specified in spec/Phenotype.tla in three layers: the network the "
       "statement defines (one node per genome node, inputs/outputs in genome order, one link per enabled gene, one control "
       "node per enabled module), the multigraph queries defined over it, and the structure Genesis builds with the lookups of "
       "network_graph.go/network.go transcribed branch by branch (edgeBetween incl. its control-node branch, nodeWithID, From, "
       "To, counts). TLC checks on every genome in scope the gene<->link bijection, that disabled genes/modules contribute "
       "nothing, that the transcribed lookups agree with the definition and with each other on every ordered id pair of "
       "0..maxId+1 (absent ids included) and that the counts describe the same multigraph. Every genome is emitted with its "
       "expected network and the expected answer of every query; the replayer builds the real genome (NewGenome / "
       "NewModularGenome), calls the real Genesis and compares nodes (id, role, activation type), inputs (observed through "
       "LoadSensors) and outputs in order, the link multiset with weights/recurrence flags and Incoming/Outgoing consistency, "
       "control nodes and their wiring, Node/Nodes/From/To/Edge/WeightedEdge/Weight/HasEdgeFromTo/HasEdgeBetween on every id "
       "pair, NodeCount/LinkCount/Complexity - and the same queries on a network of the same structure built through the "
       "network API alone. Cache clause: organisms produced by real lineage steps (duplicate, one real mutator, NewOrganism; "
       "then UpdatePhenotype) and by real epochs of the sequential and the parallel executor are recorded with their current "
       "genome and the network Organism.Phenotype() returns; the trace specification Trace_PhenoCache evaluates with the "
       "specification's own Genesis that the phenotype is the expression of the current genome (invariant Inv_C11_Cache).",
  note="Exhaustive within the shapes of MC_Phenotype (one TLC state per genome). Quick (17 116 genomes): node lists I,O / "
       "I,B,O,H / I,I,H,O with id gaps (1,2,4,6) / B,I,O,O,H; every set of <= 4/3/3/2 genes over all <<src,dst,rec>> slots "
       "(src any node, dst any non-sensor: self-loops, recurrent flags, parallel genes differing in the flag) with every "
       "enabled/disabled mix; modules with 1..2 listed inputs and 1..2 listed outputs (<= 3 in total), enabled or disabled: "
       "<= 2 on the 2-node shape, 1 on the 4-node shapes (with one gene). Thorough (278 872 genomes): adds I,H,O with two "
       "modules, 6- and 7-node shapes, up to 4 genes on 4 nodes and 3 genes on 5..6 nodes. Weights (3 symbols incl. 0), "
       "activation types, innovation numbers and gene/io order are payload rotated by a pattern, not crossed. Out of scope: "
       "modules whose input and output lists overlap (a TLC sanity config shows the transcribed edgeBetween fails there), "
       "genomes without a gene or an output (Genesis refuses them). Not compared because the statement does not fix it: the "
       "order of node/link/successor lists, the weight value reported for an absent edge, and Weight(x,x) on a node without "
       "self-loop (gonum's convention allows true; counted). 'Reported as nil' means the interface value == nil. The cache "
       "clause is sampled: seeded lineage steps and epochs (quick 821, thorough ~18 000 organism observations), sequential "
       "and parallel executor. Trusted: TLC, the harness' projection of networks/genomes, per-observation interning of weights.",
  technique=B2 + "; TLA+ trace validation (TLC) of recorded organisms for the phenotype-cache clause", ref="DESIGN.md 7/C11"),
}


def _scenario(ctx, thorough):
    if thorough:
        return {"seed": ctx.seed, "epochs": 25, "pop": 60, "lineage": 600, "runs": 4}
    return {"seed": ctx.seed, "epochs": 8, "pop": 30, "lineage": 120, "runs": 1}


def _record_and_validate(ctx, sc, tag):
    """Record one trace of real organisms and let TLC validate it. Returns (report, TLCResult, list of bad observations)."""
    trace = ctx.path("cache_trace_%s.ndjson" % tag)
    rep_file = ctx.path("cache_report_%s.json" % tag)
    _, rep, _ = ctx.vh(["record-cache", "-out", trace, "-report", rep_file, "-seed", str(sc["seed"]),
                        "-epochs", str(sc["epochs"]), "-pop", str(sc["pop"]), "-lineage", str(sc["lineage"]),
                        "-runs", str(sc["runs"])], pkg="vh_pheno", expect_report=rep_file, timeout=1200)
    # every counterexample is "nothing observed, then observation l"; -continue makes one run list every stale organism
    r = ctx.tlc("Trace_PhenoCache", env={"TRACE": trace}, workers=4, extra=["-continue", "-noGenerateSpecTE"], timeout=1500)
    bad = []
    if r.violated == "Inv_C11_Cache":
        idx = sorted({int(x) for x in re.findall(r"^State 2: <Observe [^\n]*\nl = (\d+)", r.output, re.M)})
        if not idx:
            raise Infra("Inv_C11_Cache violated but no observation index in the counterexamples:\n" + r.output[-2000:])
        want = set(idx)
        with open(trace) as f:
            for i, line in enumerate(f, 1):
                if i in want:
                    bad.append((i, json.loads(line)))
    elif r.violated:
        raise Infra("unexpected TLC result on the recorded trace (%s):\n%s" % (r.violated, r.output[-3000:]))
    else:
        m = re.search(r'<<"observations", (\d+), "skipped", (\d+)>>', r.output)
        if not r.ok or not m or int(m.group(1)) != rep.get("cases", -1) or r.distinct != rep.get("cases", -1) + 1:
            raise Infra("Trace_PhenoCache did not consume the recorded trace (%s observations recorded):\n%s"
                        % (rep.get("cases"), r.output[-2000:]))
        ctx.extra.setdefault("cache", {})["skipped_not_wellformed"] = int(m.group(2))
    return rep, r, bad


def _describe(ob):
    g, p = ob["genome"], ob["pheno"]
    key = lambda l: (l["src"], l["dst"], l["rec"], l["w"])
    want = sorted(key(x) for x in g["genes"] if x["en"])
    got = sorted(key(x) for x in p["links"])
    missing = [x for x in want if x not in got]
    extra = [x for x in got if x not in want]
    s = ("Organism.Phenotype() is not the expression of the organism's current genome [%s: %s, epoch %d, organism %d, "
         "network already cached: %s]: genome has %d enabled genes, phenotype has %d links"
         % (ob["src"], ob["how"], ob["epoch"], ob["idx"], ob["cached"], len(want), len(got)))
    if ob.get("err"):
        s += "; Phenotype() error: " + ob["err"]
    if missing:
        s += "; genes without a link (src,dst,rec,w#): %s" % missing[:6]
    if extra:
        s += "; links without an enabled gene: %s" % extra[:6]
    if not missing and not extra and not ob.get("err"):
        s += "; nodes/inputs/outputs/control nodes differ: phenotype %s vs genome nodes %s" % (
            json.dumps({k: p[k] for k in ("nodes", "inputs", "outputs", "ctrl")}), json.dumps(g["nodes"]))
    return s


def _cache_clause(ctx, sc, reconfirm=True):
    rep, r, bad = _record_and_validate(ctx, sc, "a")
    ctx.add_report(rep, "cache", traces=4 * sc["runs"])
    info = ctx.extra.setdefault("cache", {})
    info.update({"scenario": sc, "observations": rep.get("extra", {}).get("observations"),
                 "already_cached": rep.get("extra", {}).get("already_cached"), "stale": len(bad)})
    if not bad:
        return
    groups = {}
    for i, ob in bad:
        groups.setdefault((ob["src"], ob["how"]), []).append((i, ob))
    if reconfirm:
        # verdict discipline (DESIGN.md 6.1): the same scenario is run once more and must show the violation again
        _, _, bad2 = _record_and_validate(ctx, sc, "b")
        again = {(ob["src"], ob["how"]) for _, ob in bad2}
        groups = {k: v for k, v in groups.items() if k in again}
        if not groups:
            raise Infra("Inv_C11_Cache was violated on a recorded trace but the re-run of the same scenario did not "
                        "show it again (%d stale observations in the first run)" % len(bad))
    info["stale_by_source"] = {"%s: %s" % k: len(v) for k, v in groups.items()}
    # the most direct scenario first
    order = {"minimal": 0, "lineage": 1, "seq": 2, "par": 3}
    for (src, how), obs in sorted(groups.items(), key=lambda kv: (order.get(kv[0][0], 9), kv[0][1])):
        i, ob = obs[0]
        ctx.violation(_describe(ob) + " (%d such observations)" % len(obs),
                      "pheno-cache stale phenotype (%s: %s)" % (src, how),
                      {"kind": "cache", "scenario": sc, "failure": {"observation": ob, "index": i, "count": len(obs)}})


@pipeline("C11")
def c11(ctx, replay):
    thorough = ctx.tier == "thorough"
    ctx.rule = ("B2 cases = every genome of MC_Phenotype's scope (one TLC state each), emitted with the expected network and "
                "the expected answer of every graph query on every ordered id pair 0..maxId+1; each is expressed by the real "
                "Genesis (twice) and rebuilt through the network API, evaluations = networks examined; non-trivial B2 case = "
                "genome with both enabled and disabled genes and a recurrent-flagged gene, a self-loop or a module. "
                "B1 observations = organisms of real lineage steps and epochs (one per organism per epoch); non-trivial "
                "observation = the organism already held a cached network when the harness asked for its phenotype")
    ctx.assumptions = ["well-formed genomes with at least one gene and one output (Genesis refuses the others)",
                       "modules do not list a node both as input and as output, nor twice on one side",
                       "list orders (nodes, links, successors) are not part of the statement and not compared",
                       "absent node / edge = interface value == nil (a wrapped nil pointer is reported as 'typed-nil')",
                       "observations whose genome is not well-formed are skipped by the trace spec (C01's business) and counted"]
    rep_file = ctx.path("pheno_report.json")
    cases_file = ctx.path("pheno_cases.ndjson")
    if replay is not None:
        cases = replay_cases(replay)
        if cases:
            write_lines(cases_file, cases)
            _, rep, _ = ctx.vh(["replay-pheno", "-cases", cases_file, "-out", rep_file], pkg="vh_pheno", expect_report=rep_file)
            ctx.add_report(rep, "pheno", traces=rep.get("cases", 0))
        seen = []
        for v in replay.get("violations", []):
            p = v.get("replay", {})
            if p.get("kind") == "cache" and p.get("scenario") not in seen:
                seen.append(p["scenario"])
                _cache_clause(ctx, p["scenario"], reconfirm=False)
        return
    # ---- B2: model checking + replay of every genome
    # (side by side: the exhaustive small scope and the SIZE scope - genomes of 33..70 nodes whose genes follow a pattern, with
    # every module over a few positions: structures an implementation may only build from some size on)
    from concurrent.futures import ThreadPoolExecutor
    with ThreadPoolExecutor(max_workers=2) as ex:
        f_big = ex.submit(ctx.tlc, "MC_Phenotype", "MC_Phenotype_big_thorough.cfg" if thorough else "MC_Phenotype_big.cfg",
                          timeout=3000 if thorough else 600, workers=2)
        mc = ctx.tlc("MC_Phenotype", "MC_Phenotype_thorough.cfg" if thorough else "MC_Phenotype.cfg",
                     timeout=3000 if thorough else 600, workers=max(2, min(CORES, 16) - 2))
        big = f_big.result()
    spec_must_hold(mc, "MC_Phenotype")
    spec_must_hold(big, "MC_Phenotype/big")
    both = ctx.path("pheno_cases.ndjson")
    mc.ncases = cat_files(both, [mc.cases_file, big.cases_file])
    mc.cases_file = both
    ctx.extra["big_genomes"] = big.ncases
    if thorough:
        # sanity of the model (why overlapping modules are out of scope): the transcribed edgeBetween must FAIL there
        ov = ctx.tlc("MC_Phenotype", "MC_Phenotype_overlap.cfg", workers=2, timeout=300, count=False)
        if ov.violated != "Inv_GraphView":
            raise Infra("sanity config MC_Phenotype_overlap did not violate Inv_GraphView (got %s)" % ov.violated)
    ctx.exhaustive = True
    ctx.extra["scope"] = {"genomes": mc.ncases, "shapes": "ShapesThorough" if thorough else "ShapesQuick",
                          "pairs": "every ordered id pair of 0..maxId+1 per genome"}
    _, rep, _ = ctx.vh(["replay-pheno", "-cases", mc.cases_file, "-out", rep_file], pkg="vh_pheno",
                       expect_report=rep_file, timeout=3000)
    if rep.get("cases", 0) != mc.ncases or mc.ncases == 0:
        raise Infra("replayer saw %s cases, MC_Phenotype emitted %s" % (rep.get("cases"), mc.ncases))
    ctx.add_report(rep, "pheno", traces=rep.get("cases", 0))
    ctx.extra["graph_view"] = rep.get("extra", {})
    # ---- B1: cache clause
    _cache_clause(ctx, _scenario(ctx, thorough))

#!/usr/bin/env python3
"""Regenerates /verif/MANIFEST.json from the table below (run after adding or changing a check)."""
import json
import os
import subprocess
import sys

VERIF = os.path.dirname(os.path.dirname(os.path.abspath(__file__)))

sys.path.insert(0, os.path.dirname(os.path.abspath(__file__)))
import pipelines  # noqa: E402

# properties whose checks are finished and claimed (a pipeline module may exist before its check is claimed)
CLAIMED = ["C01", "C02", "C03", "C04", "C05", "C06", "C07", "C08", "C09", "C10", "C11", "C12", "C13", "C14", "C15", "C16", "C17", "C18", "C19", "C20"]
REASONS = {}    # property -> reason, for properties that are deliberately not claimed

CHECKS = {}
for _m in pipelines.load_all():
    CHECKS.update({k: v for k, v in getattr(_m, "CHECKS", {}).items() if k in CLAIMED})

# additions of the fifth session (DESIGN.md 14.6 - 14.8), appended to the level notes of the checks they extend
ADDENDA = {
 "C01": "Fifth session: directed histories on ONE genome within one registry lifetime (forward link / recurrent reverse / toggle / reverse again as a forward link; split, re-enable, split again), one generation with 70-130 recorded innovations, a zero-based start genome whose traits have 3 and 10 parameters.",
 "C03": "Fifth session: a generation with 70-130 recorded innovations followed by repetitions of its first splits (TLC runs with -Xss512m); the one-genome twin and re-split histories of C01.",
 "C04": "Fifth session: a start genome whose node ids start at 0 and whose traits have 3 and 10 parameters.",
 "C06": "Fifth session: module links with weights, recurrence flags and traits of their own and identity cells for them (link, far-end node, trait, the control node's trait) in Cells / Refs; trait vectors of 3 and 10 parameters. Defect found and repaired: module links of a duplicate kept the original's trait objects (repo 17d2561).",
 "C08": "Fifth session: one executor value over the epochs of most sequential scenarios, a NEW Options object with other values from some epoch on in a third of the scenarios, evolved populations read back from the genome-by-genome AND the by-species file layout, organisms that carry winner flags / error values / built phenotypes.",
 "C09": "Fifth session: clause TopKept (nobody eliminated is fitter than somebody kept, by dense ranks of the adjusted fitness), fitness families close (values agreeing in nine digits) and tiny (1e-12), age significance below one (MC_Quota 1/2, 3/4; driver 0.5, 0.6, 0.8), persistent executors and a new Options object mid-run.",
 "C10": "Fifth session: organisms carry what an evaluator leaves (winner flags on organisms that are not the fittest, error values, built phenotypes, data objects).",
 "C11": "Fifth session: SIZE scope - genomes of 36 (thorough 33 / 48 / 70) nodes whose genes follow a pattern (chain, skip links, recurrent back links, self-loops, every third gene disabled) x every module over four positions, all graph queries on all id pairs.",
 "C12": "Fifth session: weight / input scales 0.1 and pi/7 (full mantissa) besides the dyadic ones; a construction variant tuned in place (weights, activation types, one more link) after a fast solver had been derived from the network.",
 "C13": "Fifth session: `flush` is an operation of the histories (an instance may have been flushed any number of times before the judged flush).",
 "C15": "Fifth session: two activation types registered by the user through the public registry (Codec.tla ActNames 24, 25) in every format; the by-species population file (Codec.tla 3b, mode popsp: species split, fitness order, winner flags); repeated genome ids in one population file; reader options that differ from the file; a module fed twice by one node; descending time stamps in experiment records.",
 "C16": "Fifth session: a panic of goNEAT inside a goroutine of its own is a verdict (vlib.LibraryPanic), an epoch error in the race runs too; race-detector families with heavy interspecies mating / trait mutation and with 500+ innovations per generation (600 organisms, 60 x 16 genome); recorder processes of the population-guarantee stage at 1, 2 and all processors.",
 "C17": "Fifth session: the executor value of two perturbed processes has an earlier life under another Options object; a scenario at log level debug with 1.1 s (resp. milliseconds) between epochs in perturbed processes; populations of 300 (thorough 520, 1000).",
 "C18": "Fifth session: type lookups probed with four scalar arguments and module vectors of 1, 2 and 3 members; products of members alternating between 2^s and 2^-s (s = 300, 600); 26 more unknown names (short names of other NEAT libraries, stems of the registered names); auxiliary parameters passed to every path.",
 "C19": "Fifth session: series of 63-257 elements; the experiment grows inside the Experiment value with every aggregate asked after every appended generation.",
 "C20": "Fifth session: Experiment values with an earlier life (an Execute with two more runs, a Trials slice pre-sized to another length: the record count is then not judged, 14.6); one object as evaluator and observer.",
}

# additions of the sixth session (DESIGN.md 14.9)
ADDENDA6 = {
 "C01": "Sixth session: WFModCells - the links of a module end in the genome's own node objects and refer to its own trait objects - on every start genome and duplicate of the lineage traces.",
 "C02": "Sixth session: a tenth fitness family of finite values at the top of the float64 range (1e308-ish values, math.MaxFloat64 sentinels) whose sums over several species overflow (70 quick / 420 thorough scenarios).",
 "C04": "Sixth session: every third mating of two DIFFERENT genomes in the lineage traces happens under equal genome ids (every species numbers its babies from 0).",
 "C07": "Sixth session: the same gene lists on modular operands whose control gene is numbered above all genes / just above the operand's own last gene / below everything (46 evaluations per case and coefficient vector).",
 "C11": "Sixth session: every graph query is asked twice on the same network instance, the second pass in descending id order with the undirected question before the directed ones.",
 "C12": "Sixth session: MC_Solvers_chain (three hidden neurons: chains of depth 4 with a skip link, inputs 0 / 1, step next to linear neurons) and the reversed neuron listing as a variant of every case.",
 "C14": "Sixth session: three reported non-terminating queries end the replay with a verdict (every hanging query leaves a goroutine spinning).",
 "C20": "Sixth session: every other run ends its context the way a deadline does (Done closes, Err() = context.DeadlineExceeded) at the scripted moment.",
}
for _k, _v in ADDENDA6.items():
    ADDENDA[_k] = (ADDENDA[_k] + " " + _v) if _k in ADDENDA else _v

ALL = [json.loads(l)["id"] for l in open(os.path.join(VERIF, "properties.jsonl"))]


def main():
    hooks = subprocess.run(["git", "-C", "/repo", "log", "--format=%h %s"], capture_output=True, text=True).stdout.splitlines()
    hook_commits = [l.split()[0] for l in hooks if l.split(" ", 1)[1].startswith("verif:")]
    checks = []
    for pid in ALL:
        if pid not in CHECKS:
            continue
        c = CHECKS[pid]
        checks.append({
            "property_id": pid,
            "quick_cmd": "bin/check --property %s --tier quick" % pid,
            "thorough_cmd": "bin/check --property %s --tier thorough" % pid,
            "evidence_file": "/verif/evidence/%s.json" % pid,
            "replay_cmd_template": "bin/check --property %s --replay {path}" % pid,
            "engine": "tlc+vh",
            "level_claimed": {"category": "model_checking", "text": c["text"], "design_ref": c["ref"]},
            "level_note": c["note"] + ((" " + ADDENDA[pid]) if pid in ADDENDA else ""),
            "technique": c["technique"],
        })
    m = {
        "version": 1,
        "setup_cmd": "bin/setup",
        "hooks": {"guard": "verif", "enable": "go build -tags verif (harness module with `replace github.com/yaricom/goNEAT/v4 => /repo`)",
                  "baseline_off_cmd": "cd /repo && go test -mod=mod -vet=off -count=1 -timeout 25m ./...",
                  "source_commits": hook_commits, "add_only": True},
        "engines": [{"name": "tlc+vh", "path": "bin/check", "serves_properties": sorted(CHECKS),
                     "kind_free_text": "TLC (TLA+ specs in spec/) for model checking, case generation and trace validation; Go harness (harness/cmd/vh) replays generated behaviours on / records traces from the real code"}],
        "checks": checks,
        "notes": "See DESIGN.md. Exit 2 of a check = not a verdict (infrastructure). known_findings.json lists repaired defects (fixed:) and any recorded findings.",
        "not_applicable": [{"property_id": p, "reason": REASONS.get(p, "check under construction (not yet claimed); see DESIGN.md section 7 for the planned decision procedure")} for p in ALL if p not in CHECKS],
    }
    with open(os.path.join(VERIF, "MANIFEST.json"), "w") as f:
        json.dump(m, f, indent=1)
    print("MANIFEST.json: %d checks, %d not claimed" % (len(checks), len(m["not_applicable"])))


if __name__ == "__main__":
    main()

#!/usr/bin/env python3
"""Regenerates /verif/MANIFEST.json from the table below (run after adding or changing a check)."""
import json
import os
import subprocess

VERIF = os.path.dirname(os.path.dirname(os.path.abspath(__file__)))
B2 = "TLA+ model checking (TLC) of the transcribed algorithm + TLC-generated behaviours replayed on the implementation"
B1 = "TLA+ trace validation (TLC) of recorded executions of the implementation + TLC model checking of the spec"

CHECKS = {
 "C07": dict(
  text="TLC explores both compatibility walks (transcribed from the code) on every pair of gene lists over K innovation numbers and checks them against the NEAT definition (plus termination and progress); every explored pair, plus structured long pairs, is replayed on the real code (both methods, both orders, 6 coefficient vectors, 3 scalings) against the counters the specification assigns.",
  note="Exhaustive within K<=4 (quick) / K<=5 (thorough) innovation numbers and mutation numbers {0,1,3}; long lists only by structured families up to 40 genes. Trusted: TLC, the projection <<E,D,S,M>> -> float formula in the replayer.",
  technique=B2, ref="DESIGN.md 7/C07"),
 "C14": dict(
  text="TLC model-checks the depth search (transcribed from NNode.Depth with its persistent traversal marks) over every link set of a small node scope and every query sequence with caps: longest-path equality on DAGs, termination/bounds on cyclic graphs, the cap law, clean marks and repeat-stability are invariants; every finished behaviour (and simulated behaviours on larger graphs with arbitrary incoming order) is replayed on real networks with result, error and marks compared after each query.",
  note="Exhaustive for 1 sensor + 3 neurons (quick), 4 neurons with <= 7 links (thorough); larger graphs by TLC simulation only. Termination decided by a 5 s watchdog. Trusted: TLC, the harness' network construction.",
  technique=B2, ref="DESIGN.md 7/C14"),
 "C19": dict(
  text="The statistics are specified as exact integer/rational definitions; TLC checks their laws (ordering of quantiles, permutation invariance, variance zero iff constant, ...) on every series in scope and emits every series in every order, the empty series and every experiment in scope with the values the definitions assign; the replayer builds real Floats / Experiment / Trial / Generation values and compares every accessor.",
  note="Exhaustive for series over 4 values up to length 4 (quick) / 5 values up to length 6 (thorough) at three power-of-two scalings, experiments up to 2x2 (quick) / 3x2 (thorough) trials x generations. Floating-point tolerance 1e-12 only where a division is involved. Trusted: TLC, the replayer's construction of experiment records.",
  technique=B2, ref="DESIGN.md 7/C19"),
 "C20": dict(
  text="Experiment.Execute is specified as a step machine (one action per step visible to evaluator, observer or caller); the protocol clauses of C20 are invariants over its logs, checked by TLC for every script of outcomes (ok / solved / evaluator error / context cancelled while evaluating, with and without solved) in scope with and without an observer; every behaviour is replayed through the real Execute with a scripted evaluator and a recording observer under both epoch executors and compared log for log.",
  note="Exhaustive for 2x2, 1x3, 3x1, 2x0 (quick) plus 2x3 (thorough) trials x generations. Population freshness and turnover are observed through pointer identity of populations and organisms. Trusted: TLC, the scripted evaluator/observer.",
  technique=B2, ref="DESIGN.md 7/C20"),
}

ALL = [json.loads(l)["id"] for l in open(os.path.join(VERIF, "properties.jsonl"))]


def main():
    hooks = subprocess.run(["git", "-C", "/repo", "log", "--format=%h %s"], capture_output=True, text=True).stdout.splitlines()
    hook_commits = [l.split()[0] for l in hooks if l.split(" ", 1)[1].startswith("verif:")]
    checks = []
    for pid in ALL:
        if pid not in CHECKS:
            continue
        c = CHECKS[pid]
        checks.append({
            "property_id": pid,
            "quick_cmd": "bin/check --property %s --tier quick" % pid,
            "thorough_cmd": "bin/check --property %s --tier thorough" % pid,
            "evidence_file": "/verif/evidence/%s.json" % pid,
            "replay_cmd_template": "bin/check --property %s --replay {path}" % pid,
            "engine": "tlc+vh",
            "level_claimed": {"category": "model_checking", "text": c["text"], "design_ref": c["ref"]},
            "level_note": c["note"],
            "technique": c["technique"],
        })
    m = {
        "version": 1,
        "setup_cmd": "bin/setup",
        "hooks": {"guard": "verif", "enable": "go build -tags verif (harness module with `replace github.com/yaricom/goNEAT/v4 => /repo`)",
                  "baseline_off_cmd": "cd /repo && go test -mod=mod -vet=off -count=1 -timeout 25m ./...",
                  "source_commits": hook_commits, "add_only": True},
        "engines": [{"name": "tlc+vh", "path": "bin/check", "serves_properties": sorted(CHECKS),
                     "kind_free_text": "TLC (TLA+ specs in spec/) for model checking, case generation and trace validation; Go harness (harness/cmd/vh) replays generated behaviours on / records traces from the real code"}],
        "checks": checks,
        "notes": "See DESIGN.md. Exit 2 of a check = not a verdict (infrastructure). known_findings.json lists repaired defects (fixed:) and any recorded findings.",
        "not_applicable": [{"property_id": p, "reason": "check under construction in this session (not yet claimed)"} for p in ALL if p not in CHECKS],
    }
    with open(os.path.join(VERIF, "MANIFEST.json"), "w") as f:
        json.dump(m, f, indent=1)
    print("MANIFEST.json: %d checks, %d not claimed" % (len(checks), len(m["not_applicable"])))


if __name__ == "__main__":
    main()

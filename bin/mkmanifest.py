#!/usr/bin/env python3
"""Regenerates /verif/MANIFEST.json from the table below (run after adding or changing a check)."""
import json
import os
import subprocess
import sys

VERIF = os.path.dirname(os.path.dirname(os.path.abspath(__file__)))

sys.path.insert(0, os.path.dirname(os.path.abspath(__file__)))
import pipelines  # noqa: E402

# properties whose checks are finished and claimed (a pipeline module may exist before its check is claimed)
CLAIMED = ["C01", "C02", "C03", "C04", "C05", "C06", "C07", "C08", "C09", "C10", "C11", "C12", "C13", "C14", "C15", "C16", "C17", "C18", "C19", "C20"]
REASONS = {}    # property -> reason, for properties that are deliberately not claimed

CHECKS = {}
for _m in pipelines.load_all():
    CHECKS.update({k: v for k, v in getattr(_m, "CHECKS", {}).items() if k in CLAIMED})

ALL = [json.loads(l)["id"] for l in open(os.path.join(VERIF, "properties.jsonl"))]


def main():
    hooks = subprocess.run(["git", "-C", "/repo", "log", "--format=%h %s"], capture_output=True, text=True).stdout.splitlines()
    hook_commits = [l.split()[0] for l in hooks if l.split(" ", 1)[1].startswith("verif:")]
    checks = []
    for pid in ALL:
        if pid not in CHECKS:
            continue
        c = CHECKS[pid]
        checks.append({
            "property_id": pid,
            "quick_cmd": "bin/check --property %s --tier quick" % pid,
            "thorough_cmd": "bin/check --property %s --tier thorough" % pid,
            "evidence_file": "/verif/evidence/%s.json" % pid,
            "replay_cmd_template": "bin/check --property %s --replay {path}" % pid,
            "engine": "tlc+vh",
            "level_claimed": {"category": "model_checking", "text": c["text"], "design_ref": c["ref"]},
            "level_note": c["note"],
            "technique": c["technique"],
        })
    m = {
        "version": 1,
        "setup_cmd": "bin/setup",
        "hooks": {"guard": "verif", "enable": "go build -tags verif (harness module with `replace github.com/yaricom/goNEAT/v4 => /repo`)",
                  "baseline_off_cmd": "cd /repo && go test -mod=mod -vet=off -count=1 -timeout 25m ./...",
                  "source_commits": hook_commits, "add_only": True},
        "engines": [{"name": "tlc+vh", "path": "bin/check", "serves_properties": sorted(CHECKS),
                     "kind_free_text": "TLC (TLA+ specs in spec/) for model checking, case generation and trace validation; Go harness (harness/cmd/vh) replays generated behaviours on / records traces from the real code"}],
        "checks": checks,
        "notes": "See DESIGN.md. Exit 2 of a check = not a verdict (infrastructure). known_findings.json lists repaired defects (fixed:) and any recorded findings.",
        "not_applicable": [{"property_id": p, "reason": REASONS.get(p, "check under construction (not yet claimed); see DESIGN.md section 7 for the planned decision procedure")} for p in ALL if p not in CHECKS],
    }
    with open(os.path.join(VERIF, "MANIFEST.json"), "w") as f:
        json.dump(m, f, indent=1)
    print("MANIFEST.json: %d checks, %d not claimed" % (len(checks), len(m["not_applicable"])))


if __name__ == "__main__":
    main()

"""Growth suite X12 (Lifecycle): the life cycle of species and of the population record ACROSS epochs - age, age of last
improvement, MaxFitnessEver, the novel flag, HighestFitness / EpochsHighestLastChanged, the delta-coding trigger and its
reset, consecutive species ids, which species stay listed.  Quota.tla / Trace_Quota (C09) look at one epoch at a time with
the state a species enters the epoch with as an INPUT; here the trace specification owns that state from the constructed
population on and derives every later observation from its own state (binding B1).  TLC checks the laws of
spec/Lifecycle.tla on every small history (MC_Lifecycle).  Not a claimed property: `bin/check --property X12 --tier
quick|thorough`; writes evidence/X12.json."""
import json
import re

from pipelines import pipeline, spec_must_hold, B1
from vlib import Infra

CHECKS = {}

EXTRA = {
 "X12": dict(
  title="species records and the population record evolve over the epochs as the life-cycle specification says",
  text="spec/Lifecycle.tla: the stagnation penalty (x 1/100 when age - age_of_last_improvement + 1 >= DropOffAge) and the youth boost (x AgeSignificance when age <= 10) are decided with the values a species ENTERS the epoch with, then MaxFitnessEver / AgeOfLastImprovement follow the best raw fitness; species without quota leave the list; HighestFitness follows the first species in (best raw fitness desc, age asc) order, EpochsHighestLastChanged is 0 on a record and + 1 otherwise; at DropOffAge + 5 delta coding fires: counter 0, the two best species share the population (N div 2, N - N div 2) and count as improved now; after the turnover the species that received offspring stay in order, one generation older unless novel, species founded in the turnover follow with consecutive ids (LastSpecies + 1 ...), age 1, no record. Laws (invariants of MC_Lifecycle, clauses of Trace_Lifecycle): ids unique and <= LastSpecies, 1 <= age, 0 <= aoli <= age, no listed species ever did better than the population record, never DropOffAge + 5 epochs without a record or delta coding, delta codings are DropOffAge + 5 epochs apart, a species is never older than the population.",
  note="Design level exhaustive: histories of <= 7 (thorough 8) epochs, <= 2 (3) species, best-fitness ranks 0..2 (0..1), DropOffAge 1 (2), every choice of kept / surviving / founded species (261 606 / see evidence states); two reachability probes (delta coding happens, a penalised species exists) must be refuted. Conformance by trace validation of seeded scenarios (quick 16 populations x 14 epochs, thorough 160 x 24; both executors; fitness families constant / linear / heavy / dominant / stagnating / uniform / sparse / close / tiny; DropOffAge 1..6; AgeSignificance 0.5..2; stolen babies; an Options object replaced mid-run), not exhaustive. float64 values as dense ranks over the whole trace; the penalty / boost factor in fixed point 2^-16. Every run corrupts copies of the recorded trace and requires Trace_Lifecycle to reject each. Trusted: TLC, the recorder harness/cmd/vh_species/lifecycle_rec.go.",
  technique=B1),
}


def _set(e, path, fn):
    o = e
    for k in path[:-1]:
        o = o[k]
    o[path[-1]] = fn(o[path[-1]])


TAMPERS = [
    ("a species' age after the turnover + 1", "fin", lambda e: _set(e, ["post", "sp", 0, "age"], lambda v: v + 1)),
    ("age of last improvement after the preparation + 1", "prep", lambda e: _set(e, ["post", "sp", 0, "aoli"], lambda v: v + 1)),
    ("MaxFitnessEver rank + 1", "prep", lambda e: _set(e, ["post", "sp", 0, "mx"], lambda v: v + 1)),
    ("EpochsHighestLastChanged + 1", "prep", lambda e: _set(e, ["post", "ehlc"], lambda v: v + 1)),
    ("HighestFitness rank + 1", "prep", lambda e: _set(e, ["post", "hf"], lambda v: v + 1)),
    ("LastSpecies + 1", "fin", lambda e: _set(e, ["post", "last"], lambda v: v + 1)),
    ("novel flag kept", "fin", lambda e: _set(e, ["post", "sp", 0, "novel"], lambda v: True)),
    ("penalty factor x 100", "fac", lambda e: _set(e, ["fac", 0, 1], lambda v: v * 100 if v < 3000 else v // 100)),
    ("sort order reversed", "sorted", lambda e: _set(e, ["sorted"], lambda v: list(reversed(v)))),
]


@pipeline("X12")
def x12(ctx, replay):
    thorough = ctx.tier == "thorough"
    ctx.rule = ("MC_Lifecycle: every history in scope (laws as invariants); trace = init / prep / fin lines of real populations driven "
                "through prepareForReproduction, reproduce, finalizeReproduction of both executors; Trace_Lifecycle owns the species "
                "records, the population record and LastSpecies and re-derives every line; non-trivial = epochs with several species")
    ctx.assumptions = ["float64 fitness values as dense ranks over the whole trace", "penalty / boost factor in fixed point 2^-16, tolerance 2 units",
                       "ties in (best raw fitness, age) may be sorted either way (sort.Sort is not stable)"]
    if replay is None:
        mc = ctx.tlc("MC_Lifecycle", "MC_Lifecycle_thorough.cfg" if thorough else "MC_Lifecycle.cfg", timeout=3000)
        spec_must_hold(mc, "MC_Lifecycle")
        for cfg, inv in (("MC_Lifecycle_reach.cfg", "Reach_NoDelta"), ("MC_Lifecycle_reach2.cfg", "Reach_NoPenalty")):
            t = ctx.tlc("MC_Lifecycle", cfg, timeout=600, count=False)
            ctx.tlc_runs[-1]["note"] = "reachability probe: %s is EXPECTED to be violated" % inv
            if not t.violated:
                raise Infra("MC_Lifecycle never reaches what %s denies: the model is vacuous there" % inv)
        ctx.exhaustive = True
    seed = ctx.seed
    n, ep = (160, 24) if thorough else (16, 14)
    if replay is not None:
        for v in replay.get("violations", []):
            p = v.get("replay", {})
            if p.get("kind") == "lifecycle-trace":
                seed, n, ep = p.get("seed", seed), p.get("scenarios", n), p.get("epochs", ep)
    trace = ctx.path("lifecycle_trace.ndjson")
    rep_file = ctx.path("lifecycle_report.json")
    _, rep, _ = ctx.vh(["rec-lifecycle", "-out", trace, "-report", rep_file, "-scenarios", str(n), "-epochs", str(ep)],
                       pkg="vh_species", expect_report=rep_file, env={"VERIF_SEED": str(seed)}, timeout=3000)
    r = ctx.tlc("Trace_Lifecycle", env={"TRACE": trace}, workers=1, timeout=1800)
    with open(trace) as f:
        lines = [json.loads(l) for l in f if l.strip()]
    if r.violated:
        clauses = re.findall(r'"([A-Z][a-z]+:[^"]+)"', r.last_state.get("verdict", ""))
        m = re.search(r"(\d+)", r.last_state.get("i", ""))
        idx = int(m.group(1)) if m else 0
        ev = lines[idx - 1] if 0 < idx <= len(lines) else None
        ctx.violation("line %d (%s, %s, generation %s) is rejected by Trace_Lifecycle: %s; line: %s" % (
            idx, (ev or {}).get("k"), (ev or {}).get("src"), (ev or {}).get("gen"), "; ".join(clauses) or "?", json.dumps(ev)[:700]),
            "lifecycle-trace " + ",".join(c.split(":")[0] + ":" + c.split(":")[1][:40] for c in clauses),
            {"kind": "lifecycle-trace", "seed": seed, "scenarios": n, "epochs": ep, "line": idx, "failure": {"what": clauses}})
    elif not r.ok:
        raise Infra("Trace_Lifecycle did not accept the trace:\n" + r.output[-2000:])
    else:
        ctx.traces += rep.get("cases", 0)
        rejected = 0
        for name, need, fn in TAMPERS:
            if need in ("prep", "fin"):
                cand = [i for i, e in enumerate(lines) if e["k"] == need and e["post"]["sp"]]
            elif need == "fac":
                cand = [i for i, e in enumerate(lines) if e["k"] == "prep" and e["fac"]]
            else:
                cand = [i for i, e in enumerate(lines) if e["k"] == "prep" and len(e["sorted"]) > 1
                        and len({b[1] for b in e["best"] if b[0] in e["sorted"]}) > 1]
            if not cand:
                continue
            bad = json.loads(json.dumps(lines))
            fn(bad[cand[len(cand) // 2]])
            tf = ctx.path("tampered.ndjson")
            with open(tf, "w") as f:
                for e in bad:
                    f.write(json.dumps(e) + "\n")
            t = ctx.tlc("Trace_Lifecycle", env={"TRACE": tf}, workers=1, timeout=600, count=False)
            ctx.tlc_runs[-1]["note"] = "corrupted trace (%s): EXPECTED to be rejected" % name
            if not t.violated:
                raise Infra("Trace_Lifecycle accepted a corrupted trace (%s): the trace specification lost its bite" % name)
            rejected += 1
        ctx.extra["corrupted_traces_rejected"] = rejected
    ctx.evaluations += rep.get("evaluations", 0)
    ctx.nontrivial += rep.get("distinct_nontrivial", rep.get("nontrivial", 0))
    ctx.extra["lifecycle"] = rep.get("extra", {})

#!/usr/bin/env python3
"""seedimport4.py <prop> <A|B> <checks,comma> <summary>  -- imports /tmp/mut4/<prop>/<v> as seeded/<prop>-r4<v>"""
import json, os, shutil, sys
p, v, checks, summary = sys.argv[1:5]
src = "/tmp/mut4/%s/%s" % (p, v)
d = "/verif/seeded/%s-r4%s" % (p, v)
os.makedirs(d, exist_ok=True)
for f in ("patch.diff", "demo_test.go", "notes.md"):
    if os.path.exists(os.path.join(src, f)):
        shutil.copy(os.path.join(src, f), d)
m = {"property": p, "checks_expected": checks.split(","),
     "origin": "fourth-round sub-agent given only the property text, its own scratch worktree and one-line summaries of the earlier rounds' ideas to avoid",
     "summary": summary,
     "files_touched": sorted(set(l[6:].strip() for l in open(os.path.join(d, "patch.diff")) if l.startswith("+++ b/")))}
json.dump(m, open(os.path.join(d, "meta.json"), "w"), indent=1)
print(d)

"""Growth of the specification beyond the 20 listed properties (DESIGN.md section 15): X07 activation of MODULAR networks
(networks with control / MIMO nodes) on the standard solver and on the fast solver made from it.  Same binding as C12 / C13
(B2): TLC checks the laws on spec/ModularAct.tla and prints every network, history and suffix in scope with the complete
state the specification assigns after EVERY call; `vh_x07` replays every case on real networks.  NOT a claimed property
(no entry in CHECKS / MANIFEST.json): run with `bin/check --property X07 --tier quick|thorough`, writes evidence/X07.json."""
from concurrent.futures import ThreadPoolExecutor

from pipelines import pipeline, cat_files, spec_must_hold, write_lines, replay_cases, B2
from vlib import Infra, CORES

CHECKS = {}

EXTRA = {
 "X07": dict(
  title="modular networks (control nodes) are activated step by step as specified, both solvers settle on the topological definition, and Flush makes them fresh",
  text="ModularAct.tla extends the solver specification to networks with control (MIMO) nodes - multiply / max / min modules whose inputs and outputs are ordinary nodes - and transcribes both solvers step by step: the standard network (per node Activation, ActivationsCount, lastActivation, lastActivation2, isActive; per control node isActive; LoadSensors, the sweep of ActivateSteps = sums, ActivateNode of the active neurons, then ActivateModule of every control node in list order reading GetActiveOut of its inputs and writing its single output node with setActivation; ActivateSteps / Activate / ForwardSteps with their error results; RecursiveSteps and Relax, which refuse; Flush; ReadOutputs; NodeCount / LinkCount; the modular MaxActivationDepth = largest edge count among the MINIMUM-WEIGHT input-output paths of the graph with control nodes as vertices) and the fast solver built by FastNetworkSolver (signal arrays over bias|input|output|hidden, module list over positions; forwardStep = accumulate, activate, modules in list order over the being-processed array, move; ForwardSteps, Relax with and without relaxation test, RecursiveSteps which refuses, Flush, LoadSensors, ReadOutputs, NodeCount / LinkCount), next to the definition MTopoEval (a node written by a control node has the product / max / min of the values of that control node's inputs, the last writer wins, its own links and activation function play no part; every other neuron is activation(sum of weight x source)). TLC builds every network of a bounded scope (simple DAGs and, in the recurrent family, arbitrary digraphs with self-loops, cycles, time-delayed and bias links; one or two control nodes with one to two inputs, placed everywhere incl. fed by sensors, writing hidden or output nodes, chained in both list orders, with zero / one / two outputs), lets an instance live through every history of API calls, flushes it and runs every suffix side by side with a fresh twin, and checks: Settles (on a network of the class - effective graph acyclic, one output per control node, control nodes read only what earlier control nodes wrote, every neuron sensor-reachable, no time-delayed links for the standard solver, no sensor-fed control node for the fast solver - once Need sweeps / steps have run since the last LoadSensors, or a Relax found a step that changed nothing, the outputs equal MTopoEval and the call succeeded unless it is one of the calls refused by design, for each solver, hence the solvers agree), FlushRestores and SuffixEqual (after Flush everything the API shows coincides with a fresh twin after every later call), CountsAgree (NodeCount = ordinary + control nodes on both; LinkCount = ordinary links + control links in and out on both when no bias links were merged), DepthTwoWays (the transcribed depth = its definition over explicit path sets), Refusals (RecursiveSteps fails on both solvers and changes nothing; zero requested steps: error on the standard solver, (false, nil) on the fast one, nothing changes). Every network is built for real three ways (network API + NewModularNetwork, modular genome + Genesis, bias passed explicitly) and after EVERY call outputs, returned flag, error class of both solvers and per node Activation / ActivationsCount / GetActiveOut / GetActiveOutTd are compared == with the specification (violation on mismatch), lastActivation / lastActivation2 / isActive / control isActive / both signal arrays as information; the settle law is asserted on the real outputs independently of the prediction; the flushed instance is compared with a real fresh twin after every suffix call; ForwardSteps(Need) on fresh instances must give MTopoEval for every input vector; counts, depth, refusals and control-node accessors are compared.",
  note="Exhaustive within (BFS, one canonical link order per link set, weights dealt by a fixed sign/magnitude pattern unless stated): quick - {2 inputs, 2 hidden, output}: every simple DAG up to 2 links x every two-input control node (3 module functions, inputs anywhere incl. sensors, output any neuron) x 2 activation schemes, no dead parts, histories <= 3 calls (first a load; 2 vectors, ForwardSteps 1/2, ActivateSteps|Relax 2) and suffixes of <= 2; {2 inputs, 3 hidden, output} with 2 links and TWO control nodes (mul then max) in both list orders; {input, hidden, output} every digraph up to 2 links incl. self-loops / cycles / time-delayed links x one- and two-input control nodes, alphabet + Activate|Relax(3,0) + RecursiveSteps; control nodes with 0 / 1 / 2 outputs; {input, 2 hidden, output} up to 3 links with both weights per link (depth family); {input, hidden, output} and {input, bias, output} up to 1 link WITH dead parts (unreachable neurons, link-less networks) and zero-step calls (ForwardSteps(0), ActivateSteps(0) | Relax(0)). Thorough adds: up to 3 links on the first shape with one- and two-input modules, 3 links under two control nodes, the recurrent family on {input, bias, hidden, output} with two schemes and histories of 3 calls, bias shapes ({input, bias, 2 hidden, output}, {2 inputs, hidden, 2 outputs}, {input, 2 bias, hidden, output}) with one- to three-input modules and 3 schemes, weights {-1, 1, 2} and sensor-fed modules in the depth family, and five model-sanity runs (each `should` statement must FAIL on the as-coded model). Per history the replayer runs a rotating selection of the network's suffixes (3 quick / 4 thorough) against a fresh twin, plus every suffix as its own history. OBSERVATIONS (recorded in coverage.modular.observations with the smallest network seen, never a violation; each is also a `should` invariant that TLC refutes on the model): (1) fast solver: a control node fed DIRECTLY by a sensor (input or bias) reads 0 - forwardStep takes the module inputs from neuronSignalsBeingProcessed, which LoadSensors never writes (fast_network.go:276) - while the standard solver reads the sensor value; the two solvers disagree for ever (e.g. input 1 -> mul control node -> hidden 5 -> output 8: Network -2, fast 0). The library's own modular test network feeds its module through hidden linear relay nodes. (2) both solvers: the order of Network.controlNodes matters - a control node reading the output node of a control node LATER in the list never sees that module's value, because the output node is re-activated from its own (absent) links before the modules run in the next sweep; the solvers agree with each other but never reach the topological value. (3) MaxActivationDepth() of a modular network (network.go:490) is the edge count of a minimum-WEIGHT path (gonum JohnsonAllPaths + AllBetween with connection weights as costs, control nodes counted as vertices), not the longest path: it over-counts two edges per control node and under-counts as soon as a lighter shorter path exists (1 -> 8 with weight -1 next to 1 -> 5 -> [mul] -> 6 -> 8: depth 1, two steps needed), so ForwardSteps(MaxActivationDepth()) may stop early; documented as `the maximum number of neuron layers`. (4) RecursiveSteps is unusable on modular networks for BOTH implementations of Solver (Network: MaxActivationDepthWithCap refuses; fast: refuses when modules exist), and Network.Relax is not implemented - only ForwardSteps / ActivateSteps / fast Relax work. (5) a control node with two outgoing links: the standard solver returns an error, the fast solver PANICS (index out of range, fast_network.go:281) after writing the first output; with no outgoing link the standard solver errors and the fast solver carries on. (6) Network.Flush walks allNodes, which excludes control nodes: their isActive stays raised (unobservable through the API). (7) the module's output node does NOT pass the module value through its own activation function, and any ordinary links into it are dead; in the standard solver that node is activated twice per sweep (ActivationsCount +2, lastActivation = activation(0 + its links)), so time-delayed links out of a module output read that intermediate value. Not covered: modules with no input (max -> -Inf, min -> MaxFloat64), control nodes writing sensors, parallel links, non-integer values (C12's float rounds cover the arithmetic of ordinary neurons), NaN. Trusted: TLC, the replayer's construction of networks / genomes, the verif accessors VerifState (internal level only).",
  technique=B2),
}

QUICK = ["MC_ModularAct.cfg", "MC_ModularAct_two.cfg", "MC_ModularAct_rec.cfg", "MC_ModularAct_arity.cfg",
         "MC_ModularAct_depth.cfg", "MC_ModularAct_loose.cfg"]
THOROUGH = ["MC_ModularAct_thorough.cfg", "MC_ModularAct_two_thorough.cfg", "MC_ModularAct_rec_thorough.cfg",
            "MC_ModularAct_bias_thorough.cfg", "MC_ModularAct_arity.cfg", "MC_ModularAct_depth_thorough.cfg",
            "MC_ModularAct_loose.cfg"]
SHOULD = [("MC_ModularAct_should_sensor.cfg", "ShouldSensorFed", "observation 1: the fast solver does not settle on the definition when a control node is fed by a sensor"),
          ("MC_ModularAct_should_order.cfg", "ShouldAnyOrder", "observation 2: the list order of the control nodes matters"),
          ("MC_ModularAct_should_depth.cfg", "ShouldDepthSuffice", "observation 3: MaxActivationDepth() steps are not always enough"),
          ("MC_ModularAct_should_arity.cfg", "ShouldRefuseAlike", "observation 5: the fast solver panics on a control node with two outputs"),
          ("MC_ModularAct_should_flush.cfg", "ShouldFlushControl", "observation 6: Flush leaves the control nodes' isActive raised")]


def _must_fail(ctx, module, cfg, invariant, why):
    """Specification-level observation: the as-coded model must violate the `should` statement."""
    r = ctx.tlc(module, cfg, timeout=600, workers=2, count=False)
    ctx.tlc_runs[-1]["note"] = "EXPECTED to violate %s (%s)" % (invariant, why)
    if r.violated != invariant:
        raise Infra("%s/%s was expected to violate %s but TLC reported %s" % (module, cfg, invariant, r.violated or "no error"))
    return "%s violates %s as expected (%s)" % (cfg, invariant, why)


def _run(ctx, replay, module, cfgs, command, cases_name, kind, extra_args=None, timeout=1500, par=3, should=()):
    cases_file = ctx.path(cases_name)
    if replay is not None:
        write_lines(cases_file, replay_cases(replay))
    else:
        # the configurations are independent: a few TLC runs side by side, the workers shared out between them
        par = max(1, min(par, len(cfgs)))
        workers = max(2, min(CORES, 16) // par)

        def one(cfg):
            return ctx.tlc(module, cfg, timeout=timeout, workers=workers)

        def sanity(s):
            return _must_fail(ctx, module, *s)
        with ThreadPoolExecutor(max_workers=par) as ex:
            runs = list(ex.map(one, cfgs))
            notes = list(ex.map(sanity, should))
        if notes:
            ctx.extra["model_sanity"] = notes
        files = []
        for cfg, mc in zip(cfgs, runs):
            spec_must_hold(mc, "%s/%s" % (module, cfg))
            files.append(mc.cases_file)
        n = cat_files(cases_file, files)
        ctx.exhaustive = True
        ctx.extra.setdefault("scope", {})["cases"] = n
        ctx.extra["scope"]["configs"] = cfgs
    rep_file = ctx.path(kind + "_report.json")
    _, rep, _ = ctx.vh([command, "-cases", cases_file, "-out", rep_file] + (extra_args or []), pkg="vh_x07",
                       expect_report=rep_file, timeout=timeout)
    ctx.add_report(rep, kind, traces=rep.get("cases", 0))
    if rep.get("extra"):
        ctx.extra[kind] = rep["extra"]
    return rep


# ------------------------------------------------------------------------------------------------ X07
@pipeline("X07")
def x07(ctx, replay):
    thorough = ctx.tier == "thorough" or (replay is not None and replay.get("tier") == "thorough")
    ctx.rule = ("MC_ModularAct (6 / 7 configurations): every modular network in scope (one `net` case with the classes, Need, "
                "counts, depth and the topological value of every input vector), every history of API calls (with the complete "
                "predicted state of both solvers after EVERY call and after Flush) and every suffix (predicted state of the "
                "flushed instance after every call); each network is built three ways on the real code, every history is "
                "run with everything the API shows compared after every call, flushed, and continued through a rotating "
                "selection of the network's suffixes side by side with a fresh twin; every suffix is also run as a history; "
                "traces = cases replayed; evaluations = API calls whose results were compared; non-trivial = distinct "
                "history / suffix of a network whose modules add to the depth (Need >= 2) in which some call falls under "
                "the settle law")
    ctx.assumptions = ["simple digraphs (no parallel links), control nodes with at least one input whose inputs and outputs "
                       "are ordinary nodes and whose outputs are neurons, integer weights / inputs, integer-closed activation "
                       "functions and integer module functions: every IEEE operation is exact, comparison is ==",
                       "the settle law quantifies over the classes StdClass / FastClass of ModularAct.tla; outside them the "
                       "suite checks conformance with the transcription and the flush laws only (see the observations)",
                       "internal state (lastActivation, lastActivation2, isActive, control isActive, the fast solver's arrays) "
                       "is compared as information: a difference there alone is never a violation",
                       "a panic of the fast solver on a control node with two outputs is specified as coded (observation 5)"]
    _run(ctx, replay, "MC_ModularAct", THOROUGH if thorough else QUICK, "replay-modular", "modular_cases.ndjson", "modular",
         extra_args=["-maxpairs", "4" if thorough else "3"], timeout=2400, par=3 if thorough else 6,
         should=SHOULD if (thorough and replay is None) else ())

"""Growth suite X10 (Reproduce): TRACE VALIDATION (binding B1, code -> spec) of the heart of NEAT, Species.reproduce with the
per-baby mutation chain, as it runs inside real sequential epochs.  spec/Reproduce.tla specifies the branch protocol of
reproduce exactly as the code performs it (super-champion offspring while the counter is positive, the champion clone once
when the quota exceeds 5, mutate-only, mating within / across species, the post-mating mutation decision) and what every
branch yields as a relation between baby and parents (C06 duplicate, the C04 crossover relations, the C05 mutation
statements of spec/Genome.tla, frame conditions elsewhere).  MC_Reproduce model-checks the protocol on genome tokens for
small quotas; harness/cmd/vh_x10 records one NDJSON event per hook event of the `x10.*` hook sites (build tag verif,
harness/x10_hooks.patch) with the projected abstract state; spec/Trace_Reproduce.tla re-executes the protocol in lock step
and checks on every line that the branch was enabled, that the genome relates to its parents as the branch says and the
bookkeeping.  Not a claimed property (no entry in CHECKS / MANIFEST.json): run with
`bin/check --property X10 --tier quick|thorough`, evidence in evidence/X10.json.  Without the hook sites in the goNEAT tree
the check is built against, no hook event arrives and the check ends with exit 2 ("hooks not installed"), never a pass."""
import copy
import json
import os
import re
import threading
from concurrent.futures import ThreadPoolExecutor

from pipelines import pipeline, spec_must_hold, B1
from vlib import Infra

CHECKS = {}

EXTRA = {
 "X10": dict(
  title="every offspring of every species is produced by the branch of Species.reproduce that is enabled in the species' state, relates to its parents as that branch says, and every species produces exactly its quota",
  text="spec/Reproduce.tla (extends Genome.tla). Part 1, the branch protocol: per species quota, pool (survivors best first, pool[1] = champion), super-champion counter, cloneDone, made; per offspring the FIRST enabled branch: super-champion while counter > 0 (a duplicate of the champion, mutated once - link weights, or add-link when link adding is enabled - while counter > 1, the exact duplicate at counter = 1; counter decreases), champion clone once when quota > 5, mutate-only when the coin says so or the pool has one organism, otherwise mating (mom from the pool; dad from the pool or the champion of a species picked from the leading quarter of the sorted species list, up to five attempts to leave the own species; multipoint / multipoint-avg / single point by two coins; the child runs through the mutation chain when the coin exceeds MateOnlyProb, when mom and dad carry one genome id or when their compatibility distance is 0). Probabilities enter as classes never / always / sometimes, so that options at 0 and 1 make branches mandatory or impossible. The mutation chain is the decision tree of the code (add-node, else add-link, else connect-sensors; an add-node / add-link ATTEMPT counts as structural, connect-sensors only when it added a link; otherwise the six parametric mutators in fixed order behind their own coins). Part 2, relations: IsDuplicate (C06), the C04 relations, AddNode / AddLink / ConnectSensors / Toggle / ReEnable statements and ParametricFrame (C05) plus frame conditions for what C05 leaves open (unsuccessful add-node may switch one gene off and nothing else, unsuccessful add-link changes nothing, random-trait one trait, link-trait / node-trait one reference, link-weights weights with mutation number = weight, toggle one flag off, re-enable flags on only). MC_Reproduce explores the protocol exhaustively (tokens for genomes; all species tables over the configured quotas / pools / counters, every sorted order, all 27 classes of the three branch probabilities): branch conditions exhaustive and exclusive, every species makes exactly its quota, a species with quota > 5 leaves an exact copy of its champion, at most one champion clone, super-champion babies come first and are exactly `counter` many with the exact copy last, parents are survivors, an interspecies dad is a champion of the leading quarter, a child of an organism with itself is mutated; `-coverage 1`: no action unexercised. Trace_Reproduce consumes the recorded events (init, epoch = prepared species table with every organism of the old generation, enter, branch, postmut, mut, baby, exit, after) and checks per line (a) enabledness in the specification's own state (counter, cloneDone, made advance with After), (b) the relation of the genome to the parents' genomes of the epoch table resp. to its state before the mutator, (c) bookkeeping: offspring index, generation stamp, no species before speciation, fitness 0, mateBaby / mutationStructBaby / population-champion-child marks, counter and flag after the offspring, no organism of the old generation changed (digests at every baby), babies returned = babies announced = quota, the new generation is exactly the announced babies.",
  note="Quick: 20 scenarios (10 option presets incl. interspecies rate 0 / 0.05 .. 0.4 / 1, mutate-only 0 / 1, mate-only 0 / 1, stolen babies with aged species, delta coding, structural and parametric mutators at probability 0 and 1, single crossover methods) x population 5..40 x 6-12 epochs x 6 constructors / start genomes; thorough: 180 scenarios. Trace validation of seeded runs is not exhaustive; MC_Reproduce is exhaustive on the token model only. Non-vacuity is part of every run: 31 single-field corruptions / event deletions of a recorded trace (every event kind) must each be rejected (otherwise exit 2). Sequential executor only (the parallel executor re-creates the babies from bytes, so object identities end at the species boundary). The result of add-node / add-link is discarded by reproduce itself; success is derived from the genome. Clauses implied by a listed property keep its id (C01 C02 C04 C05 C06 C09 C10), all failed clauses are reported. Trusted: TLC, the projection (harness/cmd/vh_x10/proj.go, rec.go).",
  technique=B1),
}

NPRESETS = 10
STARTS = ["rich", "xor", "notrait", "outfirst", "read", "random"]
SIZES = [12, 20, 5, 30, 8, 16, 40, 24]
# preset -> (fitness family, aged species, minimum epochs)
PRESET_SHAPE = {0: (6, False, 6), 1: (6, True, 8), 2: (3, False, 6), 3: (7, False, 6), 4: (6, False, 6), 5: (5, False, 10),
                6: (2, False, 6), 7: (6, True, 8), 8: (3, False, 6), 9: (7, True, 8)}


def scenarios(seed, tier):
    out = []
    reps = 2 if tier == "quick" else 18
    k = 0
    for rep in range(reps):
        for pre in range(NPRESETS):
            fam, aged, minep = PRESET_SHAPE[pre]
            size = SIZES[(k + rep) % len(SIZES)]
            if pre in (1, 7, 9):
                size = max(size, 12)       # somebody to steal from
            if pre == 6:
                size = max(size, 8)        # one species with a quota above 5
            ep = max(minep, 6 + (k % 4) * 2) if tier != "quick" else minep
            if size >= 30:
                ep = min(ep, 8)
            out.append({"seed": seed * 100000 + 7000 + k, "popsize": size, "start": STARTS[(k + rep // 2) % len(STARTS)],
                        "fitness": fam if rep % 3 != 2 else (fam + 1) % 8, "epochs": ep, "preset": pre, "aged": aged})
            k += 1
    return out


def chunk(scs, budget):
    groups, cur, cost = [], [], 0
    for s in scs:
        c = s["popsize"] * s["epochs"]
        if cur and cost + c > budget:
            groups.append(cur)
            cur, cost = [], 0
        cur.append(s)
        cost += c
    if cur:
        groups.append(cur)
    return groups


# ------------------------------------------------------------------------------------------------ non-vacuity
def _set(k, fn):
    def f(e):
        e[k] = fn(e[k])
    return f


def _first(seq, pred):
    return [x for x in seq if pred(x)][0]


TAMPERS = [
    ("epoch.quota", lambda e: e["ev"] == "epoch", lambda e: e["species"][0].__setitem__("quota", e["species"][0]["quota"] + 1)),
    ("epoch.elim", lambda e: e["ev"] == "epoch" and any(o["elim"] for o in e["orgs"]),
     lambda e: _first(e["orgs"], lambda o: o["elim"]).__setitem__("elim", False)),
    ("epoch.counter", lambda e: e["ev"] == "epoch" and any(s["counter"] > 0 for s in e["species"]),
     lambda e: _first(e["species"], lambda s: s["counter"] > 0).__setitem__("counter", 0)),
    ("epoch.pool-order", lambda e: e["ev"] == "epoch" and any(len(s["pool"]) > 2 for s in e["species"]),
     lambda e: _first(e["species"], lambda s: len(s["pool"]) > 2)["pool"].reverse()),
    ("enter.quota", lambda e: e["ev"] == "enter", _set("quota", lambda v: v + 1)),
    ("branch.idx", lambda e: e["ev"] == "branch", _set("idx", lambda v: v + 1)),
    ("branch.kind clone->mutate-only", lambda e: e["ev"] == "branch" and e["kind"] == "champion-clone", _set("kind", lambda v: "mutate-only")),
    ("branch.kind mutate-only->clone", lambda e: e["ev"] == "branch" and e["kind"] == "mutate-only", _set("kind", lambda v: "champion-clone")),
    ("branch.kind super->mutate-only", lambda e: e["ev"] == "branch" and e["kind"] == "super-champion", _set("kind", lambda v: "mutate-only")),
    ("branch.mom", lambda e: e["ev"] == "branch" and e["kind"] == "mutate-only", _set("mom", lambda v: v + 1)),
    ("branch.duplicate gene", lambda e: e["ev"] == "branch" and e["kind"] == "mutate-only", lambda e: e["g"]["genes"][0].__setitem__("w", 99999)),
    ("branch.interspecies pick", lambda e: e["ev"] == "branch" and e["how"] == "interspecies" and e["pick"] != e["sp"], lambda e: e.__setitem__("pick", e["sp"])),
    ("branch.within dad", lambda e: e["ev"] == "branch" and e["how"] == "within", _set("dad", lambda v: v + 100000)),
    ("branch.crossover method", lambda e: e["ev"] == "branch" and e["method"] == "multipoint-avg" and any(a[0] != a[1] for a in e["avg"]),
     _set("method", lambda v: "multipoint")),
    ("branch.child gene", lambda e: e["ev"] == "branch" and e["kind"] == "mate", lambda e: e["g"]["genes"][0].__setitem__("inn", 77777)),
    ("mut.op", lambda e: e["ev"] == "mut" and e["op"] == "add-link", _set("op", lambda v: "add-node")),
    ("mut.gene", lambda e: e["ev"] == "mut" and e["op"] == "link-weights", lambda e: e["g"]["genes"][0].__setitem__("en", not e["g"]["genes"][0]["en"])),
    ("mut.gc", lambda e: e["ev"] == "mut", _set("gc", lambda v: v + 1)),
    ("postmut.mom", lambda e: e["ev"] == "postmut", _set("mom", lambda v: v + 1)),
    ("baby.gen", lambda e: e["ev"] == "baby", _set("gen", lambda v: v + 1)),
    ("baby.counter", lambda e: e["ev"] == "baby", _set("counter", lambda v: v + 1)),
    ("baby.genome", lambda e: e["ev"] == "baby", lambda e: e["g"]["genes"][-1].__setitem__("w", 88888)),
    ("baby.olddigs", lambda e: e["ev"] == "baby", lambda e: e["olddigs"][0].__setitem__(1, 424242)),
    ("baby.species", lambda e: e["ev"] == "baby", _set("bsp", lambda v: 1)),
    ("exit.n", lambda e: e["ev"] == "exit", _set("n", lambda v: v + 1)),
    ("after.oids", lambda e: e["ev"] == "after", lambda e: e["oids"].pop()),
    ("drop baby event", lambda e: e["ev"] == "baby", None),
    ("drop enter event", lambda e: e["ev"] == "enter", None),
    ("drop mut event", lambda e: e["ev"] == "mut" and e["op"] == "link-weights", None),
    ("drop branch event", lambda e: e["ev"] == "branch", None),
    ("drop postmut event", lambda e: e["ev"] == "postmut", None),
]
SELFTEST_SCENARIO = {"seed": 4242, "popsize": 14, "start": "rich", "fitness": 6, "epochs": 5, "preset": 9, "aged": True,
                     "override": {"thr": 3.0}}


def selftest(ctx):
    """Corrupt one logged field (or delete one event) per event kind in a recorded trace: every corrupted copy must be rejected."""
    trace, rep_file = ctx.path("selftest.ndjson"), ctx.path("selftest.report.json")
    ctx.vh(["record", "-out", trace, "-report", rep_file, "-scenarios", json.dumps([SELFTEST_SCENARIO])], pkg="vh_x10",
           expect_report=rep_file, timeout=600, repo=instrumented(ctx))
    with open(trace) as f:
        src = [json.loads(l) for l in f if l.strip()]
    if not any(e["ev"] == "branch" for e in src):
        return None      # no hook events: the caller reports "hooks not installed"
    out, index, n, absent = ctx.path("selftest-tampered.ndjson"), [], 0, []
    with open(out, "w") as fo:
        # copy 0 is the untouched trace: it must be accepted
        for name, pred, fn in [("(untouched)", None, None)] + TAMPERS:
            c = copy.deepcopy(src)
            if pred is not None:
                at = [i for i, e in enumerate(c) if pred(e)]
                if not at:
                    absent.append(name)
                    continue
                if fn is None:
                    del c[at[0]]
                else:
                    fn(c[at[0]])
            index.append((name, n + 1, n + len(c)))
            for e in c:
                fo.write(json.dumps(e) + "\n")
            n += len(c)
    r = ctx.tlc("Trace_Reproduce", env={"TRACE": out}, workers=1, timeout=1500, xss=True, count=False)
    if not r.ok:
        raise Infra("self-test of the trace specification did not complete: %s\n%s" % (r.violated, r.output[-2000:]))
    fails = _read_fails(r)
    rejected, missed, untouched = {}, [], []
    for name, a, b in index:
        mine = [f for f in fails if a <= f["l"] <= b]
        if name == "(untouched)":
            untouched = mine
        elif mine:
            rejected[name] = mine[0]["fails"][0]
        else:
            missed.append(name)
    return {"corruptions_rejected": len(rejected), "corruptions_accepted": missed, "not_applicable_in_this_trace": absent,
            "first_clause_per_corruption": rejected, "untouched_fails": untouched}


# ------------------------------------------------------------------------------------------------ traces
def _read_fails(r):
    fails = []
    with open(r.cases_file) as f:
        for line in f:
            if line.strip():
                fails.append(json.loads(line))
    return fails


BRANCHES = ["super-champion-mutated", "super-champion-exact", "champion-clone", "mutate-only", "mate-within", "mate-interspecies",
            "mate-then-mutate", "mate-unmutated"]


def _label(e):
    if e["kind"] == "super-champion":
        return "super-champion-mutated" if e["counter"] > 1 else "super-champion-exact"
    if e["kind"] == "mate":
        return "mate-" + str(e["how"])
    return e["kind"]


def tally(trace, bad_lines):
    """Events per branch / mutator / crossover method, and how many of them sit on lines TLC accepted.  A baby counts as
    validated when none of its lines (branch .. baby) failed."""
    ev, ok, scen = {}, {}, {}
    sc, cur, cur_bad, cur_labels, run = None, None, False, [], set()

    def add(d, k):
        d[k] = d.get(k, 0) + 1
    with open(trace) as f:
        for i, line in enumerate(f, 1):
            e = json.loads(line)
            bad = i in bad_lines
            if e["ev"] == "init":
                sc = e["scenario"]
            scen[i] = sc
            if e["ev"] == "enter":
                run = set()
            if e["ev"] == "exit" and {"super-champion-exact", "champion-clone"} <= run:
                add(ev, "species runs leaving two exact copies of the champion")
            if e["ev"] == "branch":
                cur, cur_bad, cur_labels = e, bad, [_label(e)]
                run.add(_label(e))
                if e["kind"] == "mate":
                    cur_labels.append("cross:" + e["method"])
                    if e["how"] == "interspecies" and e["pick"] == e["sp"]:
                        cur_labels.append("interspecies mating that fell back to the own champion")
            elif e["ev"] == "postmut" and cur is not None:
                cur_labels.append("mate-then-mutate")
                cur_bad = cur_bad or bad
            elif e["ev"] == "mut" and cur is not None:
                if e["op"] != "nonstructural-begin":
                    cur_labels.append("mut:" + e["op"] + (":ok" if e["res"] == 1 else ":no" if e["res"] == 0 else ""))
                cur_bad = cur_bad or bad
            elif e["ev"] == "baby":
                cur_bad = cur_bad or bad
                if cur is not None and cur["kind"] == "mate" and "mate-then-mutate" not in cur_labels:
                    cur_labels.append("mate-unmutated")
                for k in cur_labels + ["babies"]:
                    add(ev, k)
                    if not cur_bad:
                        add(ok, k)
                cur, cur_labels = None, []
            elif e["ev"] in ("epoch", "enter", "exit", "after"):
                add(ev, "ev:" + e["ev"])
                if not bad:
                    add(ok, "ev:" + e["ev"])
    return ev, ok, scen


HOOKS_PATCH = os.path.join(os.path.dirname(os.path.dirname(os.path.abspath(__file__))), "harness", "x10_hooks.patch")


def instrumented(ctx):
    """The goNEAT tree under check with the x10 hook lines of harness/x10_hooks.patch (31 `if verifOn { verifEmit(...) }` sites
    in Species.reproduce and mutateAllNonstructural) applied to a scratch copy; None if the patch does not apply."""
    return ctx.instrumented_repo(HOOKS_PATCH)


def record_and_validate(ctx, idx, scs, sem):
    with sem:
        trace = ctx.path("x10-%d.ndjson" % idx)
        rep_file = ctx.path("x10-%d.report.json" % idx)
        _, rep, _ = ctx.vh(["record", "-out", trace, "-report", rep_file, "-scenarios", json.dumps(scs)],
                           pkg="vh_x10", expect_report=rep_file, timeout=3000, repo=instrumented(ctx))
        if rep.get("extra", {}).get("hook_events", 0) == 0:
            return {"scs": scs, "rep": rep, "fails": [], "events": 0, "trace": trace, "nohooks": True}
        r = ctx.tlc("Trace_Reproduce", env={"TRACE": trace}, workers=1, timeout=3000, xss=True)
        if not r.ok:
            raise Infra("X10 trace validation did not complete: %s\n%s" % (r.violated, r.output[-2000:]))
        return {"scs": scs, "rep": rep, "fails": _read_fails(r), "events": r.distinct - 1, "trace": trace, "nohooks": False}


def model_check(ctx, sem, thorough):
    """MC_Reproduce with -coverage 1: the invariants hold and no action of the protocol is unexercised."""
    want = ["ASuperExact", "ASuperMutated", "AChampionClone", "AMutateOnly", "AMateWithin", "AMateInter", "NextSpecies"]
    acts = {}
    # the five-species configuration (two eligible positions in the leading quarter) has quota 1 everywhere: the dead-action
    # test applies to the main configuration
    cfgs = [("MC_Reproduce_thorough.cfg", True), ("MC_Reproduce_five_thorough.cfg", False)] if thorough else [("MC_Reproduce.cfg", True)]
    for cfg, need_all in cfgs:
        with sem, sem:
            mc = ctx.tlc("MC_Reproduce", cfg, workers=4 if thorough else 2, timeout=3000, extra=["-coverage", "1"])
        spec_must_hold(mc, "MC_Reproduce/" + cfg)
        got = {}
        for m in re.finditer(r"^<(\w+) line \d+, col \d+ to line \d+, col \d+ of module MC_Reproduce>: (\d+):(\d+)", mc.output, re.M):
            got[m.group(1)] = int(m.group(3))
        dead = [a for a in want if got.get(a, 0) == 0]
        if dead and need_all:
            raise Infra("MC_Reproduce/%s: actions never taken (coverage): %s" % (cfg, ", ".join(dead)))
        for a in want:
            acts[a] = acts.get(a, 0) + got.get(a, 0)
        mc.output = ""
    return acts


@pipeline("X10")
def x10(ctx, replay):
    thorough = ctx.tier == "thorough" or (replay is not None and replay.get("tier") == "thorough")
    ctx.rule = ("MC_Reproduce: the branch protocol on genome tokens, exhaustive for the configured quotas / pools / counters, "
                "-coverage 1 with every action taken; then every scenario of the matrix is run through the real sequential "
                "NextEpoch with the x10 hook sites recording every decision of Species.reproduce; TLC (Trace_Reproduce) "
                "validates every line: (a) branch enabled in the specification's state, (b) genome related to the parents / "
                "to its previous state as the branch / mutator says, (c) bookkeeping; evaluations = babies, traces = "
                "scenarios; non-trivial = babies that are not plain mutate-only offspring (super-champion with / without "
                "mutation, champion clone, mating within / across species)")
    ctx.assumptions = ["sequential executor; organism / genome / species identity is pointer identity",
                       "probabilities are abstracted to never / always / sometimes: a coin of probability 0 < p < 1 may fall either way",
                       "compatibility distance 0 is decided by TLC from the definition (same innovation numbers with the same "
                       "mutation numbers; positive coefficients) and compared with the library's own answer",
                       "the result of add-node / add-link is discarded by reproduce itself; success is derived from the genome"]
    sem = threading.Semaphore(4)
    if replay is not None:
        scs = []
        for v in replay.get("violations", []):
            p = v.get("replay", {})
            if p.get("kind") == "x10" and p.get("scenario") and p["scenario"] not in scs:
                scs.append(p["scenario"])
        groups = [[s] for s in scs[:12]]
    else:
        groups = chunk(scenarios(ctx.seed, ctx.tier), 700 if not thorough else 1500)
    if not groups:
        return
    if instrumented(ctx) is None:
        raise Infra("the x10 hook patch (harness/x10_hooks.patch) does not apply to the goNEAT tree under check: the code at the "
                    "hook sites of Species.reproduce / mutateAllNonstructural was changed; X10 cannot observe it")
    ctx.vh_binary(pkg="vh_x10", repo=instrumented(ctx))
    with ThreadPoolExecutor(max_workers=5) as ex:
        fmc = ex.submit(model_check, ctx, sem, thorough) if replay is None else None
        fst = ex.submit(lambda: _with(sem, selftest, ctx)) if replay is None else None
        futs = [ex.submit(record_and_validate, ctx, i + 100, g, sem) for i, g in enumerate(groups)]
        results = [f.result() for f in futs]
        st = fst.result() if fst else {}
        acts = fmc.result() if fmc else {}
    if any(r["nohooks"] for r in results) or st is None:
        raise Infra("hooks not installed: no x10.* hook event arrived from Species.reproduce of the goNEAT tree the harness "
                    "was built against (apply harness/x10_hooks.patch)")
    for f in (st or {}).pop("untouched_fails", []):
        ctx.violation("scenario %s, line %d (%s): %s" % (json.dumps(SELFTEST_SCENARIO), f["l"], f["ev"], "; ".join(f["fails"])),
                      "X10 %s %s" % (f["ev"], f["fails"][0]),
                      {"kind": "x10", "scenario": SELFTEST_SCENARIO, "line": f["l"], "event": f["ev"], "clauses": f["fails"]})
    events, valid, stats = {}, {}, {}
    for res in results:
        bad = {f["l"] for f in res["fails"]}
        ev, ok, scen = tally(res["trace"], bad)
        for k, v in ev.items():
            events[k] = events.get(k, 0) + v
        for k, v in ok.items():
            valid[k] = valid.get(k, 0) + v
        for k, v in res["rep"].get("extra", {}).get("stats", {}).items():
            stats[k] = stats.get(k, 0) + v
        ctx.traces += len(res["scs"]) - len({json.dumps(scen[f["l"]], sort_keys=True) for f in res["fails"]})
        ctx.evaluations += res["rep"].get("evaluations", 0)
        for f in res["fails"]:
            sc = scen.get(f["l"])
            ctx.violation("scenario %s, line %d (%s): %s" % (json.dumps(sc), f["l"], f["ev"], "; ".join(f["fails"])),
                          "X10 %s %s" % (f["ev"], f["fails"][0]),
                          {"kind": "x10", "scenario": sc, "line": f["l"], "event": f["ev"], "clauses": f["fails"]})
    if st and st.get("corruptions_accepted") and not ctx.violations:
        raise Infra("trace validation is vacuous: corrupted traces accepted for %s" % ", ".join(st["corruptions_accepted"]))
    ctx.nontrivial = sum(valid.get(k, 0) for k in BRANCHES[:3] + ["mate-within", "mate-interspecies"])
    missing = [b for b in BRANCHES if events.get(b, 0) == 0]
    ctx.extra["x10"] = {"events_per_branch": {k: events.get(k, 0) for k in BRANCHES},
                        "validated_per_branch": {k: valid.get(k, 0) for k in BRANCHES},
                        "events": dict(sorted(events.items())), "validated": dict(sorted(valid.items())),
                        "recorder": dict(sorted(stats.items())), "model_actions": acts, "selftest": st,
                        "scenarios": sum(len(g) for g in groups)}
    if missing and replay is None:
        ctx.extra["x10"]["coverage_shortfall"] = missing
    ctx.extra["x10"]["observations"] = OBSERVATIONS
    if results and not ctx.samples:
        with open(results[0]["trace"]) as f:
            for line in f:
                e = json.loads(line)
                if e["ev"] == "branch" and e["kind"] == "mate":
                    ctx.samples.append({k: e[k] for k in ("ev", "kind", "method", "how", "sp", "pick", "giveup", "idx", "quota", "counter", "mom", "dad")})
                    break


def _with(sem, fn, *a):
    with sem:
        return fn(*a)


OBSERVATIONS = [
    "a species with stolen babies whose quota exceeds 5 gets TWO unmodified copies of its champion: the last super-champion "
    "offspring (counter = 1) and, once the counter is used up, the champion clone (reachable in MC_Reproduce, counted in "
    "coverage.x10.events)",
    "an add-node / add-link ATTEMPT counts as the structural mutation whatever it returns (reproduce discards the result and "
    "sets mutStructBaby), so the parametric mutators are skipped: offspring of the mutate-only branch can be genetically "
    "identical to their mom while carrying mutationStructBaby = true (coverage.x10.recorder counts them); an unsuccessful "
    "add-node may leave the gene it picked switched off (C05 speaks about successful mutations only)",
    "the same-parents test compares genome ids, not organisms; ids are unique within a population only because "
    "purgeOrAgeSpecies renumbers them every epoch (checked on every epoch table); a population read from a file with repeated "
    "genome ids would be misjudged",
    "interspecies mating picks from the leading quarter of the sorted species list only: with up to four species the only "
    "eligible species is the best one, so every other species always gets the champion of the best species as dad and the "
    "best species, after five attempts, its own champion (a mating of the champion with itself when mom is the champion)",
    "after delta coding counter = quota: the whole offspring of the two best species are super-champion clones and the "
    "champion-clone branch never fires",
]


# ------------------------------------------------------------------------------------------------ use by the listed properties
# Clauses of Trace_Reproduce that ARE clauses of a listed property's statement (the rest - which branch fires when, counters,
# flags - is conformance with Reproduce.tla and belongs to X10 only).
PROPERTY_CLAUSES = {
    "C01": ["C01:"],
    "C02": ["C02:"],
    "C04": ["C04:"],
    "C05": ["C05:"],
    "C06": ["C06:"],
    "C09": ["C09:"],
    "C10": ["C10:champion of a species with quota > 5 got no unmodified copy"],
}


def reproduce_traces(ctx, replay, prop):
    """The reproduction traces of X10 (every decision of the real Species.reproduce inside real sequential epochs, validated
    line by line by Trace_Reproduce) judged for the clauses of `prop` only: operands and results of every duplicate / crossover
    / mutation the library itself performs while reproducing, every baby, every generation."""
    want = PROPERTY_CLAUSES[prop]
    sem = threading.Semaphore(4)
    if replay is not None:
        scs = []
        for v in replay.get("violations", []):
            p = v.get("replay", {})
            if p.get("kind") == "x10" and p.get("scenario") and p["scenario"] not in scs:
                scs.append(p["scenario"])
        if not scs:
            return
        groups = [[s] for s in scs[:12]]
    else:
        groups = chunk(scenarios(ctx.seed, ctx.tier), 700 if ctx.tier != "thorough" else 1500)
    if instrumented(ctx) is None:
        # the code around the hook sites was edited: this stage cannot observe reproduction; the other stages of the check decide
        ctx.extra.setdefault("scope", {})["reproduction_traces"] = "skipped: " + str(ctx.extra.get("instrumentation"))
        return
    ctx.vh_binary(pkg="vh_x10", repo=instrumented(ctx))
    with ThreadPoolExecutor(max_workers=4) as ex:
        results = list(ex.map(lambda a: record_and_validate(ctx, a[0] + 300, a[1], sem), enumerate(groups)))
    if any(r["nohooks"] for r in results):
        raise Infra("hooks not installed: no x10.* hook event arrived from Species.reproduce of the goNEAT tree the harness was built against")
    babies = 0
    for res in results:
        bad = {f["l"] for f in res["fails"]}
        _, _, scen = tally(res["trace"], bad)
        babies += res["rep"].get("evaluations", 0)
        ctx.traces += len(res["scs"])
        for f in res["fails"]:
            mine = [c for c in f["fails"] if any(c.startswith(w) for w in want)]
            if mine:
                sc = scen.get(f["l"])
                ctx.violation("reproduction trace, scenario %s, line %d (%s): %s" % (json.dumps(sc), f["l"], f["ev"], "; ".join(mine)),
                              "%s reproduce %s %s" % (prop, f["ev"], mine[0]),
                              {"kind": "x10", "scenario": sc, "line": f["l"], "event": f["ev"], "clauses": mine})
    ctx.evaluations += babies
    ctx.extra.setdefault("scope", {})["reproduction_traces"] = {"scenarios": sum(len(g) for g in groups), "babies": babies}

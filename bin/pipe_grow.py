"""Growth of the specification beyond the 20 listed properties (DESIGN.md section 3, "Growth beyond the listed
properties"): X01 roulette / random choices, X02 options readers and validation, X03 sort orders, X04 population
statistics and champion selection, X05 random start genomes.  Same binding as C07/C14/C19/C20 (B2): TLC checks the
laws on the specification and prints every case in scope with the value the specification assigns; `vh_grow` replays
every case on the real code.  These are NOT claimed properties (no entry in CHECKS / MANIFEST.json): they are run with
`bin/check --property X01 --tier quick|thorough` and write evidence/X01.json."""
from pipelines import pipeline, cat_files, spec_must_hold, write_lines, replay_cases, B2

CHECKS = {}

EXTRA = {
 "X01": dict(
  title="the roulette wheel and the random choices built on it select what their draw says",
  text="neat/math.SingleRouletteThrow is specified as the loop of the code over exact rationals (probabilities k/8, a draw j/G) next to its definition (first index whose cumulative sum reaches the scaled draw) and an interval table over the real line; TLC checks on every probability vector in scope (normalised or not, zeros anywhere, the empty and the all-zero vector) and every grid draw: loop = definition = table, index in range, never a zero-probability index for a positive draw on a wheel with positive total, monotone in the draw, grid share of every index proportional to its probability; RandSign as the parity table; Options.RandomNodeActivationType as the four-way case split of the code (no activators / one activator without a draw / length mismatch / roulette). Every case is replayed on the real functions with learned draws.",
  note="math/rand cannot be stubbed: the replayer seeds the global source, reads the first two rand.Float64() (u, u2), seeds again with the same seed and calls the real function, which therefore sees exactly u; the returned index is looked up in the TLC-generated interval table with exact integer arithmetic (u = m/2^53) and bracketed by the TLC-generated grid table; the following rand.Float64() must be u2 (exactly one draw consumed; zero draws for a single activator). Seeds are chosen so that every grid cell is hit by 3 seeds; probabilities are replayed at three power-of-two scalings. Exhaustive within: vectors of length 0..4 over {0,1,2,4}/8 on a 64-grid (quick), length 0..5 over {0,1,2,3,5}/8 on a 128-grid (thorough); activator lists of length 0..3 over 3 names x probability vectors of length 0..3. Draws are sampled (192 / 384 seeds per case), not enumerated: u = 0 exactly (where the code returns index 0 even if its probability is 0 - specified as such, `at_zero`) is never produced by a seed and is covered on the model only. Draws whose exact product u*total lies within 64 units of 2^-53 of a segment end are accepted either way (single float rounding) and counted. The frequency comparison over 20 000 free-running draws per wheel is information only. Trusted: TLC, math/rand's determinism under rand.Seed.",
  technique=B2),
 "X02": dict(
  title="both option readers load what the file says, agree with each other, and reject exactly the invalid files",
  text="neat.Options loading is specified on token lists <<key, literal>> with the numeric meaning of every literal as an exact rational / integer table: the plain reader (tokens applied in order, later wins, unknown key is an error, a non-number silently becomes 0, integers with base prefixes), the YAML reader (duplicate key or wrong type is a decode error, unknown keys ignored, integral floats accepted), then for both the log level, the activator lines (default SigmoidSteepened 1.0; unknown name, unreadable probability or a line with fewer than two fields is an error) and Validate (executor, compatibility method, activators present, as many probabilities). TLC checks: both readers give the same result on every well-formed file without activator lines; a well-formed file loads iff log level, executor and compatibility method are among the documented strings (and every activator line parses); the plain reader is order-independent and last-wins; the YAML reader ignores unknown keys; only YAML can express activators; Validate fails in the documented order; the accepted enum strings are exactly the constants; FromContext returns the innermost options of a context stack; the file-name dispatch (suffix yml / yaml without a dot). Every case is rendered in two layouts per syntax (plain: single space + LF / padded + CRLF + no final line end; YAML: bare / commented, blank lines, quoted activator lines), read by the real readers, and every field of neat.Options, the kept raw activator lines, the process-wide log level afterwards and the error class are compared. The option files shipped in data/ must load, each field must equal the file's token, and xor_test.neat / xor_test.neat.yml must agree on every scalar field.",
  note="Exhaustive within: 5 (quick) / 16 (thorough) assignments of 9 float and 7 integer literals to the 32 numeric fields (chosen so that any two fields differ in some assignment) x 4 executor x 4 compatibility x 6 log-level strings incl. absent and unsupported ones; around one (two) base file(s): every single missing key, every single repeated key, an unknown key at 3 positions, non-numeric literals (abc, 1e3, 200.5) in one float and one integer field, reversed order, the empty file; activator lists of up to 3 (4) lines over 5 (7) line shapes; 144 Validate records; context stacks up to depth 3 (4); 10 file names x plain / YAML / missing content. The key -> field table of the replayer is written from the field documentation, independently of the reader's switch and of the yaml tags. Error classes are recognised by message fragments (a reworded message shows up as a mismatch to be looked at, exit 1). Literals are a fixed palette, not arbitrary decimal strings; strconv / yaml.v3 number parsing is trusted beyond it. OBSERVATION (outside the verdict): MC_Options_short generates node_activators entries with fewer than two fields, for which the specification asks for an error; the YAML reader as found panics there (`index out of range [1] with length 1` in initNodeActivators, neat/neat_options_readers.go; minimal input `node_activators:\n  - LinearActivation`); the replayer records this under coverage.options.observations and does not alarm on it; suggested fix: `if len(fields) < 2 { return errors.Errorf(...) }` after strings.Fields(line) - with it any error of the activator stage is accepted, and any other outcome than error-or-this-panic (e.g. silently loading) is a violation. Trusted: TLC, the renderers of the replayer.",
  technique=B2),
}


def _run(ctx, replay, module, cfgs, command, cases_name, kind, extra_args=None, timeout=1500):
    cases_file = ctx.path(cases_name)
    if replay is not None:
        write_lines(cases_file, replay_cases(replay))
    else:
        files = []
        for cfg in cfgs:
            mc = ctx.tlc(module, cfg, timeout=timeout)
            spec_must_hold(mc, "%s/%s" % (module, cfg))
            files.append(mc.cases_file)
        n = cat_files(cases_file, files)
        ctx.exhaustive = True
        ctx.extra.setdefault("scope", {})["cases"] = n
        ctx.extra["scope"]["configs"] = cfgs
    rep_file = ctx.path(kind + "_report.json")
    _, rep, _ = ctx.vh([command, "-cases", cases_file, "-out", rep_file] + (extra_args or []), pkg="vh_grow",
                       expect_report=rep_file, timeout=timeout)
    ctx.add_report(rep, kind, traces=rep.get("cases", 0))
    if rep.get("extra"):
        ctx.extra[kind] = rep["extra"]
    return rep


# ------------------------------------------------------------------------------------------------ X01
@pipeline("X01")
def x01(ctx, replay):
    thorough = ctx.tier == "thorough"
    ctx.rule = ("MC_Roulette: every probability vector of length 0..MaxLen over Vals/8 (wheel cases), the parity table of "
                "RandSign, every activator list x probability vector in scope (activator cases); each wheel is thrown on "
                "the real SingleRouletteThrow with 3 learned draws per grid cell at 3 power-of-two scalings and compared "
                "with the specification's interval table, the grid bracket and the number of draws consumed; "
                "non-trivial = wheel with a zero-probability entry, positive total and at least two segments, or "
                "activator case that reaches the roulette")
    ctx.assumptions = ["probabilities are finite and non-negative (k/8); NaN / negative probabilities are out of scope",
                       "rand.Seed re-seeds the global source deterministically (Go 1.23 without GODEBUG randautoseed tricks)",
                       "a draw within 64 units of 2^-53 of a segment end may fall on either side (float rounding of u*total)"]
    _run(ctx, replay, "MC_Roulette", ["MC_Roulette_thorough.cfg" if thorough else "MC_Roulette.cfg"],
         "replay-roulette", "roulette_cases.ndjson", "roulette",
         extra_args=["-empirical", "20000"])


# ------------------------------------------------------------------------------------------------ X02
@pipeline("X02")
def x02(ctx, replay):
    import os
    import vlib
    thorough = ctx.tier == "thorough"
    ctx.rule = ("MC_Options (+ MC_Options_short): every option file in scope as a token list with the result the "
                "specification assigns to the plain and to the YAML reader, Validate records, context stacks, file names; "
                "each file is rendered in 2 layouts per syntax and read by LoadNeatOptions / LoadYAMLOptions (4 reads per "
                "case), all 35 fields + activators + raw lines + log level + error class compared; non-trivial = file on "
                "which the two readers differ or which is not well-formed, failing Validate record, nested context, "
                "name dispatched to YAML")
    ctx.assumptions = ["literals come from a fixed palette whose meaning is tabulated in Options.tla",
                       "error classes are recognised by fragments of the error message",
                       "a node_activators entry with fewer than two fields should be an error (any wording); the panic of the reader as found is recorded as an observation only"]
    cfgs = ["MC_Options_thorough.cfg" if thorough else "MC_Options.cfg", "MC_Options_short.cfg"]
    _run(ctx, replay, "MC_Options", cfgs, "replay-options", "options_cases.ndjson", "options")
    if replay is None or any(str(v.get("signature", "")).startswith("options shipped") for v in replay.get("violations", [])):
        rep_file = ctx.path("shipped_report.json")
        _, rep, _ = ctx.vh(["shipped-options", "-data", os.path.join(vlib.REPO, "data"), "-out", rep_file], pkg="vh_grow",
                           expect_report=rep_file)
        ctx.add_report(rep, "options-shipped")
        ctx.extra["shipped"] = rep.get("extra")

"""Growth of the specification beyond the 20 listed properties (DESIGN.md section 3, "Growth beyond the listed
properties"): X01 roulette / random choices, X02 options readers and validation, X03 sort orders, X04 population
statistics and champion selection, X05 random start genomes.  Same binding as C07/C14/C19/C20 (B2): TLC checks the
laws on the specification and prints every case in scope with the value the specification assigns; `vh_grow` replays
every case on the real code.  These are NOT claimed properties (no entry in CHECKS / MANIFEST.json): they are run with
`bin/check --property X01 --tier quick|thorough` and write evidence/X01.json."""
from pipelines import pipeline, cat_files, spec_must_hold, write_lines, replay_cases, B2

CHECKS = {}

EXTRA = {
 "X01": dict(
  title="the roulette wheel and the random choices built on it select what their draw says",
  text="neat/math.SingleRouletteThrow is specified as the loop of the code over exact rationals (probabilities k/8, a draw j/G) next to its definition (first index whose cumulative sum reaches the scaled draw) and an interval table over the real line; TLC checks on every probability vector in scope (normalised or not, zeros anywhere, the empty and the all-zero vector) and every grid draw: loop = definition = table, index in range, never a zero-probability index for a positive draw on a wheel with positive total, monotone in the draw, grid share of every index proportional to its probability; RandSign as the parity table; Options.RandomNodeActivationType as the four-way case split of the code (no activators / one activator without a draw / length mismatch / roulette). Every case is replayed on the real functions with learned draws.",
  note="math/rand cannot be stubbed: the replayer seeds the global source, reads the first two rand.Float64() (u, u2), seeds again with the same seed and calls the real function, which therefore sees exactly u; the returned index is looked up in the TLC-generated interval table with exact integer arithmetic (u = m/2^53) and bracketed by the TLC-generated grid table; the following rand.Float64() must be u2 (exactly one draw consumed; zero draws for a single activator). Seeds are chosen so that every grid cell is hit by 3 seeds; probabilities are replayed at three power-of-two scalings. Exhaustive within: vectors of length 0..4 over {0,1,2,4}/8 on a 64-grid (quick), length 0..5 over {0,1,2,3,5}/8 on a 128-grid (thorough); activator lists of length 0..3 over 3 names x probability vectors of length 0..3. Draws are sampled (192 / 384 seeds per case), not enumerated: u = 0 exactly (where the code returns index 0 even if its probability is 0 - specified as such, `at_zero`) is never produced by a seed and is covered on the model only. Draws whose exact product u*total lies within 64 units of 2^-53 of a segment end are accepted either way (single float rounding) and counted. The frequency comparison over 20 000 free-running draws per wheel is information only. Trusted: TLC, math/rand's determinism under rand.Seed.",
  technique=B2),
 "X02": dict(
  title="both option readers load what the file says, agree with each other, and reject exactly the invalid files",
  text="neat.Options loading is specified on token lists <<key, literal>> with the numeric meaning of every literal as an exact rational / integer table: the plain reader (tokens applied in order, later wins, unknown key is an error, a non-number silently becomes 0, integers with base prefixes), the YAML reader (duplicate key or wrong type is a decode error, unknown keys ignored, integral floats accepted), then for both the log level, the activator lines (default SigmoidSteepened 1.0; unknown name, unreadable probability or a line with fewer than two fields is an error) and Validate (executor, compatibility method, activators present, as many probabilities). TLC checks: both readers give the same result on every well-formed file without activator lines; a well-formed file loads iff log level, executor and compatibility method are among the documented strings (and every activator line parses); the plain reader is order-independent and last-wins; the YAML reader ignores unknown keys; only YAML can express activators; Validate fails in the documented order; the accepted enum strings are exactly the constants; FromContext returns the innermost options of a context stack; the file-name dispatch (suffix yml / yaml without a dot). Every case is rendered in two layouts per syntax (plain: single space + LF / padded + CRLF + no final line end; YAML: bare / commented, blank lines, quoted activator lines), read by the real readers, and every field of neat.Options, the kept raw activator lines, the process-wide log level afterwards and the error class are compared. The option files shipped in data/ must load, each field must equal the file's token, and xor_test.neat / xor_test.neat.yml must agree on every scalar field.",
  note="Exhaustive within: 5 (quick) / 16 (thorough) assignments of 9 float and 7 integer literals to the 32 numeric fields (chosen so that any two fields differ in some assignment) x 4 executor x 4 compatibility x 6 log-level strings incl. absent and unsupported ones; around one (two) base file(s): every single missing key, every single repeated key, an unknown key at 3 positions, non-numeric literals (abc, 1e3, 200.5) in one float and one integer field, reversed order, the empty file; activator lists of up to 3 (4) lines over 5 (7) line shapes; 144 Validate records; context stacks up to depth 3 (4); 10 file names x plain / YAML / missing content. The key -> field table of the replayer is written from the field documentation, independently of the reader's switch and of the yaml tags. Error classes are recognised by message fragments (a reworded message shows up as a mismatch to be looked at, exit 1). Literals are a fixed palette, not arbitrary decimal strings; strconv / yaml.v3 number parsing is trusted beyond it. OBSERVATION (outside the verdict): MC_Options_short generates node_activators entries with fewer than two fields, for which the specification asks for an error; the YAML reader as found panics there (`index out of range [1] with length 1` in initNodeActivators, neat/neat_options_readers.go; minimal input `node_activators:\n  - LinearActivation`); the replayer records this under coverage.options.observations and does not alarm on it; suggested fix: `if len(fields) < 2 { return errors.Errorf(...) }` after strings.Fields(line) - with it any error of the activator stage is accepted, and any other outcome than error-or-this-panic (e.g. silently loading) is a violation. Trusted: TLC, the renderers of the replayer.",
  technique=B2),
 "X03": dict(
  title="the sort orders of organisms, species and experiment records are strict weak orders and every sort / champion / maximum built on them gives what the order says",
  text="The six Less relations (genetics.Organisms: fitness then highestFitness; byOrganismOrigFitness: original fitness of the first organism, the older species is less on ties; ByOrganismFitness: maximum computed by ComputeMaxAndAvgFitness; experiment.Generations / Trials / Experiments: most recent evaluation time then id), findChampion, FindChampion and ComputeMaxAndAvgFitness are specified as relations / folds over integers. TLC checks on every list in scope: irreflexive, asymmetric, transitive, incomparability transitive (strict weak order: what sort.Sort needs), the descending / ascending arrangement is sorted and a permutation, only equal elements are incomparable for the three lexicographic orders, the champion is maximal, the coded maximum (running maximum starting at 0) is the true maximum on non-negative fitness, FindChampion as coded (running best starting at -1) is the first maximal organism when every fitness exceeds -1, n*max >= sum. The replayer builds real Organisms / Species / Generations / Trials / Experiments, compares Less with the specification's matrix for every ordered pair, Swap, sorts fresh copies with sort.Sort(sort.Reverse(x)) (what every call site does), sort.Sort(x) and sort.Stable(sort.Reverse(x)) and compares the key sequence and the permutation property (pointer identity), runs the real findChampion (champion key, organisms left best-first), FindChampion (pointer of the expected position, no reordering), ComputeMaxAndAvgFitness (exact), RecentEpochEvalTime and MostRecentTrialEvalTime.",
  note="Exhaustive within: organism lists up to 4 over fitness {0,1,2} x highestFitness {0,2} (quick) / up to 5 over {0,1,3} x {0,1,3} (thorough); species lists up to 3 (4) over original fitness x age {1,2,3}, each species built with a second organism whose values point the other way (only the first organism may count); species-maximum lists of up to 3 species with 0..2 organisms; stamped lists up to 3 (4) over time {zero,1,2} x id {0,1,2} replayed as Generations, as Trials (time = maximum over their generations) and as Experiments (maximum over trials, the most recent trial not the last). MC_Orders_negative adds fitness {-2,-1,0,1}: the verdict there is against the functions AS CODED; the two places where the code departs from the plain definition are recorded as OBSERVATIONS (coverage.orders.observations), not violations: ComputeMaxAndAvgFitness reports 0 as the maximum of a non-empty species whose organisms all have negative fitness, and FindChampion returns nil when every fitness is <= -1 (adjustFitness documents `Do not allow negative fitness`, so negative fitness is outside the documented domain of these functions). Not covered: NaN fitness (Less is not a strict weak order with NaN), species without organisms for byOrganismOrigFitness / findChampion (both index Organisms[0]: precondition). Needs the export shims of /repo/neat/genetics/verif_grow_on.go (build tag verif). Trusted: TLC, the standard library's sort given a strict weak order.",
  technique=B2),
 "X04": dict(
  title="population statistics, champion selection and the remaining trial / experiment accessors equal their definitions",
  text="Generation.FillPopulationStatistics is specified as the loop of the code (per species: sort best first under the Organisms order, take the first organism's fitness and genome complexity and the species age; champion = best organism of the first species whose best fitness is strictly greater than the running maximum; a generation that is already solved keeps its champion) next to its definition (first species holding an organism of maximal fitness); Generation.Average as exact sums over the species; Trial.AvgEpochDuration / Experiment.AvgTrialDuration / AvgEpochDuration with Go's truncating integer division and the EmptyDuration (-1) convention, including a trial without generations contributing -1 to the experiment's average as coded; Trial.BestOrganism and Experiment.BestOrganism for all champions and for solvers only (maximal key under the Organisms order, the set of generations / trials that may be reported, Flag = reported trial); champion accessors for generations without champion or species (0 / MaxInt); the remembered winner generation of WinnerStatistics; the exact ingredients of Experiment.EfficiencyScore. TLC checks: loop = definition, the champion is maximal, per-species fitness is the species maximum, every species is left best first, restricting to solvers cannot improve the best, found-flags, division brackets. Every case is built from real organisms (genome complexity tied to the organism key so that picking another organism shows) and every accessor compared.",
  note="Exhaustive within: populations of up to 2 (thorough 3) species of 1..2 organisms over fitness {-1,0,2} x highestFitness {0,1}, solved flag both ways; trials of up to 2 (3) generations over solved x 4 champion keys x a bit that sets duration and species age (0 = champion without species); experiments of up to 2 trials x 2 generations (thorough 3 x 1). Integer-valued fields are compared exactly, means with 1e-12; the final float formula of EfficiencyScore (log) is composed by the replayer from the specification's exact ingredients and compared with 1e-9 relative tolerance, for MaxFitnessScore 0 and 4. C19 already covers the other accessors; X03 covers RecentEpochEvalTime / MostRecentTrialEvalTime. OBSERVATIONS recorded in coverage.popstats.observations, not violations: (1) MC_PopStats_nochamp puts generations WITHOUT a champion in scope: Trial.BestOrganism / Experiment.BestOrganism sort the champions without a nil check and panic (nil dereference in Organisms.Less; a single nil champion is returned as (nil, true)), EfficiencyScore panics when the winner generation has no champion - while ChampionsFitness / ChampionSpeciesAges / ChampionsComplexities / ChampionComplexity tolerate a nil champion; (2) EfficiencyScore is 0 for every experiment with a single trial (the means are only taken when len(Trials) > 1) and NaN (0/0) when several trials exist and none is solved; (3) genetics.Population.MeanFitness / Variance / StandardDev are never assigned anywhere in the library (dead fields: nothing to check). The running maximum of the champion selection starts at float64(math.MinInt64): fitness below -9.2e18 is outside the scope. Species without organisms are outside the scope (FillPopulationStatistics indexes Organisms[0]). Trusted: TLC, the replayer's construction of organisms / generations.",
  technique=B2),
 "X05": dict(
  title="random start genomes have the documented shape and are exactly what the drawn connection matrix says",
  text="genetics.newGenomeRand (behind NewPopulationRandom) is specified as its double loop over the connection matrix next to a per-cell definition: node layout (sensors 1..in with the last one the bias, n hidden nodes, outputs at the end of the id range in + maxHidden + 1 .. total), a gene for cell c (link row -> col, col = c div total + 1, row = c mod total + 1) iff its bit is set, col is not a sensor, both ends exist and the link is forward or recurrence is allowed; innovation number = c, recurrent flag iff col <= row, genes in cell order. TLC checks for every parameter set in scope and every matrix (all 2^(total^2) matrices for total <= 3, quick / <= 4, thorough; a family of matrices above): loop = definition, node roles and ascending unique ids, no link into a sensor, both ends are nodes of the genome, recurrent genes only when allowed, innovation numbers ascending and equal to the matrix position, forward-only genomes acyclic by id order. The replayer learns the draws (as X01): it seeds the source, reads the stream as the specification says the construction consumes it (one uniform per cell, one roulette draw per hidden node when there are two activators, per created gene an integer for the sign and a uniform for the magnitude), seeds again and calls the real constructor; nodes (id, role, activation, trait), genes (innovation, ends, recurrence, weight, mutation number = weight, enabled, trait, wiring to the genome's own node objects), the trait, Genome.verify() (passes iff the genome has a gene) and the next value of the stream are compared. NewPopulationRandom: per genome one Intn(maxHidden) then the genome's draws; organisms, ids, generation, counters (next node id total + 1, next innovation total^2 + 1) and the species partition are compared.",
  note="The matrix cannot be forced: cases are parameter sets with the TLC-generated node list and per-cell table (eligible, gene), and the expected genome is the table filtered by the bits the code draws (40 seeds x link probability {0, .25, .5, .75, 1} x {one, two activators} per parameter set; 6 seeded populations of 6 per (in, out, maxHidden, recurrent)). Exhaustive on the model within in <= 2, out <= 2, maxHidden <= 2 (quick) / in <= 3, maxHidden <= 3 (thorough), n <= maxHidden; sampled on the code. OBSERVATIONS (coverage.randgenome.observations, not violations): NewPopulationRandom panics for maxHidden = 0 (rand.Intn(0)) and never creates maxHidden hidden nodes (n = Intn(maxHidden) < maxHidden); with a low link probability genomes come out without any gene, the population is built all the same, and Genome.verify() rejects such genomes. Trusted: TLC, math/rand determinism under rand.Seed, X01 for the roulette (two equally likely activators).",
  technique=B2),
}


def _run(ctx, replay, module, cfgs, command, cases_name, kind, extra_args=None, timeout=1500, regen_on_replay=False):
    cases_file = ctx.path(cases_name)
    if replay is not None and not regen_on_replay:
        write_lines(cases_file, replay_cases(replay))
    else:
        files = []
        for cfg in cfgs:
            mc = ctx.tlc(module, cfg, timeout=timeout)
            spec_must_hold(mc, "%s/%s" % (module, cfg))
            files.append(mc.cases_file)
        n = cat_files(cases_file, files)
        ctx.exhaustive = True
        ctx.extra.setdefault("scope", {})["cases"] = n
        ctx.extra["scope"]["configs"] = cfgs
    rep_file = ctx.path(kind + "_report.json")
    _, rep, _ = ctx.vh([command, "-cases", cases_file, "-out", rep_file] + (extra_args or []), pkg="vh_grow",
                       expect_report=rep_file, timeout=timeout)
    ctx.add_report(rep, kind, traces=rep.get("cases", 0))
    if rep.get("extra"):
        ctx.extra[kind] = rep["extra"]
    return rep


# ------------------------------------------------------------------------------------------------ X01
@pipeline("X01")
def x01(ctx, replay):
    thorough = ctx.tier == "thorough"
    ctx.rule = ("MC_Roulette: every probability vector of length 0..MaxLen over Vals/8 (wheel cases), the parity table of "
                "RandSign, every activator list x probability vector in scope (activator cases); each wheel is thrown on "
                "the real SingleRouletteThrow with 3 learned draws per grid cell at 3 power-of-two scalings and compared "
                "with the specification's interval table, the grid bracket and the number of draws consumed; "
                "non-trivial = wheel with a zero-probability entry, positive total and at least two segments, or "
                "activator case that reaches the roulette")
    ctx.assumptions = ["probabilities are finite and non-negative (k/8); NaN / negative probabilities are out of scope",
                       "rand.Seed re-seeds the global source deterministically (Go 1.23 without GODEBUG randautoseed tricks)",
                       "a draw within 64 units of 2^-53 of a segment end may fall on either side (float rounding of u*total)"]
    _run(ctx, replay, "MC_Roulette", ["MC_Roulette_thorough.cfg" if thorough else "MC_Roulette.cfg"],
         "replay-roulette", "roulette_cases.ndjson", "roulette",
         extra_args=["-empirical", "20000"])


# ------------------------------------------------------------------------------------------------ X02
@pipeline("X02")
def x02(ctx, replay):
    import os
    import vlib
    thorough = ctx.tier == "thorough"
    ctx.rule = ("MC_Options (+ MC_Options_short): every option file in scope as a token list with the result the "
                "specification assigns to the plain and to the YAML reader, Validate records, context stacks, file names; "
                "each file is rendered in 2 layouts per syntax and read by LoadNeatOptions / LoadYAMLOptions (4 reads per "
                "case), all 35 fields + activators + raw lines + log level + error class compared; non-trivial = file on "
                "which the two readers differ or which is not well-formed, failing Validate record, nested context, "
                "name dispatched to YAML")
    ctx.assumptions = ["literals come from a fixed palette whose meaning is tabulated in Options.tla",
                       "error classes are recognised by fragments of the error message",
                       "a node_activators entry with fewer than two fields should be an error (any wording); the panic of the reader as found is recorded as an observation only"]
    cfgs = ["MC_Options_thorough.cfg" if thorough else "MC_Options.cfg", "MC_Options_short.cfg"]
    _run(ctx, replay, "MC_Options", cfgs, "replay-options", "options_cases.ndjson", "options")
    if replay is None or any(str(v.get("signature", "")).startswith("options shipped") for v in replay.get("violations", [])):
        rep_file = ctx.path("shipped_report.json")
        _, rep, _ = ctx.vh(["shipped-options", "-data", os.path.join(vlib.REPO, "data"), "-out", rep_file], pkg="vh_grow",
                           expect_report=rep_file)
        ctx.add_report(rep, "options-shipped")
        ctx.extra["shipped"] = rep.get("extra")


# ------------------------------------------------------------------------------------------------ X03
@pipeline("X03")
def x03(ctx, replay):
    thorough = ctx.tier == "thorough"
    ctx.rule = ("MC_Orders (+ MC_Orders_negative): every list of organisms / species / species-with-organisms / stamped "
                "records in scope with the Less matrix, the key sequence of the descending and ascending arrangement, the "
                "champion key, FindChampion position, sum / count / maximum; each list is built from real objects, Less is "
                "evaluated on every ordered pair, three sorts are run on fresh copies and findChampion / FindChampion / "
                "ComputeMaxAndAvgFitness / RecentEpochEvalTime / MostRecentTrialEvalTime are compared; non-trivial = list "
                "with a tie on the first key component that the second component (or nothing) has to break")
    ctx.assumptions = ["finite integer fitness (no NaN); negative fitness only as coded (see note: observations)",
                       "species handed to byOrganismOrigFitness / findChampion have at least one organism"]
    _run(ctx, replay, "MC_Orders", ["MC_Orders_thorough.cfg" if thorough else "MC_Orders.cfg", "MC_Orders_negative.cfg"],
         "replay-orders", "orders_cases.ndjson", "orders")


# ------------------------------------------------------------------------------------------------ X04
@pipeline("X04")
def x04(ctx, replay):
    thorough = ctx.tier == "thorough"
    ctx.rule = ("MC_PopStats (+ MC_PopStats_nochamp): every population (species lists with organism keys, solved flag), "
                "trial (generations with solved flag, champion key, duration, species age) and experiment in scope with "
                "the values the definitions assign; each is built from real organisms / species / generations and "
                "FillPopulationStatistics, Generation.Average / ChampionComplexity, the duration averages, BestOrganism "
                "(both modes, trial and experiment), the champion accessors, WinnerStatistics (twice, and with a "
                "remembered winner) and EfficiencyScore are compared; non-trivial = population whose champion is not in "
                "the first species or whose best fitness is tied between species, trial whose best solver differs from "
                "its best champion, experiment with both solved and unsolved trials among several")
    ctx.assumptions = ["integer fitness above -9.2e18, every species has at least one organism",
                       "generations without a champion only as observations (BestOrganism / EfficiencyScore panic there)",
                       "EfficiencyScore: final float formula composed by the replayer, 1e-9 relative tolerance"]
    _run(ctx, replay, "MC_PopStats", ["MC_PopStats_thorough.cfg" if thorough else "MC_PopStats.cfg", "MC_PopStats_nochamp.cfg"],
         "replay-popstats", "popstats_cases.ndjson", "popstats", timeout=2400)


# ------------------------------------------------------------------------------------------------ X05
@pipeline("X05")
def x05(ctx, replay):
    thorough = ctx.tier == "thorough" or (replay is not None and replay.get("tier") == "thorough")
    ctx.rule = ("MC_RandGenome: every parameter set (in, out, maxHidden, n, recurrent) in scope with its node list and per-cell "
                "table; TLC checks the shape laws on every matrix (small totals) / a family of matrices; the replayer builds "
                "genomes with the real newGenomeRand for 40 seeds x 5 link probabilities x 2 activator lists per parameter "
                "set and populations with NewPopulationRandom, learning the drawn bits from the random stream; "
                "non-trivial = parameter set with hidden nodes for which set bits were skipped (ineligible cells) and, when "
                "recurrence is allowed, a recurrent gene was created")
    ctx.assumptions = ["n <= maxHidden, in >= 1, out >= 1", "rand.Seed re-seeds the global source deterministically",
                       "the matrix is sampled through seeds on the real code, exhaustive only on the model"]
    _run(ctx, replay, "MC_RandGenome", ["MC_RandGenome_thorough.cfg" if thorough else "MC_RandGenome.cfg"],
         "replay-randgenome", "randgenome_cases.ndjson", "randgenome", extra_args=["-seeds", "80" if thorough else "40"], timeout=2400,
         regen_on_replay=True)      # the cases are parameter tables and populations need all of them: a replay re-runs the tier

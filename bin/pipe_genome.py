"""Checks C01, C03, C04, C05, C06: the genetic operators.  TLC model-checks the operators of spec/Genome.tla over every
short history (MC_GenomeOps) and validates recorded traces of the real operators (vh_genome record-lineage) against
the same module (Trace_GenomeOps): binding B1 of DESIGN.md."""
import json
import os
from concurrent.futures import ThreadPoolExecutor

from pipelines import pipeline, spec_must_hold, B1
from vlib import Infra, CORES

RULES = {
    "C01": ("non-trivial = operator applications that produced a genome by a successful structural mutation or a crossover",
            lambda st: sum(v for k, v in st.items() if k.startswith("mutok:add") or k == "mutok:connect" or k.startswith("mate:"))),
    "C03": ("non-trivial = structural mutations that re-used an innovation recorded earlier in the same generation",
            lambda st: st.get("reuse", 0)),
    "C04": ("non-trivial = matings whose parents differ in gene count or carry genes the other lacks, with at least one disabled gene",
            lambda st: st.get("mate-nontrivial", 0)),
    "C05": ("non-trivial = successful structural mutations (add-node, add-link, connect-sensors) plus toggle / re-enable applications",
            lambda st: sum(v for k, v in st.items() if k in ("mutok:addnode", "mutok:addlink", "mutok:connect", "mut:toggle", "mut:reenable"))),
    "C06": ("non-trivial = duplications of a genome carrying a disabled gene, plus in-place mutations next to live copies",
            lambda st: st.get("dup-with-disabled-gene", 0)),
}


def record_and_validate(ctx, idx, seed, steps, segs):
    trace = ctx.path("lineage-%d.ndjson" % idx)
    rep_file = ctx.path("lineage-%d.report.json" % idx)
    _, rep, _ = ctx.vh(["record-lineage", "-out", trace, "-report", rep_file, "-steps", str(steps), "-segments", str(segs),
                        "-seed", str(seed)], pkg="vh_genome", expect_report=rep_file)
    r = ctx.tlc("Trace_GenomeOps", env={"TRACE": trace}, workers=1, timeout=1800, xss=True)
    if not r.ok:
        raise Infra("trace validation did not complete for seed %d: %s\n%s" % (seed, r.violated, r.output[-2000:]))
    fails = []
    with open(r.cases_file) as f:
        for line in f:
            if line.strip():
                fails.append(json.loads(line))
    return {"seed": seed, "steps": steps, "segs": segs, "trace": trace, "rep": rep, "fails": fails, "events": r.distinct - 1}


def event_line(trace, l):
    with open(trace) as f:
        for i, line in enumerate(f, 1):
            if i == l:
                return json.loads(line)
    return None


def brief(ev):
    """A compact rendering of an event for samples / replay payloads."""
    def g(x):
        return {"genes": [[e["inn"], e["src"], e["dst"], int(e["rec"]), int(e["en"]), e["w"]] for e in x["genes"]],
                "nodes": [[n["id"], n["role"]] for n in x["nodes"]]}
    out = {k: v for k, v in ev.items() if k in ("ev", "op", "ok", "err", "cmp", "gid", "cid", "c0", "c1", "times")}
    for k in ("pre", "post", "child", "p1pre", "p2pre", "g"):
        if k in ev:
            out[k] = g(ev[k])
    if "reg0" in ev:
        out["reg0"] = [[r["k"], r["src"], r["dst"], r["inn"], r["inn2"], r["node"], r["old"]] for r in ev["reg0"]]
    return out


def genome_pipeline(ctx, replay, prop):
    thorough = ctx.tier == "thorough"
    ctx.rule = ("(1) MC_GenomeOps: every history of <= MaxOps operator applications (add-node, add-link, connect-sensors, toggle, "
                "re-enable, weight change, multipoint and single-point crossover, generation boundary) from two start genomes "
                "over a shared innovation registry, all clauses as invariants; (2) lineage traces of the REAL operators: a pool of "
                "genomes (four segments per trace: XOR start genome, a hand-built genome with bias / unconnected sensor / disabled / "
                "recurrent / twin / nil-trait genes, random genomes, a genome whose sensors are not first in id order) is evolved by duplicate+mutate, mate(+mutate), in-place mutation and generation boundaries; "
                "every application is one event with projected operands before/after, registry and counters, validated line by "
                "line by TLC against Genome.tla; (3) for C01 / C03 / C06 also the epoch traces of C02 (constructed populations "
                "and every generation of real epochs under both executors, Trace_Epoch); " + RULES[prop][0])
    ctx.assumptions = ["start genomes: sensors first, consecutive trait ids, at least one gene (quantifier)",
                       "floats are interned: equal symbols <=> equal float64 bit patterns; averages are logged with the IEEE "
                       "expression (a+b)/2 the library uses",
                       "steps that the operators of Genome.tla do not explain exactly are counted as `nonconformance` (information), "
                       "only the clauses of the property statement are verdicts"]
    if replay is not None:
        jobs = []
        for v in replay.get("violations", []):
            p = v.get("replay", {})
            if p.get("kind") == "lineage":
                jobs.append((p["seed"], p["steps"], p["segs"]))
        jobs = sorted(set(jobs))[:8]
    else:
        for cfg in (["MC_GenomeOps_t1.cfg", "MC_GenomeOps_t2.cfg"] if thorough else ["MC_GenomeOps.cfg"]):
            mc = ctx.tlc("MC_GenomeOps", cfg, timeout=7000)
            spec_must_hold(mc, cfg)
        n = 48 if thorough else 6
        steps = 800 if thorough else 180
        jobs = [(ctx.seed * 1000 + i, steps, 4) for i in range(n)]
    ctx.vh_binary(pkg="vh_genome")   # build once before the threads start
    with ThreadPoolExecutor(max_workers=max(2, min(CORES - 2, 12))) as ex:
        results = list(ex.map(lambda a: record_and_validate(ctx, a[0], *a[1]), enumerate(jobs)))
    stats, nonconf = {}, []
    for res in results:
        ctx.traces += 1
        ctx.evaluations += res["events"]
        for k, v in res["rep"].get("extra", {}).get("stats", {}).items():
            stats[k] = stats.get(k, 0) + v
        for f in res["fails"]:
            mine = [x for x in f["fails"] if x.startswith(prop + ":")]
            nonconf += [(res["seed"], f["l"], x) for x in f["fails"] if x.startswith("conf:")]
            if mine:
                ev = event_line(res["trace"], f["l"])
                ctx.violation("trace seed %d line %d (%s %s): %s" % (res["seed"], f["l"], f.get("ev"), f.get("op", ""), "; ".join(mine)),
                              "%s %s %s %s" % (prop, f.get("ev"), f.get("op", ""), mine[0]),
                              {"kind": "lineage", "seed": res["seed"], "steps": res["steps"], "segs": res["segs"], "line": f["l"],
                               "clauses": mine, "event": brief(ev) if ev else None})
    ctx.nontrivial = RULES[prop][1](stats)
    ctx.extra["operator_applications"] = stats
    ctx.extra["nonconformance"] = {"count": len(nonconf), "first": [list(x) for x in nonconf[:5]]}
    want = {"C01": ("mut", "addnode"), "C03": ("mut", "addlink"), "C04": ("mate", None), "C05": ("mut", "addnode"), "C06": ("dup", None)}[prop]
    if results:
        with open(results[0]["trace"]) as f:
            for line in f:
                ev = json.loads(line)
                if ev["ev"] == want[0] and (want[1] is None or ev.get("op") == want[1]) and len(ctx.samples) < 2:
                    ctx.samples.append(brief(ev))
                if len(ctx.samples) >= 2:
                    break
    ctx.extra["scope"] = {"traces": len(results), "steps_per_segment": jobs[0][1] if jobs else 0, "segments": 4}
    if prop == "C03" and (replay is None or any(v.get("replay", {}).get("kind") == "schedule" for v in replay.get("violations", []))):
        # "one meaning per number" and "issued numbers are fresh" hold under either executor: every interleaving of the registry
        # protocol for two reproduction goroutines (InnovPar.tla) is forced on the real mutators, incl. the re-use of a split
        # that was recorded with non-consecutive numbers
        import pipe_parallel
        pipe_parallel.forced_schedules(ctx, replay, "C03", ["split-split", "split-linksplit"] + (["two-each"] if thorough else []), 0,
                                       asfound=False, clauses=["number with two meanings", "issued number not larger", "node id shared"])
    if prop in ("C01", "C04", "C05", "C06") and (replay is None or any(v.get("replay", {}).get("kind") == "x10" for v in replay.get("violations", []))):
        # the operators as the library itself applies them while reproducing (hooks in Species.reproduce, Trace_Reproduce)
        import pipe_grow_x10
        pipe_grow_x10.reproduce_traces(ctx, replay, prop)
    if prop in ("C01", "C03", "C06"):
        # the population-level clauses of the same property: constructed populations and whole epochs (Trace_Epoch)
        import pipe_epoch
        pipe_epoch.epoch_traces(ctx, replay, prop)


for _p in ("C01", "C03", "C04", "C05", "C06"):
    pipeline(_p)(lambda ctx, replay, _p=_p: genome_pipeline(ctx, replay, _p))

_NOTE = ("Model checking is exhaustive for histories of <= 3 operator applications from two start genomes (quick; <= 6 genes, pool <= 4) "
         "and, thorough, <= 4 applications from the 3-node start genome (pool <= 5, 1.6 M states) plus <= 3 applications with two "
         "generation boundaries from the 4-node start genome with larger size caps. Conformance is by trace validation of seeded random operator histories (quick: 6 traces x 4 "
         "segments x 180 driver steps plus six directed scenarios per segment; thorough: 48 x 4 x 800), not exhaustive. Trusted: TLC, the projection of Go objects to "
         "abstract records (harness/cmd/vh_genome/proj.go), float interning.")
CHECKS = {
 "C01": dict(text="Well-formedness (ordering, no duplicate link, own endpoints / traits by object identity, id index, no sensor target, retained sensors and outputs, expressible) is an invariant of every genome in every history of MC_GenomeOps, and is evaluated by TLC on the result of every recorded application of the real duplicate / 11 mutators / 3 crossovers in lineage traces (epoch-level genomes are covered by the C02 traces).",
             note=_NOTE, technique=B1, ref="DESIGN.md 7/C01"),
 "C03": dict(text="The trace specification owns the innovation registry, both counters and the history maps (meaning of each innovation number, role of each node id, largest numbers seen): TLC checks on every recorded structural mutation that numbers are fresh or repeat a record of the same generation, that an innovation identical to a recorded one re-uses its numbers, that no number has two meanings over the whole trace, and that the record is empty after a generation boundary; the same clauses are invariants of MC_GenomeOps.",
             note=_NOTE, technique=B1, ref="DESIGN.md 7/C03"),
 "C04": dict(text="The clauses of C04 are relations between child and parents in Genome.tla (origin of every gene, weights incl. logged IEEE means, fitter-parent rule with ties, matching genes inherited unless the link is already present, enabled-flag rule, node set, averaged traits, parents untouched, no shared objects); TLC evaluates them on every recorded mating of the three real crossovers and on every crossover of MC_GenomeOps.",
             note=_NOTE, technique=B1, ref="DESIGN.md 7/C04"),
 "C05": dict(text="Each mutator's documented effect is a before/after relation in Genome.tla (add-node, add-link, connect-sensors statements with complete frame conditions; parametric frame; toggle and re-enable rules); TLC evaluates the relation of the applied mutator on every recorded application (with empty, matching and non-matching innovation records in the shared registry) and on every step of MC_GenomeOps.",
             note=_NOTE, technique=B1, ref="DESIGN.md 7/C05"),
 "C06": dict(text="Duplicate(g) = g in every genetic field with disjoint object identities is evaluated by TLC on every recorded duplication (genomes with disabled, recurrent, nil-trait genes); independence is evaluated at every event: no pool member other than the operand changes its genetic digest while copies and originals are mutated in place. (The spawn clause is checked on NewPopulation snapshots by the C02 traces.)",
             note=_NOTE, technique=B1, ref="DESIGN.md 7/C06"),
}

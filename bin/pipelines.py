"""Per-property check pipelines (DESIGN.md section 7).  Every pipeline takes the run context and, when re-running a
recorded violation, the replay payload."""
import json
import os

from vlib import Infra

PIPELINES = {}


def pipeline(pid):
    def reg(fn):
        PIPELINES[pid] = fn
        return fn
    return reg


def printed_cases(result):
    """JSON cases printed by a spec with PrintT(ToJson(..)); TLC may evaluate an action more than once: dedupe."""
    seen, out = set(), []
    for line in result.printed:
        if not line.startswith('"{'):
            continue
        try:
            inner = json.loads(line)
        except ValueError:
            continue
        if inner in seen:
            continue
        seen.add(inner)
        out.append(inner)
    return out


def spec_must_hold(r, what):
    if not r.ok:
        raise Infra("spec-level counterexample in %s (invariant %s): the specification itself violates its "
                    "property - this is a defect of the model, not a verdict about the code\n%s"
                    % (what, r.violated, r.output[-3000:]))


def write_lines(path, lines):
    with open(path, "w") as f:
        for l in lines:
            f.write(l if isinstance(l, str) else json.dumps(l))
            f.write("\n")


def replay_cases(replay, key="case"):
    out = []
    for v in replay.get("violations", []):
        c = v.get("replay", {}).get("failure", {}).get(key)
        if c is not None:
            out.append(c)
    return out


# ------------------------------------------------------------------------------------------------ C07
@pipeline("C07")
def c07(ctx, replay):
    thorough = ctx.tier == "thorough"
    ctx.rule = ("cases = every pair of ascending gene lists over innovation numbers 1..K with mutation numbers "
                "{0,1,3} vs 1 on matching genes (emitted by MC_Compat at its terminal states, K=%d) plus structured long "
                "pairs (Gen_Compat: prefixes, long excess tails, interleaved, disjoint ranges); each is measured on the "
                "real code with both methods, both argument orders, 6 coefficient vectors, 3 scalings; non-trivial = "
                "distinct case with at least one excess, one disjoint and one matching gene" % (5 if thorough else 4))
    ctx.assumptions = ["genes sorted by innovation number (quantifier of C07)",
                       "dyadic coefficients and mutation numbers so that every product is exact; 1e-12 relative "
                       "tolerance only for the single division by the matching count"]
    cases_file = ctx.path("compat_cases.ndjson")
    if replay is not None:
        write_lines(cases_file, replay_cases(replay))
    else:
        mc = ctx.tlc("MC_Compat", "MC_Compat_thorough.cfg" if thorough else "MC_Compat.cfg", timeout=1500)
        spec_must_hold(mc, "MC_Compat")
        cases = printed_cases(mc)
        fam = ctx.path("families.ndjson")
        g = ctx.tlc("Gen_Compat", "Gen_Compat_thorough.cfg" if thorough else "Gen_Compat.cfg", env={"OUT": fam},
                    workers=4, timeout=600, count=False)
        spec_must_hold(g, "Gen_Compat")
        with open(fam) as f:
            cases += [l.strip() for l in f if l.strip()]
        write_lines(cases_file, cases)
        ctx.exhaustive = True
        ctx.extra["scope"] = {"K": 5 if thorough else 4, "cases": len(cases)}
    rep_file = ctx.path("compat_report.json")
    _, rep, _ = ctx.vh(["replay-compat", "-cases", cases_file, "-out", rep_file], expect_report=rep_file)
    ctx.add_report(rep, "compat", traces=rep.get("cases", 0))

"""Per-property check pipelines (DESIGN.md section 7).  Every pipeline takes the run context and, when re-running a
recorded violation, the replay payload."""
import json
import os

from vlib import Infra

PIPELINES = {}
B2 = "TLA+ model checking (TLC) of the transcribed algorithm + TLC-generated behaviours replayed on the implementation"
B1 = "TLA+ trace validation (TLC) of recorded executions of the implementation + TLC model checking of the spec"


def pipeline(pid):
    def reg(fn):
        PIPELINES[pid] = fn
        return fn
    return reg


def cat_files(dst, srcs):
    n = 0
    with open(dst, "w") as fo:
        for s in srcs:
            with open(s) as fi:
                for line in fi:
                    if line.strip():
                        fo.write(line if line.endswith("\n") else line + "\n")
                        n += 1
    return n


def spec_must_hold(r, what):
    if not r.ok:
        raise Infra("spec-level counterexample in %s (invariant %s): the specification itself violates its "
                    "property - this is a defect of the model, not a verdict about the code\n%s"
                    % (what, r.violated, r.output[-3000:]))


def write_lines(path, lines):
    with open(path, "w") as f:
        for l in lines:
            f.write(l if isinstance(l, str) else json.dumps(l))
            f.write("\n")


def replay_cases(replay, key="case"):
    out = []
    for v in replay.get("violations", []):
        c = v.get("replay", {}).get("failure", {}).get(key)
        if c is not None:
            out.append(c)
    return out


def load_all():
    """Import every bin/pipe_*.py module; each registers its pipelines with @pipeline and describes its checks in CHECKS."""
    import glob
    import importlib
    mods = []
    here = os.path.dirname(os.path.abspath(__file__))
    for f in sorted(glob.glob(os.path.join(here, "pipe_*.py"))):
        try:
            mods.append(importlib.import_module(os.path.basename(f)[:-3]))
        except Exception as e:      # a broken family must not take the other checks down with it
            import sys
            print("warning: cannot load %s: %s" % (os.path.basename(f), e), file=sys.stderr)
    return mods

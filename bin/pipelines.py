"""Per-property check pipelines (DESIGN.md section 7).  Every pipeline takes the run context and, when re-running a
recorded violation, the replay payload."""
import json
import os

from vlib import Infra

PIPELINES = {}


def pipeline(pid):
    def reg(fn):
        PIPELINES[pid] = fn
        return fn
    return reg


def cat_files(dst, srcs):
    n = 0
    with open(dst, "w") as fo:
        for s in srcs:
            with open(s) as fi:
                for line in fi:
                    if line.strip():
                        fo.write(line if line.endswith("\n") else line + "\n")
                        n += 1
    return n


def spec_must_hold(r, what):
    if not r.ok:
        raise Infra("spec-level counterexample in %s (invariant %s): the specification itself violates its "
                    "property - this is a defect of the model, not a verdict about the code\n%s"
                    % (what, r.violated, r.output[-3000:]))


def write_lines(path, lines):
    with open(path, "w") as f:
        for l in lines:
            f.write(l if isinstance(l, str) else json.dumps(l))
            f.write("\n")


def replay_cases(replay, key="case"):
    out = []
    for v in replay.get("violations", []):
        c = v.get("replay", {}).get("failure", {}).get(key)
        if c is not None:
            out.append(c)
    return out


# ------------------------------------------------------------------------------------------------ C07
@pipeline("C07")
def c07(ctx, replay):
    thorough = ctx.tier == "thorough"
    ctx.rule = ("cases = every pair of ascending gene lists over innovation numbers 1..K with mutation numbers "
                "{0,1,3} vs 1 on matching genes (emitted by MC_Compat at its terminal states, K=%d) plus structured long "
                "pairs (Gen_Compat: prefixes, long excess tails, interleaved, disjoint ranges); each is measured on the "
                "real code with both methods, both argument orders, 6 coefficient vectors, 3 scalings; non-trivial = "
                "distinct case with at least one excess, one disjoint and one matching gene" % (5 if thorough else 4))
    ctx.assumptions = ["genes sorted by innovation number (quantifier of C07)",
                       "dyadic coefficients and mutation numbers so that every product is exact; 1e-12 relative "
                       "tolerance only for the single division by the matching count"]
    cases_file = ctx.path("compat_cases.ndjson")
    if replay is not None:
        write_lines(cases_file, replay_cases(replay))
    else:
        mc = ctx.tlc("MC_Compat", "MC_Compat_thorough.cfg" if thorough else "MC_Compat.cfg", timeout=1500)
        spec_must_hold(mc, "MC_Compat")
        fam = ctx.path("families.ndjson")
        g = ctx.tlc("Gen_Compat", "Gen_Compat_thorough.cfg" if thorough else "Gen_Compat.cfg", env={"OUT": fam},
                    workers=4, timeout=600, count=False)
        spec_must_hold(g, "Gen_Compat")
        ncases = cat_files(cases_file, [mc.cases_file, fam])
        ctx.exhaustive = True
        ctx.extra["scope"] = {"K": 5 if thorough else 4, "cases": ncases}
    rep_file = ctx.path("compat_report.json")
    _, rep, _ = ctx.vh(["replay-compat", "-cases", cases_file, "-out", rep_file], expect_report=rep_file)
    ctx.add_report(rep, "compat", traces=rep.get("cases", 0))


# ------------------------------------------------------------------------------------------------ C14
@pipeline("C14")
def c14(ctx, replay):
    thorough = ctx.tier == "thorough"
    ctx.rule = ("behaviours of MC_Depth: a network is built link by link (every link set over the node scope in BFS "
                "mode, random insertion orders in simulation mode), then queried for its activation depth MaxQ times "
                "with caps from Caps; each finished behaviour is replayed on a real network (built through the "
                "network API and expressed from a genome) comparing result, error and leftover traversal marks after "
                "every query; non-trivial = behaviour in which a query hit its cap")
    ctx.assumptions = ["non-modular networks (quantifier of C14)", "5 s watchdog per behaviour decides termination"]
    cases_file = ctx.path("depth_cases.ndjson")
    if replay is not None:
        write_lines(cases_file, replay_cases(replay))
    else:
        runs = []
        mc = ctx.tlc("MC_Depth", "MC_Depth_thorough.cfg" if thorough else "MC_Depth.cfg", timeout=2400)
        spec_must_hold(mc, "MC_Depth")
        runs.append(mc.cases_file)
        nh = ctx.tlc("MC_Depth", "MC_Depth_nohidden.cfg", timeout=600)
        spec_must_hold(nh, "MC_Depth/nohidden")
        runs.append(nh.cases_file)
        sim = ctx.tlc("MC_Depth", "Sim_Depth.cfg", simulate="num=%d" % (4000 if thorough else 150), depth=40,
                      extra=["-seed", str(ctx.seed)], timeout=1200)
        spec_must_hold(sim, "MC_Depth/simulate")
        runs.append(sim.cases_file)
        n = cat_files(cases_file, runs)
        ctx.exhaustive = True
        ctx.extra["scope"] = {"behaviours": n, "bfs": "1 sensor, 2 hidden, %d output(s), all link sets%s" % (
            2 if thorough else 1, " up to 7 links" if thorough else ""),
            "simulate": "2 sensors, 3 hidden, 2 outputs, <= 14 links, any insertion order, 3 queries"}
    rep_file = ctx.path("depth_report.json")
    _, rep, _ = ctx.vh(["replay-depth", "-cases", cases_file, "-out", rep_file], expect_report=rep_file)
    ctx.add_report(rep, "depth", traces=rep.get("cases", 0))


# ------------------------------------------------------------------------------------------------ C19
@pipeline("C19")
def c19(ctx, replay):
    thorough = ctx.tier == "thorough"
    ctx.rule = ("MC_Stats: every integer series over Vals of length 1..MaxLen in every order, the empty series, and every "
                "experiment of <= MaxTrials trials x <= MaxGens generations over the generation scope; each is built as a "
                "real Floats / Experiment value (series at 3 power-of-two scalings) and all accessors are compared with the "
                "exact rational values of the definitions; non-trivial = unsorted series, or experiment with both solved "
                "and unsolved trials")
    ctx.assumptions = ["finite series of integers scaled by powers of two (exact comparison for order statistics and sums, "
                       "1e-12 relative for mean/variance)",
                       "variance of a single element is undefined (NaN), as in the textbook sample variance",
                       "ties for the best organism of a trial may be resolved either way"]
    cases_file = ctx.path("stats_cases.ndjson")
    if replay is not None:
        write_lines(cases_file, replay_cases(replay))
    else:
        mc = ctx.tlc("MC_Stats", "MC_Stats_thorough.cfg" if thorough else "MC_Stats.cfg", timeout=2400)
        spec_must_hold(mc, "MC_Stats")
        n = cat_files(cases_file, [mc.cases_file])
        ctx.exhaustive = True
        ctx.extra["scope"] = {"cases": n}
    rep_file = ctx.path("stats_report.json")
    _, rep, _ = ctx.vh(["replay-stats", "-cases", cases_file, "-out", rep_file], expect_report=rep_file)
    ctx.add_report(rep, "stats", traces=rep.get("cases", 0))


# ------------------------------------------------------------------------------------------------ C20
@pipeline("C20")
def c20(ctx, replay):
    thorough = ctx.tier == "thorough"
    ctx.rule = ("behaviours of MC_Experiment: every script over {ok, solved, fail, cancel-while-evaluating, "
                "cancel-and-solved} for the configured runs x generations, with and without an observer; each is run "
                "through the real Experiment.Execute (sequential and parallel epoch executor, population of 8) with a "
                "scripted evaluator and a recording observer and compared with the specification's evaluator log, "
                "observer log, recorded trials, final population states and returned error; non-trivial = script that "
                "contains an outcome other than ok")
    ctx.assumptions = ["population identity is observed through *Population / *Organism pointers",
                       "nothing is asserted about a finish notification for a trial aborted by an error"]
    cases_file = ctx.path("exp_cases.ndjson")
    if replay is not None:
        write_lines(cases_file, replay_cases(replay))
    else:
        cfgs = ["MC_Experiment.cfg", "MC_Experiment_small.cfg", "MC_Experiment_wide.cfg", "MC_Experiment_nogens.cfg"]
        if thorough:
            cfgs.append("MC_Experiment_thorough.cfg")
        files = []
        for cfg in cfgs:
            mc = ctx.tlc("MC_Experiment", cfg, timeout=2400)
            spec_must_hold(mc, cfg)
            files.append(mc.cases_file)
        n = cat_files(cases_file, files)
        ctx.exhaustive = True
        ctx.extra["scope"] = {"behaviours": n, "configs": cfgs}
    rep_file = ctx.path("exp_report.json")
    _, rep, _ = ctx.vh(["replay-experiment", "-cases", cases_file, "-out", rep_file], expect_report=rep_file, timeout=3000)
    ctx.add_report(rep, "experiment", traces=rep.get("cases", 0))

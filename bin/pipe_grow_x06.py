"""Growth suite X06 (DESIGN.md section 15): the graph writers of neat/network/formats (Cytoscape JSON, DOT) and the
file writers of experiment/utils built on them, specified in spec/Formats.tla as a PROJECTION of the abstract network of
spec/Phenotype.tla.  Same binding as the other growth suites (B2): TLC checks the laws on every network in scope and
prints each with the element sets the specification assigns; `vh_x06` builds the real network, calls the real writers,
PARSES their output and compares.  Not a claimed property (no entry in CHECKS / MANIFEST.json): run with
`bin/check --property X06 --tier quick|thorough`, evidence in evidence/X06.json."""
from pipelines import pipeline, cat_files, spec_must_hold, write_lines, replay_cases, B2

CHECKS = {}

EXTRA = {
 "X06": dict(
  title="the graph writers emit exactly the nodes and links of the network, each once, with the documented attributes and styling, and pass every failure on",
  text="formats.WriteCytoscapeJSON / WriteCytoscapeJSONWithStyle, formats.WriteDOT (gonum's DOT printer over the network's graph view) and utils.WriteGenomePlain / WriteGenomeDOT / WriteGenomeCytoscapeJSON are specified in spec/Formats.tla over the Net record of Phenotype.tla (nodes with id / neuron type / activation type / activation value / trait / Params, links with ends / weight / recurrent / time-delayed / trait / Params, control nodes with their input and output lists). Two layers per writer: the element sets DEFINED over the record (one node element per ordinary and per control node; one edge element per link incl. the links to and from control nodes; every member of every element: id strings, type and activation names with `unknown` / absent for an unregistered type, connection counts, colours / shape / border as a function of (control?, neuron type), weight, flags, trait, parent, selectable; for DOT the strict digraph header and name, node statements in id order with neuron_type / activation_type / parameters, one edge statement per ordered pair with the weight as the 6-decimal rounding of %f, ties to even), and the loops of the code transcribed over the structure the library keeps (per-node Incoming / Outgoing, control nodes apart; gonum's printer over the transcribed Nodes / From / Edge). TLC checks on every network in scope: loops = definition, each element exactly once, every edge joins two emitted nodes, element counts = NodeCount / LinkCount = the numbers in the file name `<name>_<nodes>-<links><ext>`, both writers show the same set of arrows, edge ids unique iff no parallel links, the styling separates the five kinds of node and a control node looks the same whatever its neuron type, WriteCytoscapeJSON = WithStyle(default options), layout / style members present iff given, the rounding bounds of %f, and the table of a writer that fails after k bytes (error iff k < output length, the accepted bytes are a prefix). The replayer builds each network through the network API, calls the writers, decodes the JSON / reads the DOT text with its own reader, and compares header, every element and every member as bags (order is reported, not judged); it names the files the three utils writers produce from a real organism for every network a genome can express and compares their parsed content; it runs both writers against a failing writer for EVERY byte budget 0..L+1 on the smallest networks, and against a file that cannot be created.",
  note="Exhaustive within the shapes of MC_Formats (one TLC state per network x payload pattern). Quick: no nodes / I,O (<= 4 links, <= 2 control nodes) / O,X,I with descending ids 5,3,1 and X a foreign neuron type / I,B,H,O with ids 1,2,4,6 and the control node at id 3 (<= 3 links) / I,B,H,H,O (<= 2 links) / I,I,B,H,H,O,O (<= 1 link); every set of links over all <<src, dst, recurrent>> slots (src any node, dst any non-sensor: self-loops, recurrent flags, PARALLEL links differing in the flag), control nodes with 1..2 inputs and 1..2 outputs (<= 3 in total). Thorough adds O alone, I,H,O with two control nodes, 5- and 6-node shapes, up to 4 links on 4 nodes, 2 links on 7 nodes, <= 4 listed nodes per control node. Crossed with three payload patterns (what a genome can say / everything set: activation values, traits, Params, time-delayed links, an unregistered activation type, control nodes of any neuron type, network names that need quoting or are DOT keywords, weights k/256 whose %f rendering rounds both ways and at both kinds of tie / one +Inf); payload values rotate with the structure, they are not crossed. 19 style options on the smallest networks. All numbers are dyadic: compared with ==. The failing writer is tried with every budget on ~30 cases (the specification's table reaches L <= 40 directly - the two smallest outputs - and is extended by a port that is validated against the whole table). OBSERVATIONS (coverage.formats.observations; the specification follows the code there, none is a violation): (1) two links between the same ordered pair (they differ in the recurrent flag) give two Cytoscape edges with the SAME id `src-dst` (Cytoscape requires unique ids) and ONE DOT edge carrying the attributes of the first (strict digraph); (2) DOT weights are printed with %f: 1/256 becomes 0.003906, +Inf becomes \"+Inf\", while the Cytoscape writer fails on any non-finite weight or activation value (json: unsupported value) after writing nothing; (3) in_connections_count / out_connections_count of an ordinary node leave out its links to and from control nodes; (4) MC_Formats_overlap puts a node on BOTH lists of one control node in scope: Network.Edge(control, node) answers nil there (Phenotype.tla: out of scope of C11) and the DOT edge control -> node is written without attributes; (5) the three utils writers never close the file they create (descriptors are released by the garbage collector's finalizers; counted over 30 writes); WriteGenomePlain of an organism with modules names the file with counts that include control nodes and links, which the plain encoding does not hold; (6) every Cytoscape node carries `parent: \"\"`. Not covered: CreateOutDirForTrial's log.Fatal path, WritePopulationPlain (no counts in its name; C15 covers the codec), layout objects other than the two of the table. Trusted: TLC, encoding/json and the DOT reader of the replayer (written from the DOT grammar), strconv.Unquote for gonum's strconv.Quote.",
  technique=B2),
}


def _run(ctx, replay, module, cfgs, command, cases_name, kind, extra_args=None, timeout=1500, replay_cfgs=None):
    cases_file = ctx.path(cases_name)
    files = []
    if replay is not None:
        # the recorded cases refer to the specification's tables by symbol: a small config re-emits them
        for cfg in replay_cfgs or []:
            mc = ctx.tlc(module, cfg, timeout=timeout)
            spec_must_hold(mc, "%s/%s" % (module, cfg))
            tab = ctx.path("tables.ndjson")
            with open(mc.cases_file) as fi:
                write_lines(tab, [l.rstrip("\n") for l in fi if l.startswith('{"kind":"tables"')][:1])
            files.append(tab)
        rec = ctx.path("recorded.ndjson")
        write_lines(rec, replay_cases(replay))
        files.append(rec)
        cat_files(cases_file, files)
    else:
        for cfg in cfgs:
            mc = ctx.tlc(module, cfg, timeout=timeout)
            spec_must_hold(mc, "%s/%s" % (module, cfg))
            files.append(mc.cases_file)
        n = cat_files(cases_file, files)
        ctx.exhaustive = True
        ctx.extra.setdefault("scope", {})["cases"] = n
        ctx.extra["scope"]["configs"] = cfgs
    rep_file = ctx.path(kind + "_report.json")
    _, rep, _ = ctx.vh([command, "-cases", cases_file, "-out", rep_file] + (extra_args or []), pkg="vh_x06",
                       expect_report=rep_file, timeout=timeout)
    ctx.add_report(rep, kind, traces=rep.get("cases", 0))
    if rep.get("extra"):
        ctx.extra[kind] = rep["extra"]
    return rep


# ------------------------------------------------------------------------------------------------ X06
@pipeline("X06")
def x06(ctx, replay):
    thorough = ctx.tier == "thorough"
    ctx.rule = ("MC_Formats (+ MC_Formats_overlap): every network in scope x payload pattern (x style option on the smallest) "
                "with the Cytoscape node / edge elements, the layout / style members, the DOT header, node and edge statements "
                "and the file names the specification assigns; each network is built through the network API and written by "
                "WriteCytoscapeJSON(WithStyle) and WriteDOT, the outputs are parsed and compared element by element, member by "
                "member; networks a genome can express are also written through utils.WriteGenomePlain / DOT / CytoscapeJSON "
                "from a real organism; the failing writer is run with every byte budget on the smallest cases; "
                "non-trivial = network with a control node, parallel links or a self-loop")
    ctx.assumptions = ["node ids are distinct across ordinary and control nodes; links end in a non-sensor node",
                       "a control node lists a node at most once per side; a node on both sides only in MC_Formats_overlap (information)",
                       "weights, activation values and Params are dyadic (k/256) or +Inf; NaN and -Inf are not in scope",
                       "the order of elements inside the nodes / edges arrays and of the DOT statements is reported, not judged"]
    # the TLC runs write one case per state (tens of MB): they are independent, the replayer reads the concatenation
    cfgs = ["MC_Formats_thorough.cfg" if thorough else "MC_Formats.cfg", "MC_Formats_overlap.cfg"]
    _run(ctx, replay, "MC_Formats", cfgs, "replay-formats", "formats_cases.ndjson", "formats", timeout=2400,
         replay_cfgs=["MC_Formats_overlap.cfg"])

#!/usr/bin/env python3
"""Prints the markdown table of DESIGN.md section 14 from seeded/*/meta.json."""
import glob
import json
import os
VERIF = os.path.dirname(os.path.dirname(os.path.abspath(__file__)))
rows = []
for mp in sorted(glob.glob(os.path.join(VERIF, "seeded", "*", "meta.json"))):
    m = json.load(open(mp))
    name = os.path.basename(os.path.dirname(mp))
    ev = m.get("evaluation", {})
    res = []
    for k, v in ev.items():
        if k.startswith("checks_"):
            for p, r in v.items():
                res.append("%s %s: **%s**" % (p, k[7:], r["verdict"]))
    rows.append("| `%s` | %s | %s | %s | %s |" % (name, m.get("property"), ", ".join(os.path.basename(f) for f in m.get("files_touched", [])),
                                                  m.get("summary", m.get("needs_to_manifest", "")), "; ".join(res) or "not yet run"))
print("| seeded change | property | touches | what it is / what it needs to manifest | result |")
print("|---|---|---|---|---|")
print("\n".join(rows))

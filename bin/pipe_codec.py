"""Check C15 (everything the library writes it reads back unchanged): the formats are specified at token level in
spec/Codec.tla; TLC checks Read(Write(x)) = x on every structure in scope and hands every structure to the replayer
(binding B2); genomes of real evolution runs are round-tripped and their real plain encodings validated by the trace
specification Trace_Codec (binding B1)."""
import json
import os

from vlib import Infra
from pipelines import pipeline, cat_files, spec_must_hold, write_lines, replay_cases, B2

CHECKS = {
 "C15": dict(
  text="The persistent formats (plain and YAML genome, organism binary form, population file, fast-solver JSON model, experiment gob stream) are specified as token streams / documents with separately transcribed writer and reader models; TLC checks Read(Write(x)) = x (plain format: minus control genes; YAML: exact unless a negative zero occurs) on every genome, organism, population and experiment record in scope. Every structure is rebuilt from real objects with adversarial float64 values, written by the real writer (output compared token by token with the model's), read back by the real reader and compared bit for bit; restored fast solvers are driven against the originals; experiment statistics are compared before/after. Reads are also performed into values already in use (Experiment.Read into a value that held another / the same experiment with all statistics computed, Organism.UnmarshalBinary into a used organism; model: ExpReadInto / ReadIntoLaw - the result depends on the file only), and an organism's binary form must survive further marshalling. Every genome of every generation of real evolution runs is round-tripped through every genome format (each generation also through Population.Write and WriteBySpecies -> ReadPopulation and the fast model file; every third genome again with node ids x1000 and innovation numbers beyond 32 bits), and the real plain encodings are validated by TLC against the writer and reader models (Trace_Codec).",
  note="Exhaustive (TLC BFS) per dimension, not over the product: every gene line (all node pairs incl. self-loops, 4 flag combinations, trait pointer nil/set, 4-5 weight classes) over a fixed context; every node list of 0-1 bias, 0-1 (thorough 0-2) inputs, 1 (1-2) outputs, 0-1 hidden with trait pointers nil/set; every list of 1-2 (1-3) genes; all 400 output x hidden pairs of the 20 scalar activation types; one control gene with every module activation, 1-2 inputs/outputs; organisms, populations of <= 3 (4) and experiments of <= 2 (3) trials x <= 2 generations over a pool of 3 genomes. Larger genomes (<= 3 traits, 9 nodes, 7 genes, 2 modules) only by TLC simulation; evolved genomes are samples. Exactness of float text (shortest round-trip formatting) is decided by the replayer's bit comparison on 2 (thorough 4) seed-derived tables of ~1000 adversarial finite float64 values per structure, not by TLC. Assumptions: finite floats; -0.0 excluded for YAML only (its sign is lost there; kept everywhere else); every generation of an experiment has a champion (a nil champion writes a stream that cannot be read); only what the writers write is compared (not Trial.Duration, Experiment.RandSeed/MaxFitnessScore, species). Trusted: TLC, the replayer's construction and projection of genomes, yaml.v3/json/gob generic decoders used to compare documents.",
  technique=B2, ref="DESIGN.md 7/C15"),
}

QUICK_CFGS = ["MC_Codec.cfg", "MC_Codec_nodes.cfg", "MC_Codec_multi.cfg", "MC_Codec_acts.cfg", "MC_Codec_mods.cfg"]
THOROUGH_CFGS = ["MC_Codec_thorough.cfg", "MC_Codec_nodes_thorough.cfg", "MC_Codec_multi_thorough.cfg", "MC_Codec_acts.cfg",
                 "MC_Codec_mods_thorough.cfg"]


@pipeline("C15")
def c15(ctx, replay):
    thorough = ctx.tier == "thorough"
    tables = 4 if thorough else 2
    ctx.rule = ("cases = every structure MC_Codec reaches (genomes built trait by trait, node by node, gene by gene, module by "
                "module in 5 exhaustive scopes plus simulated larger genomes; organisms, populations and experiment records "
                "over a pool of 3 genomes), each replayed with %d seed-derived float tables: real writer output compared with "
                "the specification's token stream / document, real read-back compared bit for bit (plain, YAML, organism "
                "binary, population file, fast-solver model incl. outputs of the restored solver, experiment file incl. every "
                "derived statistic); plus every genome of every generation of seeded evolution runs round-tripped through "
                "plain, YAML, organism binary and (per generation) population file (Write and WriteBySpecies) and fast model, their plain encodings "
                "validated by Trace_Codec; evaluations = write/read round trips (and statistics compared); non-trivial = "
                "distinct structure with a disabled gene, a recurrent gene, a nil trait pointer next to existing traits or a "
                "control gene (experiments: both solved and unsolved generations)" % tables)
    ctx.assumptions = ["finite float64 values (no NaN / Inf)",
                       "negative zero is excluded from YAML comparisons only: the YAML encoding loses its sign (modelled in "
                       "Codec.tla as YF/ToFloat, law YamlLaw); every other format keeps it and is checked with it",
                       "every generation of a saved experiment has a champion",
                       "only what a writer writes is expected back: genome id from the file or the caller as the reader "
                       "defines, no control genes in the plain format, not Trial.Duration / Experiment.RandSeed / "
                       "MaxFitnessScore / species of champions",
                       "statistics of empty series: NaN equals NaN, a panic equals the same panic"]
    cases_file = ctx.path("codec_cases.ndjson")
    if replay is not None:
        cs = replay_cases(replay)
        evo = [v.get("replay", {}).get("failure", {}).get("evolve") for v in replay.get("violations", [])]
        evo = [e for e in evo if e]
        write_lines(cases_file, cs)
        rep_file = ctx.path("codec_report.json")
        if cs:
            _, rep, _ = ctx.vh(["replay-codec", "-cases", cases_file, "-out", rep_file, "-tables", str(tables)],
                               expect_report=rep_file, pkg="vh_codec")
            ctx.add_report(rep, "codec", traces=rep.get("cases", 0))
        for e in evo[:3]:
            erep = ctx.path("evolve_report.json")
            _, rep, _ = ctx.vh(["evolve", "-runs", "1", "-run0", str(e.get("run", 0)), "-epochs", str(e.get("epochs", 15)),
                                "-pop", str(e.get("pop", 30)), "-out", erep, "-trace", ctx.path("evolve_trace.ndjson")],
                               expect_report=erep, pkg="vh_codec", env={"VERIF_SEED": str(e.get("seed", ctx.seed))})
            ctx.add_report(rep, "codec-evolve")
        return

    files = []
    for cfg in (THOROUGH_CFGS if thorough else QUICK_CFGS):
        mc = ctx.tlc("MC_Codec", cfg, timeout=2400, workers=8)
        spec_must_hold(mc, cfg)
        files.append(mc.cases_file)
    sim = ctx.tlc("MC_Codec", "Sim_Codec.cfg", simulate="num=%d" % (1500 if thorough else 30), depth=60, workers=4,
                  extra=["-seed", str(ctx.seed)], timeout=2400)
    spec_must_hold(sim, "MC_Codec/simulate")
    files.append(sim.cases_file)
    n = cat_files(cases_file, files)
    ctx.exhaustive = True
    ctx.extra["scope"] = {"cases": n, "configs": (THOROUGH_CFGS if thorough else QUICK_CFGS) + ["Sim_Codec.cfg (-simulate)"],
                          "float_tables_per_case": tables}
    rep_file = ctx.path("codec_report.json")
    _, rep, _ = ctx.vh(["replay-codec", "-cases", cases_file, "-out", rep_file, "-tables", str(tables)],
                       expect_report=rep_file, pkg="vh_codec", timeout=3000)
    ctx.add_report(rep, "codec", traces=rep.get("cases", 0))
    ex = rep.get("extra", {})
    ctx.extra["kinds"] = ex.get("kinds")
    ctx.extra["float_pool"] = ex.get("float_pool")
    if not ex.get("meta_seen"):
        raise Infra("the TLC runs did not print the meta case (float symbol classes / activation registry)")

    # B1: evolved structures
    erep = ctx.path("evolve_report.json")
    trace = ctx.path("evolve_trace.ndjson")
    runs, epochs, pop = (12, 40, 40) if thorough else (2, 15, 30)
    _, rep2, _ = ctx.vh(["evolve", "-runs", str(runs), "-epochs", str(epochs), "-pop", str(pop), "-out", erep, "-trace", trace],
                        expect_report=erep, pkg="vh_codec", timeout=3000)
    ctx.add_report(rep2, "codec-evolve")
    ex2 = rep2.get("extra", {})
    ctx.extra["evolved"] = {k: ex2.get(k) for k in ("genomes", "generations", "runs", "max_genes", "max_nodes", "disabled_genes",
                                                    "recurrent_genes", "trace_events", "activation_types")}
    ntrace = ex2.get("trace_events", 0)
    if ntrace:
        tv = ctx.tlc("Trace_Codec", "Trace_Codec.cfg", env={"TRACE": trace}, workers=1, timeout=2400)
        if tv.violated:
            # the real plain encoding of an evolved genome is not what the writer model assigns, or the reader model does
            # not restore the genome from it: decide on the real code by replaying that genome
            ctx.extra["trace_counterexample"] = {"invariant": tv.violated, "state": {k: v[:2000] for k, v in tv.last_state.items()}}
            if not (rep2.get("failures") or []):
                ctx.extra["trace_codec_rejects_although_round_trip_held"] = tv.violated
        elif not tv.ok:
            raise Infra("Trace_Codec did not finish:\n%s" % tv.output[-3000:])
        elif tv.distinct != ntrace + 1:
            raise Infra("Trace_Codec consumed %d of %d recorded events" % (tv.distinct - 1, ntrace))
        else:
            ctx.traces += ntrace
    ndiv = ex.get("divergences", 0) + ex2.get("divergences", 0)
    ctx.extra["divergences"] = ndiv
    if ndiv and not ctx.violations:
        # the property is the round trip, and every round trip was made on the real code and held: a format that changed
        # consistently in writer and reader (a new header field, another layout) leaves the property true; the format model of
        # Codec.tla is then out of date - recorded, not an alarm and not a refusal to decide
        ctx.extra["format_differs_from_specification"] = ((ex.get("divergence_samples") or []) + (ex2.get("divergence_samples") or []))[:6]
        ctx.assumptions.append("the writers' output differs from the token streams of Codec.tla while every round trip on the real code held: "
                               "the verdict rests on the round trips")

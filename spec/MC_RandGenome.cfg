SPECIFICATION Spec
CONSTANTS
  MaxIn = 2
  MaxOut = 2
  MaxHidden = 2
  AllMatricesUpTo = 3
INVARIANTS Shape TableIsDefinition
CHECK_DEADLOCK FALSE

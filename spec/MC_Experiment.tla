--------------------------- MODULE MC_Experiment ---------------------------
(* C20: every script over the outcome alphabet for NumRuns x NumGens, with and without an observer. *)
EXTENDS Experiment, TLC, Json
VARIABLE emitted
CONSTANT Lazies              \* {FALSE}: the code as found only; {FALSE, TRUE}: both admissible turnover disciplines
CONSTANT ObserverCancels     \* TRUE: additionally explore every single notification at which the observer cancels
Points == { <<"start", r, -1>> : r \in 0 .. NumRuns - 1 } \cup { <<"finish", r, -1>> : r \in 0 .. NumRuns - 1 }
          \cup { <<"epoch", r, g>> : r \in 0 .. NumRuns - 1, g \in 0 .. NumGens - 1 }
Init == /\ \E s \in [1..NumRuns -> [1..NumGens -> Outcomes]], o \in BOOLEAN :
              \E oc \in { {} } \cup (IF ObserverCancels /\ o THEN { {p} : p \in Points } ELSE {}) : \E lz \in Lazies : InitWith(s, o, oc, lz)
        /\ emitted = FALSE
\* The statement of C20 does not say whether the observer hears of an (unsolved) generation during whose evaluation the
\* context was cancelled: the code as found does not notify it (the epoch turnover fails on the cancelled context first,
\* action Turnover); an implementation that records and notifies that generation and then stops at the top of the
\* generation loop also "stops the run before the next generation".  calls_alt is the observer log of that variant; the
\* replayer accepts either.  Everything else (evaluator log, recorded trials, returned error) is the same in both.
CallsAlt ==
    IF ~lazy /\ err = "cancelled" /\ evals # <<>>
    THEN LET e == evals[Len(evals)]  c == <<"epoch", e[1], e[2]>> IN
         IF script[e[1] + 1][e[2] + 1] = "cancel" /\ \A i \in DOMAIN calls : calls[i] # c THEN Notify(c) ELSE calls
    ELSE calls
Emit == /\ pc = "done" /\ ~emitted /\ emitted' = TRUE /\ UNCHANGED vars
        /\ PrintT(ToJson([runs |-> NumRuns, gens |-> NumGens, script |-> script, observer |-> observer, ocancel |-> ocancel,
                          evals |-> evals, calls |-> calls, calls_alt |-> CallsAlt, lazy |-> lazy, trials |-> trials, final_pops |-> finalPops, err |-> err]))
MCNext == (Next /\ UNCHANGED emitted) \/ Emit
Spec == Init /\ [][MCNext]_<<vars, emitted>> /\ WF_<<vars, emitted>>(MCNext)
Terminates == <>(pc = "done")
=============================================================================

--------------------------- MODULE MC_Experiment ---------------------------
(* C20: every script over the outcome alphabet for NumRuns x NumGens, with and without an observer. *)
EXTENDS Experiment, TLC, Json
VARIABLE emitted
Init == /\ \E s \in [1..NumRuns -> [1..NumGens -> Outcomes]], o \in BOOLEAN : InitWith(s, o)
        /\ emitted = FALSE
Emit == /\ pc = "done" /\ ~emitted /\ emitted' = TRUE /\ UNCHANGED vars
        /\ PrintT(ToJson([runs |-> NumRuns, gens |-> NumGens, script |-> script, observer |-> observer,
                          evals |-> evals, calls |-> calls, trials |-> trials, final_pops |-> finalPops, err |-> err]))
MCNext == (Next /\ UNCHANGED emitted) \/ Emit
Spec == Init /\ [][MCNext]_<<vars, emitted>> /\ WF_<<vars, emitted>>(MCNext)
Terminates == <>(pc = "done")
=============================================================================

--------------------------- MODULE MC_Experiment ---------------------------
(* C20: every script over the outcome alphabet for NumRuns x NumGens, with and without an observer. *)
EXTENDS Experiment, TLC, Json
VARIABLE emitted
CONSTANT ObserverCancels     \* TRUE: additionally explore every single notification at which the observer cancels
Points == { <<"start", r, -1>> : r \in 0 .. NumRuns - 1 } \cup { <<"finish", r, -1>> : r \in 0 .. NumRuns - 1 }
          \cup { <<"epoch", r, g>> : r \in 0 .. NumRuns - 1, g \in 0 .. NumGens - 1 }
Init == /\ \E s \in [1..NumRuns -> [1..NumGens -> Outcomes]], o \in BOOLEAN :
              \E oc \in { {} } \cup (IF ObserverCancels /\ o THEN { {p} : p \in Points } ELSE {}) : InitWith(s, o, oc)
        /\ emitted = FALSE
Emit == /\ pc = "done" /\ ~emitted /\ emitted' = TRUE /\ UNCHANGED vars
        /\ PrintT(ToJson([runs |-> NumRuns, gens |-> NumGens, script |-> script, observer |-> observer, ocancel |-> ocancel,
                          evals |-> evals, calls |-> calls, trials |-> trials, final_pops |-> finalPops, err |-> err]))
MCNext == (Next /\ UNCHANGED emitted) \/ Emit
Spec == Init /\ [][MCNext]_<<vars, emitted>> /\ WF_<<vars, emitted>>(MCNext)
Terminates == <>(pc = "done")
=============================================================================

\* I16 quick: carrier sets of the Apalache obligations (NInn0, NNode0, LockedRead stay symbolic: --cinit=CInit;
\* --init / --inv on the command line override INIT / INVARIANT)
INIT Init
NEXT Next
CONSTANTS
  Threads = {1, 2, 3}
  NodeIds = {1, 2, 3}
  GeneNos = {1, 2}
  MaxLen = 2
  RecFlags = {FALSE, TRUE}

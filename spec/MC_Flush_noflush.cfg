SPECIFICATION Spec
CONSTANTS
  RecursiveAddsBias = TRUE
  Inputs = {1, 2}
  Biases = {3, 4}
  Hidden = {7, 8}
  OutSet = {5, 6}
  Shapes = {{1, 5}}
  Weights <- W1
  TdFlags = {FALSE}
  InVals <- V1
  OrderKinds = {"IBOH"}
  ActSchemes <- SchemesLinear
  LinkCaps = {2}
  SealAtCap = FALSE
  Canonical = TRUE
  FwdKs = {1}
  RelaxKs = {}
  UseRec = FALSE
  UseAct = FALSE
  MaxHist = 2
  MaxSuf = 2
  Limit = 1000
  FlushWorks = FALSE
INVARIANTS SuffixEqual
CHECK_DEADLOCK FALSE

------------------------------ MODULE Lifecycle ------------------------------
(***************************************************************************)
(* Growth suite X12 - the life cycle of species and of the population      *)
(* record ACROSS epochs (Quota.tla / Trace_Quota.tla look at one epoch at  *)
(* a time, with the state a species enters the epoch with as an input).    *)
(*                                                                         *)
(* A species is [id, age, aoli, mx, novel]: age, age of last improvement,  *)
(* maximal raw fitness ever (a dense RANK of the float64 value, 0 = 0.0),  *)
(* and the flag that protects a species founded during a turnover from     *)
(* ageing in that turnover.  The population carries hf (record fitness,    *)
(* rank), ehlc (epochs since the record last changed) and last (the last   *)
(* species id issued).                                                     *)
(*                                                                         *)
(* The operators transcribe, in the order of an epoch:                     *)
(*   Species.adjustFitness      the stagnation penalty and the youth boost *)
(*                              are decided with the values the species    *)
(*                              ENTERS the epoch with; only then the       *)
(*                              improvement record is updated              *)
(*   purgeZeroOffspringSpecies  species without quota leave the list       *)
(*   sort + stagnation          record fitness of the population from the  *)
(*                              FIRST species in (best desc, age asc)      *)
(*   deltaCoding                when ehlc >= DropOffAge + 5: ehlc := 0,    *)
(*                              the two best species share the population  *)
(*                              and count as improved now                  *)
(*   purgeOrAgeSpecies          species that received offspring stay, in   *)
(*                              order, one generation older unless novel;  *)
(*                              species founded in the turnover follow in  *)
(*                              the order of their consecutive ids         *)
(***************************************************************************)
EXTENDS Integers, Sequences, FiniteSets, TLC

Ids(sp) == { sp[i].id : i \in DOMAIN sp }
IdSeq(sp) == [i \in DOMAIN sp |-> sp[i].id]
SpOf(sp, id) == sp[CHOOSE i \in DOMAIN sp : sp[i].id = id]

(* ---------------- Species.adjustFitness ---------------- *)
Debt(s, dropoff) == LET d == (s.age - s.aoli + 1) - dropoff IN IF d = 0 THEN 1 ELSE d
Penalised(s, dropoff) == Debt(s, dropoff) >= 1
Young(s) == s.age <= 10
Improve(s, best) == IF best > s.mx THEN [s EXCEPT !.aoli = s.age, !.mx = best] ELSE s

(* ---------------- zero-quota purge, sort, population record ---------------- *)
Kept(sp, best, kept) == SelectSeq([i \in DOMAIN sp |-> Improve(sp[i], best[sp[i].id])], LAMBDA s : s.id \in kept)
Before(a, b, best) == best[a.id] > best[b.id] \/ (best[a.id] = best[b.id] /\ a.age < b.age)
SortedOK(sorted, sp, best) ==
    /\ Len(sorted) = Len(sp) /\ { sorted[i] : i \in DOMAIN sorted } = Ids(sp)
    /\ \A i, j \in DOMAIN sorted : i < j => ~Before(SpOf(sp, sorted[j]), SpOf(sp, sorted[i]), best)
Stagnation(hf, ehlc, b) == IF b > hf THEN [hf |-> b, ehlc |-> 0] ELSE [hf |-> hf, ehlc |-> ehlc + 1]
DeltaFires(st, dropoff) == st.ehlc >= dropoff + 5

(* ---------------- deltaCoding ---------------- *)
TopTwo(sorted) == { sorted[k] : k \in 1..(IF Len(sorted) < 2 THEN Len(sorted) ELSE 2) }
AfterDelta(sp, sorted) == [i \in DOMAIN sp |-> IF sp[i].id \in TopTwo(sorted) THEN [sp[i] EXCEPT !.aoli = sp[i].age] ELSE sp[i]]
DeltaQuota(sorted, id, n) ==
    IF id = sorted[1] THEN (IF Len(sorted) = 1 THEN n ELSE n \div 2)
    ELSE IF Len(sorted) > 1 /\ id = sorted[2] THEN n - n \div 2 ELSE 0

\* the whole preparation phase on the life-cycle state
Prepared(sp, hf, ehlc, best, kept, sorted, dropoff) ==
    LET sp1 == Kept(sp, best, kept)
        st  == Stagnation(hf, ehlc, best[sorted[1]])
        d   == DeltaFires(st, dropoff)
    IN  [sp |-> IF d THEN AfterDelta(sp1, sorted) ELSE sp1, hf |-> st.hf, ehlc |-> IF d THEN 0 ELSE st.ehlc, delta |-> d]

(* ---------------- purgeOrAgeSpecies ---------------- *)
Aged(s) == IF s.novel THEN [s EXCEPT !.novel = FALSE] ELSE [s EXCEPT !.age = s.age + 1]
Founded(id) == [id |-> id, age |-> 1, aoli |-> 0, mx |-> 0, novel |-> FALSE]
Finalized(sp, survivors, nnew, last) ==
    LET old == SelectSeq(sp, LAMBDA s : s.id \in survivors) IN
    [i \in DOMAIN old |-> Aged(old[i])] \o [k \in 1..nnew |-> Founded(last + k)]

(* ---------------- laws of the life cycle (invariants of MC_Lifecycle, clauses of Trace_Lifecycle) ---------------- *)
IdsUnique(sp, last) == /\ \A i, j \in DOMAIN sp : i # j => sp[i].id # sp[j].id
                       /\ \A i \in DOMAIN sp : sp[i].id >= 1 /\ sp[i].id <= last
AgesOK(sp) == \A i \in DOMAIN sp : sp[i].age >= 1 /\ sp[i].aoli >= 0 /\ sp[i].aoli <= sp[i].age
\* no listed species ever did better than the population's record
RecordBound(sp, hf) == \A i \in DOMAIN sp : sp[i].mx <= hf
\* the population never goes DropOffAge + 5 epochs without a new record or delta coding
StagnationBound(ehlc, dropoff) == ehlc < dropoff + 5
=============================================================================

\* YAML modules: one control gene (every module activation, 1-2 inputs, 1-2 outputs, both flags, 2 mutation-number classes) over 5 nodes
SPECIFICATION Spec
CONSTANTS
  PopStartNewline = TRUE
  Modes = {"genome"}
  MinTraits = 1
  MaxTraits = 1
  Pats = {1}
  BiasCounts = {1}
  MinInputs = 2
  MaxInputs = 2
  MaxOutputs = 1
  MinHidden = 1
  MaxHidden = 1
  Acts = {14}
  NodeTraitFree = FALSE
  MaxGenes = 1
  PairSet = {14}
  Ws = {1}
  Muts = {2, 6}
  Flags = {1}
  GeneTraitFree = FALSE
  MaxMods = 1
  ModActs = {21, 22, 23, 25}
  ModEnabled = {TRUE, FALSE}
  OrgFits = {1, 5, 8, 9}
  OrgGens = {0, 3}
  MaxPop = 3
  MaxTrials = 2
  MaxGens = 2
  GenChoices = {101, 22, 13, 122}
  Sample = FALSE
INVARIANTS Plain Yaml Organism Population FastModel ExperimentFile ReadIntoUsed TokensTyped
CHECK_DEADLOCK FALSE

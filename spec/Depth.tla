------------------------------- MODULE Depth -------------------------------
(***************************************************************************)
(* C14 - maximal activation depth of a (non-modular) network.              *)
(*                                                                         *)
(* A graph is [sensors, neurons, outputs, inc] where inc[n] is the ORDERED *)
(* list of sources of the links entering neuron n (the order of            *)
(* NNode.Incoming, which is the order of the enabled genes).  Recurrent    *)
(* links are ordinary members of inc: the depth search does not look at    *)
(* the recurrence flag.                                                    *)
(*                                                                         *)
(* NodeDepth/Scan transcribe NNode.Depth (nnode.go): a depth-first search  *)
(* from an output towards the sensors that marks the nodes on the current  *)
(* path (`visited`) and skips marked nodes; `marks` is that per-node flag  *)
(* and PERSISTS between queries - it is part of the network's state.       *)
(* ClearOnError models the repaired code (the mark of the current node is  *)
(* cleared when the search below it hits the cap); with FALSE it models    *)
(* the code as found, where the error path returned with the marks set.    *)
(***************************************************************************)
EXTENDS Integers, Sequences, FiniteSets, FiniteSetsExt

CONSTANT ClearOnError

MaxI(a, b) == IF a > b THEN a ELSE b
Nodes(g) == g.sensors \cup g.neurons

RECURSIVE NodeDepth(_, _, _, _, _), Scan(_, _, _, _, _, _, _)
\* result: [r, err, marks]
NodeDepth(g, n, d, cap, marks) ==
    IF cap > 0 /\ d > cap THEN [r |-> cap, err |-> TRUE, marks |-> marks]
    ELSE IF n \in g.sensors THEN [r |-> d, err |-> FALSE, marks |-> marks]
    ELSE LET s == Scan(g, n, d, cap, marks \cup {n}, 1, d)
         IN  IF s.err THEN [r |-> s.r, err |-> TRUE, marks |-> IF ClearOnError THEN s.marks \ {n} ELSE s.marks]
             ELSE [r |-> s.r, err |-> FALSE, marks |-> s.marks \ {n}]
\* the loop over n's incoming links from position i with running maximum mx
Scan(g, n, d, cap, marks, i, mx) ==
    IF i > Len(g.inc[n]) THEN [r |-> mx, err |-> FALSE, marks |-> marks]
    ELSE LET u == g.inc[n][i] IN
         IF u \in marks THEN Scan(g, n, d, cap, marks, i + 1, mx)
         ELSE LET c == NodeDepth(g, u, d + 1, cap, marks) IN
              IF c.err THEN [r |-> c.r, err |-> TRUE, marks |-> c.marks]
              ELSE Scan(g, n, d, cap, c.marks, i + 1, MaxI(mx, c.r))

\* Network.MaxActivationDepthWithCap: outputs in order, first error wins; 1 when there are no hidden nodes
RECURSIVE OverOutputs(_, _, _, _, _)
OverOutputs(g, cap, marks, i, mx) ==
    IF i > Len(g.outputs) THEN [r |-> mx, err |-> FALSE, marks |-> marks]
    ELSE LET c == NodeDepth(g, g.outputs[i], 0, cap, marks) IN
         IF c.err THEN c ELSE OverOutputs(g, cap, c.marks, i + 1, MaxI(mx, c.r))
SeqRange(s) == { s[i] : i \in DOMAIN s }
MaxDepthWithCap(g, cap, marks) ==
    IF g.neurons = SeqRange(g.outputs) THEN [r |-> 1, err |-> FALSE, marks |-> marks]
    ELSE OverOutputs(g, cap, marks, 1, 0)

(* ----- the definition the property refers to ----- *)
EdgeSet(g) == UNION { { <<g.inc[n][i], n>> : i \in DOMAIN g.inc[n] } : n \in g.neurons }
Pred(g, n) == IF n \in g.neurons THEN { g.inc[n][i] : i \in DOMAIN g.inc[n] } ELSE {}
\* nodes from which n is reachable by one or more links
RECURSIVE Anc(_, _, _)
Anc(g, frontier, acc) ==
    LET nxt == (UNION { Pred(g, x) : x \in frontier }) \ acc
    IN  IF nxt = {} THEN acc ELSE Anc(g, nxt, acc \cup nxt)
Ancestors(g, n) == Anc(g, {n}, {})
Acyclic(g) == \A n \in g.neurons : n \notin Ancestors(g, n)
\* number of links on the longest path ending in n (acyclic graphs only)
RECURSIVE LongestTo(_, _)
LongestTo(g, n) == IF Pred(g, n) = {} THEN 0 ELSE 1 + Max({ LongestTo(g, u) : u \in Pred(g, n) })
LongestToOutput(g) == Max({ LongestTo(g, g.outputs[i]) : i \in DOMAIN g.outputs })
HasHidden(g) == g.neurons # SeqRange(g.outputs)
=============================================================================

------------------------------ MODULE PopStats ------------------------------
(***************************************************************************)
(* X04 - Generation.FillPopulationStatistics with its champion selection,  *)
(* and the Trial / Experiment accessors that C19 (Stats.tla) does not      *)
(* cover: Generation.Average, durations, BestOrganism (all champions /     *)
(* only solvers) of a trial and of an experiment, champion accessors for   *)
(* generations without a champion or a species, the cached winner          *)
(* generation, and the ingredients of Experiment.EfficiencyScore (growth   *)
(* of the specification beyond the listed properties, DESIGN.md 3).        *)
(*                                                                         *)
(* organism = [fit, hi]  (Fitness, highestFitness; the order is            *)
(* Orders!OrgLess); its genome complexity is tied to the key, Cplx(o), so  *)
(* that picking another organism shows in every column.                    *)
(* species = [age, orgs] (orgs non-empty);  population = Seq(species).     *)
(***************************************************************************)
EXTENDS Orders

Cplx(o) == 4 + o.fit + 2 * o.hi          \* >= 3 for fit >= -1: two nodes and at least one gene
NoOrg == [fit |-> -99, hi |-> -99]       \* "no champion" (nil)

(* ---- FillPopulationStatistics ---- *)
BestOf(orgs) == Desc(OrgLess, orgs)[1]           \* the species' organisms are sorted best first; the first one is taken
\* the loop over the species as coded: the running maximum starts below every fitness in scope (the code starts at
\* float64(math.MinInt64)); a species replaces the champion only with a strictly greater best fitness
RECURSIVE ChampWalk(_, _, _, _)
ChampWalk(pop, i, best, bestIdx) ==
    IF i > Len(pop) THEN bestIdx
    ELSE LET b == BestOf(pop[i].orgs).fit IN
         IF bestIdx = 0 \/ b > best THEN ChampWalk(pop, i + 1, b, i) ELSE ChampWalk(pop, i + 1, best, bestIdx)
ChampSpecies(pop) == ChampWalk(pop, 1, 0, 0)     \* 0 = the population has no species
\* the definition: the first species that holds an organism of maximal fitness
AllFits(pop) == UNION { { pop[i].orgs[k].fit : k \in DOMAIN pop[i].orgs } : i \in DOMAIN pop }
ChampSpeciesDef(pop) == IF pop = <<>> THEN 0
                        ELSE Min({ i \in DOMAIN pop : \E k \in DOMAIN pop[i].orgs : pop[i].orgs[k].fit = Max(AllFits(pop)) })
Fill(pop, solved) ==
    LET best == [i \in DOMAIN pop |-> BestOf(pop[i].orgs)]  c == ChampSpecies(pop) IN
    [diversity |-> Len(pop),
     age |-> [i \in DOMAIN pop |-> pop[i].age],
     fitness |-> [i \in DOMAIN pop |-> best[i].fit],
     complexity |-> [i \in DOMAIN pop |-> Cplx(best[i])],
     sorted |-> [i \in DOMAIN pop |-> Desc(OrgLess, pop[i].orgs)],     \* side effect: every species is left best first
     \* a generation that is already solved keeps the champion it has
     champ_changes |-> ~solved /\ c # 0,
     champ_species |-> IF solved THEN 0 ELSE c,
     champ |-> IF solved \/ c = 0 THEN NoOrg ELSE best[c],
     \* Generation.Average(): sums over the species, mean = sum / diversity (undefined for an empty population)
     fit_sum |-> FoldSeq(LAMBDA x, acc : acc + x, 0, [i \in DOMAIN pop |-> best[i].fit]),
     age_sum |-> FoldSeq(LAMBDA x, acc : acc + x, 0, [i \in DOMAIN pop |-> pop[i].age]),
     cplx_sum |-> FoldSeq(LAMBDA x, acc : acc + x, 0, [i \in DOMAIN pop |-> Cplx(best[i])])]

(* ---- Trial: generation = [solved, champ (NoOrg = none), dur, age (0 = the champion has no species)] ---- *)
GoDiv(a, b) == IF a >= 0 THEN a \div b ELSE -((-a) \div b)       \* Go's integer division truncates towards zero
SumOver(s, F(_)) == FoldSeq(LAMBDA x, acc : acc + F(x), 0, s)
TrialAvgEpochDuration(t) == IF t = <<>> THEN -1 ELSE GoDiv(SumOver(t, LAMBDA g : g.dur), Len(t))
Included(t, onlySolvers) == { i \in DOMAIN t : ~onlySolvers \/ t[i].solved }
\* BestOrganism: the champions of the included generations sorted best first; defined when every included generation
\* has a champion (the code dereferences them while sorting)
MaxKey(S) == CHOOSE a \in S : \A b \in S : ~OrgLess(a, b)
TrialBest(t, onlySolvers) ==
    LET inc == Included(t, onlySolvers) IN
    IF inc = {} THEN [found |-> FALSE, needs_champions |-> FALSE, key |-> NoOrg, gens |-> {}]
    ELSE IF \E i \in inc : t[i].champ = NoOrg THEN [found |-> TRUE, needs_champions |-> TRUE, key |-> NoOrg, gens |-> {}]
    ELSE LET k == MaxKey({ t[i].champ : i \in inc }) IN
         [found |-> TRUE, needs_champions |-> FALSE, key |-> k, gens |-> { i \in inc : t[i].champ = k }]
TrialSolved(t) == \E i \in DOMAIN t : t[i].solved
FirstSolved(t) == Min({ i \in DOMAIN t : t[i].solved })
TrialAgg(t) ==
    [gens |-> Len(t), avg_epoch_ns |-> TrialAvgEpochDuration(t),
     best_all |-> TrialBest(t, FALSE), best_solvers |-> TrialBest(t, TRUE),
     champ_fit |-> [i \in DOMAIN t |-> IF t[i].champ = NoOrg THEN 0 ELSE t[i].champ.fit],
     champ_age |-> [i \in DOMAIN t |-> IF t[i].champ = NoOrg THEN 0 ELSE t[i].age],
     champ_cplx |-> [i \in DOMAIN t |-> IF t[i].champ = NoOrg THEN 0 ELSE Cplx(t[i].champ)],
     solved |-> TrialSolved(t), winner_gen |-> IF TrialSolved(t) THEN FirstSolved(t) ELSE 0]

(* ---- Experiment: trial = [dur, gens] ---- *)
ExpAvgTrialDuration(e) == IF e = <<>> THEN -1 ELSE GoDiv(SumOver(e, LAMBDA t : t.dur), Len(e))
\* as coded: the average of the trials' averages, a trial without generations contributing its EmptyDuration (-1)
ExpAvgEpochDuration(e) == IF e = <<>> THEN -1 ELSE GoDiv(SumOver(e, LAMBDA t : TrialAvgEpochDuration(t.gens)), Len(e))
ExpBest(e, onlySolvers) ==
    LET found == { i \in DOMAIN e : TrialBest(e[i].gens, onlySolvers).found }
        needs == \E i \in found : TrialBest(e[i].gens, onlySolvers).needs_champions
    IN  IF found = {} THEN [found |-> FALSE, needs_champions |-> FALSE, key |-> NoOrg, trials |-> {}]
        ELSE IF needs THEN [found |-> TRUE, needs_champions |-> TRUE, key |-> NoOrg, trials |-> {}]
        ELSE LET k == MaxKey({ TrialBest(e[i].gens, onlySolvers).key : i \in found }) IN
             [found |-> TRUE, needs_champions |-> FALSE, key |-> k,
              trials |-> { i \in found : TrialBest(e[i].gens, onlySolvers).key = k }]
\* EfficiencyScore = successRate * fitnessScore / ln(avgEpochDuration[ms] * avgGenerationsPerTrial * meanComplexity), the
\* means over the winner generations of the solved trials - taken only when the experiment has MORE THAN ONE trial (as
\* coded), otherwise both means are 0 and so is the score.  The exact ingredients:
Efficiency(e) ==
    LET solved == { i \in DOMAIN e : TrialSolved(e[i].gens) }
        win(i) == e[i].gens[FirstSolved(e[i].gens)].champ
    IN  [trials |-> Len(e), solved_count |-> Cardinality(solved),
         means_taken |-> Len(e) > 1,
         needs_champions |-> Len(e) > 1 /\ \E i \in solved : win(i) = NoOrg,
         cplx_sum |-> IF Len(e) > 1 THEN FoldSet(LAMBDA i, acc : acc + Cplx(win(i)), 0, solved) ELSE 0,
         fit_sum |-> IF Len(e) > 1 THEN FoldSet(LAMBDA i, acc : acc + win(i).fit, 0, solved) ELSE 0,
         avg_epoch_ns |-> ExpAvgEpochDuration(e),
         gens_sum |-> SumOver(e, LAMBDA t : Len(t.gens))]
ExpAgg(e) ==
    [trials |-> Len(e), avg_trial_ns |-> ExpAvgTrialDuration(e), avg_epoch_ns |-> ExpAvgEpochDuration(e),
     best_all |-> ExpBest(e, FALSE), best_solvers |-> ExpBest(e, TRUE), eff |-> Efficiency(e)]
=============================================================================

\* size: one genome of 36 nodes / 70 genes x every module over four positions
SPECIFICATION Spec
CONSTANTS
  Shapes <- ShapesBigQuick
  AllowOverlap = FALSE
  MaxIo = 3
INVARIANTS GenomesWellFormed Inv_Faithful Inv_GraphView Inv_Counts Inv_CountsOfGenome
CHECK_DEADLOCK FALSE

SPECIFICATION Spec
CONSTANTS
  DropOff = 1
  MaxRank = 2
  MaxSpecies = 2
  MaxEpochs = 7
  InitSpecies = 1
INVARIANTS Reach_NoDelta
CHECK_DEADLOCK FALSE

SPECIFICATION Spec
CONSTANTS
  N = 5
  Quotas = {1}
  Pools = {2}
  Counters = {0}
INVARIANTS OneBranch NeverBeyondQuota QuotaExact ChampionCopy AtMostOneClone SuperFirst SuperExactLast ParentsOK SelfMatingMutated ClassesRespected
CHECK_DEADLOCK TRUE

\* every registered scalar activation type on the output and on the hidden node (all 441 combinations, incl. a user-registered type)
SPECIFICATION Spec
CONSTANTS
  PopStartNewline = TRUE
  Modes = {"genome"}
  MinTraits = 0
  MaxTraits = 0
  Pats = {1}
  BiasCounts = {0}
  MinInputs = 1
  MaxInputs = 1
  MaxOutputs = 1
  MinHidden = 1
  MaxHidden = 1
  Acts = {1, 2, 3, 4, 5, 6, 7, 8, 9, 10, 11, 12, 13, 14, 15, 16, 17, 18, 19, 20, 24}
  NodeTraitFree = FALSE
  MaxGenes = 1
  PairSet = {13, 32}
  Ws = {1}
  Muts = {2}
  Flags = {1}
  GeneTraitFree = FALSE
  MaxMods = 0
  ModActs = {21}
  ModEnabled = {TRUE}
  OrgFits = {1, 5, 8, 9}
  OrgGens = {0, 3}
  MaxPop = 3
  MaxTrials = 2
  MaxGens = 2
  GenChoices = {101, 22, 13, 122}
  Sample = FALSE
INVARIANTS Plain Yaml Organism Population FastModel ExperimentFile ReadIntoUsed TokensTyped
CHECK_DEADLOCK FALSE

------------------------------ MODULE Reproduce ------------------------------
(***************************************************************************)
(* Species.reproduce of goNEAT (neat/genetics/species.go) as the code does *)
(* it: growth suite X10.                                                   *)
(*                                                                         *)
(* Part 1 - the branch protocol.  Per species the code keeps               *)
(*   quota      ExpectedOffspring as left by prepareForReproduction        *)
(*   pool       the surviving organisms, best first; pool[1] = champion    *)
(*   counter    superChampOffspring of the champion (stolen babies, delta  *)
(*              coding)                                                    *)
(*   cloneDone  the champion has been cloned in this call                  *)
(*   made       offspring produced so far                                  *)
(* and produces `quota` offspring one at a time.  For each it takes the    *)
(* FIRST branch whose condition holds:                                     *)
(*   super-champion   counter > 0.  A duplicate of the champion; while     *)
(*                    counter > 1 mutated once (link weights with          *)
(*                    probability 0.8 or when link adding is disabled,     *)
(*                    else add-link), the exact duplicate when             *)
(*                    counter = 1; counter decreases by one.               *)
(*   champion-clone   not cloned yet and quota > 5: an exact duplicate of  *)
(*                    the champion, once.                                  *)
(*   mutate-only      the coin (MutateOnlyProb) says so or the pool has    *)
(*                    one organism: duplicate of a pool member, then the   *)
(*                    mutation chain.                                      *)
(*   mate             otherwise: mom from the pool; dad from the pool      *)
(*                    (coin > InterspeciesMateRate) or the champion of a   *)
(*                    species picked from the leading quarter of the       *)
(*                    sorted species list (up to five attempts to get      *)
(*                    another species, then its own); one of three         *)
(*                    crossovers; the child runs through the mutation      *)
(*                    chain when the coin (> MateOnlyProb) says so, when   *)
(*                    mom and dad carry the same genome id or when their   *)
(*                    compatibility distance is 0.                         *)
(* Probabilities enter as CLASSES: NEVER (p <= 0: `rand < p` never holds), *)
(* ALWAYS (p >= 1) and SOMETIMES.  MC_Reproduce explores this protocol     *)
(* exhaustively for small quotas; Trace_Reproduce checks every recorded    *)
(* offspring of real epochs against it.                                    *)
(*                                                                         *)
(* Part 2 - what each branch yields, as relations over the genome records  *)
(* of Genome.tla: exact duplicate (C06 IsDuplicate), the crossover         *)
(* relations of C04, the mutation statements of C05 where they exist and   *)
(* frame conditions where they do not, and the mutation chain as the       *)
(* decision tree of the code.                                              *)
(***************************************************************************)
EXTENDS Genome

NEVER == 0
ALWAYS == 1
SOMETIMES == 2
CoinMay(c) == c # NEVER          \* `rand.Float64() < p` may hold
CoinMayNot(c) == c # ALWAYS      \* ... may fail

(* ---------------------------------------------------------------- Part 1 *)
(* st = [quota, pool (number of survivors), counter, cloneDone, made, exact] *)
Kinds == {"super-champion", "champion-clone", "mutate-only", "mate"}

SuperEnabled(st) == st.counter > 0
SuperMutates(st) == st.counter > 1
CloneEnabled(st) == ~SuperEnabled(st) /\ ~st.cloneDone /\ st.quota > 5
DrawEnabled(st) == ~SuperEnabled(st) /\ ~CloneEnabled(st)
MutateOnlyEnabled(st, P) == DrawEnabled(st) /\ (CoinMay(P.mutateOnly) \/ st.pool = 1)
MateEnabled(st, P) == DrawEnabled(st) /\ CoinMayNot(P.mutateOnly) /\ st.pool # 1

BranchEnabled(st, kind, P) ==
    /\ st.made < st.quota
    /\ CASE kind = "super-champion" -> SuperEnabled(st)
         [] kind = "champion-clone" -> CloneEnabled(st)
         [] kind = "mutate-only" -> MutateOnlyEnabled(st, P)
         [] kind = "mate" -> MateEnabled(st, P)
         [] OTHER -> FALSE

After(st, kind) ==
    [st EXCEPT !.made = @ + 1,
               !.counter = IF kind = "super-champion" THEN @ - 1 ELSE @,
               !.cloneDone = @ \/ kind = "champion-clone",
               !.exact = @ \/ kind = "champion-clone" \/ (kind = "super-champion" /\ st.counter = 1)]
Finished(st) == st.made = st.quota

(* dad selection *)
WithinMay(P) == P.inter # ALWAYS        \* `rand > rate` fails always only for rate >= 1
InterMay(P) == P.inter # NEVER
(* floor(rand/4 * n) for rand in [0, 1): position k (from 1) of the sorted list with 4 (k - 1) < n *)
LeadingQuarter(k, n) == k >= 1 /\ (k - 1) * 4 < n
InterPickOK(self, picked, giveup, sorted) ==
    /\ \E k \in DOMAIN sorted : sorted[k] = picked /\ LeadingQuarter(k, Len(sorted))
    /\ giveup \in 1 .. 5
    /\ picked = self => giveup = 5
(* crossover method: multipoint if coin(MateMultipointProb), else multipoint-avg if coin(avg / (avg + single)), else single point *)
MethodMay(m, P) ==
    CASE m = "multipoint" -> CoinMay(P.multipoint)
      [] m = "multipoint-avg" -> CoinMayNot(P.multipoint) /\ CoinMay(P.avgShare)
      [] m = "singlepoint" -> CoinMayNot(P.multipoint) /\ CoinMayNot(P.avgShare)
      [] OTHER -> FALSE
(* the child is mutated: `rand > MateOnlyProb`, or same genome id, or compatibility distance 0 *)
PostMutMust(same, compat0, P) == same \/ compat0 \/ P.mateOnly = NEVER
PostMutMay(same, compat0, P) == same \/ compat0 \/ P.mateOnly # ALWAYS
(* the mutated super-champion offspring: link weights, or add-link when link adding is enabled *)
SuperOpMay(op, P) == op = "link-weights" \/ (op = "add-link" /\ P.addLink # NEVER)

(* The mutation chain of the mutate-only branch and of mutated children.  ops = sequence of [op, res], res = 1 / 0 for *)
(* a logged TRUE / FALSE result, 2 when the code discards the result.  Decision tree of the code: add-node if          *)
(* coin(MutateAddNodeProb); else add-link if coin(MutateAddLinkProb); else connect-sensors if coin(MutateConnectSensors); *)
(* the attempt of add-node / add-link counts as structural whatever it returned, connect-sensors only when it added a   *)
(* link; without a structural mutation the six parametric mutators run in fixed order, each behind its own coin.        *)
Structural == {"add-node", "add-link", "connect-sensors"}
NSOrder == <<"random-trait", "link-trait", "node-trait", "link-weights", "toggle-enable", "gene-reenable">>
NSClass(P) == <<P.rndTrait, P.linkTrait, P.nodeTrait, P.linkWeights, P.toggle, P.reenable>>
NSIndex(op) == CHOOSE i \in 1 .. 6 : NSOrder[i] = op
ChainOK(ops, P) ==
    LET n == Len(ops)
        first == IF n = 0 THEN "" ELSE ops[1].op
        stageOK == CASE first = "add-node" -> CoinMay(P.addNode)
                     [] first = "add-link" -> CoinMayNot(P.addNode) /\ CoinMay(P.addLink)
                     [] first = "connect-sensors" -> CoinMayNot(P.addNode) /\ CoinMayNot(P.addLink) /\ CoinMay(P.connect)
                     [] OTHER -> CoinMayNot(P.addNode) /\ CoinMayNot(P.addLink) /\ CoinMayNot(P.connect)
        structDone == first \in {"add-node", "add-link"} \/ (first = "connect-sensors" /\ ops[1].res = 1)
        rest == IF first \in Structural THEN SubSeq(ops, 2, n) ELSE ops
    IN /\ stageOK
       /\ IF structDone THEN rest = <<>>
          ELSE /\ rest # <<>> /\ rest[1].op = "nonstructural-begin"
               /\ LET ns == SubSeq(rest, 2, Len(rest)) IN
                  /\ \A i \in DOMAIN ns : \E k \in 1 .. 6 : NSOrder[k] = ns[i].op
                  /\ \A i \in 1 .. Len(ns) - 1 : NSIndex(ns[i].op) < NSIndex(ns[i + 1].op)
                  /\ \A k \in 1 .. 6 :
                       /\ NSClass(P)[k] = NEVER => \A i \in DOMAIN ns : ns[i].op # NSOrder[k]
                       /\ NSClass(P)[k] = ALWAYS => \E i \in DOMAIN ns : ns[i].op = NSOrder[k]
(* the structural flag the code stamps on the baby *)
StructFlag(ops) == \E i \in DOMAIN ops : ops[i].op \in {"add-node", "add-link"} \/ (ops[i].op = "connect-sensors" /\ ops[i].res = 1)

(* ---------------------------------------------------------------- Part 2 *)
(* compatibility distance 0 (positive coefficients): the same innovation numbers with the same mutation numbers *)
CompatZero(a, b) == Inns(a) = Inns(b) /\ \A n \in Inns(a) : GeneOf(a, n).mut = GeneOf(b, n).mut

ChangedGenes(pre, post) == { i \in DOMAIN pre.genes : GG(post.genes[i]) # GG(pre.genes[i]) }
ChangedNodes(pre, post) == { i \in DOMAIN pre.nodes : NG(post.nodes[i]) # NG(pre.nodes[i]) }
ChangedTraits(pre, post) == { i \in DOMAIN pre.traits : TG(post.traits[i]) # TG(pre.traits[i]) }
SameShape(pre, post) == Len(post.genes) = Len(pre.genes) /\ Len(post.nodes) = Len(pre.nodes) /\ Len(post.traits) = Len(pre.traits)

AddNodeSucceeded(pre, post) == NodeIds(post) # NodeIds(pre)
(* an add-node attempt that added nothing: the gene it had picked may already have been switched off *)
AddNodeFailedFrame(pre, post) ==
    /\ SameShape(pre, post) /\ ChangedNodes(pre, post) = {} /\ ChangedTraits(pre, post) = {}
    /\ Cardinality(ChangedGenes(pre, post)) <= 1
    /\ \A i \in ChangedGenes(pre, post) : pre.genes[i].en /\ GG(post.genes[i]) = [GG(pre.genes[i]) EXCEPT !.en = FALSE]
AddLinkSucceeded(pre, post) == Inns(post) # Inns(pre)
(* random-trait: the parameters of at most one trait *)
RandomTraitFrame(pre, post) ==
    /\ SameShape(pre, post) /\ ChangedGenes(pre, post) = {} /\ ChangedNodes(pre, post) = {}
    /\ Cardinality(ChangedTraits(pre, post)) <= 1
    /\ \A i \in DOMAIN pre.traits : post.traits[i].id = pre.traits[i].id /\ Len(post.traits[i].p) = Len(pre.traits[i].p)
(* link-trait / node-trait (once): at most one gene / node points to another trait of the genome *)
LinkTraitFrame(pre, post) ==
    /\ SameShape(pre, post) /\ ChangedNodes(pre, post) = {} /\ ChangedTraits(pre, post) = {}
    /\ Cardinality(ChangedGenes(pre, post)) <= 1
    /\ \A i \in ChangedGenes(pre, post) :
         /\ [GG(post.genes[i]) EXCEPT !.tr = 0] = [GG(pre.genes[i]) EXCEPT !.tr = 0]
         /\ post.genes[i].tr \in TraitIds(pre)
NodeTraitFrame(pre, post) ==
    /\ SameShape(pre, post) /\ ChangedGenes(pre, post) = {} /\ ChangedTraits(pre, post) = {}
    /\ Cardinality(ChangedNodes(pre, post)) <= 1
    /\ \A i \in ChangedNodes(pre, post) :
         /\ [NG(post.nodes[i]) EXCEPT !.tr = 0] = [NG(pre.nodes[i]) EXCEPT !.tr = 0]
         /\ post.nodes[i].tr \in TraitIds(pre)
(* link-weights: only weights move, and every gene's mutation number is set to its weight *)
LinkWeightsFrame(pre, post) ==
    /\ SameShape(pre, post) /\ ChangedNodes(pre, post) = {} /\ ChangedTraits(pre, post) = {}
    /\ \A i \in DOMAIN pre.genes :
         GG(post.genes[i]) = [GG(pre.genes[i]) EXCEPT !.w = post.genes[i].w, !.mut = post.genes[i].w]
(* toggle-enable (once) only ever switches one gene off; gene-reenable only touches enable flags *)
ToggleFrame(pre, post) ==
    /\ SameShape(pre, post) /\ ChangedNodes(pre, post) = {} /\ ChangedTraits(pre, post) = {}
    /\ Cardinality(ChangedGenes(pre, post)) <= 1
    /\ \A i \in ChangedGenes(pre, post) : pre.genes[i].en /\ GG(post.genes[i]) = [GG(pre.genes[i]) EXCEPT !.en = FALSE]
ReEnableFrame(pre, post) ==
    /\ SameShape(pre, post) /\ ChangedNodes(pre, post) = {} /\ ChangedTraits(pre, post) = {}
    /\ \A i \in ChangedGenes(pre, post) : ~pre.genes[i].en /\ GG(post.genes[i]) = [GG(pre.genes[i]) EXCEPT !.en = TRUE]
=============================================================================

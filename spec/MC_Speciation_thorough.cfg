SPECIFICATION Spec
CONSTANTS
  K = 4
  Params <- ParamsThorough
  Shapes = {"one", "two", "hole"}
  Ids <- IdsDef
  Last0 = 12
  Dist4 <- DistLookup
INVARIANTS Partition NearestRule FirstOfNearest Consequence FreshIds TolZero
PROPERTIES Frame
CHECK_DEADLOCK FALSE

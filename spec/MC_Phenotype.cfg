SPECIFICATION Spec
CONSTANTS
  Shapes <- ShapesQuick
  AllowOverlap = FALSE
  MaxIo = 3
INVARIANTS GenomesWellFormed Inv_Faithful Inv_GraphView Inv_Counts Inv_CountsOfGenome
CHECK_DEADLOCK FALSE

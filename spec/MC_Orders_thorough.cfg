SPECIFICATION Spec
CONSTANTS
  Fits <- NonNegFits
  His = {0, 1, 3}
  Ages = {1, 2, 3}
  Times = {0, 1, 2}
  Ids = {0, 1, 2}
  MaxLen = 5
  MaxSpecies = 4
INVARIANTS OrganismsOrder SpeciesOrder SpMaxOrder TimeIdOrder TotalOnDistinct ChampionLaws SpeciesPromotesYounger
CHECK_DEADLOCK FALSE

SPECIFICATION Spec
CONSTANTS
  DropOff = 1
  MaxRank = 1
  MaxSpecies = 3
  MaxEpochs = 7
  InitSpecies = 1
INVARIANTS Inv_IdsUnique Inv_AgesOK Inv_RecordBound Inv_StagnationBound Inv_AgeBound Inv_FreshNotPenalised Inv_DeltaSpacing
CHECK_DEADLOCK FALSE

------------------------------- MODULE Stats -------------------------------
(***************************************************************************)
(* C19 - descriptive statistics of result series and the experiment/trial  *)
(* aggregates, as exact integer / rational arithmetic.                     *)
(*                                                                         *)
(* A series is a sequence of integers (the replayer scales them by powers  *)
(* of two, which keeps every comparison exact).  Rationals are records     *)
(* [num, den]; a zero denominator stands for "undefined" (NaN).            *)
(***************************************************************************)
EXTENDS Integers, Sequences, FiniteSets, FiniteSetsExt, SequencesExt, Functions, TLC

SeqSum(s) == FoldSeq(LAMBDA x, acc : acc + x, 0, s)
SeqSumSq(s) == FoldSeq(LAMBDA x, acc : acc + x * x, 0, s)
SeqMin(s) == Min(Range(s))
SeqMax(s) == Max(Range(s))
Sorted(s) == SortSeq(s, <)

Mean(s) == [num |-> SeqSum(s), den |-> Len(s)]
\* unbiased sample variance  sum (x - mean)^2 / (n - 1)  =  (n*sum x^2 - (sum x)^2) / (n (n - 1));  undefined for n = 1
Variance(s) == LET n == Len(s) IN [num |-> n * SeqSumSq(s) - SeqSum(s) * SeqSum(s), den |-> n * (n - 1)]
\* empirical quantile: the smallest element q such that at least the fraction pn/pd of the samples is <= q
Quantile(s, pn, pd) == LET srt == Sorted(s)  n == Len(s)
                           k == Min({ i \in 1..n : i * pd >= pn * n })
                       IN  srt[k]
Median(s) == Quantile(s, 1, 2)
Q25(s) == Quantile(s, 1, 4)
Q75(s) == Quantile(s, 3, 4)

SeriesStats(s) ==
    [xs |-> s, n |-> Len(s), sum |-> SeqSum(s),
     min |-> SeqMin(s), max |-> SeqMax(s),
     var_num |-> Variance(s).num, var_den |-> Variance(s).den,
     q25 |-> Q25(s), med |-> Median(s), q75 |-> Q75(s)]

\* the empty series: every statistic is undefined (NaN) except the sum, which is 0
EmptySeries == [kind |-> "empty", sum |-> 0,
                undefined |-> <<"Min", "Max", "Mean", "MeanVariance", "Median", "Q25", "Q75", "Variance", "StdDev">>]

\* laws that follow from the definitions and that TLC checks on every series in scope
RatLe(a, b) == a.num * b.den <= b.num * a.den          \* positive denominators
Laws(s) ==
    LET st == SeriesStats(s)  n == Len(s) IN
    /\ st.min <= st.q25 /\ st.q25 <= st.med /\ st.med <= st.q75 /\ st.q75 <= st.max
    /\ n * st.min <= st.sum /\ st.sum <= n * st.max
    /\ st.var_num >= 0
    /\ (st.var_num = 0) <=> (st.min = st.max)
    /\ st.min \in Range(s) /\ st.max \in Range(s) /\ st.med \in Range(s)
    \* at least half of the samples are <= the median and at least half are >= it
    /\ 2 * Cardinality({ i \in 1..n : s[i] <= st.med }) >= n
    /\ 2 * Cardinality({ i \in 1..n : s[i] >= st.med }) >= n
PermutationInvariant(s) ==
    \A p \in Permutations(1..Len(s)) :
        LET t == [i \in 1..Len(s) |-> s[p[i]]] IN
        [SeriesStats(t) EXCEPT !.xs = <<>>] = [SeriesStats(s) EXCEPT !.xs = <<>>]

(* ----- experiment / trial aggregates -----
   generation = [solved, fit, age, cplx, div, wn, wg, we]  (champion fitness / species age / complexity,
   diversity = number of species, winner nodes / genes / evaluations);  trial = sequence of generations;
   experiment = sequence of trials. *)
TrialSolved(t) == \E i \in DOMAIN t : t[i].solved
FirstSolved(t) == t[Min({ i \in DOMAIN t : t[i].solved })]
BestFit(t) == Max({ t[i].fit : i \in DOMAIN t })
BestGens(t) == { i \in DOMAIN t : t[i].fit = BestFit(t) }        \* ties: any of them may be reported
TrialAgg(t) ==
    [gens |-> Len(t), solved |-> TrialSolved(t),
     best_fit |-> IF t = <<>> THEN 0 ELSE BestFit(t),
     best_age |-> IF t = <<>> THEN {0} ELSE { t[i].age : i \in BestGens(t) },
     best_cplx |-> IF t = <<>> THEN {0} ELSE { t[i].cplx : i \in BestGens(t) },
     div_sum |-> SeqSum([i \in DOMAIN t |-> t[i].div]),
     champ_fit |-> [i \in DOMAIN t |-> t[i].fit],
     champ_age |-> [i \in DOMAIN t |-> t[i].age],
     champ_cplx |-> [i \in DOMAIN t |-> t[i].cplx],
     diversity |-> [i \in DOMAIN t |-> t[i].div],
     winner |-> IF TrialSolved(t) THEN LET g == FirstSolved(t) IN <<g.wn, g.wg, g.we, g.div>>
                ELSE IF t = <<>> THEN <<-1, -1, -1, -1>> ELSE <<0, 0, 0, 0>>]
ExpAgg(e) ==
    LET solvedIdx == { i \in DOMAIN e : TrialSolved(e[i]) } IN
    [trials |-> Len(e), solved_count |-> Cardinality(solvedIdx), solved |-> solvedIdx # {},
     gens_sum |-> SeqSum([i \in DOMAIN e |-> Len(e[i])]),
     win_sum |-> [k \in 1..4 |-> FoldSet(LAMBDA i, acc : acc + TrialAgg(e[i]).winner[k], 0, solvedIdx)],
     per_trial |-> [i \in DOMAIN e |-> TrialAgg(e[i])]]
\* The aggregates are functions of the recorded generations only.  When every trial has at most one solved generation
\* ("the winner" is then independent of the order) re-ordering the generations of a trial - as sort.Sort(trial.Generations)
\* does - changes none of the order-free aggregates.
OrderFree(a) ==
    [trials |-> a.trials, solved_count |-> a.solved_count, solved |-> a.solved, gens_sum |-> a.gens_sum, win_sum |-> a.win_sum,
     per_trial |-> [i \in DOMAIN a.per_trial |->
        LET t == a.per_trial[i] IN
        [gens |-> t.gens, solved |-> t.solved, best_fit |-> t.best_fit, best_age |-> t.best_age, best_cplx |-> t.best_cplx,
         div_sum |-> t.div_sum, winner |-> t.winner]]]
AtMostOneSolved(t) == Cardinality({ i \in DOMAIN t : t[i].solved }) <= 1
ExperPermutationInvariant(e) ==
    (\A i \in DOMAIN e : AtMostOneSolved(e[i])) =>
        \A i \in DOMAIN e : \A p \in Permutations(DOMAIN e[i]) :
            OrderFree(ExpAgg([e EXCEPT ![i] = [j \in DOMAIN e[i] |-> e[i][p[j]]]])) = OrderFree(ExpAgg(e))
=============================================================================

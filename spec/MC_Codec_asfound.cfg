\* the population reader as found in population_io.go:30 (genomestart line not terminated): TLC reports Population violated - kept as the model-level demonstration of the defect, not run by the check
SPECIFICATION Spec
CONSTANTS
  PopStartNewline = FALSE
  Modes = {"pop"}
  MinTraits = 2
  MaxTraits = 2
  Pats = {1}
  BiasCounts = {1}
  MinInputs = 1
  MaxInputs = 1
  MaxOutputs = 1
  MinHidden = 1
  MaxHidden = 1
  Acts = {14}
  NodeTraitFree = FALSE
  MaxGenes = 1
  PairSet = {}
  Ws = {1}
  Muts = {2}
  Flags = {1}
  GeneTraitFree = FALSE
  MaxMods = 0
  ModActs = {21}
  ModEnabled = {TRUE}
  OrgFits = {1, 5, 8, 9}
  OrgGens = {0, 3}
  MaxPop = 3
  MaxTrials = 2
  MaxGens = 2
  GenChoices = {101, 22, 13, 122}
  Sample = FALSE
INVARIANTS Plain Yaml Organism Population FastModel ExperimentFile ReadIntoUsed TokensTyped
CHECK_DEADLOCK FALSE

SPECIFICATION Spec
CONSTANTS
  Params <- ParamsSim
  MaxN = 10
INVARIANTS ExpectationsTotalN LoopIsFloorCarry TotalAfterCount TotalAfterRedistribution NearShare MakeUpOnce ParentCutOff ZeroQuotaPurged StealShape DeltaShape
CHECK_DEADLOCK FALSE

SPECIFICATION Spec
CONSTANTS
  RecursiveAddsBias = TRUE
  Inputs = {1, 2}
  Biases = {3, 4}
  Hidden = {7, 8}
  OutSet = {5, 6}
  Shapes = {{1, 2, 5, 7}}
  Weights <- W1
  TdFlags = {FALSE}
  InVals <- V2
  OrderKinds = {"IBOH"}
  ActSchemes <- SchemesLinear
  LinkCaps = {3}
  SealAtCap = FALSE
  Canonical = TRUE
  FwdKs = {1, 2}
  RelaxKs = {2}
  MaxHist = 2
  MaxSuf = 2
  Limit = 1000
  ModuleActs = {"mul", "max", "min"}
INVARIANTS FlushRestores SuffixEqual
CHECK_DEADLOCK FALSE

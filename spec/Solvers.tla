------------------------------- MODULE Solvers -------------------------------
(***************************************************************************)
(* C12 / C13 - the network solvers of goNEAT (non-modular networks).       *)
(*                                                                         *)
(* A network is a record                                                   *)
(*   order   : Seq(id)    Network.allNodes (the order of the genome nodes) *)
(*   kind    : [id -> {"I","B","H","O"}]  input / bias / hidden / output   *)
(*   act     : [id -> activation name]    (only read for neurons)          *)
(*   inputs  : Seq(id)    Network.inputs  (all sensors, bias included)     *)
(*   outputs : Seq(id)    Network.Outputs                                  *)
(*   inc     : [id -> Seq([src, w, td])]  NNode.Incoming, in gene order;   *)
(*             td = Link.IsTimeDelayed                                     *)
(*                                                                         *)
(* Two step machines are transcribed from the code:                        *)
(*  - the STANDARD solver (network.go / nnode.go): per node                *)
(*      a  = Activation, c = ActivationsCount, l1 = lastActivation,        *)
(*      l2 = lastActivation2, on = isActive                                *)
(*    with LoadSensors, one sweep of the ActivateSteps loop, ActivateSteps,*)
(*    ForwardSteps, RecursiveSteps (= ForwardSteps(MaxActivationDepth)),   *)
(*    Flush;                                                               *)
(*  - the FAST solver (fast_network.go, built by Network.FastNetworkSolver)*)
(*    over index arrays: positions 1..n here are the indices 0..n-1 there, *)
(*    laid out bias | input | output | hidden; bias links are folded into  *)
(*    `bias`; state sig = neuronSignals, pre = neuronSignalsBeingProcessed,*)
(*    last / done / inact = lastActivation / activated / inActivation;     *)
(*    with LoadSensors, forwardStep, ForwardSteps, RecursiveSteps, Relax,  *)
(*    Flush.                                                               *)
(* TopoEval is the definition C12 refers to.                               *)
(*                                                                         *)
(* Activations are restricted to the integer-closed ones, so that every    *)
(* IEEE operation of the code is exact on the model's values (P5).         *)
(***************************************************************************)
EXTENDS Integers, Sequences, FiniteSets, TLC
\* (TLCEval forces a value before it is handed on: TLC passes operator arguments unevaluated, which would make
\*  the cost of an iterated step exponential in the number of iterations)

\* TRUE models the repaired code; with FALSE the recursive activation ignores the folded bias weights, which is
\* the code as found (finding F3 of DESIGN.md section 2) - MC_Solvers_asfound.cfg shows that C12 then fails
CONSTANT RecursiveAddsBias

D == INSTANCE Depth WITH ClearOnError <- TRUE

ActNames == {"linear", "abs", "clip", "null", "sign", "step"}
\* neat/math/activations.go on integers: linear, absoluteLinear, clippedLinear, nullFunctor, signFunction,
\* stepFunction (the sum of a neuron is never -0.0: it starts from +0.0)
Act(t, x) ==
    CASE t = "linear" -> x
      [] t = "abs"    -> IF x < 0 THEN 0 - x ELSE x
      [] t = "clip"   -> IF x < 0 - 1 THEN 0 - 1 ELSE IF x > 1 THEN 1 ELSE x
      [] t = "null"   -> 0
      [] t = "sign"   -> IF x = 0 THEN 0 ELSE IF x < 0 THEN 0 - 1 ELSE 1
      [] t = "step"   -> IF x < 0 THEN 0 ELSE 1

SeqRange(s) == { s[i] : i \in DOMAIN s }
NodeSet(net) == SeqRange(net.order)
IsSensor(net, n) == net.kind[n] \in {"I", "B"}
IsNeuron(net, n) == net.kind[n] \in {"H", "O"}
SensorSet(net) == { n \in NodeSet(net) : IsSensor(net, n) }
NeuronSet(net) == { n \in NodeSet(net) : IsNeuron(net, n) }
RECURSIVE SelectKind(_, _, _)
SelectKind(net, s, k) ==
    IF s = <<>> THEN <<>>
    ELSE (IF net.kind[Head(s)] = k THEN <<Head(s)>> ELSE <<>>) \o SelectKind(net, Tail(s), k)
\* position of input node n among the "I" nodes of the sequence s (1-based): the index into the sensor vector
InputPos(net, s, n) ==
    LET i == CHOOSE i \in DOMAIN s : s[i] = n
    IN  Cardinality({ j \in 1..i : net.kind[s[j]] = "I" })
OutputsOf(net, val) == [i \in DOMAIN net.outputs |-> val[net.outputs[i]]]

(* ======================= the definition (C12) ========================= *)
\* every neuron once, in topological order, as activation(sum of weight * source), bias inputs being one
RECURSIVE Val(_, _, _), ValSum(_, _, _, _)
Val(net, v, n) ==
    IF net.kind[n] = "I" THEN v[InputPos(net, net.inputs, n)]
    ELSE IF net.kind[n] = "B" THEN 1
    ELSE Act(net.act[n], ValSum(net, v, net.inc[n], 1))
ValSum(net, v, ls, i) ==
    IF i > Len(ls) THEN 0 ELSE ls[i].w * Val(net, v, ls[i].src) + ValSum(net, v, ls, i + 1)
TopoEval(net, v) == [i \in DOMAIN net.outputs |-> Val(net, v, net.outputs[i])]

\* the graph view shared with Depth.tla
GraphOf(net) == [sensors |-> SensorSet(net), neurons |-> NeuronSet(net), outputs |-> net.outputs,
                 inc |-> [n \in NeuronSet(net) |-> [i \in DOMAIN net.inc[n] |-> net.inc[n][i].src]]]
Acyclic(net) == D!Acyclic(GraphOf(net))
\* every neuron is reachable from a sensor
AllSensorReachable(net) ==
    \A n \in NeuronSet(net) : D!Ancestors(GraphOf(net), n) \cap SensorSet(net) # {}
\* number of links on the longest sensor-to-output path
LongestPath(net) == D!LongestToOutput(GraphOf(net))
SimpleGraph(net) ==
    \A n \in NeuronSet(net) : \A i, j \in DOMAIN net.inc[n] : i # j => net.inc[n][i].src # net.inc[n][j].src
\* a topological order of the neurons (for the replayer's floating-point oracle)
RECURSIVE TopoFrom(_, _, _)
TopoFrom(net, placed, acc) ==
    LET ready == { n \in NeuronSet(net) \ placed :
                     \A i \in DOMAIN net.inc[n] : net.inc[n][i].src \in placed \cup SensorSet(net) }
    IN  IF ready = {} THEN acc
        ELSE LET n == CHOOSE n \in ready : \A m \in ready : n <= m
             IN  TopoFrom(net, placed \cup {n}, Append(acc, n))
TopoOrder(net) == TopoFrom(net, {}, <<>>)

(* ==================== the standard solver (Network) ==================== *)
StdFresh(net) == [n \in NodeSet(net) |-> [a |-> 0, c |-> 0, l1 |-> 0, l2 |-> 0, on |-> FALSE]]
\* NNode.SensorLoad
SensorLoadNode(s, x) == [s EXCEPT !.l2 = s.l1, !.l1 = s.a, !.c = s.c + 1, !.a = x]
\* Network.LoadSensors with the bias value defaulted (or passed) as one; v = values of the "I" sensors in order
StdLoad(net, st, v) ==
    [n \in DOMAIN st |->
        IF n \in SeqRange(net.inputs) /\ IsSensor(net, n)
        THEN SensorLoadNode(st[n], IF net.kind[n] = "I" THEN v[InputPos(net, net.inputs, n)] ELSE 1)
        ELSE st[n]]
\* GetActiveOut / GetActiveOutTd through one link
LinkIn(st, l) ==
    l.w * (IF l.td THEN (IF st[l.src].c > 1 THEN st[l.src].l1 ELSE 0)
                   ELSE (IF st[l.src].c > 0 THEN st[l.src].a ELSE 0))
RECURSIVE SumLinks(_, _, _)
SumLinks(st, ls, i) == IF i > Len(ls) THEN 0 ELSE LinkIn(st, ls[i]) + SumLinks(st, ls, i + 1)
\* first loop of a sweep: the isActive flags are raised while walking allNodes, so a flag raised for an earlier
\* node is already seen by a later node of the same sweep (the sums only read values of the previous sweep)
RECURSIVE Flags(_, _, _)
Flags(net, i, on) ==
    IF i > Len(net.order) THEN on
    ELSE LET n == net.order[i] IN
         IF IsNeuron(net, n) /\ \E k \in DOMAIN net.inc[n] :
                ~net.inc[n][k].td /\ (on[net.inc[n][k].src] \/ IsSensor(net, net.inc[n][k].src))
         THEN Flags(net, i + 1, TLCEval([on EXCEPT ![n] = TRUE]))
         ELSE Flags(net, i + 1, on)
\* one iteration of the loop of Network.ActivateSteps: sum, then activate every active neuron (setActivation)
Sweep(net, st) ==
    LET on == TLCEval(Flags(net, 1, [n \in DOMAIN st |-> st[n].on])) IN
    [n \in DOMAIN st |->
        IF IsNeuron(net, n) /\ on[n]
        THEN [a |-> Act(net.act[n], SumLinks(st, net.inc[n], 1)), c |-> st[n].c + 1,
              l1 |-> st[n].a, l2 |-> st[n].l1, on |-> TRUE]
        ELSE st[n]]
OutputIsOff(net, st) == \E i \in DOMAIN net.outputs : st[net.outputs[i]].c = 0
\* results are [st, err]
RECURSIVE ActLoop(_, _, _, _, _)
ActLoop(net, st, maxSteps, oneTime, abort) ==
    IF OutputIsOff(net, st) \/ ~oneTime
    THEN IF abort >= maxSteps THEN [st |-> st, err |-> TRUE]       \* ErrNetExceededMaxActivationAttempts
         ELSE ActLoop(net, TLCEval(Sweep(net, st)), maxSteps, TRUE, abort + 1)
    ELSE [st |-> st, err |-> FALSE]
StdActivateSteps(net, st, maxSteps) ==
    IF maxSteps = 0 THEN [st |-> st, err |-> TRUE] ELSE ActLoop(net, st, maxSteps, FALSE, 0)
StdActivate(net, st) == StdActivateSteps(net, st, 20)
RECURSIVE StdFwdLoop(_, _, _, _)
StdFwdLoop(net, st, steps, i) ==
    IF i >= steps THEN [st |-> st, err |-> FALSE]
    ELSE LET r == TLCEval(StdActivateSteps(net, st, steps))
         IN  IF r.err THEN r ELSE StdFwdLoop(net, r.st, steps, i + 1)
StdForwardSteps(net, st, steps) ==
    IF steps = 0 THEN [st |-> st, err |-> TRUE] ELSE StdFwdLoop(net, st, steps, 0)
\* Network.MaxActivationDepthWithCap(0) (marks are clean between queries, C14)
StdDepth(net) ==
    IF Len(net.order) = Len(net.inputs) + Len(net.outputs) THEN 1
    ELSE D!OverOutputs(GraphOf(net), 0, {}, 1, 0).r
StdRecursiveSteps(net, st) == StdForwardSteps(net, st, StdDepth(net))
\* Network.Flush: Flushback of every node
StdFlush(net, st) == StdFresh(net)
StdOutputs(net, st) == [i \in DOMAIN net.outputs |-> st[net.outputs[i]].a]

(* ============== the fast solver (FastModularNetworkSolver) ============= *)
\* Network.FastNetworkSolver: the static part
RECURSIVE ConnsOf(_, _, _, _), ConnsOver(_, _, _)
ConnsOf(net, ids, n, i) ==     \* the non-bias incoming links of n as [s, t, w] over positions
    IF i > Len(net.inc[n]) THEN <<>>
    ELSE LET l == net.inc[n][i]
             pos(x) == CHOOSE p \in DOMAIN ids : ids[p] = x
         IN  (IF net.kind[l.src] = "B" THEN <<>> ELSE <<[s |-> pos(l.src), t |-> pos(n), w |-> l.w]>>)
             \o ConnsOf(net, ids, n, i + 1)
ConnsOver(net, ids, targets) ==
    IF targets = <<>> THEN <<>> ELSE ConnsOf(net, ids, Head(targets), 1) \o ConnsOver(net, ids, Tail(targets))
RECURSIVE BiasSum(_, _, _)
BiasSum(net, ls, i) ==
    IF i > Len(ls) THEN 0
    ELSE (IF net.kind[ls[i].src] = "B" THEN ls[i].w ELSE 0) + BiasSum(net, ls, i + 1)
RECURSIVE SelectTarget(_, _)
SelectTarget(cs, p) ==
    IF cs = <<>> THEN <<>> ELSE (IF Head(cs).t = p THEN <<Head(cs).s>> ELSE <<>>) \o SelectTarget(Tail(cs), p)
FastModel(net) ==
    LET bl  == SelectKind(net, net.order, "B")
        il  == SelectKind(net, net.order, "I")
        hl  == SelectKind(net, net.order, "H")
        ids == bl \o il \o net.outputs \o hl
        cs  == ConnsOver(net, ids, il \o hl \o net.outputs)
    IN  [ids |-> ids, nb |-> Len(bl), ni |-> Len(il), ns |-> Len(bl) + Len(il), no |-> Len(net.outputs),
         n |-> Len(ids),
         act |-> [p \in DOMAIN ids |-> net.act[ids[p]]],
         bias |-> [p \in DOMAIN ids |-> BiasSum(net, net.inc[ids[p]], 1)],
         conns |-> cs,
         rev |-> [p \in DOMAIN ids |-> SelectTarget(cs, p)],
         \* adjacentMatrix[s][t]: the weight of the last connection s -> t
         mat |-> [e \in { <<cs[i].s, cs[i].t>> : i \in DOMAIN cs } |->
                    cs[CHOOSE i \in DOMAIN cs : /\ <<cs[i].s, cs[i].t>> = e
                                                /\ \A j \in DOMAIN cs : <<cs[j].s, cs[j].t>> = e => j <= i].w]]
FastFresh(fm) ==
    [sig   |-> [p \in 1..fm.n |-> IF p <= fm.nb THEN 1 ELSE 0],
     pre   |-> [p \in 1..fm.n |-> 0],
     last  |-> [p \in 1..fm.n |-> 0],
     done  |-> [p \in 1..fm.n |-> FALSE],
     inact |-> [p \in 1..fm.n |-> FALSE]]
\* LoadSensors: only the inputs, in index order (errors on any other length)
FastLoad(fm, fs, v) ==
    [fs EXCEPT !.sig = [p \in 1..fm.n |-> IF p > fm.nb /\ p <= fm.ns THEN v[p - fm.nb] ELSE fs.sig[p]]]
RECURSIVE ConnSum(_, _, _, _)
ConnSum(fs, cs, p, i) ==
    IF i > Len(cs) THEN 0
    ELSE (IF cs[i].t = p THEN fs.sig[cs[i].s] * cs[i].w ELSE 0) + ConnSum(fs, cs, p, i + 1)
FoldedBias(fm, p) == IF fm.nb > 0 THEN fm.bias[p] ELSE 0
\* forwardStep; check = (maxAllowedSignalDelta > 0), with a delta below one "changed by more than delta" is "changed"
FastStep(fm, fs, check) ==
    LET acc == TLCEval([p \in 1..fm.n |-> fs.pre[p] + ConnSum(fs, fm.conns, p, 1)])
        new == TLCEval([p \in 1..fm.n |-> IF p > fm.ns THEN Act(fm.act[p], acc[p] + FoldedBias(fm, p)) ELSE acc[p]])
    IN  [fs |-> [fs EXCEPT !.sig = [p \in 1..fm.n |-> IF p > fm.ns THEN new[p] ELSE fs.sig[p]],
                           !.pre = [p \in 1..fm.n |-> IF p > fm.ns THEN 0 ELSE new[p]]],
         relaxed |-> ~check \/ \A p \in (fm.ns + 1)..fm.n : fs.sig[p] = new[p]]
RECURSIVE FastForwardSteps(_, _, _)
FastForwardSteps(fm, fs, steps) ==
    IF steps <= 0 THEN fs ELSE FastForwardSteps(fm, TLCEval(FastStep(fm, fs, FALSE).fs), steps - 1)
RECURSIVE FastRelaxLoop(_, _, _, _)
FastRelaxLoop(fm, fs, maxSteps, check) ==
    IF maxSteps <= 0 THEN fs
    ELSE LET r == TLCEval(FastStep(fm, fs, check))
         IN  IF r.relaxed THEN r.fs ELSE FastRelaxLoop(fm, r.fs, maxSteps - 1, check)
FastRelax(fm, fs, maxSteps, check) == FastRelaxLoop(fm, fs, maxSteps, check)
\* recursiveActivateNode
RECURSIVE RecNode(_, _, _), RecScan(_, _, _, _)
RecNode(fm, fs, cur) ==
    IF fs.done[cur] THEN [fs EXCEPT !.inact[cur] = FALSE]
    ELSE LET f1 == TLCEval([fs EXCEPT !.inact[cur] = TRUE, !.pre[cur] = 0])
             f2 == TLCEval(RecScan(fm, f1, cur, 1))
         IN  [f2 EXCEPT !.done[cur] = TRUE, !.inact[cur] = FALSE,
                        !.sig[cur] = Act(fm.act[cur], f2.pre[cur] + (IF RecursiveAddsBias THEN FoldedBias(fm, cur) ELSE 0))]
RecScan(fm, fs, cur, i) ==
    IF i > Len(fm.rev[cur]) THEN fs
    ELSE LET adj == fm.rev[cur][i]
             w   == fm.mat[<<adj, cur>>]
         IN  IF fs.inact[adj]
             THEN RecScan(fm, TLCEval([fs EXCEPT !.pre[cur] = @ + fs.last[adj] * w]), cur, i + 1)
             ELSE LET f1 == TLCEval(IF fs.done[adj] THEN fs ELSE RecNode(fm, fs, adj))
                  IN  RecScan(fm, TLCEval([f1 EXCEPT !.pre[cur] = @ + f1.sig[adj] * w]), cur, i + 1)
RECURSIVE RecOutputs(_, _, _)
RecOutputs(fm, fs, o) == IF o > fm.no THEN fs ELSE RecOutputs(fm, TLCEval(RecNode(fm, fs, fm.ns + o)), o + 1)
FastRecursiveSteps(fm, fs) ==
    RecOutputs(fm, [fs EXCEPT !.done  = [p \in 1..fm.n |-> p <= fm.ns],
                              !.inact = [p \in 1..fm.n |-> FALSE],
                              !.last  = [p \in 1..fm.n |-> IF p > fm.ns THEN fs.sig[p] ELSE fs.last[p]]], 1)
\* Flush: everything but the bias signals
FastFlush(fm, fs) ==
    [fs EXCEPT !.sig = [p \in 1..fm.n |-> IF p > fm.nb THEN 0 ELSE fs.sig[p]],
               !.pre = [p \in 1..fm.n |-> IF p > fm.nb THEN 0 ELSE fs.pre[p]]]
FastOutputs(fm, fs) == [i \in 1..fm.no |-> fs.sig[fm.ns + i]]
\* what later calls can observe of a fast solver: last/done/inact are re-initialised by RecursiveSteps before use
FastObservable(fs) == [sig |-> fs.sig, pre |-> fs.pre]

(* ===================== JSON view handed to the replayer ================ *)
RECURSIVE LinksOf(_, _)
LinksOf(nt, ns) ==
    IF ns = <<>> THEN <<>>
    ELSE [i \in DOMAIN nt.inc[Head(ns)] |->
            [src |-> nt.inc[Head(ns)][i].src, dst |-> Head(ns), w |-> nt.inc[Head(ns)][i].w,
             td |-> nt.inc[Head(ns)][i].td]] \o LinksOf(nt, Tail(ns))
NetJson(nt) ==
    [nodes |-> [i \in DOMAIN nt.order |-> [id |-> nt.order[i], kind |-> nt.kind[nt.order[i]], act |-> nt.act[nt.order[i]]]],
     inputs |-> nt.inputs, outputs |-> nt.outputs,
     links |-> LinksOf(nt, SelectSeq(nt.order, LAMBDA n : IsNeuron(nt, n)))]

\* largest absolute value held anywhere (model-checking bound against 32-bit overflow)
AbsI(x) == IF x < 0 THEN 0 - x ELSE x
StdSmall(st, lim) == \A n \in DOMAIN st : AbsI(st[n].a) <= lim /\ AbsI(st[n].l1) <= lim
FastSmall(fs, lim) == \A p \in DOMAIN fs.sig : AbsI(fs.sig[p]) <= lim /\ AbsI(fs.pre[p]) <= lim /\ AbsI(fs.last[p]) <= lim
=============================================================================

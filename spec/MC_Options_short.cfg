SPECIFICATION Spec
CONSTANTS
  Patterns <- OnePattern
  PertPatterns = {}
  ExecVals = {"sequential"}
  CompatVals = {"fast"}
  LevelVals = {"info"}
  ActEntries <- ShortActEntries
  MaxActLines = 2
  MaxStack = 0
INVARIANTS StatusKnown ReadersAgree ValidationExact YamlIgnoresUnknownKeys OnlyYamlHasActivators
CHECK_DEADLOCK FALSE

----------------------------- MODULE MC_Evaluator -----------------------------
(* X11, design level: the laws of the evaluation protocol of Evaluator.tla on EVERY small population: organisms with     *)
(* fitness values below / above the winner threshold (ties included), every partition into at most two species in        *)
(* either order, generation numbers on and off the print interval.                                                       *)
EXTENDS Evaluator
CONSTANTS MaxOrgs, Fits, Ids, PrintEvery, Kinds
VARIABLES orgs, species, id, kind
vars == <<orgs, species, id, kind>>

Thr == 15 * U + U \div 2
Org(k, f, n) == [gid |-> 10 + k, fit |-> f, rk |-> f, win |-> f > Thr, nodes |-> n, ext |-> n + 1, nc |-> n, lc |-> n + 1]
SeqsOf(S, n) == UNION { [1 .. m -> S] : m \in 1 .. n }
Init == /\ kind \in Kinds /\ id \in Ids
        /\ \E fs \in SeqsOf(Fits, MaxOrgs), ns \in [1 .. MaxOrgs -> {5, 6}] :
             /\ orgs = [k \in DOMAIN fs |-> Org(k, fs[k], ns[k])]
             /\ \E A \in SUBSET DOMAIN fs :
                  /\ A # {}
                  /\ LET B == DOMAIN fs \ A
                     IN species = IF B = {} THEN << [age |-> 3, mem |-> A] >>
                                  ELSE << [age |-> 3, mem |-> A], [age |-> 1, mem |-> B] >>
Next == UNCHANGED vars
Spec == Init /\ [][Next]_vars

C == WinnerChampion(orgs)
Winners == { k \in DOMAIN orgs : orgs[k].win }
\* solved iff somebody won; the champion is then a winner of maximal fitness among the winners, the FIRST such in order
SolvedIffWinner == Solved(orgs) <=> Winners # {}
ChampionIsFirstBestWinner ==
    C # 0 => /\ C \in Winners
             /\ \A k \in Winners : orgs[k].fit <= orgs[C].fit
             /\ \A k \in Winners : orgs[k].fit = orgs[C].fit => C <= k
\* not solved: the champion named by the statistics is an organism of maximal fitness in the population
UnsolvedChampionIsBest ==
    C = 0 => \A c \in StatChampions(orgs, species) : \A k \in DOMAIN orgs : orgs[k].fit <= orgs[c].fit
\* files: the population file exactly on solved or on the print interval; winner files exactly when solved; an "optimal"
\* file only for a winner with `optn` nodes
FilesLaw ==
    LET F == ExpectedFiles(kind, orgs, 0, id, PrintEvery, 5) IN
    /\ ("0/gen_" \o ToString(id) \in F) <=> (Solved(orgs) \/ id % PrintEvery = 0)
    /\ (\E k \in DOMAIN orgs : "0/" \o Prefix(kind) \o "_winner_genome_" \o Counts(orgs[k]) \in F) <=> Solved(orgs)
    /\ (\E k \in DOMAIN orgs : "0/" \o Prefix(kind) \o "_optimal_" \o Counts(orgs[k]) \in F) => \E k \in Winners : orgs[k].nodes = 5
\* every organism that was champion at some moment is a winner, and their fitness values strictly increase
UpdatesIncrease == \A a, b \in Updates(orgs) : a < b => orgs[a].fit < orgs[b].fit
=============================================================================

SPECIFICATION Spec
INVARIANTS Inv_C11_Cache
POSTCONDITION TraceAccepted
CHECK_DEADLOCK FALSE

---------------------------- MODULE Trace_Codec ----------------------------
(* C15, binding B1: genomes of real evolution runs.  Every recorded event carries the abstract genome g (floats        *)
(* interned per event), the typed tokens of the text the real plain writer produced for it, and the projection of the  *)
(* genome the real plain reader restored from that text.  TLC checks, event by event, that the real text is the token  *)
(* stream the writer model of Codec.tla assigns to g, that the reader model restores g from the real text, and that    *)
(* the real reader did.                                                                                                *)
EXTENDS Codec, Json, IOUtils
Trace == ndJsonDeserialize(IOEnv.TRACE)
VARIABLE i
Init == i = 1
Next == i <= Len(Trace) /\ i' = i + 1
Spec == Init /\ [][Next]_i
Ev == Trace[i]
Live == i <= Len(Trace)
WriterConforms == Live => Ev.plain = PlainLines(Ev.g)
ReaderModelRestores == Live => PlainRead(Ev.plain) = [g |-> NoMods(Ev.g), err |-> ""]
RealReaderRestores == Live => Ev.back = NoMods(Ev.g)
=============================================================================

-------------------------- MODULE Trace_Activations --------------------------
(* C18, binding B1: the outputs of every scalar activation registered in the real NodeActivators, recorded on the   *)
(* input grid of ActTables (harness command `vh_activ eval-grid`), are validated row by row:                        *)
(*   Finite    every output is a finite float64;                                                                    *)
(*   InRange   inside the documented range (exact comparison of the float with -1, 0, 1);                           *)
(*   Matches   equal to the bit-exact definition (linear, abs, clipped, null, sign, step) or inside the generated    *)
(*             interval of the closed form (everything else; units 2^-28, one unit of tolerance);                   *)
(*   Monotone  not smaller than the output at the previous (smaller) input, for the monotone family.               *)
(* The specification never blocks on a property: every failing (row, function, clause) is printed as a JSON line    *)
(* and counted, the whole trace is consumed (a summary line is printed), and TraceOK fails at the end iff something   *)
(* was wrong.                                                                                                       *)
(* A row is <<k, x, ys>>: k = grid index, x = <<s,c1,c2,c3>>, ys = [name |-> <<s,c1,c2,c3,q>>], q = floor(y 2^28).  *)
EXTENDS Activations, ActTables, TLC, Json, IOUtils
Trace == ndJsonDeserialize(IOEnv.ACT_TRACE)
MaxPrinted == 200
Block == 256

VARIABLES i, bad, done
vars == <<i, bad, done>>

TableNames == DOMAIN Tab
ASSUME TableNames \cup BitExactNames = ScalarNames /\ TableNames \cap BitExactNames = {}
ASSUME Len(GridX) = GridN /\ \A n \in TableNames : Len(Tab[n]) = GridN

\* the clauses of C18 that the output y = row.ys[fn] of function fn fails at row r (prev = previous row when hasPrev)
Failures(r, hasPrev, prev, fn) ==
    LET y == r.ys[fn]  yf == Float4(y)  q == y[5] IN
    IF ~FIsFinite(yf) THEN {"Finite"}
    ELSE
      (IF InRangeF(fn, yf) THEN {} ELSE {"InRange"})
      \cup (IF fn \in BitExactNames
            THEN (IF FEq(yf, BitExactApply(fn, r.x)) THEN {} ELSE {"Matches"})
            ELSE (IF q >= Tab[fn][r.k][1] /\ q <= Tab[fn][r.k][2] THEN {} ELSE {"Matches"}))
      \cup (IF fn \in MonotoneNames /\ hasPrev /\ FIsFinite(Float4(prev.ys[fn]))
            THEN (IF fn \in OrderExactNames
                  THEN (IF FLe(Float4(prev.ys[fn]), yf) THEN {} ELSE {"Monotone"})
                  ELSE (IF prev.ys[fn][5] <= q + 1 THEN {} ELSE {"Monotone"}))
            ELSE {})

\* a row that is not what the generator asked for / a function set that is not the specification's: not a verdict
RowProblems(r, j) ==
    (IF r.k = j /\ r.k <= GridN /\ r.x = GridX[r.k] THEN {} ELSE {"infra: row does not match the grid"})
    \cup (IF ScalarNames \subseteq DOMAIN r.ys THEN {} ELSE {"infra: a scalar activation of the specification is not registered in the code"})

Report(r, prev, fn, why) ==
    [bad |-> why, k |-> r.k, fn |-> fn, x |-> r.x,
     y |-> IF fn \in DOMAIN r.ys THEN r.ys[fn] ELSE <<>>,
     want |-> IF fn \in TableNames /\ r.k <= GridN THEN Tab[fn][r.k] ELSE <<>>,
     form |-> IF fn \in TableNames THEN ClosedForm[fn] ELSE "",
     px |-> IF why = "Monotone" THEN prev.x ELSE <<>>,
     py |-> IF why = "Monotone" THEN prev.ys[fn] ELSE <<>>]

\* every failing <<row, function, clause>> of row j
RowFails(j) ==
    LET r == Trace[j]
        prev == IF j > 1 THEN Trace[j - 1] ELSE r
        rp == RowProblems(r, j)
    IN IF rp # {} THEN { <<j, "", w>> : w \in rp }
       ELSE UNION { { <<j, fn, w>> : w \in Failures(r, j > 1, prev, fn) } : fn \in ScalarNames }
            \* scalar activations the code registers beyond the specification's table: no closed form is known for them,
            \* what the statement says of EVERY registered function is still checked - a finite value
            \cup { <<j, fn, "Finite">> : fn \in { f \in DOMAIN r.ys \ ScalarNames : ~FIsFinite(Float4(r.ys[f])) } }
ReportOf(f) == Report(Trace[f[1]], IF f[1] > 1 THEN Trace[f[1] - 1] ELSE Trace[f[1]], f[2], f[3])

\* rows are consumed in blocks (keeps a counterexample short); nothing blocks on a failing row
Init == i = 1 /\ bad = 0 /\ done = FALSE
Step ==
    /\ ~done /\ i <= Len(Trace)
    /\ LET hi == IF i + Block - 1 < Len(Trace) THEN i + Block - 1 ELSE Len(Trace)
           fs == UNION { RowFails(j) : j \in i..hi }
       IN /\ bad < MaxPrinted => \A f \in fs : PrintT(ToJson(ReportOf(f)))
          /\ bad' = bad + Cardinality(fs)
          /\ i' = hi + 1
    /\ UNCHANGED done
Finish ==
    /\ ~done /\ i > Len(Trace)
    /\ PrintT(ToJson([summary |-> TRUE, rows |-> Len(Trace), bad |-> bad]))
    /\ done' = TRUE /\ UNCHANGED <<i, bad>>
Next == Step \/ Finish
Spec == Init /\ [][Next]_vars

\* the recorded outputs are accepted iff no clause failed on any row
TraceOK == done => bad = 0
=============================================================================

SPECIFICATION Spec
CONSTANTS
  RecursiveAddsBias = TRUE
  Inputs = {1, 2}
  Biases = {3, 4}
  Hidden = {7, 8}
  OutSet = {5, 6}
  Shapes = {{1, 2, 3, 5, 6, 7, 8}, {1, 2, 5, 6, 7, 8}, {1, 2, 3, 4, 5, 6, 7, 8}, {1, 3, 4, 5, 7}, {1, 2, 3, 5, 7, 8}, {2, 4, 5, 6, 7}}
  Weights <- W3
  TdFlags = {FALSE, TRUE}
  InVals <- V3
  OrderKinds = {"IBOH", "IBHO", "BIOH", "BIHO", "IBOHr"}
  ActSchemes <- SchemesAll
  LinkCaps = {2, 3, 4, 5, 6, 7, 8, 9, 10, 12, 14}
  SealAtCap = TRUE
  Canonical = FALSE
  FwdKs = {1, 2, 3}
  RelaxKs = {1, 2, 3}
  UseRec = TRUE
  UseAct = TRUE
  MaxHist = 4
  MaxSuf = 3
  Limit = 100
  FlushWorks = TRUE
INVARIANTS FlushRestores SuffixEqual
CHECK_DEADLOCK FALSE

SPECIFICATION Spec
INVARIANT Inv_C08
POSTCONDITION TraceAccepted
CHECK_DEADLOCK FALSE

------------------------------ MODULE Compat ------------------------------
(***************************************************************************)
(* C07 - compatibility distance between two genomes.                       *)
(*                                                                         *)
(* A gene list is a sequence of records [inn, mut] strictly ascending in   *)
(* inn.  The *definition* of the distance is given by Def: the tuple       *)
(* <<E, D, S, M>> of excess count, disjoint count, sum of |mut1 - mut2|    *)
(* over matching genes and matching count.  The value the library must     *)
(* return is  cE*E + cD*D + cW*(S/M)   (S/M = 0 when M = 0).               *)
(*                                                                         *)
(* The two selectable procedures of the implementation                     *)
(* (genome_compatibility.go: compatLinear, compatFast) are transcribed as  *)
(* step machines (LinStep, FastStep) so that TLC can explore them on every *)
(* input in scope and compare their final counters with Def.               *)
(***************************************************************************)
EXTENDS Integers, Sequences, FiniteSets, FiniteSetsExt, SequencesExt, Functions

Abs(x) == IF x < 0 THEN -x ELSE x
MaxI(a, b) == IF a > b THEN a ELSE b

Inns(g) == { g[i].inn : i \in DOMAIN g }
MutOf(g, n) == (CHOOSE i \in DOMAIN g : g[i].inn = n) \* well defined for ascending lists
LastInn(g) == IF g = <<>> THEN 0 ELSE g[Len(g)].inn

(* ----- the definition (NEAT paper; property C07) ----- *)
Matching(a, b) == Inns(a) \cap Inns(b)
\* a non-matching gene is excess when its number is beyond the other genome's largest number
ExcessSet(a, b) == { n \in Inns(a) \ Inns(b) : n > LastInn(b) } \cup { n \in Inns(b) \ Inns(a) : n > LastInn(a) }
DisjointSet(a, b) == ((Inns(a) \ Inns(b)) \cup (Inns(b) \ Inns(a))) \ ExcessSet(a, b)
SumAbs(a, b) == LET m == Matching(a, b)
                IN  FoldSet(LAMBDA n, acc : acc + Abs(a[MutOf(a, n)].mut - b[MutOf(b, n)].mut), 0, m)
Def(a, b) == [E |-> Cardinality(ExcessSet(a, b)), D |-> Cardinality(DisjointSet(a, b)),
              S |-> SumAbs(a, b), M |-> Cardinality(Matching(a, b))]

(* ----- compatLinear as a step machine: forward merge walk ----- *)
\* state: [i1, i2, E, D, S, M, done];  indices are 0-based as in the code.
\* The walk continues until both lists are exhausted.  (Before the repair recorded in known_findings.json the
\* loop ran only max(len1, len2) times; that transcription was model-checked first and TLC produced the
\* counterexample a = <<3>>, b = <<1>>: one step, D = 1, E = 0 instead of D = 1, E = 1.)
LinInit == [i1 |-> 0, i2 |-> 0, E |-> 0, D |-> 0, S |-> 0, M |-> 0, done |-> FALSE]
LinStep(a, b, s) ==
    LET n1 == Len(a)  n2 == Len(b) IN
    IF s.i1 >= n1 /\ s.i2 >= n2 THEN [s EXCEPT !.done = TRUE]
    ELSE IF s.i1 >= n1 THEN [s EXCEPT !.E = @ + 1, !.i2 = @ + 1]
    ELSE IF s.i2 >= n2 THEN [s EXCEPT !.E = @ + 1, !.i1 = @ + 1]
    ELSE LET g1 == a[s.i1 + 1]  g2 == b[s.i2 + 1] IN
         IF g1.inn = g2.inn THEN [s EXCEPT !.M = @ + 1, !.S = @ + Abs(g1.mut - g2.mut), !.i1 = @ + 1, !.i2 = @ + 1]
         ELSE IF g1.inn < g2.inn THEN [s EXCEPT !.D = @ + 1, !.i1 = @ + 1]
         ELSE [s EXCEPT !.D = @ + 1, !.i2 = @ + 1]

(* ----- compatFast as a step machine: backward walk with the 0/1/2/3 switch ----- *)
\* sw: 0 first gene, 1 excess run on list 1, 2 excess run on list 2, 3 no more excess
FastInit(a, b) ==
    IF a = <<>> \/ b = <<>>
    THEN [i1 |-> -1, i2 |-> -1, E |-> Len(a) + Len(b), D |-> 0, S |-> 0, M |-> 0, sw |-> 3, done |-> TRUE]
    ELSE [i1 |-> Len(a) - 1, i2 |-> Len(b) - 1, E |-> 0, D |-> 0, S |-> 0, M |-> 0, sw |-> 0, done |-> FALSE]
FastStep(a, b, s) ==
    LET g1 == a[s.i1 + 1]  g2 == b[s.i2 + 1]
        moved ==
          IF g2.inn > g1.inn THEN
              IF s.sw = 3 THEN [s EXCEPT !.D = @ + 1, !.i2 = @ - 1]
              ELSE IF s.sw = 2 THEN [s EXCEPT !.E = @ + 1, !.i2 = @ - 1]
              ELSE IF s.sw = 1 THEN [s EXCEPT !.sw = 3, !.D = @ + 1, !.i2 = @ - 1]
              ELSE [s EXCEPT !.sw = 2, !.E = @ + 1, !.i2 = @ - 1]
          ELSE IF g1.inn = g2.inn THEN
              [s EXCEPT !.sw = 3, !.S = @ + Abs(g1.mut - g2.mut), !.M = @ + 1, !.i1 = @ - 1, !.i2 = @ - 1]
          ELSE
              IF s.sw = 3 THEN [s EXCEPT !.D = @ + 1, !.i1 = @ - 1]
              ELSE IF s.sw = 1 THEN [s EXCEPT !.E = @ + 1, !.i1 = @ - 1]
              ELSE IF s.sw = 2 THEN [s EXCEPT !.sw = 3, !.D = @ + 1, !.i1 = @ - 1]
              ELSE [s EXCEPT !.sw = 1, !.E = @ + 1, !.i1 = @ - 1]
    IN  IF moved.i1 < 0 THEN [moved EXCEPT !.D = @ + (moved.i2 + 1), !.i2 = -1, !.done = TRUE]
        ELSE IF moved.i2 < 0 THEN [moved EXCEPT !.D = @ + (moved.i1 + 1), !.i1 = -1, !.done = TRUE]
        ELSE moved

Counters(s) == [E |-> s.E, D |-> s.D, S |-> s.S, M |-> s.M]

(* ----- input scope ----- *)
\* all ascending gene lists over innovation numbers 1..K with mutation numbers given by mf
\* (built by filtering 1..Max(S): SetToSortSeq enumerates permutations and is unusable beyond a handful of genes)
ListOf(S, mf) == LET top == IF S = {} THEN 0 ELSE Max(S)
                     seq == SelectSeq([i \in 1..top |-> i], LAMBDA n : n \in S)
                 IN  [i \in DOMAIN seq |-> [inn |-> seq[i], mut |-> mf[seq[i]]]]
=============================================================================

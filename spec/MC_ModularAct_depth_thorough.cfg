SPECIFICATION Spec
CONSTANTS
  RecursiveAddsBias = TRUE
  Inputs = {1, 2}
  Biases = {3}
  Hidden = {5, 6}
  OutSet = {8, 9}
  Shapes = {{1, 5, 6, 8}, {1, 3, 5, 8}}
  Weights <- W3
  PatternW = FALSE
  TdFlags = {FALSE}
  InVecs <- VecsOne
  OrderKinds = {"IBHO"}
  ActSchemes <- SchemesLinear
  LinkCaps = {3}
  MinLinks = 2
  Canonical = TRUE
  AcyclicOnly = TRUE
  Tight = TRUE
  ModuleActs = {"mul"}
  ModuleActs2 = {"max"}
  MaxMods = 1
  InsSizes = {1, 2}
  OutArities = {1}
  SensorIns = TRUE
  FwdKs = {1, 2}
  ActKs = {}
  Act0Ks = {}
  UseRec = FALSE
  LoadFirst = TRUE
  MaxHist = 3
  MaxSuf = 2
  Limit = 5000
INVARIANTS Settles SolversAgree FlushRestores SuffixEqual CountsAgree DepthTwoWays Refusals InScope
CHECK_DEADLOCK FALSE

SPECIFICATION Spec
CONSTANTS
  Fits <- MixedFits
  His = {0}
  Ages = {1}
  Times = {0}
  Ids = {0}
  MaxLen = 3
  MaxSpecies = 1
INVARIANTS OrganismsOrder SpeciesOrder SpMaxOrder TimeIdOrder TotalOnDistinct ChampionLaws SpeciesPromotesYounger
CHECK_DEADLOCK FALSE

SPECIFICATION Spec
INVARIANTS Inv_Lifecycle
POSTCONDITION TraceAccepted
CHECK_DEADLOCK FALSE

SPECIFICATION Spec
CONSTANTS
  MaxIn = 3
  MaxOut = 2
  MaxHidden = 3
  AllMatricesUpTo = 4
INVARIANTS Shape TableIsDefinition
CHECK_DEADLOCK FALSE

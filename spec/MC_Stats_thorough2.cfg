SPECIFICATION Spec
CONSTANTS
  Vals <- ThoroughVals
  MaxLen = 2
  MaxTrials = 2
  MaxGens = 2
  Fits <- MixedFits
  Divs = {3}
INVARIANTS SeriesLaws SeriesPermutationInvariant ExperLaws
CHECK_DEADLOCK FALSE

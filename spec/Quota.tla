------------------------------- MODULE Quota -------------------------------
(***************************************************************************)
(* C09 - offspring quotas of an epoch, in exact integer arithmetic.        *)
(*                                                                         *)
(* A species is [id, age, aoli, mx, fit]: age, age of last improvement,    *)
(* maximal fitness ever, and the raw (integer, >= 0) fitness of its        *)
(* organisms.  Options are [dropoff, sig = [n, d], st = [n, d], bs]:       *)
(* DropOffAge, AgeSignificance and SurvivalThresh as fractions,            *)
(* BabiesStolen.                                                           *)
(*                                                                         *)
(* The operators transcribe, in the order of prepareForReproduction:       *)
(*   Species.adjustFitness      - stagnation penalty (x 1/100 when the age *)
(*                                debt is >= 1, a debt of exactly 0 counts *)
(*                                as 1), youth boost (x AgeSignificance    *)
(*                                when age <= 10), sharing (/ size), sort, *)
(*                                age-of-last-improvement, parent cut-off  *)
(*   purgeZeroOffspringSpecies  - expected offspring = fitness / mean,     *)
(*                                Species.countOffspring (floor and carry  *)
(*                                the fraction, in species order), make-up *)
(*                                offspring, "population died" fallback,   *)
(*                                purge of zero-quota species              *)
(*   species sort, population stagnation bookkeeping                       *)
(*   deltaCoding / giveBabiesToTheBest                                     *)
(*   purgeOrganisms                                                        *)
(*                                                                         *)
(* Rationals: adjusted fitness is an integer numerator over the common     *)
(* denominator LDen; expected offspring is a numerator over the common     *)
(* denominator T (the sum of all adjusted numerators; the mean is T / N).  *)
(*                                                                         *)
(* float64: the implementation adds and floors IEEE doubles.  Its running  *)
(* total can differ from the exact one only when the exact cumulative      *)
(* expectation at the end of a species is an integer (then the double may  *)
(* be an ulp short and the floor one less; the missing offspring shows up  *)
(* in a later species or, at the very end, as the make-up offspring).      *)
(* This is the `lost` vector: lost[k] = 1 is admissible only at such a     *)
(* boundary.  With lost = 0 everywhere the model is the exact arithmetic.  *)
(***************************************************************************)
EXTENDS Integers, Sequences, FiniteSets, TLC

RECURSIVE SumTo(_, _)
SumTo(s, k) == IF k = 0 THEN 0 ELSE s[k] + SumTo(s, k - 1)
Sum(s) == SumTo(s, Len(s))
RECURSIVE Gcd(_, _)
Gcd(a, b) == IF b = 0 THEN a ELSE Gcd(b, a % b)
Lcm(a, b) == (a * b) \div Gcd(a, b)
RECURSIVE LcmUpTo(_)
LcmUpTo(n) == IF n <= 1 THEN 1 ELSE Lcm(n, LcmUpTo(n - 1))
RECURSIVE GcdSeqTo(_, _)
GcdSeqTo(s, k) == IF k = 0 THEN 0 ELSE Gcd(s[k], GcdSeqTo(s, k - 1))
MinI(a, b) == IF a < b THEN a ELSE b
MaxI(a, b) == IF a > b THEN a ELSE b
AbsI(a) == IF a < 0 THEN -a ELSE a
Desc(s) == SortSeq(s, LAMBDA a, b : a > b)
RECURSIVE Flatten(_)
Flatten(ss) == IF ss = <<>> THEN <<>> ELSE Head(ss) \o Flatten(Tail(ss))

(* ===================== Species.adjustFitness ===================== *)
Size(s) == Len(s.fit)
AgeDebt(s, o) == LET d == (s.age - s.aoli + 1) - o.dropoff IN IF d = 0 THEN 1 ELSE d
Penalised(s, o) == AgeDebt(s, o) >= 1
Young(s) == s.age <= 10
\* common denominator of every adjusted fitness; lbase is a common multiple of all species sizes in scope
\* (LcmUpTo(largest population) for the exhaustive families, the lcm of the fixed sizes for the large-steal family)
LDen(o, lbase) == 100 * o.sig.d * lbase
\* numerator (over LDen) of the adjusted, shared fitness of an organism of species s with raw fitness f
AdjNum(s, o, f, lbase) ==
    LET den == (IF Penalised(s, o) THEN 100 ELSE 1) * (IF Young(s) THEN o.sig.d ELSE 1) * Size(s)
        num == f * (IF Young(s) THEN o.sig.n ELSE 1)
    IN  num * (LDen(o, lbase) \div den)
\* floor(SurvivalThresh * n + 1.0); the organisms at (0-based) positions numParents.. are marked for elimination
NumParents(s, o) == (o.st.n * Size(s)) \div o.st.d + 1
ParentsKept(s, o) == Size(s) - MaxI(0, Size(s) - NumParents(s, o))
\* result: organisms sorted by adjusted fitness (most fit first), bookkeeping of the last improvement, parents
Adjust(s, o, lbase) ==
    LET orig == Desc(s.fit)       \* the multiplier is positive: sorting by adjusted fitness sorts by raw fitness
        improved == orig[1] > s.mx
    IN  [adj |-> [i \in DOMAIN orig |-> AdjNum(s, o, orig[i], lbase)], orig |-> orig,
         aoli |-> IF improved THEN s.age ELSE s.aoli, mx |-> IF improved THEN orig[1] ELSE s.mx,
         parents |-> ParentsKept(s, o), penalised |-> Penalised(s, o), young |-> Young(s)]

(* ===================== expected offspring ===================== *)
\* adjs: per species the sequence of adjusted numerators.  G removes the common factor (keeps the integers small).
AllAdj(adjs) == Flatten(adjs)
GAll(adjs) == LET a == AllAdj(adjs) g == GcdSeqTo(a, Len(a)) IN IF g = 0 THEN 1 ELSE g
\* T: denominator of every expectation;  N: number of organisms;  E_o = (A_o / G * N) / T  with T = sum(A_o / G)
TDen(adjs) == Sum(AllAdj(adjs)) \div GAll(adjs)
NOrg(adjs) == Len(AllAdj(adjs))
ENum(adjs) == [k \in DOMAIN adjs |-> [i \in DOMAIN adjs[k] |-> (adjs[k][i] \div GAll(adjs)) * NOrg(adjs)]]

(* ===================== Species.countOffspring ===================== *)
\* es: expectation numerators of the species' organisms, skim: carried fraction numerator, T: denominator
RECURSIVE CountFrom(_, _, _, _, _)
CountFrom(es, T, i, q, skim) ==
    IF i > Len(es) THEN [q |-> q, skim |-> skim]
    ELSE LET ip == es[i] \div T
             s1 == skim + (es[i] % T)
         IN  IF s1 >= T THEN CountFrom(es, T, i + 1, q + ip + (s1 \div T), s1 - ((s1 \div T) * T))
             ELSE CountFrom(es, T, i + 1, q + ip, s1)
CountOffspring(es, skim, T) == CountFrom(es, T, 1, 0, skim)
\* the loop of purgeZeroOffspringSpecies over the species in order (exact arithmetic)
RECURSIVE CountAll(_, _, _, _, _)
CountAll(ens, T, k, skim, acc) ==
    IF k > Len(ens) THEN acc
    ELSE LET c == CountOffspring(ens[k], skim, T) IN CountAll(ens, T, k + 1, c.skim, Append(acc, c.q))
ExactRaw(ens, T) == CountAll(ens, T, 1, 0, <<>>)

\* closed form: cumulative expectation at the end of species k, its floor, and whether it is an integer boundary
Cum(ens, k) == SumTo([j \in DOMAIN ens |-> Sum(ens[j])], k)
FloorCum(ens, T, k) == Cum(ens, k) \div T
Boundary(ens, T, k) == Cum(ens, k) > 0 /\ (Cum(ens, k) % T) = 0
\* When is the float64 arithmetic of the implementation EXACT (so that nothing can be lost)?  No species is penalised
\* (0.01 is not a binary fraction), every species size is a power of two and AgeSignificance is dyadic (the shared
\* adjusted fitness is then a small dyadic number and sums of them are exact), the population mean is dyadic and so
\* is every expectation (a correctly rounded division returns a representable quotient exactly).
RECURSIVE IsPow2(_)
IsPow2(n) == n = 1 \/ (n > 1 /\ n % 2 = 0 /\ IsPow2(n \div 2))
Dyadic(num, den) == num = 0 \/ IsPow2(den \div Gcd(num, den))
FloatExact(sizes, penalised, sigd, adjs, lden, ens, T) ==
    /\ \A k \in DOMAIN sizes : IsPow2(sizes[k]) /\ ~penalised[k]
    /\ IsPow2(sigd)
    /\ Dyadic(Sum(AllAdj(adjs)), NOrg(adjs) * lden)
    /\ \A k \in DOMAIN ens : \A j \in DOMAIN ens[k] : Dyadic(ens[k][j], T)
\* admissible float64 losses
LossOK(ens, T, lost, exact) ==
    \A k \in DOMAIN ens :
        /\ lost[k] \in {0, 1}
        /\ lost[k] = 1 => (Boundary(ens, T, k) /\ ~exact)
        /\ Sum(ens[k]) = 0 => lost[k] = (IF k = 1 THEN 0 ELSE lost[k - 1])
RawQuota(ens, T, lost) ==
    [k \in DOMAIN ens |-> (FloorCum(ens, T, k) - lost[k]) - (IF k = 1 THEN 0 ELSE FloorCum(ens, T, k - 1) - lost[k - 1])]

(* ===================== make-up offspring, population died, purge ===================== *)
\* the species expecting the most; of several the LAST one in list order (the scan uses >=, starting from 0)
RECURSIVE BestFrom(_, _, _, _)
BestFrom(raw, k, best, mx) ==
    IF k > Len(raw) THEN best
    ELSE IF raw[k] >= mx THEN BestFrom(raw, k + 1, k, raw[k]) ELSE BestFrom(raw, k + 1, best, mx)
MakeUp(raw, N) ==
    IF Sum(raw) >= N THEN [q |-> raw, mk |-> 0, died |-> FALSE]
    ELSE LET b == BestFrom(raw, 1, 0, 0) IN
         IF Sum(raw) + 1 < N
         THEN [q |-> [k \in DOMAIN raw |-> IF k = b THEN N ELSE 0], mk |-> b, died |-> TRUE]
         ELSE [q |-> [raw EXCEPT ![b] = @ + 1], mk |-> b, died |-> FALSE]
Kept(q) == SelectSeq([k \in DOMAIN q |-> k], LAMBDA k : q[k] > 0)

(* ===================== species sort and population stagnation ===================== *)
\* byOrganismOrigFitness reversed: higher original fitness of the best organism first, of equals the younger first;
\* lists of up to 12 elements are sorted by insertion (stable): full ties keep the population order
Before(a, b, best, age) == best[a] > best[b] \/ (best[a] = best[b] /\ age[a] < age[b])
RECURSIVE InsertSorted(_, _, _, _)
InsertSorted(srt, x, best, age) ==
    IF srt = <<>> THEN <<x>>
    ELSE IF Before(x, srt[Len(srt)], best, age) THEN Append(InsertSorted(SubSeq(srt, 1, Len(srt) - 1), x, best, age), srt[Len(srt)])
    ELSE Append(srt, x)
RECURSIVE SortSpecies(_, _, _, _)
SortSpecies(kept, k, best, age) ==
    IF k = 0 THEN <<>> ELSE InsertSorted(SortSpecies(kept, k - 1, best, age), kept[k], best, age)
Sorted(kept, best, age) == SortSpecies(kept, Len(kept), best, age)
SortTie(kept, best, age) == \E i, j \in DOMAIN kept : i # j /\ best[kept[i]] = best[kept[j]] /\ age[kept[i]] = age[kept[j]]
\* population-level record fitness: returns [hf, ehlc]
Stagnation(hf, ehlc, bestOrig) == IF bestOrig > hf THEN [hf |-> bestOrig, ehlc |-> 0] ELSE [hf |-> hf, ehlc |-> ehlc + 1]

(* ===================== deltaCoding ===================== *)
\* r = [q, sc, aoli]: quotas, super-champion offspring of the species' best organism, age of last improvement
Delta(srt, r, age, N) ==
    LET half == N \div 2  a == srt[1] IN
    IF Len(srt) > 1
    THEN LET b == srt[2] IN
         [q    |-> [k \in DOMAIN r.q |-> IF k = a THEN half ELSE IF k = b THEN N - half ELSE 0],
          sc   |-> [k \in DOMAIN r.q |-> IF k = a THEN half ELSE IF k = b THEN N - half ELSE r.sc[k]],
          aoli |-> [k \in DOMAIN r.q |-> IF k \in {a, b} THEN age[k] ELSE r.aoli[k]]]
    ELSE [q    |-> [k \in DOMAIN r.q |-> IF k = a THEN N ELSE 0],
          sc   |-> [r.sc EXCEPT ![a] = N],
          aoli |-> [r.aoli EXCEPT ![a] = age[a]]]

(* ===================== giveBabiesToTheBest ===================== *)
\* take from the worst species (age > 5, quota > 2) until bs babies are stolen; every donor keeps at least one
RECURSIVE Take(_, _, _, _, _, _)
Take(srt, age, bs, i, q, stolen) ==
    IF i = 0 \/ stolen >= bs THEN [q |-> q, stolen |-> stolen]
    ELSE LET s == srt[i] IN
         IF age[s] > 5 /\ q[s] > 2
         THEN IF q[s] - 1 >= bs - stolen THEN Take(srt, age, bs, i - 1, [q EXCEPT ![s] = @ - (bs - stolen)], bs)
              ELSE Take(srt, age, bs, i - 1, [q EXCEPT ![s] = 1], stolen + q[s] - 1)
         ELSE Take(srt, age, bs, i - 1, q, stolen)
\* hand them to the top species: 1/5, 1/5, 1/10 of bs to the first three that are not dying, then (by coin) up to 3
\* each; coins[i] is the outcome of rand.Float64() > 0.1 for the species at sorted position i
Blocks(bs) == << bs \div 5, bs \div 5, bs \div 10 >>
RECURSIVE Give(_, _, _, _, _, _, _, _)
Give(srt, dying, bs, coins, i, bi, r, used) ==
    IF i > Len(srt) THEN [r EXCEPT !.used = used]
    ELSE LET s == srt[i] IN
         IF dying[s] THEN Give(srt, dying, bs, coins, i + 1, bi, r, used)
         ELSE LET blk == IF bi < 3 THEN Blocks(bs)[bi + 1] ELSE 0
                  flips == bi >= 3
                  r2 == IF bi < 3 /\ r.stolen >= blk
                        THEN [r EXCEPT !.q[s] = @ + blk, !.sc[s] = blk, !.stolen = @ - blk]
                        ELSE IF bi >= 3 /\ coins[i]
                             THEN IF r.stolen > 3 THEN [r EXCEPT !.q[s] = @ + 3, !.sc[s] = 3, !.stolen = @ - 3]
                                  ELSE [r EXCEPT !.q[s] = @ + r.stolen, !.sc[s] = r.stolen, !.stolen = 0]
                             ELSE r
                  u2 == IF flips THEN used \cup {i} ELSE used
              IN  IF r2.stolen <= 0 THEN [r2 EXCEPT !.used = u2]
                  ELSE Give(srt, dying, bs, coins, i + 1, bi + 1, r2, u2)
\* r = [q, sc]; returns [q, sc, stolen (what the donors gave), used (sorted positions whose coin was looked at)]
Steal(srt, r, age, lastImproved, o, coins) ==
    LET t == Take(srt, age, o.bs, Len(srt), r.q, 0)
        dying == [k \in DOMAIN r.q |-> lastImproved[k] > o.dropoff]
        g == Give(srt, dying, o.bs, coins, 1, 0, [q |-> t.q, sc |-> r.sc, stolen |-> t.stolen, used |-> {}], {})
        a == srt[1]
    IN  IF g.stolen > 0
        THEN [q |-> [g.q EXCEPT ![a] = @ + g.stolen], sc |-> [g.sc EXCEPT ![a] = @ + g.stolen], taken |-> t.stolen, used |-> g.used]
        ELSE [q |-> g.q, sc |-> g.sc, taken |-> t.stolen, used |-> g.used]
=============================================================================

---------------------------- MODULE MC_Options ----------------------------
(* X02: every option file in scope is an initial state (token list + activator lines), together with the Validate     *)
(* records, the context stacks and the file names in scope; the laws of Options.tla are invariants; each state is      *)
(* handed to the replayer with the result the specification assigns to each reader.                                   *)
EXTENDS Options, Json
CONSTANTS Patterns,        \* <<n, shift>>: float field k gets literal ((k + shift) mod n) + 1, int field k literal ((k + shift) mod 7) + 1
          PertPatterns,    \* patterns used for the perturbed files
          ExecVals, CompatVals, LevelVals,
          ActEntries, MaxActLines,
          MaxStack
VARIABLES kind, toks, lines, aux, emitted
vars == <<kind, toks, lines, aux, emitted>>

SeqsUpTo(S, n) == UNION { [1..k -> S] : k \in 0..n }
NumToks(pat) == [k \in 1..Len(FloatKeys) |-> <<FloatKeys[k], FloatLits[((k + pat[2]) % pat[1]) + 1]>>]
                \o [k \in 1..Len(IntKeys) |-> <<IntKeys[k], IntLits[((k + pat[2]) % Len(IntLits)) + 1]>>]
EnumToks(e, c, l) == SelectSeq(<< <<"epoch_executor", e>>, <<"genome_compat_method", c>>, <<"log_level", l>> >>,
                               LAMBDA t : t[2] # Absent)
Base(pat, e) == NumToks(pat) \o EnumToks(e, "fast", "info")
OtherLit(t) == IF t[1] \in FloatKeySet THEN (IF t[2] = "-1.5" THEN "0.5" ELSE "-1.5")
               ELSE IF t[1] \in IntKeySet THEN (IF t[2] = "-3" THEN "200" ELSE "-3")
               ELSE IF t[1] = "epoch_executor" THEN (IF t[2] = "parallel" THEN "sequential" ELSE "parallel")
               ELSE IF t[1] = "genome_compat_method" THEN "linear" ELSE "debug"
Perturbed(b) ==
       { RemoveAt(b, i) : i \in DOMAIN b }                                              \* a key is missing
  \cup { Append(b, <<b[i][1], OtherLit(b[i])>>) : i \in DOMAIN b }                       \* a key is given twice
  \cup { InsertAt(b, i, <<"bogus_key", "1">>) : i \in {1, 20, Len(b)} }                  \* an unknown key
  \cup { [b EXCEPT ![1] = <<b[1][1], l>>] : l \in OddFloatLits }                         \* not a number
  \cup { [b EXCEPT ![Len(FloatKeys) + 1] = <<b[Len(FloatKeys) + 1][1], l>>] : l \in OddIntLits }
  \cup { Reverse(b), <<>> }

Stacks == SeqsUpTo({0, 1, 2}, MaxStack)
FileNames == { <<"o", ".", "n", "e", "a", "t">>, <<"o", ".", "y", "m", "l">>, <<"o", ".", "y", "a", "m", "l">>,
               <<"o", ".", "n", "e", "a", "t", ".", "y", "m", "l">>, <<"o", "y", "m", "l">>, <<"o", ".", "Y", "M", "L">>,
               <<"o", ".", "y", "m", "l", ".", "b", "a", "k">>, <<"o", ".", "t", "x", "t">>, <<"y", "a", "m", "l">>, <<"o">> }

Init == /\ emitted = FALSE
        /\ \/ /\ kind = "file" /\ aux = 0
              /\ \/ /\ lines = <<>>
                    /\ \/ \E pat \in Patterns, e \in ExecVals, c \in CompatVals, l \in LevelVals :
                             toks = NumToks(pat) \o EnumToks(e, c, l)
                       \/ \E pat \in PertPatterns, e \in Executors : toks \in Perturbed(Base(pat, e))
                 \/ /\ toks = Base(<<9, 0>>, "sequential") /\ lines \in SeqsUpTo(ActEntries, MaxActLines)
           \/ /\ kind = "validate" /\ toks = <<>> /\ lines = <<>>
              /\ aux \in [exec : ExecVals, compat : CompatVals, nacts : 0..2, nprobs : 0..2]
           \/ /\ kind = "context" /\ toks = <<>> /\ lines = <<>> /\ aux \in Stacks
           \/ /\ kind = "name" /\ toks = <<>> /\ lines = <<>> /\ aux \in [name : FileNames, syntax : {"plain", "yaml", "missing"}]

Reached(r) == r.status \notin {"unknown_key", "decode"}
FileCase == LET p == PlainRead(toks)  y == YamlRead(toks, lines)  lv == Str(Get(toks, "log_level")) IN
    [kind |-> "file", toks |-> toks, lines |-> lines, plain |-> p, yaml |-> y,
     wellformed |-> WellFormedFile(toks), acceptable |-> AcceptableFile(toks),
     \* the value of the LAST log_level token is what the plain reader sees; YamlVals is only meaningful without duplicates
     plain_level_after |-> LevelAfter(p, IF p.status = "ok" THEN p.level ELSE
                                         (IF Reached(p) THEN Str(PlainScan(toks, NoVals)["log_level"]) ELSE ""), "warn", Reached(p)),
     yaml_level_after |-> LevelAfter(y, lv, "warn", Reached(y))]
Emit == /\ ~emitted /\ emitted' = TRUE /\ UNCHANGED <<kind, toks, lines, aux>>
        /\ IF kind = "file" THEN PrintT(ToJson(FileCase))
           ELSE IF kind = "validate" THEN
               PrintT(ToJson([kind |-> "validate", v |-> aux, err |-> ValidateErr(aux.exec, aux.compat, aux.nacts, aux.nprobs),
                              exec_ok |-> Str(aux.exec) \in Executors, compat_ok |-> Str(aux.compat) \in CompatMethods]))
           ELSE IF kind = "context" THEN PrintT(ToJson([kind |-> "context", stack |-> aux, from |-> FromContext(aux)]))
           ELSE PrintT(ToJson([kind |-> "name", name |-> aux.name, syntax |-> aux.syntax, as_yaml |-> ReadAsYaml(aux.name),
                               ok |-> aux.syntax # "missing" /\ (ReadAsYaml(aux.name) <=> aux.syntax = "yaml")]))
Next == Emit
Spec == Init /\ [][Next]_vars

(* ---- constants ---- *)
AllPatterns == { <<7, s>> : s \in 0..6 } \cup { <<9, s>> : s \in 0..8 }
QuickPatterns == { <<7, 0>>, <<7, 3>>, <<9, 0>>, <<9, 4>>, <<9, 7>> }
OnePattern == { <<9, 2>> }
TwoPatterns == { <<9, 2>>, <<7, 5>> }
Execs4 == {"sequential", "parallel", "seq", Absent}
Compats4 == {"linear", "fast", "Fast", Absent}
Levels6 == {"debug", "info", "warn", "error", "warning", Absent}
QuickActEntries == { <<"TanhActivation", "0.5">>, <<"NullActivation", "0.25">>, <<"Bogus", "1.0">>,
                     <<"SigmoidBipolarActivation", "x">>, <<"StepActivation", "0.5", "extra">> }
\* lines with fewer than two fields: the specification requires an error; kept in a separate configuration because the
\* reader as found panics on them (reported defect)
ShortActEntries == { <<"TanhActivation", "0.5">>, <<"LinearActivation">> }
ThoroughActEntries == QuickActEntries \cup { <<"MultiplyModuleActivation", "1.0">>, <<"SineActivation", "0.15">> }

(* ---- laws ---- *)
F == kind = "file"
Statuses == {"ok", "unknown_key", "decode", "log_level", "activator_fields", "activator_name", "activator_prob",
             "executor", "compat", "no_activators", "mismatch"}
StatusKnown == F => PlainRead(toks).status \in Statuses /\ YamlRead(toks, lines).status \in Statuses
ReadersAgree == (F /\ WellFormedFile(toks) /\ lines = <<>>) => PlainRead(toks) = YamlRead(toks, lines)
ValidationExact == (F /\ WellFormedFile(toks)) =>
    /\ PlainRead(toks).status = "ok" <=> AcceptableFile(toks)
    /\ YamlRead(toks, lines).status = "ok" <=> (AcceptableFile(toks) /\ InitActs(lines).err = "")
PlainOrderIndependent == (F /\ ~HasDuplicateKey(toks)) => PlainRead(Reverse(toks)) = PlainRead(toks)
PlainLastWins == F => LET last == { i \in DOMAIN toks : \A j \in DOMAIN toks : j > i => toks[j][1] # toks[i][1] }
                          kept == SelectSeq([i \in DOMAIN toks |-> <<toks[i], i \in last>>], LAMBDA x : x[2])
                      IN  (\A i \in DOMAIN toks : toks[i][1] \in KnownKeys) =>
                              PlainRead([i \in DOMAIN kept |-> kept[i][1]]) = PlainRead(toks)
YamlIgnoresUnknownKeys == F => YamlRead(SelectSeq(toks, LAMBDA t : t[1] \in KnownKeys), lines) = YamlRead(toks, lines)
OnlyYamlHasActivators == (F /\ PlainRead(toks).status = "ok") => PlainRead(toks).acts = DefaultActs
ASSUME EnumsOneToOne ==
                 /\ { s \in Execs4 : ValidateErr(s, "fast", 1, 1) = "" } = Executors
                 /\ { s \in Compats4 : ValidateErr("parallel", s, 1, 1) = "" } = CompatMethods
ValidateOrder == kind = "validate" =>
    LET e == ValidateErr(aux.exec, aux.compat, aux.nacts, aux.nprobs) IN
    (e = "") <=> (aux.exec \in Executors /\ aux.compat \in CompatMethods /\ aux.nacts > 0 /\ aux.nacts = aux.nprobs)
ContextLaws == kind = "context" =>
    /\ \A id \in {1, 2} : FromContext(Append(aux, id)) = [found |-> TRUE, id |-> id]
    /\ FromContext(Append(aux, 0)) = FromContext(aux)
    /\ FromContext(<<>>).found = FALSE
=============================================================================

------------------------------- MODULE Codec -------------------------------
(***************************************************************************)
(* C15 - everything the library writes it reads back unchanged.            *)
(*                                                                         *)
(* Token-level models of the persistent formats of goNEAT, writer and      *)
(* reader transcribed separately from the code, so that "reads back        *)
(* unchanged" becomes the law  Read(Write(x)) = x  that TLC checks on      *)
(* every structure in scope (MC_Codec) and that the replayer re-checks on  *)
(* the real writers / readers with the specification's token streams as    *)
(* the expected output of the real writers.                                *)
(*                                                                         *)
(*   plain genome     genome_writer.go:36-135  / genome_reader.go:57-204   *)
(*   YAML genome      genome_writer.go:142-271 / genome_reader.go:215-444  *)
(*   organism binary  organism.go:115-140                                  *)
(*   population       population_io.go:14-99                               *)
(*   fast-solver JSON fast_network_model_io.go + network.go:59-145         *)
(*   experiment gob   experiment.go:342-399, trial.go:157-191,             *)
(*                    generation.go:90-252                                 *)
(*                                                                         *)
(* Abstract genome (field names as in Genome.tla):                         *)
(*   g = [id, traits : Seq([id, p : Seq(sym)]),                            *)
(*            nodes  : Seq([id, role \in {"I","B","O","H"}, act, tr]),     *)
(*            genes  : Seq([inn, src, dst, rec, en, w, mut, tr]),          *)
(*            mods   : Seq([id, inn, mut, en, act, ins, outs, tr])]        *)
(* tr = trait id or 0 for a nil trait pointer; act = activation type       *)
(* number (neat/math NodeActivationType).                                  *)
(*                                                                         *)
(* Floats are SYMBOLS: indices into FTable.  The table only fixes what the *)
(* formats can see of a float64 - the lexical class of its shortest        *)
(* decimal text: "flt" (text with '.', or exponent: resolved as a float    *)
(* scalar by YAML), "int" (integer-valued, |x| < 1e6: text is a plain      *)
(* integer, which YAML resolves as an int and the reader casts back),      *)
(* "nz" (negative zero, text "-0").  The replayer maps every "flt" symbol  *)
(* to adversarial float64 bit patterns and compares bits (DESIGN 4.2 P6).  *)
(***************************************************************************)
EXTENDS Integers, Sequences, FiniteSets, TLC, SequencesExt

CONSTANT PopStartNewline    \* TRUE: the population reader terminates the "genomestart" line it re-creates (as it must);
                            \* FALSE: as found in population_io.go:30 (no newline: the next line is glued to it)

Rng(s) == {s[i] : i \in DOMAIN s}
Map(s, F(_)) == [i \in DOMAIN s |-> F(s[i])]
Fold(Op(_, _), base, s) == FoldLeft(Op, base, s)     \* Op(acc, element)
Flat(ss) == FlattenSeq(ss)

(* ------------------------------------------------------------ float symbols *)
FTable == << [k |-> "flt", n |-> 0], [k |-> "flt", n |-> 0], [k |-> "flt", n |-> 0], [k |-> "flt", n |-> 0],
             [k |-> "int", n |-> 0], [k |-> "int", n |-> 1], [k |-> "int", n |-> -3], [k |-> "int", n |-> 250000],
             [k |-> "nz", n |-> 0],  [k |-> "flt", n |-> 0], [k |-> "flt", n |-> 0], [k |-> "flt", n |-> 0] >>
FSyms == DOMAIN FTable
ZERO == 5
ONE == 6
NEGZERO == 9
FKind(s) == FTable[s].k
SymOfInt(n) == IF \E s \in FSyms : FKind(s) = "int" /\ FTable[s].n = n
               THEN CHOOSE s \in FSyms : FKind(s) = "int" /\ FTable[s].n = n ELSE 0
ASSUME \A s, t \in FSyms : (FKind(s) = "int" /\ FKind(t) = "int" /\ FTable[s].n = FTable[t].n) => s = t

(* ------------------------------------------------------------ registries *)
(* neat/math/activations.go: type number -> registered name *)
ActNames == << "SigmoidPlainActivation", "SigmoidReducedActivation", "SigmoidBipolarActivation",
               "SigmoidSteepenedActivation", "SigmoidApproximationActivation", "SigmoidSteepenedApproximationActivation",
               "SigmoidInverseAbsoluteActivation", "SigmoidLeftShiftedActivation", "SigmoidLeftShiftedSteepenedActivation",
               "SigmoidRightShiftedSteepenedActivation", "TanhActivation", "GaussianBipolarActivation", "GaussianActivation",
               "LinearActivation", "LinearAbsActivation", "LinearClippedActivation", "NullActivation", "SignActivation",
               "SineActivation", "StepActivation", "MultiplyModuleActivation", "MaxModuleActivation", "MinModuleActivation",
               (* 24, 25: types a user registered through the public NodeActivators.Register / RegisterModule; "every registered *)
               (* activation type" includes them.  Files carry names only, so the type codes the replayer picks do not matter.   *)
               "VerifUserScalarActivation", "VerifUserModuleActivation" >>
ScalarActs == (1 .. 20) \cup {24}
ModuleActs == (21 .. 23) \cup {25}
UserActs == {24, 25}
NullAct == 17
DefaultAct == 4          \* NewNetworkNode: SigmoidSteepenedActivation
ActName(t) == ActNames[t]
ActType(name) == IF \E t \in DOMAIN ActNames : ActNames[t] = name
                 THEN CHOOSE t \in DOMAIN ActNames : ActNames[t] = name ELSE 0     \* 0: "unknown activation" error
ASSUME \A a, b \in DOMAIN ActNames : ActNames[a] = ActNames[b] => a = b

Roles == {"H", "I", "O", "B"}
RoleNum(r) == CASE r = "H" -> 0 [] r = "I" -> 1 [] r = "O" -> 2 [] r = "B" -> 3          \* NodeNeuronType
RoleOfNum(n) == CASE n = 0 -> "H" [] n = 1 -> "I" [] n = 2 -> "O" [] n = 3 -> "B" [] OTHER -> "?"
RoleName(r) == CASE r = "H" -> "HIDN" [] r = "I" -> "INPT" [] r = "O" -> "OUTP" [] r = "B" -> "BIAS"
RoleOfName(s) == CASE s = "HIDN" -> "H" [] s = "INPT" -> "I" [] s = "OUTP" -> "O" [] s = "BIAS" -> "B" [] OTHER -> "?"
Sensor(r) == r \in {"I", "B"}

TraitRef(id, traits) == IF \E i \in DOMAIN traits : traits[i].id = id THEN id ELSE 0    \* TraitWithId: nil when absent
NodeRef(id, nodes) == IF \E i \in DOMAIN nodes : nodes[i].id = id THEN id ELSE 0

NoMods(g) == [g EXCEPT !.mods = <<>>]
GenomeSyms(g) == UNION ({Rng(g.traits[i].p) : i \in DOMAIN g.traits}
                        \cup {{g.genes[i].w, g.genes[i].mut} : i \in DOMAIN g.genes}
                        \cup {{g.mods[i].mut} : i \in DOMAIN g.mods})
(* the genome a reader restores when negative zeros lose their sign *)
Unsign(s) == IF s = NEGZERO THEN ZERO ELSE s
UnsignGenome(g) ==
    [g EXCEPT !.traits = Map(g.traits, LAMBDA t : [t EXCEPT !.p = Map(t.p, Unsign)]),
              !.genes = Map(g.genes, LAMBDA e : [e EXCEPT !.w = Unsign(e.w), !.mut = Unsign(e.mut)]),
              !.mods = Map(g.mods, LAMBDA m : [m EXCEPT !.mut = Unsign(m.mut)])]

(* ======================================================================== *)
(* 1. The plain text format: lines of typed tokens                          *)
(* ======================================================================== *)
I(n) == [k |-> "i", v |-> n]
F(s) == [k |-> "f", v |-> s]
B(b) == [k |-> "b", v |-> b]
S(x) == [k |-> "s", v |-> x]

(* --- writer: plainGenomeWriter.WriteGenome *)
TraitLine(t) == <<S("trait"), I(t.id)>> \o Map(t.p, F)
NodeLine(n) == <<S("node"), I(n.id), I(n.tr), I(IF Sensor(n.role) THEN 1 ELSE 0), I(RoleNum(n.role)), S(ActName(n.act))>>
GeneLine(e) == <<S("gene"), I(e.tr), I(e.src), I(e.dst), F(e.w), B(e.rec), I(e.inn), F(e.mut), B(e.en)>>
PlainLines(g) == << <<S("genomestart"), I(g.id)>> >> \o Map(g.traits, TraitLine) \o Map(g.nodes, NodeLine)
                 \o Map(g.genes, GeneLine) \o << <<S("genomeend"), I(g.id)>> >>            \* control genes: not written

(* --- reader: plainGenomeReader.Read is a fold of the scanner loop over all lines up to EOF *)
NumTraitParams == 8
St0 == [id |-> 0, traits |-> <<>>, nodes |-> <<>>, genes |-> <<>>, err |-> ""]
Err(st, e) == [st EXCEPT !.err = e]
Kinds(ln, from, ks) == Len(ln) >= from + Len(ks) - 1 /\ \A i \in DOMAIN ks : ln[from + i - 1].k = ks[i]
ReadTraitLine(st, ln) ==
    IF ~Kinds(ln, 2, <<"i", "f", "f", "f", "f", "f", "f", "f", "f">>) THEN Err(st, "trait line")
    ELSE IF TraitRef(ln[2].v, st.traits) # 0 THEN Err(st, "trait id not unique")
    ELSE [st EXCEPT !.traits = Append(@, [id |-> ln[2].v, p |-> [i \in 1 .. NumTraitParams |-> ln[i + 2].v]])]
ReadNodeLine(st, ln) ==          \* parts: id trait nodeType(ignored) neuronType [activation]
    LET parts == Len(ln) - 1 IN
    IF parts < 4 \/ ln[2].k # "i" \/ ln[3].k # "i" \/ ln[5].k # "i" THEN Err(st, "node line")
    ELSE LET act == IF parts = 5 THEN ActType(ln[6].v) ELSE DefaultAct IN
         IF act = 0 THEN Err(st, "unknown activation")
         ELSE IF NodeRef(ln[2].v, st.nodes) # 0 THEN Err(st, "node id not unique")
         ELSE [st EXCEPT !.nodes = Append(@, [id |-> ln[2].v, role |-> RoleOfNum(ln[5].v), act |-> act,
                                              tr |-> TraitRef(ln[3].v, st.traits)])]
ReadGeneLine(st, ln) ==          \* "%d %d %d %g %t %d %g %t": trait src dst weight recurrent innovation mutation enabled
    IF ~Kinds(ln, 2, <<"i", "i", "i", "f", "b", "i", "f", "b">>) THEN Err(st, "gene line")
    ELSE [st EXCEPT !.genes = Append(@, [inn |-> ln[7].v, src |-> NodeRef(ln[3].v, st.nodes), dst |-> NodeRef(ln[4].v, st.nodes),
                                         rec |-> ln[6].v, en |-> ln[9].v, w |-> ln[5].v, mut |-> ln[8].v,
                                         tr |-> TraitRef(ln[2].v, st.traits)])]
ReadLine(st, ln) ==
    IF st.err # "" THEN st
    ELSE IF Len(ln) < 2 THEN Err(st, "line can not be split")
    ELSE LET kw == IF ln[1].k = "s" THEN ln[1].v ELSE "?" IN
         CASE kw = "trait" -> ReadTraitLine(st, ln)
           [] kw = "node" -> ReadNodeLine(st, ln)
           [] kw = "gene" -> ReadGeneLine(st, ln)
           [] kw = "genomeend" -> IF ln[2].k = "i" THEN [st EXCEPT !.id = ln[2].v] ELSE Err(st, "genomeend")
           [] OTHER -> st                                       \* genomestart, comments, anything else: skipped
AsGenome(st) == [id |-> st.id, traits |-> st.traits, nodes |-> st.nodes, genes |-> st.genes, mods |-> <<>>]
PlainRead(lines) == LET st == Fold(ReadLine, St0, lines) IN [g |-> AsGenome(st), err |-> st.err]
ReadGenome(lines, id) == LET r == PlainRead(lines) IN [g |-> [r.g EXCEPT !.id = id], err |-> r.err]   \* genome.go:204

(* ======================================================================== *)
(* 2. Organism binary form (organism.go:115-140): header line + plain genome *)
(* org = [fit, gen, hf (highestFitness), pcc (isPopulationChampionChild), g] *)
(* ======================================================================== *)
OrgLines(o) == << <<F(o.fit), I(o.gen), F(o.hf), B(o.pcc), I(o.g.id)>> >> \o PlainLines(o.g)
OrgRead(lines) ==
    IF lines = <<>> \/ ~Kinds(lines[1], 1, <<"f", "i", "f", "b", "i">>) \/ Len(lines[1]) # 5
    THEN [o |-> [fit |-> 0, gen |-> 0, hf |-> 0, pcc |-> FALSE, g |-> AsGenome(St0)], err |-> "organism header"]
    ELSE LET h == lines[1]  r == ReadGenome(Tail(lines), h[5].v) IN
         [o |-> [fit |-> h[1].v, gen |-> h[2].v, hf |-> h[3].v, pcc |-> h[4].v, g |-> r.g], err |-> r.err]

(* ======================================================================== *)
(* 3. Population: Population.Write = the genomes one after another;         *)
(*    ReadPopulation re-assembles each genome's lines in a buffer.          *)
(* ======================================================================== *)
PopLines(gs) == Flat(Map(gs, PlainLines))
Pop0 == [open |-> FALSE, glued |-> FALSE, buf |-> <<>>, idc |-> -1, out |-> <<>>, err |-> ""]
\* buffer write of one line; "glued": the previous write left its line unterminated
PutLine(ps, ln, terminated) ==
    [ps EXCEPT !.buf = IF ps.glued THEN [ps.buf EXCEPT ![Len(ps.buf)] = @ \o ln] ELSE Append(ps.buf, ln),
               !.glued = ~terminated]
PopLine(ps, ln) ==
    IF ps.err # "" THEN ps
    ELSE IF Len(ln) < 2 THEN [ps EXCEPT !.err = "line can not be split"]
    ELSE LET kw == IF ln[1].k = "s" THEN ln[1].v ELSE "?" IN
         CASE kw = "genomestart" ->
                IF ln[2].k # "i" THEN [ps EXCEPT !.err = "genome id"]
                ELSE PutLine([ps EXCEPT !.open = TRUE, !.buf = <<>>, !.glued = FALSE, !.idc = ln[2].v],
                             <<S("genomestart"), ln[2]>>, PopStartNewline)
           [] kw = "genomeend" ->
                IF ~ps.open THEN [ps EXCEPT !.err = "genomeend without genomestart"]
                ELSE LET fin == PutLine(ps, <<S("genomeend"), I(ps.idc)>>, FALSE)
                         r == ReadGenome(fin.buf, ps.idc) IN
                     IF r.err # "" THEN [ps EXCEPT !.err = r.err]
                     ELSE IF r.g.nodes = <<>> THEN [ps EXCEPT !.err = "genome has no nodes"]
                     ELSE IF r.g.genes = <<>> THEN [ps EXCEPT !.err = "genome has no Genes"]
                     ELSE [ps EXCEPT !.out = Append(@, r.g), !.open = FALSE, !.buf = <<>>, !.glued = FALSE, !.idc = -1]
           [] kw = "/*" -> ps
           [] OTHER -> IF ~ps.open THEN [ps EXCEPT !.err = "line outside a genome"] ELSE PutLine(ps, ln, TRUE)
PopRead(lines) == LET ps == Fold(PopLine, Pop0, lines) IN [gs |-> ps.out, err |-> ps.err]

(* ------------------------------------------------------------------------ *)
(* 3b. Population.WriteBySpecies (population.go, species.go Species.Write): *)
(* per species one comment line, then its organisms best fitness first,     *)
(* each with a comment line, ONE MORE comment line when the organism is a   *)
(* winner, and its genome.  A comment is a line whose first token is "/*";  *)
(* the words after it are free text (fitness / error printed with %.3f) and *)
(* are modelled as one opaque token.                                        *)
(* sps = Seq(Seq([g, fit, win]))   (fit: rank, distinct within a species)   *)
(* ------------------------------------------------------------------------ *)
CommentLine(what) == <<S("/*"), S(what), S("*/")>>
SortedDesc(orgs) == SortSeq(orgs, LAMBDA a, b : a.fit > b.fit)
OrgBlock(o) == <<CommentLine("organism")>> \o (IF o.win THEN <<CommentLine("winner")>> ELSE <<>>) \o PlainLines(o.g)
SpeciesBlock(sp) == <<CommentLine("species")>> \o Flat(Map(SortedDesc(sp), OrgBlock))
BySpeciesLines(sps) == Flat(Map(sps, SpeciesBlock))
BySpeciesGenomes(sps) == Flat(Map(sps, LAMBDA sp : Map(SortedDesc(sp), LAMBDA o : o.g)))
BySpeciesLaw(sps) == PopRead(BySpeciesLines(sps)) = [gs |-> Map(BySpeciesGenomes(sps), NoMods), err |-> ""]

(* ======================================================================== *)
(* 4. YAML genome: a document of nested maps                                 *)
(* ======================================================================== *)
(* a float64 as the YAML encoder emits it and as the decoder resolves it *)
YF(s) == IF FKind(s) = "flt" THEN [k |-> "flt", v |-> s] ELSE [k |-> "int", v |-> FTable[s].n]   \* "-0" resolves to int 0
ToFloat(sc) == IF sc.k = "flt" THEN sc.v ELSE SymOfInt(sc.v)                                       \* cast.ToFloat64E
YLinks(ids) == [i \in DOMAIN ids |-> [id |-> ids[i], order |-> i - 1]]
YTrait(t) == [id |-> t.id, params |-> Map(t.p, YF)]
YNode(n) == [id |-> n.id, trait_id |-> n.tr, type |-> RoleName(n.role), activation |-> ActName(n.act)]
YGene(e) == [trait_id |-> e.tr, src_id |-> e.src, tgt_id |-> e.dst, innov_num |-> e.inn, weight |-> YF(e.w),
             mut_num |-> YF(e.mut), recurrent |-> e.rec, enabled |-> e.en]
YMod(m) == [id |-> m.id, trait_id |-> m.tr, innov_num |-> m.inn, mut_num |-> YF(m.mut), enabled |-> m.en,
            activation |-> ActName(m.act), inputs |-> YLinks(m.ins), outputs |-> YLinks(m.outs)]
YamlDoc(g) == LET base == [id |-> g.id, traits |-> Map(g.traits, YTrait), nodes |-> Map(g.nodes, YNode),
                           genes |-> Map(g.genes, YGene)] IN
              [genome |-> IF g.mods = <<>> THEN base ELSE base @@ [modules |-> Map(g.mods, YMod)]]

Dup(ids) == \E i, j \in DOMAIN ids : i # j /\ ids[i] = ids[j]
YamlRead(doc) ==
    LET gm == doc.genome
        traits == Map(gm.traits, LAMBDA t : [id |-> t.id, p |-> [i \in 1 .. NumTraitParams |->
                                                IF i <= Len(t.params) THEN ToFloat(t.params[i]) ELSE ZERO]])
        nodes == Map(gm.nodes, LAMBDA n : [id |-> n.id, role |-> RoleOfName(n.type), act |-> ActType(n.activation),
                                           tr |-> TraitRef(n.trait_id, traits)])
        genes == Map(gm.genes, LAMBDA e : [inn |-> e.innov_num, src |-> NodeRef(e.src_id, nodes), dst |-> NodeRef(e.tgt_id, nodes),
                                           rec |-> e.recurrent, en |-> e.enabled, w |-> ToFloat(e.weight),
                                           mut |-> ToFloat(e.mut_num), tr |-> TraitRef(e.trait_id, traits)])
        mods == IF "modules" \in DOMAIN gm
                THEN Map(gm.modules, LAMBDA m : [id |-> m.id, inn |-> m.innov_num, mut |-> ToFloat(m.mut_num), en |-> m.enabled,
                                                 act |-> ActType(m.activation), tr |-> TraitRef(m.trait_id, traits),
                                                 ins |-> Map(m.inputs, LAMBDA l : NodeRef(l.id, nodes)),
                                                 outs |-> Map(m.outputs, LAMBDA l : NodeRef(l.id, nodes))])
                ELSE <<>>
        err == IF Dup(Map(traits, LAMBDA t : t.id)) THEN "trait id not unique"
               ELSE IF Dup(Map(nodes, LAMBDA n : n.id) \o Map(mods, LAMBDA m : m.id)) THEN "node id not unique"
               ELSE IF \E i \in DOMAIN nodes : nodes[i].role = "?" \/ nodes[i].act = 0 THEN "node type / activation"
               ELSE IF \E i \in DOMAIN mods : mods[i].act = 0 \/ 0 \in Rng(mods[i].ins) \cup Rng(mods[i].outs) THEN "module"
               ELSE ""
    IN [g |-> [id |-> gm.id, traits |-> traits, nodes |-> nodes, genes |-> genes, mods |-> mods], err |-> err]

(* ======================================================================== *)
(* 5. Fast-solver model file.  FastOf = Network.FastNetworkSolver over the   *)
(*    expressed genome (neuron order: bias, input, output, hidden; links of  *)
(*    bias neurons folded into bias_list).  A bias entry is the SEQUENCE of  *)
(*    weight symbols the code adds to 0.0 in that order (the sum itself is   *)
(*    an IEEE operation outside the model).                                  *)
(* ======================================================================== *)
SelectRole(g, r) == SelectSeq(g.nodes, LAMBDA n : n.role = r)
IndexOf(seq, x) == CHOOSE i \in DOMAIN seq : seq[i] = x
FastOf(g, name) ==
    LET order == Map(SelectRole(g, "B") \o SelectRole(g, "I") \o SelectRole(g, "O") \o SelectRole(g, "H"), LAMBDA n : n.id)
        idx(id) == IndexOf(order, id) - 1
        roleOf(id) == (CHOOSE n \in Rng(g.nodes) : n.id = id).role
        live == SelectSeq(g.genes, LAMBDA e : e.en)
        into(id) == SelectSeq(live, LAMBDA e : e.dst = id)
        targets == Map(SelectRole(g, "I") \o SelectRole(g, "H") \o SelectRole(g, "O"), LAMBDA n : n.id)
        conns == Flat(Map(targets, LAMBDA t : Map(SelectSeq(into(t), LAMBDA e : roleOf(e.src) # "B"),
                          LAMBDA e : [src |-> idx(e.src), dst |-> idx(t), w |-> e.w, sig |-> ZERO])))
        bias == [i \in DOMAIN order |-> IF Sensor(roleOf(order[i])) /\ roleOf(order[i]) = "B" THEN <<>>
                                        ELSE Map(SelectSeq(into(order[i]), LAMBDA e : roleOf(e.src) = "B"), LAMBDA e : e.w)]
        mods == Map(SelectSeq(g.mods, LAMBDA m : m.en),
                    LAMBDA m : [act |-> m.act, ins |-> Map(m.ins, idx), outs |-> Map(m.outs, idx)])
    IN [id |-> g.id, name |-> name, nbias |-> Len(SelectRole(g, "B")), nin |-> Len(SelectRole(g, "I")),
        nout |-> Len(SelectRole(g, "O")), total |-> Len(g.nodes),
        acts |-> Map(order, LAMBDA id : (CHOOSE n \in Rng(g.nodes) : n.id = id).act),
        bias |-> bias, conns |-> conns, mods |-> mods]
FastDoc(s) ==
    LET base == [id |-> s.id, name |-> s.name, input_neuron_count |-> s.nin, sensor_neuron_count |-> s.nin + s.nbias,
                 output_neuron_count |-> s.nout, bias_neuron_count |-> s.nbias, total_neuron_count |-> s.total,
                 activation_functions |-> Map(s.acts, ActName), bias_list |-> s.bias,
                 connections |-> Map(s.conns, LAMBDA c : [source_index |-> c.src, target_index |-> c.dst, weight |-> c.w, signal |-> c.sig])]
    IN IF s.mods = <<>> THEN base             \* json "omitempty"
       ELSE base @@ [modules |-> Map(s.mods, LAMBDA m : [activation_type |-> ActName(m.act), input_indexes |-> m.ins,
                                                          output_indexes |-> m.outs])]
FastRead(d) ==        \* ReadFMNSModel: sensor_neuron_count is not read, the constructor recomputes it
    [id |-> d.id, name |-> d.name, nbias |-> d.bias_neuron_count, nin |-> d.input_neuron_count, nout |-> d.output_neuron_count,
     total |-> d.total_neuron_count, acts |-> Map(d.activation_functions, ActType), bias |-> d.bias_list,
     conns |-> Map(d.connections, LAMBDA c : [src |-> c.source_index, dst |-> c.target_index, w |-> c.weight, sig |-> c.signal]),
     mods |-> IF "modules" \in DOMAIN d
              THEN Map(d.modules, LAMBDA m : [act |-> ActType(m.activation_type), ins |-> m.input_indexes, outs |-> m.output_indexes])
              ELSE <<>>]

(* ======================================================================== *)
(* 6. Experiment files: a gob stream is a sequence of typed values, written  *)
(*    and read field by field in a fixed order.                              *)
(*  exp = [id, name, trials : Seq([id, gens : Seq(gen)])]                    *)
(*  gen = [id, exec, solved, fit, age, cplx (Seq(sym)), div, we, wn, wg,     *)
(*         dur, tid, champ]   champ = NoChamp or                             *)
(*        [fit, win, gen, eo (ExpectedOffspring), err (Error), g]            *)
(* ======================================================================== *)
NoChamp == [none |-> TRUE]
V(kind, v) == [k |-> kind, v |-> v]
ChampStream(o) == <<V("f", o.fit), V("b", o.win), V("i", o.gen), V("f", o.eo), V("f", o.err), V("i", o.g.id),
                    V("bytes", PlainLines(o.g))>>
GenStream(gn) == <<V("i", gn.id), V("time", gn.exec), V("b", gn.solved), V("fs", gn.fit), V("fs", gn.age), V("fs", gn.cplx),
                   V("i", gn.div), V("i", gn.we), V("i", gn.wn), V("i", gn.wg), V("dur", gn.dur), V("i", gn.tid)>>
                 \o (IF gn.champ = NoChamp THEN <<>> ELSE ChampStream(gn.champ))           \* generation.go:131-135
TrialStream(t) == <<V("i", t.id), V("i", Len(t.gens))>> \o Flat(Map(t.gens, GenStream))
ExpStream(e) == <<V("i", e.id), V("s", e.name), V("i", Len(e.trials))>> \o Flat(Map(e.trials, TrialStream))

(* the decoder: a cursor over the stream; a value of the wrong type (or the end of the stream) is an error *)
Cur0(s) == [s |-> s, at |-> 1, err |-> ""]
Has(c, kind) == c.err = "" /\ c.at <= Len(c.s) /\ c.s[c.at].k = kind
Peek(c) == c.s[c.at].v
Skip(c, kind) == IF Has(c, kind) THEN [c EXCEPT !.at = @ + 1] ELSE [c EXCEPT !.err = IF @ = "" THEN "expected " \o kind ELSE @]
GenKinds == <<"i", "time", "b", "fs", "fs", "fs", "i", "i", "i", "i", "dur", "i", "f", "b", "i", "f", "f", "i", "bytes">>
ReadGen(c) ==         \* returns [c, gen]
    LET ok == c.err = "" /\ c.at + Len(GenKinds) - 1 <= Len(c.s) /\ \A i \in DOMAIN GenKinds : c.s[c.at + i - 1].k = GenKinds[i]
        v(i) == c.s[c.at + i - 1].v IN
    IF ~ok THEN [c |-> [c EXCEPT !.err = IF @ = "" THEN "failed to decode generation" ELSE @], gen |-> NoChamp]
    ELSE LET r == ReadGenome(v(19), v(18)) IN
         [c |-> [c EXCEPT !.at = @ + Len(GenKinds), !.err = r.err],
          gen |-> [id |-> v(1), exec |-> v(2), solved |-> v(3), fit |-> v(4), age |-> v(5), cplx |-> v(6), div |-> v(7),
                   we |-> v(8), wn |-> v(9), wg |-> v(10), dur |-> v(11), tid |-> v(12),
                   champ |-> [fit |-> v(13), win |-> v(14), gen |-> v(15), eo |-> v(16), err |-> v(17), g |-> r.g]]]
RECURSIVE ReadGens(_, _, _)
ReadGens(c, n, acc) == IF n = 0 \/ c.err # "" THEN [c |-> c, gens |-> acc]
                       ELSE LET r == ReadGen(c) IN ReadGens(r.c, n - 1, Append(acc, r.gen))
ReadTrial(c) == IF ~Has(c, "i") THEN [c |-> Skip(c, "i"), trial |-> NoChamp]
                ELSE LET c1 == Skip(c, "i") IN
                     IF ~Has(c1, "i") THEN [c |-> Skip(c1, "i"), trial |-> NoChamp]
                     ELSE LET r == ReadGens(Skip(c1, "i"), Peek(c1), <<>>) IN [c |-> r.c, trial |-> [id |-> Peek(c), gens |-> r.gens]]
RECURSIVE ReadTrials(_, _, _)
ReadTrials(c, n, acc) == IF n = 0 \/ c.err # "" THEN [c |-> c, trials |-> acc]
                         ELSE LET r == ReadTrial(c) IN ReadTrials(r.c, n - 1, Append(acc, r.trial))
ExpRead(s) ==
    LET c0 == Cur0(s) IN
    IF ~Has(c0, "i") THEN [e |-> NoChamp, err |-> "experiment id"]
    ELSE LET c1 == Skip(c0, "i") IN
         IF ~Has(c1, "s") THEN [e |-> NoChamp, err |-> "experiment name"]
         ELSE LET c2 == Skip(c1, "s") IN
              IF ~Has(c2, "i") THEN [e |-> NoChamp, err |-> "trial count"]
              ELSE LET r == ReadTrials(Skip(c2, "i"), Peek(c2), <<>>) IN
                   [e |-> [id |-> Peek(c0), name |-> Peek(c1), trials |-> r.trials], err |-> r.c.err]
AllChampions(e) == \A i \in DOMAIN e.trials : \A j \in DOMAIN e.trials[i].gens : e.trials[i].gens[j].champ # NoChamp

(* ======================================================================== *)
(* 7. Reading into a value that is already in use.  Experiment.Read and      *)
(*    Organism.UnmarshalBinary fill a value the caller supplies; it may hold *)
(*    another (or the same) record whose derived statistics were computed    *)
(*    before.  A held experiment carries run-time state next to what the     *)
(*    file stores: per trial the cached winner generation (set by            *)
(*    Trial.WinnerStatistics) and the trial duration (never written).        *)
(*    inPlace = FALSE: Experiment.Decode as the code does it (fresh trials); *)
(*    inPlace = TRUE: decoding into the trials the value already holds.      *)
(* ======================================================================== *)
FirstSolved(gens) == IF \E j \in DOMAIN gens : gens[j].solved
                     THEN gens[CHOOSE j \in DOMAIN gens : gens[j].solved /\ \A k \in 1 .. j - 1 : ~gens[k].solved]
                     ELSE NoChamp
Held(e, queried) == [id |-> e.id, name |-> e.name,
                     trials |-> Map(e.trials, LAMBDA t : [id |-> t.id, gens |-> t.gens, dur |-> IF queried THEN 1 ELSE 0,
                                                          cache |-> IF queried THEN FirstSolved(t.gens) ELSE NoChamp])]
FreshExp == [id |-> 0, name |-> "", trials |-> <<>>]
ExpReadInto(prior, s, inPlace) ==
    LET r == ExpRead(s) IN
    IF r.err # "" THEN [e |-> prior, err |-> r.err]
    ELSE LET reuse == inPlace /\ Len(prior.trials) >= Len(r.e.trials) IN
         [e |-> [id |-> r.e.id, name |-> r.e.name,
                 trials |-> [i \in DOMAIN r.e.trials |->
                               [id |-> r.e.trials[i].id, gens |-> r.e.trials[i].gens,      \* all that Trial.Decode assigns
                                dur |-> IF reuse THEN prior.trials[i].dur ELSE 0,
                                cache |-> IF reuse THEN prior.trials[i].cache ELSE NoChamp]]],
          err |-> ""]
WinnerStats(t) == LET w == IF t.cache # NoChamp THEN t.cache ELSE FirstSolved(t.gens) IN          \* trial.go:133
                  IF w = NoChamp THEN <<-1, -1, -1, -1>> ELSE <<w.wn, w.wg, w.we, w.div>>
(* the result of a read depends on the file only *)
ReadIntoLaw(prior, e, inPlace) ==
    AllChampions(e) =>
        LET r == ExpReadInto(prior, ExpStream(e), inPlace) IN
        /\ r = [e |-> Held(e, FALSE), err |-> ""]
        /\ \A i \in DOMAIN e.trials : WinnerStats(r.e.trials[i]) = WinnerStats(Held(e, FALSE).trials[i])
(* organism: UnmarshalBinary assigns the five header/genome fields, everything else of the target survives *)
OrgReadInto(prior, lines) == LET r == OrgRead(lines) IN
                             [o |-> IF r.err # "" THEN prior ELSE r.o @@ prior, err |-> r.err]         \* r.o's fields win
OrgIntoLaw(prior, o) == LET r == OrgReadInto(prior, OrgLines(o)) IN
                        r.err = "" /\ [f \in {"fit", "gen", "hf", "pcc", "g"} |-> r.o[f]] = [o EXCEPT !.g = NoMods(o.g)]

(* ======================================================================== *)
(* The laws of C15 (checked by MC_Codec on every structure in scope)         *)
(* ======================================================================== *)
PlainLaw(g) == PlainRead(PlainLines(g)) = [g |-> NoMods(g), err |-> ""]          \* incl.: the plain format omits modules
IdFromCaller(g, id) == ReadGenome(PlainLines(g), id).g.id = id
YamlLaw(g) == YamlRead(YamlDoc(g)) = [g |-> UnsignGenome(g), err |-> ""]        \* exact unless a negative zero occurs
YamlExact(g) == NEGZERO \notin GenomeSyms(g) => YamlRead(YamlDoc(g)) = [g |-> g, err |-> ""]
OrgLaw(o) == OrgRead(OrgLines(o)) = [o |-> [o EXCEPT !.g = NoMods(o.g)], err |-> ""]
PopLaw(gs) == PopRead(PopLines(gs)) = [gs |-> Map(gs, NoMods), err |-> ""]
FastLaw(s) == FastRead(FastDoc(s)) = s
ExpLaw(e) == AllChampions(e) => ExpRead(ExpStream(e)) = [e |-> e, err |-> ""]

(* rendering of a token line as text for the replayer: float symbols as ~k *)
TokStr(t) == CASE t.k = "i" -> ToString(t.v) [] t.k = "f" -> "~" \o ToString(t.v)
               [] t.k = "b" -> (IF t.v THEN "true" ELSE "false") [] OTHER -> t.v
RECURSIVE Join(_)
Join(ln) == IF Len(ln) = 1 THEN TokStr(ln[1]) ELSE TokStr(ln[1]) \o " " \o Join(Tail(ln))
Render(lines) == Map(lines, Join)
=============================================================================

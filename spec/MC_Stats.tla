----------------------------- MODULE MC_Stats -----------------------------
(* C19: every series in scope is an initial state; the laws of the definitions are invariants; each state is      *)
(* handed to the replayer with the values the definitions assign.  Experiments are enumerated the same way.       *)
EXTENDS Stats, Json
CONSTANTS Vals, MaxLen,           \* series: sequences over Vals of length 1..MaxLen
          MaxTrials, MaxGens, Fits, Divs \* experiments
VARIABLES kind, series, exper, emitted
vars == <<kind, series, exper, emitted>>

Gens == [solved : BOOLEAN, fit : Fits, age : {1, 4}, div : Divs]
\* the remaining fields are tied to the free ones to keep the scope small
\* the diversity (number of species) also varies with the age bit, so that the species counts of a trial do not always sum
\* to a multiple of its number of generations
DivOf(g) == g.div + (IF g.age = 4 THEN 1 ELSE 0)
Fill(g) == IF g.solved THEN [solved |-> TRUE, fit |-> g.fit, age |-> g.age, div |-> DivOf(g), cplx |-> 5 + g.age,
                             wn |-> 4 + g.fit, wg |-> g.age, we |-> 10 * g.div + g.fit + 2]
           ELSE [solved |-> FALSE, fit |-> g.fit, age |-> g.age, div |-> DivOf(g), cplx |-> 6 + g.fit, wn |-> 0, wg |-> 0, we |-> 0]
\* longer series (the empirical-quantile index depends on the length: n * p crosses integers at other places than for n <= 6):
\* three value patterns with repeats, in ascending, descending and scrambled order, for a spread of lengths
LongLens == {7, 8, 9, 10, 11, 12, 13, 16, 25, 40, 63, 64, 65, 100, 128, 257}   \* (also beyond any size at which an implementation may switch algorithms)
Pat(k, i) == CASE k = 1 -> ((i * 7) % 11) - 3
               [] k = 2 -> i
               [] k = 3 -> -((i * i) % 13)
LongSeries == { [i \in 1..n |-> Pat(k, i)] : n \in LongLens, k \in 1..3 }
              \cup { [i \in 1..n |-> Pat(2, n + 1 - i)] : n \in LongLens }
TrialsSet == UNION { [1..n -> Gens] : n \in 0..MaxGens }
Init == \/ /\ kind = "empty" /\ series = <<>> /\ exper = <<>> /\ emitted = FALSE
        \/ /\ kind = "series" /\ series \in UNION { [1..n -> Vals] : n \in 1..MaxLen } \cup LongSeries /\ exper = <<>> /\ emitted = FALSE
        \/ /\ kind = "exper" /\ series = <<>> /\ emitted = FALSE
           /\ \E n \in 1..MaxTrials : \E e \in [1..n -> TrialsSet] :
                exper = [i \in 1..n |-> [j \in DOMAIN e[i] |-> Fill(e[i][j])]]
Emit == /\ ~emitted /\ emitted' = TRUE /\ UNCHANGED <<kind, series, exper>>
        /\ IF kind = "empty" THEN PrintT(ToJson(EmptySeries))
           ELSE IF kind = "series" THEN PrintT(ToJson([kind |-> "series", st |-> SeriesStats(series)]))
           ELSE PrintT(ToJson([kind |-> "exper", trials |-> exper, agg |-> ExpAgg(exper)]))
Next == Emit
Spec == Init /\ [][Next]_vars

ThoroughVals == {-3, 0, 1, 2, 5}
TwoFits == {-2, 2}
MixedFits == {-2, 0, 2}     \* champion fitness: negative, zero and positive (cost-like fitness functions are in scope)
SeriesLaws == kind = "series" => Laws(series)
SeriesPermutationInvariant == (kind = "series" /\ Len(series) <= 4) => PermutationInvariant(series)
ExperLaws == kind = "exper" =>
    LET a == ExpAgg(exper) IN
    /\ a.solved_count <= a.trials
    /\ a.solved <=> (a.solved_count > 0)
    /\ \A i \in DOMAIN exper : a.per_trial[i].solved => a.per_trial[i].winner[4] \in Divs \cup { d + 1 : d \in Divs }
    /\ ExperPermutationInvariant(exper)
=============================================================================

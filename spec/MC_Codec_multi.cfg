\* every list of 1-2 genes (all node pairs incl. self-loops, all flag combinations, 2 weight classes) over the fixed context
SPECIFICATION Spec
CONSTANTS
  PopStartNewline = TRUE
  Modes = {"genome"}
  MinTraits = 2
  MaxTraits = 2
  Pats = {1}
  BiasCounts = {1}
  MinInputs = 1
  MaxInputs = 1
  MaxOutputs = 1
  MinHidden = 1
  MaxHidden = 1
  Acts = {14}
  NodeTraitFree = FALSE
  MaxGenes = 2
  PairSet = {}
  Ws = {1, 5}
  Muts = {2}
  Flags = {0, 1, 2, 3}
  GeneTraitFree = FALSE
  MaxMods = 0
  ModActs = {21}
  ModEnabled = {TRUE}
  OrgFits = {1, 5, 8, 9}
  OrgGens = {0, 3}
  MaxPop = 3
  MaxTrials = 2
  MaxGens = 2
  GenChoices = {101, 22, 13, 122}
  Sample = FALSE
INVARIANTS Plain Yaml Organism Population FastModel ExperimentFile ReadIntoUsed TokensTyped
CHECK_DEADLOCK FALSE

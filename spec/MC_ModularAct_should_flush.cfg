SPECIFICATION Spec
CONSTANTS
  RecursiveAddsBias = TRUE
  Inputs = {1, 2}
  Biases = {3}
  Hidden = {5, 6}
  OutSet = {8, 9}
  Shapes = {{1, 5, 8}}
  Weights <- W2
  PatternW = TRUE
  TdFlags = {FALSE}
  InVecs <- VecsOne
  OrderKinds = {"IBOH"}
  ActSchemes <- SchemesLinear
  LinkCaps = {2}
  MinLinks = 1
  Canonical = TRUE
  AcyclicOnly = TRUE
  Tight = TRUE
  ModuleActs = {"mul"}
  ModuleActs2 = {"max"}
  MaxMods = 1
  InsSizes = {1}
  OutArities = {1}
  SensorIns = TRUE
  FwdKs = {1, 2}
  ActKs = {2}
  Act0Ks = {}
  UseRec = FALSE
  LoadFirst = TRUE
  MaxHist = 3
  MaxSuf = 2
  Limit = 5000
INVARIANTS ShouldFlushControl
CHECK_DEADLOCK FALSE

--------------------------- MODULE SolversModular ---------------------------
(***************************************************************************)
(* INFORMATION ONLY - outside the quantifiers of C12 and C13.              *)
(* Growth of Solvers.tla to modular networks: control (MIMO) nodes that    *)
(* relay between network modules.  A network record additionally carries   *)
(*   ctrl : Seq([act, ins, outs])  Network.controlNodes, act one of        *)
(*          "mul" (MultiplyModuleActivation), "max", "min"; ins / outs the *)
(*          node ids at the control node's Incoming / Outgoing links.      *)
(* The module activators return ONE value, so a control node must have     *)
(* exactly one outgoing link (otherwise ActivateModule returns an error;   *)
(* not modelled).                                                          *)
(*                                                                         *)
(* Standard solver (Network.ActivateSteps): after the neurons of a sweep   *)
(* were activated, every control node reads GetActiveOut of its inputs     *)
(* (values of THIS sweep), applies the module function and calls           *)
(* setActivation on its output node, marking it active.                    *)
(* Fast solver (forwardStep): after the single-valued activations the      *)
(* modules read neuronSignalsBeingProcessed of their inputs and overwrite  *)
(* neuronSignalsBeingProcessed of their outputs, before the signals are    *)
(* moved into neuronSignals.  RecursiveSteps refuses modular networks.     *)
(* Network.Flush does not visit control nodes (they hold no value).        *)
(***************************************************************************)
EXTENDS Solvers

RECURSIVE ProdSeq(_, _), MaxSeq(_, _), MinSeq(_, _)
ProdSeq(xs, i) == IF i > Len(xs) THEN 1 ELSE xs[i] * ProdSeq(xs, i + 1)
MaxSeq(xs, i) == IF i = Len(xs) THEN xs[i] ELSE LET r == MaxSeq(xs, i + 1) IN IF xs[i] > r THEN xs[i] ELSE r
MinSeq(xs, i) == IF i = Len(xs) THEN xs[i] ELSE LET r == MinSeq(xs, i + 1) IN IF xs[i] < r THEN xs[i] ELSE r
\* neat/math/activations.go: multiplyModule, maxModule, minModule on a non-empty list of integers
ModAct(t, xs) == CASE t = "mul" -> ProdSeq(xs, 1) [] t = "max" -> MaxSeq(xs, 1) [] t = "min" -> MinSeq(xs, 1)

(* ---------------------------- standard solver --------------------------- *)
RECURSIVE StdModules(_, _, _)
StdModules(net, st, i) ==
    IF i > Len(net.ctrl) THEN st
    ELSE LET m  == net.ctrl[i]
             xs == [j \in DOMAIN m.ins |-> IF st[m.ins[j]].c > 0 THEN st[m.ins[j]].a ELSE 0]
             o  == m.outs[1]
         IN  StdModules(net, TLCEval([st EXCEPT ![o] = [a |-> ModAct(m.act, xs), c |-> st[o].c + 1,
                                                         l1 |-> st[o].a, l2 |-> st[o].l1, on |-> TRUE]]), i + 1)
MSweep(net, st) == StdModules(net, TLCEval(Sweep(net, st)), 1)
RECURSIVE MActLoop(_, _, _, _, _)
MActLoop(net, st, maxSteps, oneTime, abort) ==
    IF OutputIsOff(net, st) \/ ~oneTime
    THEN IF abort >= maxSteps THEN [st |-> st, err |-> TRUE]
         ELSE MActLoop(net, TLCEval(MSweep(net, st)), maxSteps, TRUE, abort + 1)
    ELSE [st |-> st, err |-> FALSE]
MStdActivateSteps(net, st, maxSteps) ==
    IF maxSteps = 0 THEN [st |-> st, err |-> TRUE] ELSE MActLoop(net, st, maxSteps, FALSE, 0)
RECURSIVE MStdFwdLoop(_, _, _, _)
MStdFwdLoop(net, st, steps, i) ==
    IF i >= steps THEN [st |-> st, err |-> FALSE]
    ELSE LET r == TLCEval(MStdActivateSteps(net, st, steps))
         IN  IF r.err THEN r ELSE MStdFwdLoop(net, r.st, steps, i + 1)
MStdForwardSteps(net, st, steps) ==
    IF steps = 0 THEN [st |-> st, err |-> TRUE] ELSE MStdFwdLoop(net, st, steps, 0)

(* ------------------------------ fast solver ----------------------------- *)
\* the control nodes over positions (FastControlNode.InputIndexes / OutputIndexes)
FastModules(net, fm) ==
    LET pos(x) == CHOOSE p \in DOMAIN fm.ids : fm.ids[p] = x
    IN  [i \in DOMAIN net.ctrl |-> [act |-> net.ctrl[i].act,
                                    ins |-> [j \in DOMAIN net.ctrl[i].ins |-> pos(net.ctrl[i].ins[j])],
                                    outs |-> [j \in DOMAIN net.ctrl[i].outs |-> pos(net.ctrl[i].outs[j])]]]
RECURSIVE PreModules(_, _, _)
PreModules(mods, pre, i) ==
    IF i > Len(mods) THEN pre
    ELSE LET m == mods[i]
             xs == [j \in DOMAIN m.ins |-> pre[m.ins[j]]]
         IN  PreModules(mods, TLCEval([pre EXCEPT ![m.outs[1]] = ModAct(m.act, xs)]), i + 1)
MFastStep(fm, mods, fs, check) ==
    LET acc == TLCEval([p \in 1..fm.n |-> fs.pre[p] + ConnSum(fs, fm.conns, p, 1)])
        new == TLCEval([p \in 1..fm.n |-> IF p > fm.ns THEN Act(fm.act[p], acc[p] + FoldedBias(fm, p)) ELSE acc[p]])
        aft == TLCEval(PreModules(mods, new, 1))
    IN  [fs |-> [fs EXCEPT !.sig = [p \in 1..fm.n |-> IF p > fm.ns THEN aft[p] ELSE fs.sig[p]],
                           !.pre = [p \in 1..fm.n |-> IF p > fm.ns THEN 0 ELSE aft[p]]],
         relaxed |-> ~check \/ \A p \in (fm.ns + 1)..fm.n : fs.sig[p] = aft[p]]
RECURSIVE MFastForwardSteps(_, _, _, _)
MFastForwardSteps(fm, mods, fs, steps) ==
    IF steps <= 0 THEN fs ELSE MFastForwardSteps(fm, mods, TLCEval(MFastStep(fm, mods, fs, FALSE).fs), steps - 1)
RECURSIVE MFastRelax(_, _, _, _, _)
MFastRelax(fm, mods, fs, maxSteps, check) ==
    IF maxSteps <= 0 THEN fs
    ELSE LET r == TLCEval(MFastStep(fm, mods, fs, check))
         IN  IF r.relaxed THEN r.fs ELSE MFastRelax(fm, mods, r.fs, maxSteps - 1, check)

ModNetJson(nt) ==
    [nodes |-> [i \in DOMAIN nt.order |-> [id |-> nt.order[i], kind |-> nt.kind[nt.order[i]], act |-> nt.act[nt.order[i]]]],
     inputs |-> nt.inputs, outputs |-> nt.outputs,
     links |-> LinksOf(nt, SelectSeq(nt.order, LAMBDA n : IsNeuron(nt, n))),
     ctrl |-> nt.ctrl]
=============================================================================

SPECIFICATION Spec
CONSTANTS
  N = 2
  Quotas = {0, 1, 6}
  Pools = {1, 2}
  Counters = {0, 1, 2}
INVARIANTS OneBranch NeverBeyondQuota QuotaExact ChampionCopy AtMostOneClone SuperFirst SuperExactLast ParentsOK SelfMatingMutated ClassesRespected
CHECK_DEADLOCK TRUE

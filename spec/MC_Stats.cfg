SPECIFICATION Spec
CONSTANTS
  Vals = {0, 1, 2, 5}
  MaxLen = 4
  MaxTrials = 2
  MaxGens = 2
  Fits <- MixedFits
  Divs = {2}
INVARIANTS SeriesLaws SeriesPermutationInvariant ExperLaws
CHECK_DEADLOCK FALSE

---------------------------- MODULE MC_Compat ----------------------------
(* Exhaustive model check of the two compatibility walks against the definition (C07). *)
EXTENDS Compat, TLC, Json
CONSTANT K          \* innovation numbers 1..K
VARIABLES a, b, lin, fast, emitted
vars == <<a, b, lin, fast, emitted>>

MutVals == {0, 1, 3}
Init == \E A \in SUBSET (1..K), B \in SUBSET (1..K) :
          \E mm \in [A \cap B -> MutVals] :
            /\ a = ListOf(A, [n \in 1..K |-> IF n \in A \cap B THEN mm[n] ELSE 2])
            /\ b = ListOf(B, [n \in 1..K |-> 1])
            /\ lin = LinInit
            /\ fast = FastInit(a, b)
            /\ emitted = FALSE
StepLin == ~lin.done /\ lin' = LinStep(a, b, lin) /\ UNCHANGED <<a, b, fast, emitted>>
StepFast == ~fast.done /\ fast' = FastStep(a, b, fast) /\ UNCHANGED <<a, b, lin, emitted>>
\* B2: when both walks are finished the case is handed to the replayer (one implementation test per terminal state):
\* the inputs together with the counters the definition assigns.
Emit == /\ lin.done /\ fast.done /\ ~emitted
        /\ LET d == Def(a, b) IN PrintT(ToJson([a |-> a, b |-> b, E |-> d.E, D |-> d.D, S |-> d.S, M |-> d.M]))
        /\ emitted' = TRUE /\ UNCHANGED <<a, b, lin, fast>>
Next == StepLin \/ StepFast \/ Emit
Spec == Init /\ [][Next]_vars /\ WF_vars(Next)
\* both walks terminate
Terminates == <>(lin.done /\ fast.done /\ emitted)
\* the walks only ever move forward (linear) / backward (fast) and never change their inputs
Progress == [][ /\ a' = a /\ b' = b
               /\ lin'.i1 >= lin.i1 /\ lin'.i2 >= lin.i2
               /\ fast'.i1 <= fast.i1 /\ fast'.i2 <= fast.i2 ]_vars

\* ---- properties (C07) ----
LinearMatchesDef == lin.done => Counters(lin) = Def(a, b)
FastMatchesDef   == fast.done => Counters(fast) = Def(a, b)
MethodsAgree     == (lin.done /\ fast.done) => Counters(lin) = Counters(fast)
DefSymmetric     == Def(a, b) = Def(b, a)
DefZeroOnSelf    == Def(a, a) = [E |-> 0, D |-> 0, S |-> 0, M |-> Len(a)]
DefNonNegative   == LET d == Def(a, b) IN d.E >= 0 /\ d.D >= 0 /\ d.S >= 0 /\ d.M >= 0
DefPartition     == LET d == Def(a, b) IN d.E + d.D + 2 * d.M = Len(a) + Len(b)
=============================================================================

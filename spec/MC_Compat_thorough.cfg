SPECIFICATION Spec
CONSTANT K = 6
INVARIANTS LinearMatchesDef FastMatchesDef MethodsAgree DefSymmetric DefZeroOnSelf DefNonNegative DefPartition
PROPERTIES Terminates Progress
CHECK_DEADLOCK FALSE

---------------------------- MODULE Determinism ----------------------------
(***************************************************************************)
(* C17: evolution is a function of the seed and the inputs.                *)
(*                                                                         *)
(* A RUN is the sequence of population states (one after construction,     *)
(* one after every epoch) of a list of scenarios; each state is logged as  *)
(* bit-exact digests (per organism, species table, counters).  K runs of   *)
(* the SAME scenarios, recorded in separate processes under perturbations  *)
(* that the property says must not matter, are consumed in lock step: the  *)
(* l-th states must be identical in all runs.  The first difference is     *)
(* reported with the scenario, the generation and the part that differs.   *)
(***************************************************************************)
EXTENDS Integers, Sequences, FiniteSets, TLC, Json, IOUtils

K == atoi(IOEnv.RUNS)
Dir == IOEnv.DIR
Run(i) == ndJsonDeserialize(Dir \o "/run-" \o ToString(i) \o ".ndjson")
Runs == [i \in 1 .. K |-> Run(i)]

VARIABLES l, diverged
vars == <<l, diverged>>

Same(a, b) == a = b
Differs(i) == Len(Runs[i]) < l \/ ~Same(Runs[i][l], Runs[1][l])
Part(i) == IF Len(Runs[i]) < l THEN "run ended early"
           ELSE LET a == Runs[1][l]  b == Runs[i][l] IN
                IF a.err # b.err THEN "error result"
                ELSE IF "orgs" \notin DOMAIN a \/ "orgs" \notin DOMAIN b THEN "construction"
                ELSE IF Len(a.orgs) # Len(b.orgs) THEN "population size"
                ELSE IF a.orgs # b.orgs THEN "organism " \o ToString(CHOOSE k \in DOMAIN a.orgs : a.orgs[k] # b.orgs[k] /\ \A j \in 1 .. k - 1 : a.orgs[j] = b.orgs[j])
                ELSE IF a.species # b.species THEN "species table" ELSE "counters"
Init == l = 1 /\ diverged = FALSE /\ TLCSet(1, FALSE)
Next == /\ l <= Len(Runs[1]) /\ ~diverged
        /\ LET bad == { i \in 2 .. K : Differs(i) } IN
           /\ diverged' = (bad # {})
           /\ IF bad = {} THEN TRUE
              ELSE TLCSet(1, TRUE) /\ PrintT(ToJson([l |-> l, sc |-> Runs[1][l].sc, gen |-> Runs[1][l].gen, runs |-> bad,
                                  part |-> Part(CHOOSE i \in bad : TRUE)]))
        /\ l' = l + 1
Spec == Init /\ [][Next]_vars
(* all runs have the same length and were consumed completely, or a divergence was reported *)
Consumed == TLCGet(1) \/ (TLCGet("stats").diameter = Len(Runs[1]) + 1 /\ \A i \in 1 .. K : Len(Runs[i]) = Len(Runs[1]))
=============================================================================

SPECIFICATION Spec
CONSTANTS
  Fits <- FitsA
  His = {0, 1}
  MaxOrgs = 2
  MaxSpecies = 3
  ChampFits <- FitsB
  WithNoChamp = FALSE
  MaxGens = 3
  MaxTrials = 3
  MaxTrialGens = 1
INVARIANTS FillLaws TrialLaws ExperLaws
CHECK_DEADLOCK FALSE

----------------------------- MODULE MC_Depth -----------------------------
(* C14: a network is built link by link, then queried for its activation depth several times with different caps. *)
(* In BFS mode (Canonical = TRUE) links are added in one canonical order so that every link SET is reached once;  *)
(* in simulation mode (Canonical = FALSE) any insertion order - hence any order of the incoming lists - occurs.   *)
EXTENDS Depth, TLC, Json, SequencesExt
CONSTANTS Sensors, Hidden, OutSet,    \* node ids (sets); outputs are taken in ascending id order
          Caps, MaxQ, MaxEdges, Canonical

Outputs == SetToSortSeq(OutSet, <)
Neurons == Hidden \cup OutSet
VARIABLES inc, phase, marks, hist
vars == <<inc, phase, marks, hist>>

G == [sensors |-> Sensors, neurons |-> Neurons, outputs |-> Outputs, inc |-> inc]
NumEdges == Cardinality(EdgeSet(G))

Init == /\ inc = [n \in Neurons |-> <<>>] /\ phase = "build" /\ marks = {} /\ hist = <<>>

AddEdge(u, v) ==
    /\ phase = "build" /\ NumEdges < MaxEdges
    /\ u \notin SeqRange(inc[v])
    /\ Canonical => \A e \in EdgeSet(G) : e[2] < v \/ (e[2] = v /\ e[1] < u)
    /\ inc' = [inc EXCEPT ![v] = Append(@, u)]
    /\ UNCHANGED <<phase, marks, hist>>
Seal == phase = "build" /\ phase' = "query" /\ UNCHANGED <<inc, marks, hist>>
Query(cap) ==
    /\ phase = "query" /\ Len(hist) < MaxQ
    /\ LET res == MaxDepthWithCap(G, cap, marks) IN
         /\ marks' = res.marks
         /\ hist' = Append(hist, [cap |-> cap, r |-> res.r, err |-> res.err])
    /\ UNCHANGED <<inc, phase>>
\* B2: a finished behaviour is handed to the replayer
CaseOf == [sensors |-> SetToSeq(Sensors), hidden |-> SetToSeq(Hidden), outputs |-> Outputs,
           inc |-> LET ns == SetToSeq(Neurons) IN [i \in DOMAIN ns |-> [n |-> ns[i], src |-> inc[ns[i]]]],
           queries |-> hist, acyclic |-> Acyclic(G)]
Emit == /\ phase = "query" /\ Len(hist) = MaxQ /\ PrintT(ToJson(CaseOf))
        /\ phase' = "done" /\ UNCHANGED <<inc, marks, hist>>
Next == (\E u \in Sensors \cup Neurons, v \in Neurons : AddEdge(u, v)) \/ Seal \/ (\E c \in Caps : Query(c)) \/ Emit
Spec == Init /\ [][Next]_vars

(* ---- C14 ---- *)
Uncapped == MaxDepthWithCap(G, 0, {})
MarksClean == marks = {}
DagDepth == (phase # "build" /\ Acyclic(G) /\ HasHidden(G)) =>
              \A i \in DOMAIN hist : hist[i].cap = 0 => (hist[i].r = LongestToOutput(G) /\ ~hist[i].err)
Bounds == \A i \in DOMAIN hist : hist[i].r >= 0 /\ hist[i].r <= Cardinality(Nodes(G))
CapLaw == \A i \in DOMAIN hist :
            LET h == hist[i]  u == Uncapped.r IN
            IF h.cap = 0 THEN ~h.err /\ h.r = u
            ELSE IF u <= h.cap THEN ~h.err /\ h.r = u ELSE h.err /\ h.r = h.cap
Stable == \A i, j \in DOMAIN hist : hist[i].cap = hist[j].cap => hist[i] = hist[j]
NoHiddenIsOne == (phase # "build" /\ ~HasHidden(G)) => \A i \in DOMAIN hist : hist[i].r = 1 /\ ~hist[i].err
=============================================================================

SPECIFICATION Spec
CONSTANTS
  Fits <- FitsA
  His = {0, 1}
  MaxOrgs = 2
  MaxSpecies = 2
  ChampFits <- FitsB
  WithNoChamp = FALSE
  MaxGens = 2
  MaxTrials = 2
  MaxTrialGens = 2
INVARIANTS FillLaws TrialLaws ExperLaws
CHECK_DEADLOCK FALSE

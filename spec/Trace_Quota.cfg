SPECIFICATION Spec
INVARIANT Inv_C09
POSTCONDITION TraceAccepted
CHECK_DEADLOCK FALSE

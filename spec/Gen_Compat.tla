---------------------------- MODULE Gen_Compat ----------------------------
(* B2 case generator for C07: long structured pairs of gene lists (the exhaustive small scope is emitted by     *)
(* MC_Compat at its terminal states) with the counters the definition assigns.                             *)
(* Written as NDJSON to the file named by the environment variable OUT.                                   *)
EXTENDS Compat, TLC, Json, IOUtils
CONSTANT L         \* structured long families: lengths up to L

Case(a, b) == LET d == Def(a, b) IN [a |-> a, b |-> b, E |-> d.E, D |-> d.D, S |-> d.S, M |-> d.M]

\* long structured families (quantifier text of C07): prefix, long excess tail, interleaved, shifted
Mf(n) == n % 4
Mg(n) == (n * 3) % 5
GRange(lo, hi, mf) == ListOf(lo..hi, [n \in lo..hi |-> mf[n]])
MfF == [n \in 1..(3 * L) |-> Mf(n)]
MgF == [n \in 1..(3 * L) |-> Mg(n)]
Families ==
     { Case(GRange(1, n, MfF), GRange(1, m, MgF)) : n \in {1, L \div 2, L}, m \in 0..L }                \* prefixes / tails
  \cup { Case(ListOf({ 2 * i : i \in 1..n }, MfF), ListOf({ 2 * i - 1 : i \in 1..m }, MgF)) : n \in 1..L, m \in {1, 2, L \div 2, L} } \* interleaved
  \cup { Case(GRange(1, n, MfF), GRange(n + 1, n + m, MgF)) : n \in 1..(L \div 2), m \in 1..(L \div 2) }   \* no overlap
  \cup { Case(ListOf({ i \in 1..n : i % 3 # 0 }, MfF), ListOf({ i \in 1..(n + m) : i % 2 = 0 }, MgF)) : n \in 1..L, m \in 0..3 } \* mixed with tail

\* large genomes, around the sizes at which an implementation might switch formulas (the NEAT paper normalises by the
\* genome size above 20 genes; this library never does): same shapes, fixed sizes, independent of L
BigSizes == {19, 20, 21, 49, 50, 51, 100, 128}
MfB == [n \in 1..300 |-> Mf(n)]
MgB == [n \in 1..300 |-> Mg(n)]
BigFamilies ==
     { Case(GRange(1, n, MfB), GRange(k, n + d, MgB)) : n \in BigSizes, k \in {1, 3}, d \in {0, 4} }
  \cup { Case(ListOf({ 2 * i : i \in 1..n }, MfB), ListOf({ 2 * i - 1 : i \in 1..(n + 1) }, MgB)) : n \in BigSizes }
  \cup { Case(GRange(1, n, MfB), GRange(1, 0, MgB)) : n \in BigSizes }
  \cup { Case(GRange(1, n, MfB), GRange(1, 2, MgB)) : n \in BigSizes }
\* forks: a common prefix 1..p, then one genome goes on with q genes and the other with t genes that all lie beyond them (the
\* second genome's tail is excess although it starts INSIDE the first genome's index range): gene counts differ by t - q
ForkFamilies ==
     { Case(GRange(1, p + q, MfB), ListOf((1..p) \cup ((p + q + 1)..(p + q + t)), MgB)) : p \in {0, 1, 3, 7}, q \in {1, 2, 5}, t \in {3, 9, 10, 14, 20, 33} }
Cases == Families \cup BigFamilies \cup ForkFamilies
ASSUME /\ ndJsonSerialize(IOEnv.OUT, SetToSeq(Cases))
       /\ PrintT(<<"cases", Cardinality(Cases)>>)
VARIABLE x
Init == x = 0
Next == UNCHANGED x
=============================================================================

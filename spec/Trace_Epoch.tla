---------------------------- MODULE Trace_Epoch ----------------------------
(***************************************************************************)
(* B1: validation of recorded population histories (harness command        *)
(* `vh_genome record-epochs`): one line per population construction        *)
(* (NewPopulation / NewPopulationRandom / ReadPopulation) and one per      *)
(* epoch turned over by the real executor (sequential or parallel) through *)
(* NextEpoch, each with the complete projected population.                 *)
(*                                                                         *)
(* The specification keeps the previous generation (cur), the history maps *)
(* of C03 (meaning of every innovation number and role of every node id    *)
(* that ever occurred, largest numbers, largest species id) and evaluates  *)
(* the population-level clauses of C01, C02, C03, C06 (spawn) and C10 on   *)
(* every line.  As in Trace_GenomeOps, Next never blocks on a property:    *)
(* violated clauses are printed per line and the state advances.           *)
(***************************************************************************)
EXTENDS Genome, TLC, Json, IOUtils

TraceFile == IF "TRACE" \in DOMAIN IOEnv THEN IOEnv.TRACE ELSE "epochs.ndjson"
Trace == ndJsonDeserialize(TraceFile)

VARIABLES l, cur, meaning, roles, maxInn, maxNode, maxSpecies
vars == <<l, cur, meaning, roles, maxInn, maxNode, maxSpecies>>

F(cond, tag) == IF cond THEN {} ELSE {tag}
Oids(orgs) == { orgs[i].oid : i \in DOMAIN orgs }
Genomes(orgs) == { orgs[i].g : i \in DOMAIN orgs }
SpIds(sp) == { sp[i].id : i \in DOMAIN sp }
SumSeq(s) == LET f[k \in 0 .. Len(s)] == IF k = 0 THEN 0 ELSE LET prev == f[k - 1] IN prev + s[k] IN f[Len(s)]

(* ---- C01 on a population ---- *)
AllWF(orgs) == \A i \in DOMAIN orgs : WellFormed(orgs[i].g) /\ orgs[i].gok
(* ---- C03 on a population ---- *)
AllInns(orgs) == UNION { Inns(orgs[i].g) : i \in DOMAIN orgs }
AllNodes(orgs) == UNION { NodeIds(orgs[i].g) : i \in DOMAIN orgs }
\* modules hold numbers of their own: the innovation number of the control gene and the id of its control node
ModInns(g) == { g.mods[i].inn : i \in DOMAIN g.mods }
ModNodes(g) == { g.mods[i].nid : i \in DOMAIN g.mods }
AllModInns(orgs) == UNION { ModInns(orgs[i].g) : i \in DOMAIN orgs }
AllModNodes(orgs) == UNION { ModNodes(orgs[i].g) : i \in DOMAIN orgs }
\* a number held by a module never also denotes a connection, a control node id never an ordinary node
ModulesApart(orgs) == AllInns(orgs) \cap AllModInns(orgs) = {} /\ AllNodes(orgs) \cap AllModNodes(orgs) = {}
KeysOf(orgs, n) == { Key(GeneOf(orgs[i].g, n)) : i \in { j \in DOMAIN orgs : n \in Inns(orgs[j].g) } }
RolesOf(orgs, n) == { RoleOf(orgs[i].g, n) : i \in { j \in DOMAIN orgs : n \in NodeIds(orgs[j].g) } }
OneMeaning(orgs) ==
    /\ \A n \in AllInns(orgs) : Cardinality(KeysOf(orgs, n)) = 1 /\ (n \in DOMAIN meaning => KeysOf(orgs, n) = {meaning[n]})
    /\ \A n \in AllNodes(orgs) : Cardinality(RolesOf(orgs, n)) = 1 /\ (n \in DOMAIN roles => RolesOf(orgs, n) = {roles[n]})
NewInns(orgs) == AllInns(orgs) \ DOMAIN meaning
NewNodes(orgs) == AllNodes(orgs) \ DOMAIN roles
Fresh(orgs) == (\A n \in NewInns(orgs) : n > maxInn) /\ (\A n \in NewNodes(orgs) : n > maxNode)
(* sequential executor: the same new link arising twice in one generation carries one number *)
SameGenSameNumber(orgs) ==
    \A n, m \in NewInns(orgs) : (KeysOf(orgs, n) = KeysOf(orgs, m)) => n = m
Learn(orgs) ==
    /\ meaning' = [n \in DOMAIN meaning \cup AllInns(orgs) |->
                     IF n \in DOMAIN meaning THEN meaning[n] ELSE CHOOSE k \in KeysOf(orgs, n) : TRUE]
    /\ roles' = [n \in DOMAIN roles \cup AllNodes(orgs) |->
                     IF n \in DOMAIN roles THEN roles[n] ELSE CHOOSE k \in RolesOf(orgs, n) : TRUE]
    /\ maxInn' = MaxOf({maxInn} \cup AllInns(orgs) \cup AllModInns(orgs))
    /\ maxNode' = MaxOf({maxNode} \cup AllNodes(orgs) \cup AllModNodes(orgs))
(* ---- C06: no two genomes of a population share a mutable object ---- *)
DisjointCells(orgs) == Cardinality(UNION { Cells(orgs[i].g) : i \in DOMAIN orgs })
                         = SumSeq([i \in DOMAIN orgs |-> Cardinality(Cells(orgs[i].g))])
(* ---- C02: membership consistency ---- *)
Partition(orgs, sp) ==
    /\ \A i \in DOMAIN orgs :
         Cardinality({ s \in DOMAIN sp : orgs[i].oid \in Range(sp[s].members) }) = 1
         /\ \E s \in DOMAIN sp : sp[s].c = orgs[i].spc /\ sp[s].id = orgs[i].sp /\ orgs[i].oid \in Range(sp[s].members)
    /\ \A s \in DOMAIN sp :
         /\ Range(sp[s].members) \subseteq Oids(orgs)
         /\ Cardinality(Range(sp[s].members)) = Len(sp[s].members)
NoEmptySpecies(sp) == \A s \in DOMAIN sp : sp[s].members # <<>>
UniqueSpeciesIds(sp) == Cardinality(SpIds(sp)) = Len(sp)
UniqueGenomeIds(orgs) == Cardinality({ orgs[i].gid : i \in DOMAIN orgs }) = Len(orgs)
FreshSpeciesIds(sp, prev) == \A s \in DOMAIN sp : sp[s].id \notin SpIds(prev) => sp[s].id > maxSpecies
Ages(sp, prev) ==
    \A s \in DOMAIN sp :
       IF sp[s].id \in SpIds(prev)
       THEN LET p == prev[CHOOSE k \in DOMAIN prev : prev[k].id = sp[s].id] IN
            sp[s].age = (IF p.novel THEN p.age ELSE p.age + 1)
       ELSE sp[s].age = 1
(* ---- C10 ---- *)
QuotaOf(e, id) == LET S == { i \in DOMAIN e.quotas : e.quotas[i][1] = id } IN IF S = {} THEN 0 ELSE e.quotas[CHOOSE i \in S : TRUE][2]
(* the fittest organism of a species of the previous generation, by the logged order ranks of the fitness values *)
RankOf(e, oid) == e.prerank[CHOOSE i \in DOMAIN e.prerank : e.prerank[i][1] = oid][2]
ChampOid(e, s) == CHOOSE o \in Range(s.members) : \A p \in Range(s.members) : RankOf(e, p) <= RankOf(e, o)
GenomeOfOid(orgs, oid) == orgs[CHOOSE i \in DOMAIN orgs : orgs[i].oid = oid].g
ChampionsSurvive(e) ==
    \A s \in DOMAIN cur.species :
       (QuotaOf(e, cur.species[s].id) > 5 /\ cur.species[s].members # <<>>) =>
          \E k \in DOMAIN e.orgs : GenEq(e.orgs[k].g, GenomeOfOid(cur.orgs, ChampOid(e, cur.species[s])))

Snapshot(e) == [orgs |-> e.orgs, species |-> e.species]

DoInit(e) ==
    /\ LET fails ==
            IF e.err THEN {"C02:construction failed"} ELSE
            F(AllWF(e.orgs), "C01:constructed genome not well-formed / not expressible (" \o e.how \o ")")
            \cup F(\A i \in DOMAIN e.orgs : \A n \in AllInns(e.orgs) : Cardinality(KeysOf(e.orgs, n)) = 1, "C03:number with two meanings in the constructed population")
            \cup F(DisjointCells(e.orgs), "C06:two genomes of the constructed population share an object")
            \cup F(e.hasStart => \A i \in DOMAIN e.orgs : IsSpawnOf(e.orgs[i].g, e.start), "C06:spawned genome differs from the start genome in more than weights")
            \cup F(e.hasStart => \A i \in DOMAIN e.orgs : (Cells(e.orgs[i].g) \cup Refs(e.orgs[i].g)) \cap Cells(e.start) = {}, "C06:spawned genome shares an object with the start genome")
            \cup F(e.reglen = 0, "conf:innovation record not empty after construction")
            \cup F(Partition(e.orgs, e.species) /\ NoEmptySpecies(e.species) /\ UniqueSpeciesIds(e.species), "conf:constructed population is not partitioned into species")
            \cup F(Len(e.orgs) = e.popsize \/ e.how = "ReadPopulation", "conf:constructed population size")
       IN IF fails = {} THEN TRUE ELSE PrintT(ToJson([l |-> l, ev |-> "init", how |-> e.how, fails |-> fails]))
    /\ cur' = Snapshot(e)
    /\ meaning' = [n \in AllInns(e.orgs) |-> CHOOSE k \in KeysOf(e.orgs, n) : TRUE]
    /\ roles' = [n \in AllNodes(e.orgs) |-> CHOOSE k \in RolesOf(e.orgs, n) : TRUE]
    /\ maxInn' = MaxOf({0} \cup AllInns(e.orgs) \cup AllModInns(e.orgs)) /\ maxNode' = MaxOf({0} \cup AllNodes(e.orgs) \cup AllModNodes(e.orgs))
    /\ maxSpecies' = MaxOf({0, e.lastSpecies} \cup SpIds(e.species))

DoEpoch(e) ==
    /\ LET prev == cur.species
           fails ==
            IF e.err THEN {"C02:NextEpoch returned an error"} ELSE
            F(Len(e.orgs) = e.popsize, "C02:population size")
            \cup F(Oids(e.orgs) \cap Oids(cur.orgs) = {}, "C02:an organism of the previous generation survived")
            \cup F(Partition(e.orgs, e.species), "C02:organisms and species lists disagree")
            \cup F(NoEmptySpecies(e.species), "C02:empty species")
            \cup F(UniqueSpeciesIds(e.species), "C02:duplicate species id")
            \cup F(FreshSpeciesIds(e.species, prev), "C02:species id reused")
            \cup F(UniqueGenomeIds(e.orgs), "C02:duplicate genome id")
            \cup F(Ages(e.species, prev), "C02:species age")
            \cup F(AllWF(e.orgs), "C01:genome of the new generation not well-formed / not expressible")
            \cup F(cur.orgs # <<>> => \A i \in DOMAIN e.orgs : Retains(e.orgs[i].g, cur.orgs[1].g), "C01:sensor or output node of the ancestors lost")
            \cup F(OneMeaning(e.orgs), "C03:number with two meanings")
            \cup F(ModulesApart(e.orgs), "C03:a number held by a module (control gene / control node) also denotes a connection / an ordinary node")
            \cup F(Fresh(e.orgs), "C03:issued number not larger than all held before")
            \cup F(e.seqexec => SameGenSameNumber(e.orgs), "C03:identical innovation of this generation got different numbers")
            \cup F(e.reglen = 0, "C03:innovation record not forgotten at the end of the generation")
            \cup F(DisjointCells(e.orgs), "C06:two genomes of the new generation share an object")
            \cup F(e.distinct => ChampionsSurvive(e), "C10:champion of a species with quota > 5 has no unmodified copy in the next generation")
       IN IF fails = {} THEN TRUE ELSE PrintT(ToJson([l |-> l, ev |-> "epoch", gen |-> e.gen, fails |-> fails]))
    /\ cur' = Snapshot(e)
    /\ Learn(e.orgs)
    /\ maxSpecies' = MaxOf({maxSpecies, e.lastSpecies} \cup SpIds(e.species))

Init == /\ l = 1 /\ cur = [orgs |-> <<>>, species |-> <<>>] /\ meaning = <<>> /\ roles = <<>>
        /\ maxInn = 0 /\ maxNode = 0 /\ maxSpecies = 0
Next == /\ l <= Len(Trace)
        /\ l' = l + 1
        /\ LET e == Trace[l] IN
           CASE e.ev = "init" -> DoInit(e)
             [] e.ev = "epoch" -> DoEpoch(e)
Spec == Init /\ [][Next]_vars
TraceAccepted == TLCGet("stats").diameter = Len(Trace) + 1
=============================================================================

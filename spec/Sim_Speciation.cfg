SPECIFICATION Spec
CONSTANTS
  K = 5
  Params <- ParamsSim
  Shapes = {"one", "two", "hole"}
  Ids <- IdsDef
  Last0 = 12
  Dist4 <- DistLookup
INVARIANTS Partition NearestRule FirstOfNearest Consequence FreshIds TolZero
PROPERTIES Frame
CHECK_DEADLOCK FALSE

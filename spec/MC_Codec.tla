----------------------------- MODULE MC_Codec -----------------------------
(* C15.  Mode "genome": a genome is built trait by trait, node by node, gene by gene, module by module; every state  *)
(* IS a genome, the codec laws of Codec.tla are invariants of every state, and every finished genome is handed to    *)
(* the replayer with the token streams / documents the writer models assign to it.  BFS explores every genome in     *)
(* the configured scope, -simulate samples a much larger scope.  Modes "org", "pop", "exp" enumerate organisms,      *)
(* populations and experiment records over a fixed pool of genomes as initial states.                                *)
EXTENDS Codec, Json
CONSTANTS Modes,
          MinTraits, MaxTraits, Pats,            \* traits: how many, which parameter patterns
          BiasCounts, MinInputs, MaxInputs, MaxOutputs, MinHidden, MaxHidden, Acts, NodeTraitFree,
          MaxGenes, PairSet, Ws, Muts, Flags, GeneTraitFree,   \* PairSet: allowed 10 * src + dst ({} = every pair)
          MaxMods, ModActs, ModEnabled,
          OrgFits, OrgGens,                      \* organisms
          MaxPop,                                \* populations
          MaxTrials, MaxGens, GenChoices,        \* experiments
          Sample                                 \* TRUE (only with -simulate): value choices are drawn at random instead of branching
VARIABLES mode, phase, g, x
vars == <<mode, phase, g, x>>
(* every run tells the replayer which float-symbol classes and which activation registry it was checked with *)
ASSUME PrintT(ToJson([kind |-> "meta", ftable |-> FTable, acts |-> ActNames]))

(* ------------------------------------------------------------------ genomes, built step by step *)
Pattern(k) == [i \in 1 .. NumTraitParams |-> ((k + 5 * i) % Len(FTable)) + 1]     \* 8 distinct symbols, all classes occur
ASSUME \A k \in 0 .. 11 : Cardinality(Rng(Pattern(k))) = NumTraitParams
Empty == [id |-> 7, traits |-> <<>>, nodes |-> <<>>, genes |-> <<>>, mods |-> <<>>]
NT == Len(g.traits)
Count(r) == Len(SelectRole(g, r))
Rank(r) == CASE r = "B" -> 1 [] r = "I" -> 2 [] r = "O" -> 3 [] r = "H" -> 4
NodeIds == {g.nodes[i].id : i \in DOMAIN g.nodes}
NonSensors == {g.nodes[i].id : i \in {j \in DOMAIN g.nodes : ~Sensor(g.nodes[j].role)}}
LastInn == IF g.genes = <<>> THEN 0 ELSE g.genes[Len(g.genes)].inn
TraitChoices(free, dflt) == IF free THEN 0 .. NT ELSE {dflt % (NT + 1)}

AddTrait(k) == /\ phase = "traits" /\ NT < MaxTraits
               /\ g' = [g EXCEPT !.traits = Append(@, [id |-> NT + 1, p |-> Pattern(k + NT)])]
               /\ UNCHANGED <<mode, phase, x>>
Advance(from, to, cond) == phase = from /\ cond /\ phase' = to /\ UNCHANGED <<mode, g, x>>
AddNode(role, act, tr) ==
    /\ phase = "nodes"
    /\ g.nodes # <<>> => Rank(g.nodes[Len(g.nodes)].role) <= Rank(role)       \* sensors first, hidden last
    /\ Rank(role) >= 2 => Count("B") \in BiasCounts                           \* (no dead ends: what must come before is there)
    /\ Rank(role) >= 3 => Count("I") >= MinInputs /\ Count("I") + Count("B") >= 1
    /\ Rank(role) >= 4 => Count("O") >= 1
    /\ CASE role = "B" -> Count("B") < 1 [] role = "I" -> Count("I") < MaxInputs
         [] role = "O" -> Count("O") < MaxOutputs [] role = "H" -> Count("H") < MaxHidden
    /\ g' = [g EXCEPT !.nodes = Append(@, [id |-> Len(g.nodes) + 1, role |-> role,
                                           act |-> IF Sensor(role) THEN NullAct ELSE act, tr |-> tr])]
    /\ UNCHANGED <<mode, phase, x>>
NodesOk == /\ Count("B") \in BiasCounts /\ Count("I") + Count("B") >= 1 /\ Count("O") >= 1
           /\ Count("I") >= MinInputs /\ Count("H") >= MinHidden
FlagOf(c) == <<c \div 2 = 1, c % 2 = 1>>          \* Flags: 2 * recurrent + enabled
AddGene(src, dst, w, mut, fc, tr) ==
    /\ phase = "genes" /\ Len(g.genes) < MaxGenes
    /\ PairSet = {} \/ 10 * src + dst \in PairSet
    /\ LET fl == FlagOf(fc) IN
       /\ \A i \in DOMAIN g.genes : <<g.genes[i].src, g.genes[i].dst, g.genes[i].rec>> # <<src, dst, fl[1]>>
       /\ g' = [g EXCEPT !.genes = Append(@, [inn |-> LastInn + 1 + (Len(g.genes) % 2) * 2, src |-> src, dst |-> dst,
                                              rec |-> fl[1], en |-> fl[2], w |-> w, mut |-> mut, tr |-> tr])]
    /\ UNCHANGED <<mode, phase, x>>
\* (a module may list the same node twice: a signal multiplied with itself)
Pick(n) == IF n = 1 THEN {<<a>> : a \in NodeIds} ELSE NodeIds \X NodeIds
AddMod(act, ins, outs, en, mut, tr) ==
    /\ phase = "mods" /\ Len(g.mods) < MaxMods
    /\ g' = [g EXCEPT !.mods = Append(@, [id |-> Len(g.nodes) + Len(g.mods) + 1, inn |-> LastInn + 1 + Len(g.mods), mut |-> mut,
                                          en |-> en, act |-> act, ins |-> ins, outs |-> outs, tr |-> tr])]
    /\ UNCHANGED <<mode, phase, x>>

(* ------------------------------------------------------------------ the pool of genomes used by the other modes *)
PoolG(k) ==
    CASE k = 1 -> [id |-> 1, traits |-> <<>>, mods |-> <<>>,
                   nodes |-> <<[id |-> 1, role |-> "I", act |-> NullAct, tr |-> 0], [id |-> 2, role |-> "O", act |-> 14, tr |-> 0]>>,
                   genes |-> <<[inn |-> 1, src |-> 1, dst |-> 2, rec |-> FALSE, en |-> TRUE, w |-> 1, mut |-> ZERO, tr |-> 0]>>]
      [] k = 2 -> [id |-> 2, mods |-> <<>>,
                   traits |-> <<[id |-> 1, p |-> Pattern(1)], [id |-> 2, p |-> Pattern(6)]>>,
                   nodes |-> <<[id |-> 1, role |-> "B", act |-> NullAct, tr |-> 1], [id |-> 2, role |-> "I", act |-> NullAct, tr |-> 0],
                               [id |-> 3, role |-> "I", act |-> NullAct, tr |-> 2], [id |-> 4, role |-> "O", act |-> 11, tr |-> 2],
                               [id |-> 5, role |-> "H", act |-> 20, tr |-> 1]>>,
                   genes |-> <<[inn |-> 1, src |-> 1, dst |-> 4, rec |-> FALSE, en |-> TRUE, w |-> 2, mut |-> 3, tr |-> 1],
                               [inn |-> 2, src |-> 2, dst |-> 5, rec |-> FALSE, en |-> FALSE, w |-> 7, mut |-> ZERO, tr |-> 2],
                               [inn |-> 5, src |-> 5, dst |-> 5, rec |-> TRUE, en |-> TRUE, w |-> NEGZERO, mut |-> 10, tr |-> 0],
                               [inn |-> 9, src |-> 5, dst |-> 4, rec |-> FALSE, en |-> TRUE, w |-> 4, mut |-> 8, tr |-> 1]>>]
      [] k = 3 -> [id |-> 3, mods |-> <<>>,
                   traits |-> <<[id |-> 1, p |-> Pattern(4)]>>,
                   nodes |-> <<[id |-> 1, role |-> "I", act |-> NullAct, tr |-> 1], [id |-> 2, role |-> "B", act |-> NullAct, tr |-> 1],
                               [id |-> 3, role |-> "O", act |-> 4, tr |-> 1]>>,
                   genes |-> <<[inn |-> 3, src |-> 1, dst |-> 3, rec |-> FALSE, en |-> TRUE, w |-> 11, mut |-> 12, tr |-> 1],
                               [inn |-> 4, src |-> 2, dst |-> 3, rec |-> FALSE, en |-> FALSE, w |-> ONE, mut |-> ONE, tr |-> 0]>>]
PoolSize == 3
WithId(k, id) == [PoolG(k) EXCEPT !.id = id]

(* experiments: every generation record is determined by a small choice, coded 100 * solved + 10 * series length + champion *)
ChoiceOf(c) == <<c \div 100 = 1, (c \div 10) % 10, c % 10>>
Series(n, o) == [i \in 1 .. n |-> ((o + 4 * i) % Len(FTable)) + 1]
IntSeries(n, o) == [i \in 1 .. n |-> 5 + ((o + i) % 4)]                  \* integer-valued symbols (ages, complexities)
GenOf(cc, t, j) ==
    LET c == ChoiceOf(cc) IN
    \* (time stamps: ascending with the generation in odd trials, DESCENDING in even ones - a record is restored as it was
    \* written, whatever order its stamps suggest)
    [id |-> j - 1, exec |-> IF t % 2 = 1 THEN 1000 * t + 10 * j ELSE 1000 * t + 10 * (9 - j), solved |-> c[1], fit |-> Series(c[2], t + j), age |-> IntSeries(c[2], j),
     cplx |-> IntSeries(c[2], t), div |-> c[2], we |-> IF c[1] THEN 100 * t + j ELSE 0, wn |-> IF c[1] THEN 3 + j ELSE 0,
     wg |-> IF c[1] THEN 5 + t ELSE 0, dur |-> 7 * j + t, tid |-> t,
     champ |-> IF c[3] = 0 THEN NoChamp
               ELSE [fit |-> ((3 * t + 5 * j) % Len(FTable)) + 1, win |-> c[1], gen |-> j, eo |-> ((t + j) % Len(FTable)) + 1,
                     err |-> ((2 * t + j) % Len(FTable)) + 1, g |-> WithId(c[3], 10 * t + j)]]
ExpOf(sk) == [id |-> Len(sk), name |-> "exp", trials |-> [t \in DOMAIN sk |-> [id |-> t - 1, gens |-> [j \in DOMAIN sk[t] |-> GenOf(sk[t][j], t, j)]]]]
Other(sk) == Reverse(sk) \o << <<101>> >>        \* another experiment with one more (solved) trial
SeqsUpTo(Elems, n) == UNION {[1 .. m -> Elems] : m \in 0 .. n}

Dummy == [none |-> TRUE]
Init == \/ /\ "genome" \in Modes /\ mode = "genome" /\ phase = "traits" /\ g = Empty /\ x = Dummy
        \/ /\ "org" \in Modes /\ mode = "org" /\ phase = "emit" /\ g = Empty
           /\ x \in [fit : OrgFits, gen : OrgGens, hf : {ZERO, 2}, pcc : BOOLEAN, g : {PoolG(k) : k \in 1 .. PoolSize}]
        \/ /\ "pop" \in Modes /\ mode = "pop" /\ phase = "emit" /\ g = Empty
           \* genome ids: all different, or repeating (0, 1, 0, ...: a population merged from two runs - an id is not an identity)
           /\ \E ks \in SeqsUpTo(1 .. PoolSize, MaxPop), m \in {2, MaxPop + 1} : x = [i \in DOMAIN ks |-> WithId(ks[i], (i - 1) % m)]
        \/ /\ "popsp" \in Modes /\ mode = "popsp" /\ phase = "emit" /\ g = Empty
           /\ \E ks \in SeqsUpTo(1 .. PoolSize, MaxPop) \ {<<>>} :
                \E cut \in DOMAIN ks, wins \in [DOMAIN ks -> BOOLEAN], fits \in {f \in [DOMAIN ks -> DOMAIN ks] : \A i, j \in DOMAIN ks : f[i] = f[j] => i = j} :
                   LET org(i) == [g |-> WithId(ks[i], i - 1), fit |-> fits[i], win |-> wins[i]]
                       first == [i \in 1 .. cut |-> org(i)]
                       rest == [i \in 1 .. Len(ks) - cut |-> org(cut + i)]
                   IN x = IF rest = <<>> THEN <<first>> ELSE <<first, rest>>
        \/ /\ "exp" \in Modes /\ mode = "exp" /\ phase = "emit" /\ g = Empty
           /\ x \in SeqsUpTo(SeqsUpTo(GenChoices, MaxGens), MaxTrials)

Emittable == mode = "genome" /\ phase \in {"genes", "mods"} /\ g.genes # <<>>
CaseOf ==
    CASE mode = "genome" ->
           [kind |-> "genome", g |-> g, plain |-> Render(PlainLines(g)), yaml |-> YamlDoc(g),
            yaml_exact |-> NEGZERO \notin GenomeSyms(g), fast |-> FastDoc(FastOf(g, "net"))]
      [] mode = "org" -> [kind |-> "org", o |-> x, lines |-> Render(OrgLines(x))]
      [] mode = "pop" -> [kind |-> "pop", gs |-> x, lines |-> Render(PopLines(x))]
      [] mode = "popsp" -> [kind |-> "popsp", sps |-> x, lines |-> Render(BySpeciesLines(x)),
                            order |-> Map(BySpeciesGenomes(x), LAMBDA gg : gg.id)]
      [] mode = "exp" ->
           LET e == ExpOf(x) IN
           [kind |-> "exp", sk |-> x, e |-> e, other |-> ExpOf(Other(x)),
            stream |-> Map(ExpStream(e), LAMBDA t : IF t.k = "bytes" THEN [k |-> "bytes", v |-> Render(t.v)] ELSE t)]
(* with -simulate: keep growing most of the time, so that large genomes are sampled *)
Coin == RandomElement(1 .. 4 + 0 * Len(g.nodes)) = 1          \* (state-level on purpose: re-drawn at every evaluation)
Grown == ~Sample \/ Coin \/ (phase = "genes" /\ Len(g.genes) = MaxGenes /\ MaxMods = 0) \/ (phase = "mods" /\ Len(g.mods) = MaxMods)
Emit == /\ ((Emittable /\ Grown) \/ (mode # "genome" /\ phase = "emit"))
        /\ PrintT(ToJson(CaseOf))
        /\ phase' = "done" /\ UNCHANGED <<mode, g, x>>

Ch(Set) == IF Sample THEN {RandomElement(Set)} ELSE Set
Next == \/ \E k \in Ch(Pats) : AddTrait(k)
        \/ Advance("traits", "nodes", NT >= MinTraits /\ (~Sample \/ NT = MaxTraits \/ Coin))
        \/ \E role \in Roles, act \in Ch(Acts) : \E tr \in Ch(TraitChoices(NodeTraitFree, Len(g.nodes) + 1)) : AddNode(role, act, tr)
        \/ Advance("nodes", "genes", NodesOk /\ (~Sample \/ Count("H") = MaxHidden \/ Coin))
        \/ \E src \in NodeIds, dst \in NonSensors, w \in Ch(Ws), mut \in Ch(Muts), fl \in Ch(Flags) :
              \E tr \in Ch(TraitChoices(GeneTraitFree, Len(g.genes) + src)) : AddGene(src, dst, w, mut, fl, tr)
        \/ Advance("genes", "mods", g.genes # <<>> /\ MaxMods > 0 /\ (~Sample \/ Len(g.genes) = MaxGenes \/ Coin))
        \/ \E act \in Ch(ModActs), ni \in Ch(1 .. 2), no \in Ch(1 .. 2), en \in Ch(ModEnabled), mut \in Ch(Muts) :
              \E ins \in Ch(Pick(ni)), outs \in Ch(Pick(no)) : \E tr \in Ch(0 .. NT) : AddMod(act, ins, outs, en, mut, tr)
        \/ Emit
Spec == Init /\ [][Next]_vars

(* ------------------------------------------------------------------ C15 on the model *)
Plain == mode = "genome" => PlainLaw(g) /\ IdFromCaller(g, 41)
Yaml == mode = "genome" => YamlLaw(g) /\ YamlExact(g)
Organism == /\ mode = "genome" /\ phase # "traits" => OrgLaw([fit |-> 1, gen |-> Len(g.nodes), hf |-> NEGZERO, pcc |-> TRUE, g |-> g])
            /\ mode = "org" => OrgLaw(x)
Population == /\ mode = "genome" /\ g.genes # <<>> => PopLaw(<<g, [g EXCEPT !.id = 8]>>)
              /\ mode = "pop" => PopLaw(x)
              /\ mode = "popsp" => BySpeciesLaw(x)
FastModel == mode = "genome" /\ phase \in {"genes", "mods"} => FastLaw(FastOf(g, "net"))
ExperimentFile == mode = "exp" => ExpLaw(ExpOf(x))
(* reading into a used value: the target held nothing, a smaller, the same or another (larger) experiment whose statistics were computed *)
Priors(sk) == {FreshExp, Held(ExpOf(sk), TRUE), Held(ExpOf(Other(sk)), TRUE)}
              \cup (IF sk = <<>> THEN {} ELSE {Held(ExpOf(SubSeq(sk, 1, Len(sk) - 1)), TRUE)})
ReadIntoUsed == /\ mode = "exp" => \A prior \in Priors(x) : ReadIntoLaw(prior, ExpOf(x), FALSE)
                /\ mode = "org" => OrgIntoLaw([fit |-> 2, gen |-> 77, hf |-> 3, pcc |-> ~x.pcc, g |-> PoolG(1), phenotype |-> "of the old genome"], x)
(* the law is about something: decoding in place into used trials breaks it *)
ASSUME ~ReadIntoLaw(Held(ExpOf(<< <<101>> >>), TRUE), ExpOf(<< <<22, 101>> >>), TRUE)
(* the writer model only produces tokens of the four lexical types the reader model reads *)
TokensTyped == mode = "genome" => \A ln \in Rng(PlainLines(g)) : \A t \in Rng(ln) : t.k \in {"i", "f", "b", "s"}
=============================================================================

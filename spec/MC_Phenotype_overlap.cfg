\* sanity config, expected to FAIL Inv_GraphView: a module that lists one node as input and as output is answered
\* wrongly by the transcribed edgeBetween - the reason such modules are outside the scope of C11 (DESIGN.md 7/C11)
SPECIFICATION Spec
CONSTANTS
  Shapes <- ShapesOverlap
  AllowOverlap = TRUE
  MaxIo = 3
INVARIANTS Inv_GraphView
CHECK_DEADLOCK FALSE

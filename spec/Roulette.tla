------------------------------ MODULE Roulette ------------------------------
(***************************************************************************)
(* X01 - the random choices of neat/math/math.go and the activator choice  *)
(* of neat.Options (growth of the specification beyond the listed          *)
(* properties, DESIGN.md section 3).                                       *)
(*                                                                         *)
(*   SingleRouletteThrow(probabilities)  one uniform draw u in [0,1) is    *)
(*        scaled by the sum of the vector; the result is the first index   *)
(*        whose running sum is >= the scaled draw (the code compares with  *)
(*        <=, so a draw that lands exactly on a boundary belongs to the    *)
(*        segment that ends there); -1 only for the empty vector.          *)
(*   RandSign()                          one integer draw v; -1 when v is  *)
(*        even, +1 when it is odd.                                         *)
(*   Options.RandomNodeActivationType()  no activators: error; exactly one *)
(*        activator: that one, WITHOUT a draw and without looking at the   *)
(*        probabilities; different lengths: error; otherwise the activator *)
(*        at the index of one roulette throw.                              *)
(*                                                                         *)
(* TLC has no reals: a wheel is a sequence of naturals p (probability      *)
(* p[i]/Den each, not necessarily normalised), a draw is a rational j/G.   *)
(* "j/G * total <= cum" is evaluated as "j * total <= G * cum".            *)
(***************************************************************************)
EXTENDS Integers, Sequences, FiniteSets, FiniteSetsExt, SequencesExt, Functions, TLC

Total(p) == FoldSeq(LAMBDA x, acc : acc + x, 0, p)
Cum(p, i) == FoldSeq(LAMBDA x, acc : acc + x, 0, SubSeq(p, 1, i))

(* ---- the loop of SingleRouletteThrow, step by step: i is the position about to be examined (1-based), acc the
   accumulator before p[i] is added; the returned index is 0-based as in the code ---- *)
RECURSIVE Walk(_, _, _, _, _)
Walk(p, j, G, i, acc) ==
    IF i > Len(p) THEN -1
    ELSE LET a == acc + p[i] IN
         IF j * Total(p) <= G * a THEN i - 1 ELSE Walk(p, j, G, i + 1, a)
Throw(p, j, G) == Walk(p, j, G, 1, 0)

(* ---- the definition: first index whose cumulative sum reaches the scaled draw ---- *)
Reached(p, j, G) == { i \in 1..Len(p) : j * Total(p) <= G * Cum(p, i) }
ThrowDef(p, j, G) == IF Reached(p, j, G) = {} THEN -1 ELSE Min(Reached(p, j, G)) - 1

(* ---- the same function as an interval table over the real line (what the replayer looks real draws up in):
   a draw u with lo < u * total <= hi yields idx; one segment per position of non-zero probability.
   Two cases are outside the table and are stated separately:
     u = 0           -> index 0 whatever p[1] is (0 <= p[1] holds even when p[1] = 0): the only way a zero-probability
                        index is returned from a wheel that has a positive total;
     total = 0       -> index 0 for every u (all probabilities zero). ---- *)
Segments(p) == LET pos == SelectSeq([i \in 1..Len(p) |-> i], LAMBDA i : p[i] > 0)
               IN  [k \in 1..Len(pos) |-> [lo |-> Cum(p, pos[k] - 1), hi |-> Cum(p, pos[k]), idx |-> pos[k] - 1]]
SegLookup(p, j, G) == LET s == Segments(p)
                          hit == { k \in 1..Len(s) : s[k].lo * G < j * Total(p) /\ j * Total(p) <= s[k].hi * G }
                      IN  IF Cardinality(hit) = 1 THEN s[CHOOSE k \in hit : TRUE].idx ELSE -2
AtZero(p) == IF Len(p) = 0 THEN -1 ELSE 0
AllZero(p) == Len(p) > 0 /\ Total(p) = 0

(* ---- laws (checked by TLC for every wheel in scope and every draw on the grid) ---- *)
InRange(p, G) == \A j \in 0..(G - 1) :
    IF Len(p) = 0 THEN Throw(p, j, G) = -1 ELSE Throw(p, j, G) \in 0..(Len(p) - 1)
WalkIsDefinition(p, G) == \A j \in 0..(G - 1) : Throw(p, j, G) = ThrowDef(p, j, G)
NeverZeroProbability(p, G) ==       \* for a positive draw on a wheel with positive total
    Total(p) > 0 => \A j \in 1..(G - 1) : p[Throw(p, j, G) + 1] > 0
ZeroDrawAndZeroWheel(p, G) ==
    /\ Throw(p, 0, G) = AtZero(p)
    /\ AllZero(p) => \A j \in 0..(G - 1) : Throw(p, j, G) = 0
Monotone(p, G) == \A j \in 0..(G - 2) : Throw(p, j, G) <= Throw(p, j + 1, G)
TableIsFunction(p, G) ==
    LET s == Segments(p) IN
    /\ Total(p) > 0 => /\ s[1].lo = 0 /\ s[Len(s)].hi = Total(p)
                       /\ \A k \in 1..(Len(s) - 1) : s[k].hi = s[k + 1].lo
                       /\ \A j \in 1..(G - 1) : SegLookup(p, j, G) = Throw(p, j, G)
    /\ Total(p) = 0 => s = <<>>
\* the share of the grid (0,1] that yields index i-1 is p[i]/total up to one grid cell
Proportional(p, G) ==
    Total(p) > 0 => \A i \in 1..Len(p) :
        LET n == Cardinality({ j \in 1..G : Walk(p, j, G, 1, 0) = i - 1 }) IN
        /\ n * Total(p) > p[i] * G - Total(p)
        /\ n * Total(p) < p[i] * G + Total(p)

WheelCase(p, den, G) ==
    [kind |-> "wheel", p |-> p, den |-> den, total |-> Total(p), grid |-> G,
     at_zero |-> AtZero(p), all_zero |-> AllZero(p),
     on_grid |-> [j \in 1..G |-> Throw(p, j - 1, G)],          \* entry j = index for the draw (j-1)/G
     segs |-> Segments(p)]

(* ---- RandSign ---- *)
RandSign(v) == IF v % 2 = 0 THEN -1 ELSE 1
SignCase == [kind |-> "sign", even |-> RandSign(0), odd |-> RandSign(1)]

(* ---- Options.RandomNodeActivationType: acts a sequence of activator names, probs a wheel ---- *)
ActivatorChoice(acts, probs) ==
    IF Len(acts) = 0 THEN [err |-> "no_activators", draws |-> 0, fixed |-> ""]
    ELSE IF Len(acts) = 1 THEN [err |-> "", draws |-> 0, fixed |-> acts[1]]
    ELSE IF Len(acts) # Len(probs) THEN [err |-> "mismatch", draws |-> 0, fixed |-> ""]
    ELSE [err |-> "", draws |-> 1, fixed |-> ""]          \* acts[Throw(probs, u) + 1]
ActivatorCase(acts, probs, den, G) ==
    LET c == ActivatorChoice(acts, probs) IN
    [kind |-> "activator", acts |-> acts, p |-> probs, den |-> den, total |-> Total(probs), grid |-> G,
     err |-> c.err, draws |-> c.draws, fixed |-> c.fixed,
     at_zero |-> AtZero(probs), all_zero |-> AllZero(probs),
     segs |-> IF c.draws = 1 THEN Segments(probs) ELSE <<>>]
ActivatorLaws(acts, probs, G) ==
    LET c == ActivatorChoice(acts, probs) IN
    /\ c.err = "" <=> (Len(acts) = 1 \/ (Len(acts) >= 2 /\ Len(acts) = Len(probs)))
    /\ c.draws = 1 => \A j \in 0..(G - 1) : Throw(probs, j, G) + 1 \in DOMAIN acts   \* the index check of the code cannot fail
    /\ c.draws = 0 /\ c.err = "" => c.fixed \in Range(acts)
=============================================================================

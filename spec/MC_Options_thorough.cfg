SPECIFICATION Spec
CONSTANTS
  Patterns <- AllPatterns
  PertPatterns <- TwoPatterns
  ExecVals <- Execs4
  CompatVals <- Compats4
  LevelVals <- Levels6
  ActEntries <- ThoroughActEntries
  MaxActLines = 4
  MaxStack = 4
INVARIANTS StatusKnown ReadersAgree ValidationExact PlainOrderIndependent PlainLastWins YamlIgnoresUnknownKeys
           OnlyYamlHasActivators ValidateOrder ContextLaws
CHECK_DEADLOCK FALSE

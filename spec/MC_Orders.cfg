SPECIFICATION Spec
CONSTANTS
  Fits <- QuickFits
  His = {0, 2}
  Ages = {1, 2, 3}
  Times = {0, 1, 2}
  Ids = {0, 1, 2}
  MaxLen = 4
  MaxSpecies = 3
INVARIANTS OrganismsOrder SpeciesOrder SpMaxOrder TimeIdOrder TotalOnDistinct ChampionLaws SpeciesPromotesYounger
CHECK_DEADLOCK FALSE

SPECIFICATION Spec
CONSTANTS
  Params <- ParamsThorough
  MaxN = 8
INVARIANTS ExpectationsTotalN LoopIsFloorCarry TotalAfterCount TotalAfterRedistribution NearShare MakeUpOnce ParentCutOff ZeroQuotaPurged StealShape DeltaShape
CHECK_DEADLOCK FALSE

------------------------------ MODULE MC_Flush ------------------------------
(* C13: a network of ANY topology (self-loops, cycles, time-delayed links) is built link by link and sealed; an    *)
(* instance A (standard network + fast solver) then lives through a HISTORY of API calls, is flushed, and lives    *)
(* through a SUFFIX of API calls side by side with a twin T that is created fresh at the moment of the flush.      *)
(*   load v   : Network.LoadSensors(v)      | fast LoadSensors(v)                                                  *)
(*   fwd k    : Network.ForwardSteps(k)     | fast ForwardSteps(k)                                                 *)
(*   rec      : Network.RecursiveSteps()    | fast RecursiveSteps()                                                *)
(*   relax k  : Network.ActivateSteps(k)    | fast Relax(k, delta > 0)                                             *)
(*   act      : Network.Activate()          | fast Relax(2, 0)       (only with bounded activation functions)      *)
(*   flush    : Network.Flush()             | fast Flush()           (a flush INSIDE the history or the suffix: an  *)
(*                                            instance may be flushed any number of times in its life)              *)
(* C13 is FlushRestores (the flushed state is the observable part of the fresh state) and SuffixEqual (after every *)
(* suffix call outputs and error results of A and T coincide).                                                     *)
(* The history is forgotten at the flush (it is printed there as a "hist" case), so the suffixes of one network    *)
(* are explored once per distinct flushed state; the replayer runs every history of a network against every       *)
(* suffix of the same network on the real code.                                                                    *)
EXTENDS Solvers, Json, SequencesExt
CONSTANTS Inputs, Biases, Hidden, OutSet, Shapes,
          Weights, TdFlags, InVals, OrderKinds, ActSchemes, LinkCaps, SealAtCap, Canonical,
          FwdKs, RelaxKs, UseRec, UseAct, MaxHist, MaxSuf, Limit, FlushWorks

VARIABLES shape, inc, cap, ph, net, fm, A, T, ops, log, tlog
vars == <<shape, inc, cap, ph, net, fm, A, T, ops, log, tlog>>
\* the nodes of the network under construction are those of `shape`, one of the node sets in Shapes
Ins == Inputs \cap shape
Bis == Biases \cap shape
Hid == Hidden \cap shape
Sensors == Ins \cup Bis
Neurons == Hid \cup (OutSet \cap shape)
Asc(X) == SetToSortSeq(X, <)
Outputs == Asc(OutSet \cap shape)

OrderOf(kind) ==
    CASE kind = "IBHO" -> Asc(Ins) \o Asc(Bis) \o Asc(Hid) \o Outputs
      [] kind = "IBOH" -> Asc(Ins) \o Asc(Bis) \o Outputs \o Asc(Hid)
      [] kind = "BIHO" -> Asc(Bis) \o Asc(Ins) \o Asc(Hid) \o Outputs
      [] kind = "BIOH" -> Asc(Bis) \o Asc(Ins) \o Outputs \o Asc(Hid)
      [] kind = "IBOHr" -> Asc(Ins) \o Asc(Bis) \o Outputs \o Reverse(Asc(Hid))
KindOf(n) == IF n \in Inputs THEN "I" ELSE IF n \in Biases THEN "B" ELSE IF n \in Hidden THEN "H" ELSE "O"
ActsOf(scheme) ==
    LET ns == Asc(Neurons) IN
    [n \in Sensors \cup Neurons |->
        IF n \in Sensors THEN "null"
        ELSE scheme[(((CHOOSE i \in DOMAIN ns : ns[i] = n) - 1) % Len(scheme)) + 1]]
NetOf(order, acts) ==
    [order |-> order, kind |-> [n \in Sensors \cup Neurons |-> KindOf(n)], act |-> acts,
     inputs |-> SelectSeq(order, LAMBDA n : n \in Sensors), outputs |-> Outputs,
     inc |-> [n \in Sensors \cup Neurons |-> IF n \in Neurons THEN inc[n] ELSE <<>>]]
LinkSet == UNION { { <<inc[n][i].src, n>> : i \in DOMAIN inc[n] } : n \in Neurons }
NumLinks == Cardinality(LinkSet)
\* input vectors are drawn with the length of the largest shape (a constant set, so that TLC's simulator can pick one
\* action instance at a time); a smaller shape uses the prefix, the rest being pinned to one value
FullVectors == [1..Cardinality(Inputs) -> InVals]
Padded(v) == \A i \in DOMAIN v : i > Cardinality(Ins) => v[i] = (CHOOSE x \in InVals : TRUE)
Trunc(v) == [i \in 1..Cardinality(Ins) |-> v[i]]
AllNodes == Inputs \cup Biases \cup Hidden \cup OutSet
BoundedActs == \A n \in Neurons : net.act[n] \in {"clip", "null", "sign", "step"}

Op(o, k, v) == [op |-> o, k |-> k, v |-> v]
OpSet == { Op("load", 0, v) : v \in FullVectors } \cup { Op("fwd", k, <<>>) : k \in FwdKs }
         \cup { Op("relax", k, <<>>) : k \in RelaxKs }
         \cup (IF UseRec THEN {Op("rec", 0, <<>>)} ELSE {}) \cup (IF UseAct THEN {Op("act", 0, <<>>)} ELSE {})
\* (the extra flushes are part of histories only: after the judged flush the twin comparison needs no more of them)
HistOpSet == OpSet \cup {Op("flush", 0, <<>>)}

\* one API call on an instance X = [std, fast]; the result carries what the caller observes
Obs(nt, m, std, serr, fast) ==
    [so |-> StdOutputs(nt, std), se |-> serr, fo |-> FastOutputs(m, fast), fe |-> FALSE]
Apply(o, X) ==
    CASE o.op = "load" ->
           LET s == StdLoad(net, X.std, o.v)  f == FastLoad(fm, X.fast, o.v)
           IN  [X |-> [std |-> s, fast |-> f], obs |-> Obs(net, fm, s, FALSE, f)]
      [] o.op = "fwd" ->
           LET r == StdForwardSteps(net, X.std, o.k)  f == FastForwardSteps(fm, X.fast, o.k)
           IN  [X |-> [std |-> r.st, fast |-> f], obs |-> Obs(net, fm, r.st, r.err, f)]
      [] o.op = "rec" ->
           LET r == StdRecursiveSteps(net, X.std)  f == FastRecursiveSteps(fm, X.fast)
           IN  [X |-> [std |-> r.st, fast |-> f], obs |-> Obs(net, fm, r.st, r.err, f)]
      [] o.op = "relax" ->
           LET r == StdActivateSteps(net, X.std, o.k)  f == FastRelax(fm, X.fast, o.k, TRUE)
           IN  [X |-> [std |-> r.st, fast |-> f], obs |-> Obs(net, fm, r.st, r.err, f)]
      [] o.op = "act" ->
           LET r == StdActivate(net, X.std)  f == FastRelax(fm, X.fast, 2, FALSE)
           IN  [X |-> [std |-> r.st, fast |-> f], obs |-> Obs(net, fm, r.st, r.err, f)]
      [] o.op = "flush" ->
           LET s == IF FlushWorks THEN StdFlush(net, X.std) ELSE X.std  f == IF FlushWorks THEN FastFlush(fm, X.fast) ELSE X.fast
           IN  [X |-> [std |-> s, fast |-> f], obs |-> Obs(net, fm, s, FALSE, f)]

Init == /\ shape \in Shapes /\ inc = [n \in Neurons |-> <<>>] /\ ph = "build" /\ cap \in LinkCaps
        /\ net = <<>> /\ fm = <<>> /\ A = <<>> /\ T = <<>> /\ ops = <<>> /\ log = <<>> /\ tlog = <<>>

\* any simple digraph: self-loops and cycles are welcome
Addable(u, v) == \A i \in DOMAIN inc[v] : inc[v][i].src # u
CanAdd == NumLinks < cap /\ \E u \in Sensors \cup Neurons, v \in Neurons : Addable(u, v)
AddLink(u, v, w, td) ==
    /\ ph = "build" /\ u \in shape /\ v \in shape /\ NumLinks < cap /\ Addable(u, v)
    /\ Canonical => \A e \in LinkSet : e[2] < v \/ (e[2] = v /\ e[1] < u)
    /\ inc' = [inc EXCEPT ![v] = Append(@, [src |-> u, w |-> w, td |-> td])]
    /\ UNCHANGED <<shape, cap, ph, net, fm, A, T, ops, log, tlog>>
SealGuard == ph = "build" /\ NumLinks >= 1 /\ (SealAtCap => ~CanAdd)
Seal(ok, scheme) ==
    /\ SealGuard
    /\ LET nt == NetOf(OrderOf(ok), ActsOf(scheme))  m == FastModel(nt)
       IN  /\ net' = nt /\ fm' = m
           /\ A' = [std |-> StdFresh(nt), fast |-> FastFresh(m)]
    /\ ph' = "hist"
    /\ UNCHANGED <<shape, inc, cap, T, ops, log, tlog>>
Small(X) == StdSmall(X.std, Limit) /\ FastSmall(X.fast, Limit)
\* a drawn call: load vectors are cut to the shape's number of inputs
Usable(ofull) == (ofull.op = "load" => Padded(ofull.v)) /\ (ofull.op = "act" => BoundedActs)
Cut(ofull) == IF ofull.op = "load" THEN Op("load", 0, Trunc(ofull.v)) ELSE ofull
Do(ofull) ==
    /\ ph = "hist" /\ Len(ops) < MaxHist /\ Usable(ofull)
    /\ LET o == Cut(ofull)  r == Apply(o, A) IN
         /\ Small(r.X)
         /\ A' = r.X /\ ops' = Append(ops, o) /\ log' = Append(log, r.obs)
    /\ UNCHANGED <<shape, inc, cap, ph, net, fm, T, tlog>>
\* Network.Flush and the fast solver's Flush; the twin is born here
HistCase == [kind |-> "hist", net |-> NetJson(net), ops |-> ops, log |-> log]
Flush ==
    /\ ph = "hist" /\ Len(ops) >= 1
    /\ PrintT(ToJson(HistCase))
    /\ A' = IF FlushWorks THEN [std |-> StdFlush(net, A.std), fast |-> FastFlush(fm, A.fast)] ELSE A
    /\ T' = [std |-> StdFresh(net), fast |-> FastFresh(fm)]
    /\ ops' = <<>> /\ log' = <<>> /\ tlog' = <<>>
    /\ ph' = "suffix"
    /\ UNCHANGED <<shape, inc, cap, net, fm>>
DoS(ofull) ==
    /\ ph = "suffix" /\ Len(ops) < MaxSuf /\ Usable(ofull)
    /\ LET o == Cut(ofull)  r == Apply(o, A)  t == Apply(o, T) IN
         /\ Small(r.X) /\ Small(t.X)
         /\ A' = r.X /\ T' = t.X /\ ops' = Append(ops, o)
         /\ log' = Append(log, r.obs) /\ tlog' = Append(tlog, t.obs)
    /\ UNCHANGED <<shape, inc, cap, ph, net, fm>>
SufCase == [kind |-> "suffix", net |-> NetJson(net), ops |-> ops, log |-> tlog]
EmitS == /\ ph = "suffix" /\ Len(ops) = MaxSuf /\ PrintT(ToJson(SufCase))
         /\ ph' = "done" /\ UNCHANGED <<shape, inc, cap, net, fm, A, T, ops, log, tlog>>

\* (the bound sets are constant so that the simulator draws one action instance at a time)
Next == \/ \E u \in AllNodes, v \in Hidden \cup OutSet, w \in Weights, td \in TdFlags : AddLink(u, v, w, td)
        \/ \E ok \in OrderKinds, sc \in ActSchemes : Seal(ok, sc)
        \/ \E o \in HistOpSet : Do(o)
        \/ \E o \in OpSet : DoS(o)
        \/ Flush \/ EmitS
Spec == Init /\ [][Next]_vars

(* ---- C13 ---- *)
\* right after the flush nothing a later call can observe distinguishes A from a fresh instance
FlushRestores == (ph = "suffix" /\ ops = <<>>) =>
                    /\ A.std = StdFresh(net)
                    /\ FastObservable(A.fast) = FastObservable(FastFresh(fm))
\* ... and indeed no later sequence of calls does
SuffixEqual == ph \in {"suffix", "done"} => log = tlog
\* (sanity of the model: with FlushWorks = FALSE the flush is a no-op and both invariants must fail -
\*  MC_Flush_noflush.cfg; histories do leave observable state behind)

W3 == {0 - 1, 1, 2}
W2 == {0 - 1, 2}
W1 == {2}
V3 == {0 - 1, 0, 1}
V2 == {0 - 1, 2}
V1 == {1}
SchemesBounded == {<<"clip">>, <<"step", "clip">>, <<"sign", "step">>}
SchemesQuick   == {<<"linear">>, <<"step", "clip">>}
SchemesLinear  == {<<"linear">>}
SchemesMixed   == {<<"linear">>, <<"clip">>, <<"step", "linear">>}
SchemesAll     == {<<"linear">>, <<"clip">>, <<"step", "linear">>, <<"sign", "step">>, <<"clip", "abs">>,
                   <<"linear", "null", "step">>, <<"step">>}
=============================================================================

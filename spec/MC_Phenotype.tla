--------------------------- MODULE MC_Phenotype ---------------------------
(* C11: every genome of a bounded scope is built gene by gene (one canonical order, so every genome is one state),   *)
(* the property is checked on the specification for each of them, and each is handed to the replayer together with   *)
(* the network the statement assigns to it and the answer of every graph query on every ordered id pair 0..maxId+1.  *)
(*                                                                                                                   *)
(* Scope of one run = a set of SHAPES.  A shape fixes the node list (roles in genome order, ascending ids - possibly  *)
(* with gaps, so that absent ids also occur between present ones) and the bounds: mg = max genes, mgm = max genes     *)
(* when a module is present, mm = max modules.  Enumerated exhaustively per shape: every set of <= mg genes over the  *)
(* slots <<src, dst, rec>> (src any node, dst any non-sensor: self-loops included; the two recurrence flags of one    *)
(* node pair are two slots, so parallel genes that differ in the flag occur), each gene enabled or disabled; every    *)
(* module with 1..2 listed inputs and 1..2 listed outputs (<= MaxIo in total, disjoint unless AllowOverlap), enabled  *)
(* or disabled.  NOT crossed (they are payload that expression copies and never computes with): weights, activation   *)
(* symbols, innovation numbers and whether gene order follows slot order - these rotate with a pattern number derived *)
(* from the genome, so every value occurs at every position somewhere in the scope.                                  *)
EXTENDS Phenotype, TLC, Json

CONSTANTS Shapes,        \* set of shape records, see ShapesQuick
          AllowOverlap,  \* TRUE only in the sanity config that must fail (why overlapping modules are out of scope)
          MaxIo

W == <<-2, 0, 3>>        \* weight symbols; the replayer multiplies by 1/4
NActs == 4               \* activation symbols of ordinary nodes 0..3, of modules 0..1

Shape(roles, ids, mg, mgm, mm) == [roles |-> roles, ids |-> ids, mg |-> mg, mgm |-> mgm, mm |-> mm]
ShapesQuick == {
    Shape(<<"I", "O">>, <<1, 2>>, 4, 2, 2),
    Shape(<<"I", "B", "O", "H">>, <<1, 2, 3, 4>>, 3, 1, 1),
    Shape(<<"I", "I", "H", "O">>, <<1, 2, 4, 6>>, 3, 1, 1),
    Shape(<<"B", "I", "O", "O", "H">>, <<1, 2, 3, 4, 5>>, 2, 0, 0),
    \* sensors that do NOT come first in the node list (an output and a hidden node before an input and the bias)
    Shape(<<"O", "I", "H", "B">>, <<1, 2, 3, 5>>, 3, 1, 1) }
ShapesThorough == {
    Shape(<<"I", "O">>, <<1, 2>>, 4, 4, 2),
    Shape(<<"I", "H", "O">>, <<2, 3, 5>>, 3, 1, 2),
    Shape(<<"I", "B", "O", "H">>, <<1, 2, 3, 4>>, 4, 1, 1),
    Shape(<<"I", "I", "H", "O">>, <<1, 2, 4, 6>>, 4, 1, 1),
    Shape(<<"B", "I", "O", "O", "H">>, <<1, 2, 3, 4, 5>>, 3, 1, 1),
    Shape(<<"I", "I", "B", "O", "H", "H">>, <<1, 2, 3, 4, 5, 6>>, 3, 1, 1),
    Shape(<<"I", "I", "B", "H", "H", "O", "O">>, <<1, 2, 3, 4, 5, 7, 8>>, 2, 1, 1),
    Shape(<<"O", "I", "H", "B">>, <<1, 2, 3, 5>>, 4, 1, 1),
    Shape(<<"H", "O", "I", "I", "O">>, <<2, 3, 4, 6, 7>>, 3, 1, 1) }
ShapesOverlap == { Shape(<<"I", "O", "H">>, <<1, 2, 3>>, 1, 1, 1) }
\* SIZE: genomes of n nodes (well beyond any size at which an implementation may switch data structures).  Their genes are not
\* enumerated but given by a pattern (a chain, skip links, recurrent back links, every third gene disabled); the modules are
\* enumerated over a few positions (first, second, middle, last two).
BigShape(n) == [roles |-> [i \in 1..n |-> IF i = 1 THEN "B" ELSE IF i <= 4 THEN "I" ELSE IF i > n - 3 THEN "O" ELSE "H"],
                ids |-> [i \in 1..n |-> i + (IF i > n \div 2 THEN 2 ELSE 0)], mg |-> 0, mgm |-> 100000, mm |-> 1, big |-> TRUE]
IsBig(s) == "big" \in DOMAIN s
ShapesBigQuick == { BigShape(36) }
ShapesBigThorough == { BigShape(33), BigShape(48), BigShape(70) }

VARIABLES sh,    \* the shape
          gs,    \* gene picks in canonical (slot) order: [p, rec, en]
          ms     \* module picks: [ins, outs, en] (sets of node positions)
vars == <<sh, gs, ms>>

Pos1(s) == 1..Len(s.roles)
Targets(s) == {i \in Pos1(s) : ~Sensor(s.roles[i])}
\* slot number of <<src position, dst position>>: row-major over all position pairs
PairNo(s, i, j) == (i - 1) * Len(s.roles) + j
PairSrc(s, p) == ((p - 1) \div Len(s.roles)) + 1
PairDst(s, p) == ((p - 1) % Len(s.roles)) + 1
SlotNo(pick) == 2 * pick.p + (IF pick.rec THEN 1 ELSE 0)

PickP(x) == x.p
Pat(s, g, m) == (Len(s.roles) + Len(g) + SumSeq(Map(g, PickP)) + Len(m)) % 3
Rev(s, g, m) == (SumSeq(Map(g, PickP)) + Len(m) + Len(g)) % 2 = 1
Reverse(q) == [i \in DOMAIN q |-> q[Len(q) + 1 - i]]
RECURSIVE SetToAsc(_)
SetToAsc(S) == IF S = {} THEN <<>> ELSE LET x == CHOOSE x \in S : \A y \in S : x <= y IN <<x>> \o SetToAsc(S \ {x})

MaxNodeId(s) == s.ids[Len(s.ids)]
BigPicks(s) ==
    LET n == Len(s.roles) IN
    { [p |-> PairNo(s, i, i + 1), rec |-> FALSE, en |-> i % 3 # 0] : i \in { k \in 1..(n - 1) : ~Sensor(s.roles[k + 1]) } }
    \cup { [p |-> PairNo(s, i, i + 5), rec |-> FALSE, en |-> TRUE] : i \in { k \in 1..(n - 5) : k % 2 = 0 /\ ~Sensor(s.roles[k + 5]) } }
    \cup { [p |-> PairNo(s, i, i - 3), rec |-> TRUE, en |-> i % 8 # 0] : i \in { k \in 8..n : k % 4 = 0 /\ ~Sensor(s.roles[k - 3]) } }
    \cup { [p |-> PairNo(s, i, i), rec |-> TRUE, en |-> TRUE] : i \in { k \in 5..n : k % 7 = 0 } }
BigGenes(s) == LET P == BigPicks(s)
                   nos == SetToAsc({ 2 * x.p + (IF x.rec THEN 1 ELSE 0) : x \in P })
               IN  [k \in DOMAIN nos |-> CHOOSE x \in P : 2 * x.p + (IF x.rec THEN 1 ELSE 0) = nos[k]]
BigModPos(s) == LET n == Len(s.roles) IN {1, n \div 2, n - 1, n}
ModPos(s) == IF IsBig(s) THEN BigModPos(s) ELSE Pos1(s)
\* the abstract genome of a state
GenomeOf(s, g, m) ==
    LET pat == Pat(s, g, m)
        rev == Rev(s, g, m)
        ord == IF rev THEN Reverse(g) ELSE g
        Io(S, k) == LET q == IF rev THEN Reverse(SetToAsc(S)) ELSE SetToAsc(S)
                    IN [j \in DOMAIN q |-> [n |-> s.ids[q[j]], w |-> W[((j + k + pat) % 3) + 1]]]
    IN [nodes |-> [i \in Pos1(s) |-> [id |-> s.ids[i], role |-> s.roles[i],
                                      act |-> IF Sensor(s.roles[i]) THEN (IF pat % 2 = 0 THEN 0 ELSE (i + pat) % NActs) ELSE (i + pat) % NActs]],
        genes |-> [k \in DOMAIN ord |-> [inn |-> 2 * k - 1 + pat, src |-> s.ids[PairSrc(s, ord[k].p)],
                                         dst |-> s.ids[PairDst(s, ord[k].p)], w |-> W[((k + pat) % 3) + 1],
                                         rec |-> ord[k].rec, en |-> ord[k].en]],
        mods  |-> [k \in DOMAIN m |-> [id |-> MaxNodeId(s) + k, en |-> m[k].en, act |-> (k + pat) % 2,
                                       ins |-> Io(m[k].ins, k), outs |-> Io(m[k].outs, k + 1)]]]

G == GenomeOf(sh, gs, ms)
Net == Genesis(G)
\* graph queries are compared on every ordered pair of ids in 0 .. (largest id of the genome incl. disabled modules) + 1
MaxId(s, m) == MaxNodeId(s) + Len(m)
Dom == 0..(MaxId(sh, ms) + 1)

(* ------------------------------------------------------------------ the case handed to the replayer *)
CaseOf(s, g, m) ==
    LET gen == GenomeOf(s, g, m)
        net == Genesis(gen)
        b == Built(net)
        D == MaxId(s, m) + 1
        ids == [k \in 1..(D + 1) |-> k - 1]
        pairs == [k \in 1..((D + 1) * (D + 1)) |-> <<(k - 1) \div (D + 1), (k - 1) % (D + 1)>>]
        HasE(pr) == HasEdgeFromToDef(net, pr[1], pr[2])
        HasB(pr) == HasEdgeBetweenDef(net, pr[1], pr[2])
        WR(l) == [w |-> l.w, rec |-> l.rec]
        EdgeRec(pr) == [u |-> pr[1], v |-> pr[2], any |-> Map(EdgesDef(net, pr[1], pr[2]), WR)]
        Present(u) == u \in AllIds(net)
        NodeRec(u) == NodeDef(net, u)
        FromRec(u) == FromAlg(b, u)
        ToRec(u) == ToAlg(b, u)
    IN [g |-> gen, net |-> net, dom |-> D,
        q |-> [nodes |-> Map(SelectSeq(ids, Present), NodeRec),
               order |-> NodesSeq(net),
               from |-> Map(ids, FromRec), to |-> Map(ids, ToRec),
               edges |-> Map(SelectSeq(pairs, HasE), EdgeRec),
               between |-> SelectSeq(pairs, HasB),
               nc |-> NodeCountDef(net), lc |-> LinkCountDef(net), cx |-> ComplexityDef(net)]]

(* ------------------------------------------------------------------------------------- behaviours *)
Init == sh \in Shapes /\ gs = (IF IsBig(sh) THEN BigGenes(sh) ELSE <<>>) /\ ms = <<>>

AddGene ==
    /\ ms = <<>> /\ Len(gs) < sh.mg
    /\ \E i \in Pos1(sh), j \in Targets(sh), rec \in BOOLEAN, en \in BOOLEAN :
          LET pick == [p |-> PairNo(sh, i, j), rec |-> rec, en |-> en] IN
          /\ gs # <<>> => SlotNo(gs[Len(gs)]) < SlotNo(pick)
          /\ gs' = Append(gs, pick)
    /\ UNCHANGED <<sh, ms>>
    /\ PrintT(ToJson(CaseOf(sh, gs', ms)))

AddModule ==
    /\ gs # <<>> /\ Len(gs) <= sh.mgm /\ Len(ms) < sh.mm
    /\ \E ins \in SUBSET ModPos(sh), outs \in SUBSET ModPos(sh), en \in BOOLEAN :
          /\ Cardinality(ins) \in 1..2 /\ Cardinality(outs) \in 1..2 /\ Cardinality(ins) + Cardinality(outs) <= MaxIo
          /\ AllowOverlap \/ ins \cap outs = {}
          /\ ms' = Append(ms, [ins |-> ins, outs |-> outs, en |-> en])
    /\ UNCHANGED <<sh, gs>>
    /\ PrintT(ToJson(CaseOf(sh, gs, ms')))

Next == AddGene \/ AddModule
Spec == Init /\ [][Next]_vars

(* ---------------------------------------------------------------------------------- C11 on the model *)
InScope == gs # <<>>
GenomesWellFormed == InScope => WellFormed(G) /\ Expressible(G) /\ NoRepeat(G) /\ (AllowOverlap \/ NoOverlap(G))
Inv_Faithful == InScope => Faithful(G, Net)
Inv_GraphView == InScope => GraphViewAgrees(Net, Dom)
Inv_Counts == InScope => CountsAgree(Net)
\* the counts in terms of the GENOME
Inv_CountsOfGenome ==
    InScope => LET IoLen(m) == IF m.en THEN Len(m.ins) + Len(m.outs) ELSE 0 IN
               /\ NodeCountAlg(Built(Net)) = Len(G.nodes) + Count(G.mods, IsEnabled)
               /\ LinkCountAlg(Built(Net)) = Count(G.genes, IsEnabled) + SumSeq(Map(G.mods, IoLen))
=============================================================================

SPECIFICATION Spec
CONSTANTS
  Vals <- QuickVals
  MaxLen = 4
  Den = 8
  Grid = 64
  ActNames <- Names
  MaxActs = 3
  ActVals <- QuickActVals
INVARIANTS WheelInRange WheelWalkIsDefinition WheelNeverZeroProbability WheelZeroDrawAndZeroWheel WheelMonotone
           WheelTableIsFunction WheelProportional SignLaws ActivatorOK
CHECK_DEADLOCK FALSE

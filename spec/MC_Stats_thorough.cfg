SPECIFICATION Spec
CONSTANTS
  Vals <- ThoroughVals
  MaxLen = 6
  MaxTrials = 3
  MaxGens = 2
  Fits = {1, 2}
  Divs = {3}
INVARIANTS SeriesLaws SeriesPermutationInvariant ExperLaws
CHECK_DEADLOCK FALSE

SPECIFICATION Spec
CONSTANTS
  Vals <- ThoroughVals
  MaxLen = 6
  MaxTrials = 3
  MaxGens = 2
  Fits <- MixedFits
  Divs = {3}
INVARIANTS SeriesLaws SeriesPermutationInvariant ExperLaws
CHECK_DEADLOCK FALSE

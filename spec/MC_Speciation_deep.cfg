SPECIFICATION Spec
CONSTANTS
  K = 3
  Params <- ParamsDeep
  Shapes = {"one", "two"}
  Ids <- IdsDef
  Last0 = 12
  Dist4 <- DistLookup
INVARIANTS Partition NearestRule FirstOfNearest Consequence FreshIds TolZero
PROPERTIES Frame
CHECK_DEADLOCK FALSE

--------------------------- MODULE Trace_LockSet ---------------------------
(* C16 (ii): the lock-set discipline of InnovPar.tla (RaceFree: every access to the registry slice is made holding the *)
(* population mutex) evaluated on REAL access events.  Each line aggregates the accesses of one run: what was accessed, *)
(* whether the mutex was held (TryLock probe from inside the access), how many times.                                *)
EXTENDS Integers, Sequences, TLC, Json, IOUtils
TraceFile == IF "TRACE" \in DOMAIN IOEnv THEN IOEnv.TRACE ELSE "access.ndjson"
Trace == ndJsonDeserialize(TraceFile)
VARIABLE l
Init == l = 1
Next == /\ l <= Len(Trace) /\ l' = l + 1
        /\ LET e == Trace[l] IN
           IF e.locked \/ e.n = 0 THEN TRUE
           ELSE PrintT(ToJson([l |-> l, fails |-> {"C16:" \o e.what \o " without holding the population mutex"},
                               executor |-> e.executor, n |-> e.n]))
Spec == Init /\ [][Next]_l
TraceAccepted == TLCGet("stats").diameter = Len(Trace) + 1
=============================================================================

SPECIFICATION Spec
CONSTANTS
  PopStartNewline = TRUE
INVARIANTS WriterConforms ReaderModelRestores RealReaderRestores
CHECK_DEADLOCK FALSE

----------------------------- MODULE RandGenome -----------------------------
(***************************************************************************)
(* X05 - the shape of random start genomes: genetics.newGenomeRand (used   *)
(* by NewPopulationRandom) builds a genome from a random connection matrix *)
(* (growth of the specification beyond the listed properties, DESIGN.md 3).*)
(*                                                                         *)
(* Parameters: in (sensors, the LAST one is the bias), out, maxHidden, n   *)
(* (hidden nodes actually created, n <= maxHidden), recurrent.  Node ids:  *)
(*    1..in sensors | in+1..in+n hidden | (unused) | total-out+1..total    *)
(*    outputs,  total = in + out + maxHidden.                              *)
(* The matrix has total x total cells; cell number c (0-based, what the    *)
(* code calls count) stands for the link row -> col with                   *)
(*    col = c \div total + 1,   row = c % total + 1,                       *)
(* and a gene is created for it iff its bit is set, col is not a sensor,   *)
(* both ends are existing nodes, and the link is forward (col > row) or    *)
(* recurrent links are allowed.  The gene's innovation number is c, it is  *)
(* flagged recurrent iff col <= row, genes are created in cell order.      *)
(***************************************************************************)
EXTENDS Integers, Sequences, FiniteSets, FiniteSetsExt, SequencesExt, Functions, TLC

Total(p) == p.nin + p.nout + p.mh
FirstOutput(p) == Total(p) - p.nout + 1
MaxNode(p) == p.nin + p.n
Cells(p) == 0..(Total(p) * Total(p) - 1)
Col(p, c) == (c \div Total(p)) + 1
Row(p, c) == (c % Total(p)) + 1

\* the node list in the order the code appends it
NodeList(p) ==
    [i \in 1..p.nin |-> [id |-> i, role |-> IF i = p.nin THEN "B" ELSE "I"]]
    \o [i \in 1..p.n |-> [id |-> p.nin + i, role |-> "H"]]
    \o [i \in 1..p.nout |-> [id |-> FirstOutput(p) + i - 1, role |-> "O"]]
NodeIds(p) == { NodeList(p)[i].id : i \in DOMAIN NodeList(p) }
Exists(p, id) == id <= MaxNode(p) \/ id >= FirstOutput(p)        \* the test of the code

(* ---- per-cell definition ---- *)
IsRecurrent(p, c) == ~(Col(p, c) > Row(p, c))
Eligible(p, c) == /\ Col(p, c) > p.nin
                  /\ Exists(p, Col(p, c)) /\ Exists(p, Row(p, c))
                  /\ (Col(p, c) > Row(p, c) \/ p.rec)
GeneOf(p, c) == [inn |-> c, src |-> Row(p, c), dst |-> Col(p, c), rec |-> IsRecurrent(p, c)]
GenesDef(p, bits) == LET on == SetToSortSeq({ c \in bits : Eligible(p, c) }, <) IN [k \in DOMAIN on |-> GeneOf(p, on[k])]
CellTable(p) == [k \in 1..(Total(p) * Total(p)) |-> [c |-> k - 1, eligible |-> Eligible(p, k - 1), gene |-> GeneOf(p, k - 1)]]

(* ---- the double loop of the code: col outer, row inner, count running ---- *)
RECURSIVE Build(_, _, _, _, _, _)
Build(p, bits, col, row, count, genes) ==
    IF col > Total(p) THEN genes
    ELSE IF row > Total(p) THEN Build(p, bits, col + 1, 1, count, genes)
    ELSE LET take == /\ count \in bits /\ col > p.nin
                     /\ (col <= MaxNode(p) \/ col >= FirstOutput(p))
                     /\ (row <= MaxNode(p) \/ row >= FirstOutput(p))
             flagRec == ~(col > row)
             create == take /\ (~flagRec \/ p.rec)
         IN  Build(p, bits, col, row + 1, count + 1,
                   IF create THEN Append(genes, [inn |-> count, src |-> row, dst |-> col, rec |-> flagRec]) ELSE genes)
GenesBuilt(p, bits) == Build(p, bits, 1, 1, 0, <<>>)

(* ---- the number of draws the construction consumes: one uniform per cell, one roulette draw per hidden node when
   there are at least two activators, then per gene one integer (sign) and one uniform (magnitude) ---- *)
Draws(p, bits, nActivators) ==
    [cells |-> Total(p) * Total(p), hidden |-> IF nActivators >= 2 THEN p.n ELSE 0, per_gene |-> 2,
     genes |-> Len(GenesDef(p, bits))]

(* ---- laws ---- *)
Sensors(p) == 1..p.nin
ShapeLaws(p, bits) ==
    LET g == GenesBuilt(p, bits)  nodes == NodeList(p) IN
    /\ g = GenesDef(p, bits)                                              \* the loop is the per-cell definition
    /\ Len(nodes) = p.nin + p.n + p.nout
    /\ \A i \in DOMAIN nodes : (nodes[i].role = "B") <=> (i = p.nin)       \* the last sensor is the bias, the only one
    /\ \A i \in DOMAIN nodes : nodes[i].role \in {"I", "B"} <=> i <= p.nin
    /\ \A i \in DOMAIN nodes : nodes[i].role = "O" <=> i > p.nin + p.n    \* outputs at the end
    /\ \A i, j \in DOMAIN nodes : i < j => nodes[i].id < nodes[j].id      \* ascending, hence unique ids
    /\ \A k \in DOMAIN g : /\ g[k].dst \notin Sensors(p)                  \* no link into a sensor
                           /\ g[k].src \in NodeIds(p) /\ g[k].dst \in NodeIds(p)
                           /\ g[k].rec <=> g[k].src >= g[k].dst
                           /\ g[k].rec => p.rec                            \* recurrent links only when allowed
                           /\ g[k].inn \in bits                            \* a gene only where the bit is set
                           /\ g[k].inn = (g[k].dst - 1) * Total(p) + (g[k].src - 1)   \* numbered by matrix position
    /\ \A k \in 1..(Len(g) - 1) : g[k].inn < g[k + 1].inn                 \* ascending innovation numbers
    /\ ~p.rec => \A k \in DOMAIN g : g[k].src < g[k].dst                  \* forward-only genomes are acyclic by id order
    /\ \A k \in DOMAIN g : g[k].inn >= 1 /\ g[k].inn < Total(p) * Total(p)  \* cell 0 leads into sensor 1
=============================================================================

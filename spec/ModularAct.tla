----------------------------- MODULE ModularAct -----------------------------
(***************************************************************************)
(* X07 - activation of MODULAR networks: networks with control (MIMO)      *)
(* nodes that relay between network modules (Network.controlNodes, built   *)
(* by NewModularNetwork / Genesis from MIMOControlGenes), on both solvers. *)
(*                                                                         *)
(* A network record is the record of Solvers.tla (order, kind, act,        *)
(* inputs, outputs, inc) plus                                              *)
(*   ctrl : Seq([act, ins, outs])   Network.controlNodes in order; act one *)
(*          of "mul" / "max" / "min" (MultiplyModuleActivation,            *)
(*          MaxModuleActivation, MinModuleActivation); ins / outs are the  *)
(*          ids of the ORDINARY nodes at the control node's Incoming /     *)
(*          Outgoing links, in link order.  The control node of ctrl[i]    *)
(*          has the id CtrlId(i) and control links of weight CtrlW.        *)
(*                                                                         *)
(* Transcribed step by step (what the code does):                          *)
(*  STANDARD solver (network.go, common.go, nnode.go) - per ordinary node  *)
(*    a, c, l1, l2, on (Activation, ActivationsCount, lastActivation,      *)
(*    lastActivation2, isActive) and per control node its isActive flag    *)
(*    `con`: LoadSensors; one sweep of the ActivateSteps loop = sums, then *)
(*    ActivateNode of the active neurons, then ActivateModule of every     *)
(*    control node IN LIST ORDER (inputs = GetActiveOut of its input nodes *)
(*    as they are at that moment, result written with setActivation into   *)
(*    its single output node, which is marked active; a control node with  *)
(*    other than one output is an error); ActivateSteps / Activate /       *)
(*    ForwardSteps; RecursiveSteps (refused: MaxActivationDepthWithCap is  *)
(*    unsupported for modular networks); Relax (not implemented); Flush    *)
(*    (ordinary nodes only); ReadOutputs; NodeCount / LinkCount;           *)
(*    MaxActivationDepth (modular branch: gonum all-pairs shortest paths). *)
(*  FAST solver (fast_network.go, as built by Network.FastNetworkSolver) - *)
(*    arrays sig / pre (neuronSignals / neuronSignalsBeingProcessed) over  *)
(*    positions bias | input | output | hidden, module list over           *)
(*    positions: forwardStep = accumulate the connections into pre,        *)
(*    activate the neurons in pre, then every module IN LIST ORDER reads   *)
(*    pre of its inputs and overwrites pre of its output, then pre moves   *)
(*    into sig; ForwardSteps; Relax; RecursiveSteps (refused when there    *)
(*    are modules); Flush; LoadSensors; ReadOutputs; NodeCount/LinkCount.  *)
(*                                                                         *)
(* The DEFINITION (MTopoEval): a sensor has its input value (bias: one); a *)
(* node written by a control node has the module function (product / max / *)
(* min) of the values of that control node's inputs - the LAST control     *)
(* node in list order that writes it wins, and the node's own links and    *)
(* activation function play no part (in the library's own modular test     *)
(* network the module output node is a NullActivation relay); every other  *)
(* neuron is activation(sum of weight * value of source).                  *)
(*                                                                         *)
(* All arithmetic is exact: integer inputs and weights, integer-closed     *)
(* activations (Solvers!Act), integer module functions (P5).               *)
(***************************************************************************)
EXTENDS Solvers, FiniteSetsExt

CtrlId(i) == 100 + i
CtrlW == 1

RECURSIVE ProdSeq(_, _), MaxSeq(_, _), MinSeq(_, _)
ProdSeq(xs, i) == IF i > Len(xs) THEN 1 ELSE xs[i] * ProdSeq(xs, i + 1)
MaxSeq(xs, i) == IF i = Len(xs) THEN xs[i] ELSE LET r == MaxSeq(xs, i + 1) IN IF xs[i] > r THEN xs[i] ELSE r
MinSeq(xs, i) == IF i = Len(xs) THEN xs[i] ELSE LET r == MinSeq(xs, i + 1) IN IF xs[i] < r THEN xs[i] ELSE r
\* neat/math/activations.go: multiplyModule, maxModule, minModule on a NON-EMPTY list of integers (one result)
ModAct(t, xs) == CASE t = "mul" -> ProdSeq(xs, 1) [] t = "max" -> MaxSeq(xs, 1) [] t = "min" -> MinSeq(xs, 1)
ModActNames == {"mul", "max", "min"}

CtrlIdx(net) == DOMAIN net.ctrl
\* the control nodes that write node n, and the one whose value survives a sweep / step
Writers(net, n) == { i \in CtrlIdx(net) : n \in SeqRange(net.ctrl[i].outs) }
IsModOut(net, n) == Writers(net, n) # {}
LastWriter(net, n) == CHOOSE i \in Writers(net, n) : \A j \in Writers(net, n) : j <= i

(* ============================ the definition =========================== *)
RECURSIVE MVal(_, _, _), MValSum(_, _, _, _)
MVal(net, v, n) ==
    IF net.kind[n] = "I" THEN v[InputPos(net, net.inputs, n)]
    ELSE IF net.kind[n] = "B" THEN 1
    ELSE IF IsModOut(net, n)
         THEN LET m == net.ctrl[LastWriter(net, n)]
              IN  ModAct(m.act, [j \in DOMAIN m.ins |-> MVal(net, v, m.ins[j])])
         ELSE Act(net.act[n], MValSum(net, v, net.inc[n], 1))
MValSum(net, v, ls, i) ==
    IF i > Len(ls) THEN 0 ELSE ls[i].w * MVal(net, v, ls[i].src) + MValSum(net, v, ls, i + 1)
MTopoEval(net, v) == [i \in DOMAIN net.outputs |-> MVal(net, v, net.outputs[i])]

(* --------------- graphs: edges are tuples <<from, to>> or <<from, to, weight>> --------------- *)
Succ(E, u) == { e[2] : e \in { e \in E : e[1] = u } }
RECURSIVE ReachFrom(_, _, _)
ReachFrom(E, frontier, seen) ==
    LET nxt == (UNION { Succ(E, u) : u \in frontier }) \ seen
    IN  IF nxt = {} THEN seen ELSE ReachFrom(E, nxt, seen \cup nxt)
\* nodes reachable from u by one or more edges
Desc(E, u) == ReachFrom(E, {u}, {})
AcyclicE(E, V) == \A u \in V : u \notin Desc(E, u)

\* the EFFECTIVE sources of a neuron: what its settled value depends on
EffSrc(net, n) ==
    IF IsModOut(net, n) THEN SeqRange(net.ctrl[LastWriter(net, n)].ins)
    ELSE { net.inc[n][i].src : i \in DOMAIN net.inc[n] }
EffEdges(net) == UNION { { <<s, n>> : s \in EffSrc(net, n) } : n \in NeuronSet(net) }
\* the graph the library itself presents (network_graph.go): ordinary links with their weights, and every control node
\* as a vertex between its inputs and its outputs
OrdEdges(net) == UNION { { <<net.inc[n][i].src, n, net.inc[n][i].w>> : i \in DOMAIN net.inc[n] } : n \in NeuronSet(net) }
CtrlEdges(net) ==
    UNION { { <<net.ctrl[i].ins[j], CtrlId(i), CtrlW>> : j \in DOMAIN net.ctrl[i].ins }
            \cup { <<CtrlId(i), net.ctrl[i].outs[j], CtrlW>> : j \in DOMAIN net.ctrl[i].outs } : i \in CtrlIdx(net) }
FullEdges(net) == OrdEdges(net) \cup CtrlEdges(net)
FullVerts(net) == NodeSet(net) \cup { CtrlId(i) : i \in CtrlIdx(net) }
FullAcyclic(net) == AcyclicE(FullEdges(net), FullVerts(net))

(* ------------------ the classes of networks the laws quantify over ------------------ *)
NoTd(net) == \A n \in NeuronSet(net) : \A i \in DOMAIN net.inc[n] : ~net.inc[n][i].td
\* every control node has one output (the module functions return one value) and at least one input
Arity1(net) == \A i \in CtrlIdx(net) : Len(net.ctrl[i].outs) = 1 /\ Len(net.ctrl[i].ins) >= 1
ArityLe1(net) == \A i \in CtrlIdx(net) : Len(net.ctrl[i].outs) <= 1 /\ Len(net.ctrl[i].ins) >= 1
EffAcyclic(net) == AcyclicE(EffEdges(net), NodeSet(net))
\* a control node reads only what control nodes EARLIER in the list have written
WellOrdered(net) ==
    \A i \in CtrlIdx(net) : \A j \in DOMAIN net.ctrl[i].ins : \A k \in Writers(net, net.ctrl[i].ins[j]) : k < i
AllReach(net) == \A n \in NeuronSet(net) : \E s \in SensorSet(net) : n \in Desc(EffEdges(net), s)
\* no control node is fed directly by a sensor
NoSensorFed(net) == \A i \in CtrlIdx(net) : \A j \in DOMAIN net.ctrl[i].ins : ~IsSensor(net, net.ctrl[i].ins[j])
Defined(net) == ArityLe1(net) /\ EffAcyclic(net)                      \* MTopoEval is well-founded
StdClass(net)  == NoTd(net) /\ Arity1(net) /\ EffAcyclic(net) /\ WellOrdered(net) /\ AllReach(net)
FastClass(net) == ArityLe1(net) /\ EffAcyclic(net) /\ WellOrdered(net) /\ NoSensorFed(net)
\* number of sweeps / steps after which the value of a node has settled: a module adds no delay, but computes for the
\* first time at the end of the first sweep
RECURSIVE Lvl(_, _)
Lvl(net, n) ==
    IF IsSensor(net, n) THEN 0
    ELSE LET S == EffSrc(net, n) IN
         IF IsModOut(net, n) THEN Max({1} \cup { Lvl(net, s) : s \in S })
         ELSE IF S = {} THEN 1 ELSE 1 + Max({ Lvl(net, s) : s \in S })
Need(net) == Max({1} \cup { Lvl(net, net.outputs[i]) : i \in DOMAIN net.outputs })

(* ==================== the standard solver (Network) ==================== *)
\* S = [st : per ordinary node as in Solvers.tla, con : isActive of the control nodes]
GetActiveOut(s) == IF s.c > 0 THEN s.a ELSE 0
GetActiveOutTd(s) == IF s.c > 1 THEN s.l1 ELSE 0
MStdFresh(net) == [st |-> StdFresh(net), con |-> [i \in CtrlIdx(net) |-> FALSE]]
MStdLoad(net, S, v) == [S EXCEPT !.st = StdLoad(net, S.st, v)]
\* third loop of a sweep: `for _, cn := range n.controlNodes { cn.isActive = false; ActivateModule(cn); cn.isActive = true }`
\* common.go ActivateModule: inputs, ActivateModuleByType, arity test, setActivation + isActive of the output node
RECURSIVE MStdModules(_, _, _, _)
MStdModules(net, st, con, i) ==
    IF i > Len(net.ctrl) THEN [st |-> st, con |-> con, err |-> FALSE]
    ELSE LET m  == net.ctrl[i]
             xs == [j \in DOMAIN m.ins |-> GetActiveOut(st[m.ins[j]])]
             c0 == [con EXCEPT ![i] = FALSE]
         IN  IF Len(m.outs) # 1 THEN [st |-> st, con |-> c0, err |-> TRUE]
             ELSE LET o  == m.outs[1]
                      s1 == [st EXCEPT ![o] = [a |-> ModAct(m.act, xs), c |-> st[o].c + 1,
                                               l1 |-> st[o].a, l2 |-> st[o].l1, on |-> TRUE]]
                  IN  MStdModules(net, TLCEval(s1), [c0 EXCEPT ![i] = TRUE], i + 1)
MSweep(net, S) == MStdModules(net, TLCEval(Sweep(net, S.st)), S.con, 1)
\* results are [st, con, err, n]: err one of "" / "zero" / "exceeded" / "arity" / "modular" / "notimpl"; n = sweeps run
Res(st, con, err, n) == [st |-> st, con |-> con, err |-> err, n |-> n]
RECURSIVE MActLoop(_, _, _, _, _)
MActLoop(net, S, maxSteps, oneTime, n) ==
    IF OutputIsOff(net, S.st) \/ ~oneTime
    THEN IF n >= maxSteps THEN Res(S.st, S.con, "exceeded", n)
         ELSE LET r == TLCEval(MSweep(net, S))
              IN  IF r.err THEN Res(r.st, r.con, "arity", n + 1)
                  ELSE MActLoop(net, [st |-> r.st, con |-> r.con], maxSteps, TRUE, n + 1)
    ELSE Res(S.st, S.con, "", n)
MStdActivateSteps(net, S, maxSteps) ==
    IF maxSteps = 0 THEN Res(S.st, S.con, "zero", 0) ELSE MActLoop(net, S, maxSteps, FALSE, 0)
MStdActivate(net, S) == MStdActivateSteps(net, S, 20)
RECURSIVE MStdFwdLoop(_, _, _, _, _)
MStdFwdLoop(net, S, steps, i, n) ==
    IF i >= steps THEN Res(S.st, S.con, "", n)
    ELSE LET r == TLCEval(MStdActivateSteps(net, S, steps))
         IN  IF r.err # "" THEN Res(r.st, r.con, r.err, n + r.n)
             ELSE MStdFwdLoop(net, [st |-> r.st, con |-> r.con], steps, i + 1, n + r.n)
MStdForwardSteps(net, S, steps) ==
    IF steps = 0 THEN Res(S.st, S.con, "zero", 0) ELSE MStdFwdLoop(net, S, steps, 0, 0)
\* Network.RecursiveSteps = ForwardSteps(MaxActivationDepthWithCap(0)), and the latter refuses modular networks
MStdRecursiveSteps(net, S) == Res(S.st, S.con, "modular", 0)                    \* Len(net.ctrl) > 0 throughout this module
MStdRelax(net, S) == Res(S.st, S.con, "notimpl", 0)
\* Network.Flush walks allNodes, which does not hold the control nodes
MStdFlush(net, S) == [st |-> StdFresh(net), con |-> S.con]
MStdOutputs(net, S) == StdOutputs(net, S.st)
MStdNodeCount(net) == Len(net.order) + Len(net.ctrl)
RECURSIVE SumLen(_, _)
SumLen(f, s) == IF s = <<>> THEN 0 ELSE Len(f[Head(s)]) + SumLen(f, Tail(s))
RECURSIVE CtrlLinks(_, _)
CtrlLinks(ms, i) == IF i > Len(ms) THEN 0 ELSE Len(ms[i].ins) + Len(ms[i].outs) + CtrlLinks(ms, i + 1)
MStdLinkCount(net) == SumLen(net.inc, net.order) + CtrlLinks(net.ctrl, 1)

(* ---- Network.MaxActivationDepth with control nodes (maxActivationDepthModular), acyclic graphs only ---- *)
\* path.JohnsonAllPaths(n) over FullEdges with the link weights as costs; then for every (input incl. bias, output)
\* pair AllBetween = ALL paths of MINIMAL TOTAL WEIGHT, and the result is the largest number of edges of such a path.
\* (a) as the all-pairs structure is used: distances, then hops along tight edges
RECURSIVE Dist(_, _, _)
Dist(E, u, v) ==      \* [ok, d]: weight of the lightest path u ~> v
    IF u = v THEN [ok |-> TRUE, d |-> 0]
    ELSE LET cands == { Dist(E, u, e[1]).d + e[3] : e \in { e \in E : e[2] = v /\ Dist(E, u, e[1]).ok } }
         IN  IF cands = {} THEN [ok |-> FALSE, d |-> 0] ELSE [ok |-> TRUE, d |-> Min(cands)]
RECURSIVE TightHops(_, _, _)
TightHops(E, u, v) ==
    IF u = v THEN 0
    ELSE 1 + Max({ TightHops(E, u, e[1]) :
                     e \in { e \in E : /\ e[2] = v /\ Dist(E, u, e[1]).ok
                                       /\ Dist(E, u, e[1]).d + e[3] = Dist(E, u, v).d } })
MDepthCode(net) ==
    LET E == FullEdges(net) IN
    Max({0} \cup { TightHops(E, net.inputs[p[1]], net.outputs[p[2]]) :
                     p \in { q \in (DOMAIN net.inputs) \X (DOMAIN net.outputs) :
                                Dist(E, net.inputs[q[1]], net.outputs[q[2]]).ok } })
\* (b) the same thing said with explicit path sets
RECURSIVE PathsTo(_, _, _)
PathsTo(E, u, v) ==
    IF u = v THEN {<<v>>}
    ELSE UNION { { Append(p, v) : p \in PathsTo(E, u, e[1]) } : e \in { e \in E : e[2] = v } }
EdgeW(E, x, y) == (CHOOSE e \in E : e[1] = x /\ e[2] = y)[3]
RECURSIVE PathW(_, _, _)
PathW(E, p, i) == IF i >= Len(p) THEN 0 ELSE EdgeW(E, p[i], p[i + 1]) + PathW(E, p, i + 1)
MinWeightHops(E, u, v) ==
    LET P == PathsTo(E, u, v) IN
    IF P = {} THEN 0
    ELSE LET mw == Min({ PathW(E, p, 1) : p \in P })
         IN  Max({ Len(p) - 1 : p \in { p \in P : PathW(E, p, 1) = mw } })
MDepthDef(net) ==
    LET E == FullEdges(net) IN
    Max({0} \cup { MinWeightHops(E, net.inputs[i], net.outputs[o]) : i \in DOMAIN net.inputs, o \in DOMAIN net.outputs })
\* the longest path in the same graph (what "the maximum number of neuron layers between an output and an input" suggests)
RECURSIVE LongestHops(_, _)
LongestHops(E, v) == LET P == { e \in E : e[2] = v } IN IF P = {} THEN 0 ELSE 1 + Max({ LongestHops(E, e[1]) : e \in P })
MLongest(net) == Max({0} \cup { LongestHops(FullEdges(net), net.outputs[o]) : o \in DOMAIN net.outputs })

(* ============== the fast solver (FastModularNetworkSolver) ============= *)
\* fs = [sig, pre]; the static part is Solvers!FastModel(net) (which never looks at ctrl) plus the module list
MFastModules(net, fm) ==
    LET pos(x) == CHOOSE p \in DOMAIN fm.ids : fm.ids[p] = x
    IN  [i \in DOMAIN net.ctrl |-> [act |-> net.ctrl[i].act,
                                    ins |-> [j \in DOMAIN net.ctrl[i].ins |-> pos(net.ctrl[i].ins[j])],
                                    outs |-> [j \in DOMAIN net.ctrl[i].outs |-> pos(net.ctrl[i].outs[j])]]]
MFastFresh(fm) == [sig |-> [p \in 1..fm.n |-> IF p <= fm.nb THEN 1 ELSE 0], pre |-> [p \in 1..fm.n |-> 0]]
\* third loop of forwardStep.  ActivateModuleByType returns ONE value; `outputs[i]` for a second output index is an
\* index-out-of-range panic, after the first output has been written
RECURSIVE MPreModules(_, _, _)
MPreModules(mods, pre, i) ==
    IF i > Len(mods) THEN [pre |-> pre, panic |-> FALSE]
    ELSE LET m  == mods[i]
             xs == [j \in DOMAIN m.ins |-> pre[m.ins[j]]]
         IN  IF Len(m.outs) = 0 THEN MPreModules(mods, pre, i + 1)
             ELSE LET p1 == TLCEval([pre EXCEPT ![m.outs[1]] = ModAct(m.act, xs)])
                  IN  IF Len(m.outs) > 1 THEN [pre |-> p1, panic |-> TRUE] ELSE MPreModules(mods, p1, i + 1)
\* forwardStep; check = (maxAllowedSignalDelta > 0), a delta below one making "changed by more than delta" mean "changed"
MFastStep(fm, mods, fs, check) ==
    LET acc == TLCEval([p \in 1..fm.n |-> fs.pre[p] + ConnSum(fs, fm.conns, p, 1)])
        new == TLCEval([p \in 1..fm.n |-> IF p > fm.ns THEN Act(fm.act[p], acc[p] + FoldedBias(fm, p)) ELSE acc[p]])
        r   == TLCEval(MPreModules(mods, new, 1))
        aft == r.pre
    IN  IF r.panic THEN [fs |-> [fs EXCEPT !.pre = aft], relaxed |-> FALSE, panic |-> TRUE]
        ELSE [fs |-> [sig |-> [p \in 1..fm.n |-> IF p > fm.ns THEN aft[p] ELSE fs.sig[p]],
                      pre |-> [p \in 1..fm.n |-> IF p > fm.ns THEN 0 ELSE aft[p]]],
              relaxed |-> ~check \/ \A p \in (fm.ns + 1)..fm.n : fs.sig[p] = aft[p],
              panic |-> FALSE]
\* results are [fs, ok, err, n, fix]: ok = the returned flag, err one of "" / "panic" / "modular", n = steps completed,
\* fix = the call stopped because a step changed nothing
FRes(fs, ok, err, n, fix) == [fs |-> fs, ok |-> ok, err |-> err, n |-> n, fix |-> fix]
RECURSIVE MFastFwdLoop(_, _, _, _, _)
MFastFwdLoop(fm, mods, fs, steps, n) ==
    IF n >= steps THEN FRes(fs, steps > 0, "", n, FALSE)
    ELSE LET r == TLCEval(MFastStep(fm, mods, fs, FALSE))
         IN  IF r.panic THEN FRes(r.fs, FALSE, "panic", n, FALSE) ELSE MFastFwdLoop(fm, mods, r.fs, steps, n + 1)
MFastForwardSteps(fm, mods, fs, steps) == MFastFwdLoop(fm, mods, fs, steps, 0)
RECURSIVE MFastRelaxLoop(_, _, _, _, _, _)
MFastRelaxLoop(fm, mods, fs, maxSteps, check, n) ==
    IF n >= maxSteps THEN FRes(fs, FALSE, "", n, FALSE)
    ELSE LET r == TLCEval(MFastStep(fm, mods, fs, check))
         IN  IF r.panic THEN FRes(r.fs, FALSE, "panic", n, FALSE)
             ELSE IF r.relaxed THEN FRes(r.fs, TRUE, "", n + 1, check)
             ELSE MFastRelaxLoop(fm, mods, r.fs, maxSteps, check, n + 1)
MFastRelax(fm, mods, fs, maxSteps, check) == MFastRelaxLoop(fm, mods, fs, maxSteps, check, 0)
MFastRecursiveSteps(fm, mods, fs) == FRes(fs, FALSE, "modular", 0, FALSE)       \* Len(mods) > 0 throughout this module
MFastLoad(fm, fs, v) == FastLoad(fm, fs, v)
MFastFlush(fm, fs) == FastFlush(fm, fs)
MFastOutputs(fm, fs) == [i \in 1..fm.no |-> fs.sig[fm.ns + i]]
MFastNodeCount(fm, mods) == fm.n + Len(mods)
MFastLinkCount(fm, mods) ==
    Len(fm.conns) + (IF fm.nb > 0 THEN Cardinality({ p \in 1..fm.n : fm.bias[p] # 0 }) ELSE 0) + CtrlLinks(mods, 1)
\* the two LinkCount conventions coincide unless bias links were merged or cancelled while folding
PlainBias(net) ==
    \A n \in NeuronSet(net) :
        /\ Cardinality({ i \in DOMAIN net.inc[n] : net.kind[net.inc[n][i].src] = "B" }) <= 1
        /\ \A i \in DOMAIN net.inc[n] : net.inc[n][i].w # 0

(* ===================== JSON view handed to the replayer ================ *)
MNetJson(nt) ==
    [nodes |-> [i \in DOMAIN nt.order |-> [id |-> nt.order[i], kind |-> nt.kind[nt.order[i]], act |-> nt.act[nt.order[i]]]],
     inputs |-> nt.inputs, outputs |-> nt.outputs,
     links |-> LinksOf(nt, SelectSeq(nt.order, LAMBDA n : IsNeuron(nt, n))),
     ctrl |-> nt.ctrl]
B01(b) == IF b THEN 1 ELSE 0
\* per ordinary node in allNodes order: <<a, c, l1, l2, on>>
MStdJson(net, S) == [i \in DOMAIN net.order |->
                        LET s == S.st[net.order[i]] IN <<s.a, s.c, s.l1, s.l2, B01(s.on)>>]
MConJson(S) == [i \in DOMAIN S.con |-> B01(S.con[i])]
MStdSmall(S, lim) == StdSmall(S.st, lim) /\ \A n \in DOMAIN S.st : AbsI(S.st[n].l2) <= lim
MFastSmall(fs, lim) == \A p \in DOMAIN fs.sig : AbsI(fs.sig[p]) <= lim /\ AbsI(fs.pre[p]) <= lim
=============================================================================

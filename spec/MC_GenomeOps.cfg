SPECIFICATION Spec
CONSTANTS
  MaxOps = 3
  MaxPool = 4
  MaxGenes = 6
  MaxNodes = 6
  MaxGens = 1
  Starts = {1, 2}
INVARIANTS AllWellFormed AllRetain OneMeaningPerNumber OneRolePerNode CountersAhead RegistryFunctional StepStatements
CHECK_DEADLOCK FALSE

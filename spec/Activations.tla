----------------------------- MODULE Activations -----------------------------
(***************************************************************************)
(* C18 - activation functions match their definitions, ranges and names.   *)
(*                                                                         *)
(* Three parts (TLC has no floating point; DESIGN.md 4.2 P4/P5):           *)
(*  1. the registry of NodeActivatorsFactory (neat/math/activations.go) as *)
(*     two finite maps type->name, name->type plus the scalar / module     *)
(*     function tables, built by the Register / RegisterModule steps in    *)
(*     the order of NewNodeActivatorsFactory, and the four lookups with    *)
(*     their error results; a registry belongs to ONE factory (2b: heap of *)
(*     map cells, Register on one factory leaves all others unchanged);    *)
(*  2. the exactly representable activations in exact dyadic arithmetic    *)
(*     (a number is [n, e] = n * 2^e): the two approximation sigmoids with *)
(*     their breakpoints, clipped linear, linear, absolute, step, sign,    *)
(*     null; the module reducers (product, maximum, minimum) as the folds  *)
(*     the code runs and as their definitions;                             *)
(*  3. float64 values as <<sign, c1, c2, c3>> (63 magnitude bits in three  *)
(*     21-bit chunks: order of magnitudes = lexicographic order), the      *)
(*     bit-exact activations on that encoding, documented ranges and the   *)
(*     monotone family - used by Trace_Activations to validate outputs of  *)
(*     the real functions against the generated interval tables ActTables. *)
(***************************************************************************)
EXTENDS Integers, Sequences, FiniteSets

(* ======================================================================= *)
(* 1. Registry                                                             *)
(* ======================================================================= *)
\* NewNodeActivatorsFactory: Register / RegisterModule calls in program order; type codes are the iota constants
Registrations == <<
  [type |-> 1,  name |-> "SigmoidPlainActivation",                  kind |-> "scalar"],
  [type |-> 2,  name |-> "SigmoidReducedActivation",                kind |-> "scalar"],
  [type |-> 4,  name |-> "SigmoidSteepenedActivation",              kind |-> "scalar"],
  [type |-> 3,  name |-> "SigmoidBipolarActivation",                kind |-> "scalar"],
  [type |-> 5,  name |-> "SigmoidApproximationActivation",          kind |-> "scalar"],
  [type |-> 6,  name |-> "SigmoidSteepenedApproximationActivation", kind |-> "scalar"],
  [type |-> 7,  name |-> "SigmoidInverseAbsoluteActivation",        kind |-> "scalar"],
  [type |-> 8,  name |-> "SigmoidLeftShiftedActivation",            kind |-> "scalar"],
  [type |-> 9,  name |-> "SigmoidLeftShiftedSteepenedActivation",   kind |-> "scalar"],
  [type |-> 10, name |-> "SigmoidRightShiftedSteepenedActivation",  kind |-> "scalar"],
  [type |-> 11, name |-> "TanhActivation",                          kind |-> "scalar"],
  [type |-> 12, name |-> "GaussianBipolarActivation",               kind |-> "scalar"],
  [type |-> 13, name |-> "GaussianActivation",                      kind |-> "scalar"],
  [type |-> 14, name |-> "LinearActivation",                        kind |-> "scalar"],
  [type |-> 15, name |-> "LinearAbsActivation",                     kind |-> "scalar"],
  [type |-> 16, name |-> "LinearClippedActivation",                 kind |-> "scalar"],
  [type |-> 17, name |-> "NullActivation",                          kind |-> "scalar"],
  [type |-> 18, name |-> "SignActivation",                          kind |-> "scalar"],
  [type |-> 19, name |-> "SineActivation",                          kind |-> "scalar"],
  [type |-> 20, name |-> "StepActivation",                          kind |-> "scalar"],
  [type |-> 21, name |-> "MultiplyModuleActivation",                kind |-> "module"],
  [type |-> 22, name |-> "MaxModuleActivation",                     kind |-> "module"],
  [type |-> 23, name |-> "MinModuleActivation",                     kind |-> "module"] >>

\* registry state = the four maps of a factory: activators (act = its domain, simpl : type -> the function stored),
\* moduleActivators (mod, mimpl), forward (fwd : type -> name) and inverse (inv : name -> type).  A function is named
\* by a tag: a built-in by the name it is registered under, a user function by the optional field g.impl.
EmptyReg == [act |-> {}, mod |-> {}, fwd |-> <<>>, inv |-> <<>>, simpl |-> <<>>, mimpl |-> <<>>]
Put(f, k, v) == [x \in (DOMAIN f) \cup {k} |-> IF x = k THEN v ELSE f[x]]
ImplOf(g) == IF "impl" \in DOMAIN g THEN g.impl ELSE g.name
\* Register (kind "scalar") and RegisterModule (kind "module"): store the function, overwrite both name maps
Register(r, g) ==
    [act |-> IF g.kind = "scalar" THEN r.act \cup {g.type} ELSE r.act,
     mod |-> IF g.kind = "module" THEN r.mod \cup {g.type} ELSE r.mod,
     fwd |-> Put(r.fwd, g.type, g.name),
     inv |-> Put(r.inv, g.name, g.type),
     simpl |-> IF g.kind = "scalar" THEN Put(r.simpl, g.type, ImplOf(g)) ELSE r.simpl,
     mimpl |-> IF g.kind = "module" THEN Put(r.mimpl, g.type, ImplOf(g)) ELSE r.mimpl]
RECURSIVE RegFold(_, _, _)
RegFold(r, gs, n) == IF n = 0 THEN r ELSE Register(RegFold(r, gs, n - 1), gs[n])
RegAfter(n) == RegFold(EmptyReg, Registrations, n)
FinalReg == RegAfter(Len(Registrations))

\* the four lookups; an unknown key is an error, never a value
ActivateByTypeOk(r, t)       == t \in r.act
ActivateModuleByTypeOk(r, t) == t \in r.mod
NameFromType(r, t) == IF t \in DOMAIN r.fwd THEN [ok |-> TRUE, name |-> r.fwd[t]] ELSE [ok |-> FALSE, name |-> ""]
TypeFromName(r, n) == IF n \in DOMAIN r.inv THEN [ok |-> TRUE, type |-> r.inv[n]] ELSE [ok |-> FALSE, type |-> 0]

\* C18: names and type codes map one-to-one in both directions
OneToOne(r) ==
    /\ \A t \in DOMAIN r.fwd : r.fwd[t] \in DOMAIN r.inv /\ r.inv[r.fwd[t]] = t
    /\ \A n \in DOMAIN r.inv : r.inv[n] \in DOMAIN r.fwd /\ r.fwd[r.inv[n]] = n
\* every named type has exactly one kind of function behind it
KindsPartition(r) == r.act \cap r.mod = {} /\ r.act \cup r.mod = DOMAIN r.fwd

RegisteredTypes == { Registrations[i].type : i \in DOMAIN Registrations }
RegisteredNames == { Registrations[i].name : i \in DOMAIN Registrations }
ScalarNames == { Registrations[i].name : i \in { j \in DOMAIN Registrations : Registrations[j].kind = "scalar" } }
ModuleNames == { Registrations[i].name : i \in { j \in DOMAIN Registrations : Registrations[j].kind = "module" } }
TypeOfName(n) == FinalReg.inv[n]

\* design-level law of the Register step: a registration sequence with pairwise distinct types and pairwise
\* distinct names yields a one-to-one registry, and a repeated name or type breaks it (so OneToOne is not vacuous)
Injective(gs, f(_)) == \A i, j \in DOMAIN gs : i # j => f(gs[i]) # f(gs[j])
RegType(g) == g.type
RegName(g) == g.name
RegSeqs(TT, NN, maxLen) == UNION { [1..n -> [type : TT, name : NN, kind : {"scalar", "module"}]] : n \in 0..maxLen }
RegisterLaw(TT, NN, maxLen) ==
    /\ \A gs \in RegSeqs(TT, NN, maxLen) :
          (Injective(gs, RegType) /\ Injective(gs, RegName)) => OneToOne(RegFold(EmptyReg, gs, Len(gs)))
    /\ \E gs \in RegSeqs(TT, NN, maxLen) : Injective(gs, RegType) /\ ~OneToOne(RegFold(EmptyReg, gs, Len(gs)))
    /\ \E gs \in RegSeqs(TT, NN, maxLen) : Injective(gs, RegName) /\ ~OneToOne(RegFold(EmptyReg, gs, Len(gs)))

(* ======================================================================= *)
(* 2. Exact dyadic arithmetic                                              *)
(* ======================================================================= *)
RECURSIVE Pow2(_)
Pow2(k) == IF k = 0 THEN 1 ELSE 2 * Pow2(k - 1)          \* k in 0..30
Sgn(n)  == IF n > 0 THEN 1 ELSE IF n < 0 THEN -1 ELSE 0
AbsI(n) == IF n < 0 THEN -n ELSE n
D(n, e) == [n |-> n, e |-> e]
DInt(c)  == D(c, 0)

\* an * 2^ae <= bn * 2^be for 0 < an, bn < 2^30 without leaving 32-bit integers
MagLe(an, ae, bn, be) ==
    LET d == ae - be IN
    IF d = 0 THEN an <= bn
    ELSE IF d > 0 THEN (IF d >= 31 THEN FALSE ELSE an <= bn \div Pow2(d))
    ELSE (IF -d >= 31 THEN TRUE ELSE (an + Pow2(-d) - 1) \div Pow2(-d) <= bn)
DLe(a, b) ==
    LET sa == Sgn(a.n)  sb == Sgn(b.n) IN
    IF sa # sb THEN sa < sb
    ELSE IF sa = 0 THEN TRUE
    ELSE IF sa > 0 THEN MagLe(a.n, a.e, b.n, b.e) ELSE MagLe(-b.n, b.e, -a.n, a.e)
DLt(a, b) == ~DLe(b, a)
DEq(a, b) == DLe(a, b) /\ DLe(b, a)

\* x = m * 2^-g with g >= 0 (integers are given g = 0); only used where |x| <= 8
GridExp(x) == IF x.e >= 0 THEN 0 ELSE -x.e
GridNum(x) == IF x.e >= 0 THEN x.n * Pow2(x.e) ELSE x.n

\* The approximation sigmoids: four branches separated by the breakpoints -c, 0, c; the parabolas are
\* (x+c)^2 / 2^sh and 1 - (x-c)^2 / 2^sh.  approximationSigmoid: c = 4, 1/32 = 2^-5; approximationSteepenedSigmoid: c = 1, 1/2.
ApproxBranchOf(x, c) == IF DLt(x, DInt(-c)) THEN 1 ELSE IF DLt(x, DInt(0)) THEN 2 ELSE IF DLt(x, DInt(c)) THEN 3 ELSE 4
ApproxBranch(b, x, c, sh) ==
    LET g == GridExp(x)  m == GridNum(x)  cc == c * Pow2(g) IN
    CASE b = 1 -> DInt(0)
      [] b = 2 -> D((m + cc) * (m + cc), -(2 * g) - sh)
      [] b = 3 -> D(Pow2(2 * g + sh) - (m - cc) * (m - cc), -(2 * g) - sh)
      [] b = 4 -> DInt(1)
ApproxSigmoid(x, c, sh) == ApproxBranch(ApproxBranchOf(x, c), x, c, sh)
\* the quadratic branches need the square to fit: grid no finer than 2^-12
ApproxExact(x, c) == (DLe(DInt(-c), x) /\ DLt(x, DInt(c))) => x.e >= -12
\* no jump at a breakpoint: the two formulas that meet there agree
ApproxContinuous(c, sh) ==
    /\ DEq(ApproxBranch(1, DInt(-c), c, sh), ApproxBranch(2, DInt(-c), c, sh))
    /\ DEq(ApproxBranch(2, DInt(0), c, sh), ApproxBranch(3, DInt(0), c, sh))
    /\ DEq(ApproxBranch(3, DInt(c), c, sh), ApproxBranch(4, DInt(c), c, sh))

ClippedLinear(x) == IF DLt(x, DInt(-1)) THEN DInt(-1) ELSE IF DLt(DInt(1), x) THEN DInt(1) ELSE x
Linear(x)   == x
AbsLinear(x) == D(AbsI(x.n), x.e)
NullF(x)    == DInt(0)
SignF(x)    == DInt(Sgn(x.n))
StepF(x)    == IF x.n < 0 THEN DInt(0) ELSE DInt(1)          \* "x<0 ? 0.0 : 1.0"

ExactNames == {"SigmoidApproximationActivation", "SigmoidSteepenedApproximationActivation", "LinearClippedActivation",
               "LinearActivation", "LinearAbsActivation", "NullActivation", "SignActivation", "StepActivation"}
ExactApply(name, x) ==
    CASE name = "SigmoidApproximationActivation"          -> ApproxSigmoid(x, 4, 5)
      [] name = "SigmoidSteepenedApproximationActivation" -> ApproxSigmoid(x, 1, 1)
      [] name = "LinearClippedActivation"                 -> ClippedLinear(x)
      [] name = "LinearActivation"                        -> Linear(x)
      [] name = "LinearAbsActivation"                     -> AbsLinear(x)
      [] name = "NullActivation"                          -> NullF(x)
      [] name = "SignActivation"                          -> SignF(x)
      [] name = "StepActivation"                          -> StepF(x)
ExactDomain(name, x) ==
    CASE name = "SigmoidApproximationActivation"          -> ApproxExact(x, 4)
      [] name = "SigmoidSteepenedApproximationActivation" -> ApproxExact(x, 1)
      [] OTHER -> TRUE

\* documented / definitional ranges as <<lo, hi>> in integers; Unb = unbounded on that side
Unb == 99
DocRange == [
  SigmoidPlainActivation |-> <<0, 1>>, SigmoidReducedActivation |-> <<0, 1>>, SigmoidSteepenedActivation |-> <<0, 1>>,
  SigmoidBipolarActivation |-> <<-1, 1>>,                                    \* "yrange->[-1,1]"
  SigmoidApproximationActivation |-> <<0, 1>>, SigmoidSteepenedApproximationActivation |-> <<0, 1>>,
  SigmoidInverseAbsoluteActivation |-> <<0, 1>>, SigmoidLeftShiftedActivation |-> <<0, 1>>,
  SigmoidLeftShiftedSteepenedActivation |-> <<0, 1>>, SigmoidRightShiftedSteepenedActivation |-> <<0, 1>>,
  TanhActivation |-> <<-1, 1>>,
  GaussianBipolarActivation |-> <<-1, 1>>,                                   \* "yrange->[-1,1]"
  GaussianActivation |-> <<0, 1>>,                                           \* "yrange->[0,1]"
  LinearActivation |-> <<Unb, Unb>>, LinearAbsActivation |-> <<0, Unb>>,
  LinearClippedActivation |-> <<-1, 1>>,                                     \* "clipped at -1 and +1"
  NullActivation |-> <<0, 0>>, SignActivation |-> <<-1, 1>>, SineActivation |-> <<-1, 1>>, StepActivation |-> <<0, 1>> ]
InRangeD(name, y) ==
    /\ DocRange[name][1] # Unb => DLe(DInt(DocRange[name][1]), y)
    /\ DocRange[name][2] # Unb => DLe(y, DInt(DocRange[name][2]))

\* C18: "the sigmoid family, tanh, linear, clipped-linear and step functions are monotonically non-decreasing"
MonotoneNames == {"SigmoidPlainActivation", "SigmoidReducedActivation", "SigmoidSteepenedActivation", "SigmoidBipolarActivation",
                  "SigmoidApproximationActivation", "SigmoidSteepenedApproximationActivation", "SigmoidInverseAbsoluteActivation",
                  "SigmoidLeftShiftedActivation", "SigmoidLeftShiftedSteepenedActivation", "SigmoidRightShiftedSteepenedActivation",
                  "TanhActivation", "LinearActivation", "LinearClippedActivation", "StepActivation"}

(* ----- module reducers: vector v of integers, every element scaled by 2^s ----- *)
\* multiplyModule: ret := 1; for each input ret *= input
RECURSIVE ProdFold(_, _)
ProdFold(v, n) == IF n = 0 THEN 1 ELSE ProdFold(v, n - 1) * v[n]
MultiplyModule(v, s) == D(ProdFold(v, Len(v)), s * Len(v))
\* maxModule / minModule: a running extremum over the inputs.  FirstSeed = TRUE starts it at the first input (any
\* start value that is an identity for finite inputs is equivalent); FirstSeed = FALSE models the code as found,
\* where the maximum starts from float64(math.MinInt64) = -2^63 and the minimum from MaxFloat64 (< 2^1024).
RECURSIVE ExtFold(_, _, _, _)
ExtFold(acc, v, i, isMax) ==
    IF i > Len(v) THEN acc
    ELSE ExtFold(IF (IF isMax THEN DLe(acc, v[i]) ELSE DLe(v[i], acc)) THEN v[i] ELSE acc, v, i + 1, isMax)
Scaled(v, s) == [i \in DOMAIN v |-> D(v[i], s)]
MaxModule(v, s, firstSeed) ==
    LET w == Scaled(v, s) IN IF firstSeed THEN ExtFold(w[1], w, 2, TRUE) ELSE ExtFold(D(-1, 63), w, 1, TRUE)
MinModule(v, s, firstSeed) ==
    LET w == Scaled(v, s) IN IF firstSeed THEN ExtFold(w[1], w, 2, FALSE) ELSE ExtFold(D(1, 1024), w, 1, FALSE)
\* the definitions the property refers to
IsMaxOf(m, v, s) == (\E i \in DOMAIN v : DEq(m, D(v[i], s))) /\ \A i \in DOMAIN v : DLe(D(v[i], s), m)
IsMinOf(m, v, s) == (\E i \in DOMAIN v : DEq(m, D(v[i], s))) /\ \A i \in DOMAIN v : DLe(m, D(v[i], s))
RECURSIVE ProdDef(_)
ProdDef(v) == IF v = <<>> THEN 1 ELSE Head(v) * ProdDef(Tail(v))

(* ======================================================================= *)
(* 2b. Factories: a registry is per factory                                *)
(* ======================================================================= *)
\* NewNodeActivatorsFactory: the Registrations fold on a FRESH state.  The four maps live in a heap cell; a factory
\* is a reference to a cell, factory 1 is the package default NodeActivators.  fresh = TRUE gives every new factory
\* a cell of its own; fresh = FALSE models a constructor that copies the default factory's struct, i.e. shares its
\* maps (kept only to show that FactoryIndependent below is not vacuous).
NewFactory == FinalReg
FacInit == [heap |-> <<NewFactory>>, fac |-> <<1>>]
FacNew(s, fresh) == IF fresh THEN [heap |-> Append(s.heap, NewFactory), fac |-> Append(s.fac, Len(s.heap) + 1)]
                    ELSE [heap |-> s.heap, fac |-> Append(s.fac, s.fac[1])]
FacRegister(s, f, g) == [s EXCEPT !.heap[s.fac[f]] = Register(@, g)]
FacView(s, f) == s.heap[s.fac[f]]
\* C18 (the registry of one factory is its own): Register / RegisterModule on factory f leaves the four maps of
\* every other factory unchanged
OthersUnchanged(s, t, f) == \A h \in DOMAIN s.fac : h # f => FacView(t, h) = FacView(s, h)

\* what a function tag computes at an exactly representable probe: <<has, n, e>>
None == <<FALSE, 0, 0>>
Some(y) == <<TRUE, y.n, y.e>>
ValueAtZero == [SigmoidPlainActivation |-> D(1, -1), SigmoidReducedActivation |-> D(1, -1), SigmoidSteepenedActivation |-> D(1, -1),
                SigmoidBipolarActivation |-> D(0, 0), SigmoidInverseAbsoluteActivation |-> D(1, -1), TanhActivation |-> D(0, 0),
                GaussianBipolarActivation |-> D(1, 0), GaussianActivation |-> D(1, 0), SineActivation |-> D(0, 0)]
ScalarImplApply(tag, x) ==
    IF tag = "cube" THEN Some(D(x.n * x.n * x.n, 3 * x.e))                  \* user function x^3
    ELSE IF tag \in ExactNames THEN Some(ExactApply(tag, x))
    ELSE IF tag \in DOMAIN ValueAtZero /\ x.n = 0 THEN Some(ValueAtZero[tag])
    ELSE None
RECURSIVE SumFold(_, _)
SumFold(v, n) == IF n = 0 THEN 0 ELSE SumFold(v, n - 1) + v[n]
ModuleImplApply(tag, v) ==
    IF tag = "sum" THEN Some(D(SumFold(v, Len(v)), 0))                     \* user module function: sum of the inputs
    ELSE IF tag = "MultiplyModuleActivation" THEN Some(MultiplyModule(v, 0))
    ELSE IF tag = "MaxModuleActivation" THEN Some(MaxModule(v, 0, TRUE))
    ELSE IF tag = "MinModuleActivation" THEN Some(MinModule(v, 0, TRUE))
    ELSE None
\* everything a caller can observe of a registry about type t / name n (values at the probes 0, 2 and <<1, 2>>)
TypeObs(r, t) ==
    LET nm == NameFromType(r, t) IN
    [t |-> t, scalar |-> ActivateByTypeOk(r, t), module |-> ActivateModuleByTypeOk(r, t), named |-> nm.ok, name |-> nm.name,
     at0 |-> IF t \in r.act THEN ScalarImplApply(r.simpl[t], D(0, 0)) ELSE None,
     at2 |-> IF t \in r.act THEN ScalarImplApply(r.simpl[t], D(2, 0)) ELSE None,
     on12 |-> IF t \in r.mod THEN ModuleImplApply(r.mimpl[t], <<1, 2>>) ELSE None]
NameObs(r, n) == LET ty == TypeFromName(r, n) IN [name |-> n, ok |-> ty.ok, t |-> ty.type]

(* ======================================================================= *)
(* 3. float64 values as <<sign, c1, c2, c3>>                               *)
(* ======================================================================= *)
\* bits 62..42 (11 exponent bits + 10 fraction bits), 41..21, 20..0 of the IEEE-754 double
FZero == <<0, 0, 0, 0>>
FOne == <<0, 1047552, 0, 0>>          \* 0x3FF0000000000000: 1023 * 2^10
FMinusOne == <<1, 1047552, 0, 0>>
FIsFinite(f) == f[2] < 2096128        \* exponent field below 0x7FF
FIsZero(f) == f[2] = 0 /\ f[3] = 0 /\ f[4] = 0
FMagLe(a, b) == a[2] < b[2] \/ (a[2] = b[2] /\ (a[3] < b[3] \/ (a[3] = b[3] /\ a[4] <= b[4])))
\* order of the real values (both finite); -0 = +0
FLe(a, b) == IF FIsZero(a) /\ FIsZero(b) THEN TRUE
             ELSE IF a[1] # b[1] THEN a[1] = 1
             ELSE IF a[1] = 0 THEN FMagLe(a, b) ELSE FMagLe(b, a)
FLt(a, b) == ~FLe(b, a)
FEq(a, b) == FLe(a, b) /\ FLe(b, a)
FOfInt(c) == IF c = 0 THEN FZero ELSE IF c = 1 THEN FOne ELSE FMinusOne      \* c in {-1, 0, 1}
Float4(y) == <<y[1], y[2], y[3], y[4]>>

\* the activations whose value is a bit pattern determined by the input's bit pattern
BitExactNames == {"LinearActivation", "LinearAbsActivation", "LinearClippedActivation", "NullActivation",
                  "SignActivation", "StepActivation"}
BitExactApply(name, x) ==
    CASE name = "LinearActivation"        -> x
      [] name = "LinearAbsActivation"     -> <<0, x[2], x[3], x[4]>>
      [] name = "LinearClippedActivation" -> IF FLt(x, FMinusOne) THEN FMinusOne ELSE IF FLt(FOne, x) THEN FOne ELSE x
      [] name = "NullActivation"          -> FZero
      [] name = "SignActivation"          -> IF FIsZero(x) THEN FZero ELSE IF x[1] = 1 THEN FMinusOne ELSE FOne
      [] name = "StepActivation"          -> IF FLt(x, FZero) THEN FZero ELSE FOne
InRangeF(name, y) ==
    /\ DocRange[name][1] # Unb => FLe(FOfInt(DocRange[name][1]), y)
    /\ DocRange[name][2] # Unb => FLe(y, FOfInt(DocRange[name][2]))
\* monotone functions computed with correctly rounded +,-,* of monotone arguments only: the float results themselves
\* must be ordered; for the others (exp, tanh, division) the comparison is made on the 2^-28 fixed-point values with
\* one unit of slack for the rounding noise of the library functions
OrderExactNames == {"SigmoidApproximationActivation", "SigmoidSteepenedApproximationActivation", "LinearActivation",
                    "LinearClippedActivation", "StepActivation"}
=============================================================================

\* every node list (0-1 bias, 0-2 inputs, 1-2 outputs, 0-1 hidden) with 0-1 traits, trait pointers nil or set, one plain gene
SPECIFICATION Spec
CONSTANTS
  PopStartNewline = TRUE
  Modes = {"genome"}
  MinTraits = 0
  MaxTraits = 1
  Pats = {1}
  BiasCounts = {0, 1}
  MinInputs = 0
  MaxInputs = 2
  MaxOutputs = 2
  MinHidden = 0
  MaxHidden = 1
  Acts = {4, 14}
  NodeTraitFree = TRUE
  MaxGenes = 1
  PairSet = {12, 13, 14, 23, 24, 34, 35, 45, 46, 56, 33, 44, 55, 66}
  Ws = {1}
  Muts = {2}
  Flags = {1}
  GeneTraitFree = FALSE
  MaxMods = 0
  ModActs = {21}
  ModEnabled = {TRUE}
  OrgFits = {1, 5, 8, 9}
  OrgGens = {0, 3}
  MaxPop = 3
  MaxTrials = 2
  MaxGens = 2
  GenChoices = {101, 22, 13, 122}
  Sample = FALSE
INVARIANTS Plain Yaml Organism Population FastModel ExperimentFile ReadIntoUsed TokensTyped
CHECK_DEADLOCK FALSE

SPECIFICATION Spec
INVARIANT Inv_X11
POSTCONDITION TraceAccepted
CHECK_DEADLOCK FALSE

SPECIFICATION Spec
CONSTANTS
  Params <- ParamsQuick
  MaxN = 6
INVARIANTS ExpectationsTotalN LoopIsFloorCarry TotalAfterCount TotalAfterRedistribution NearShare MakeUpOnce ParentCutOff ZeroQuotaPurged StealShape DeltaShape
CHECK_DEADLOCK FALSE

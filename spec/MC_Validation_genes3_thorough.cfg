SPECIFICATION Spec
CONSTANTS
  Kinds = {"verify"}
  VFams = {"struct"}
  NodeIdPool = {1, 2, 3}
  MaxNodes = 3
  GInns = {1, 2}
  GSrc = {1, 2}
  GDst = {1, 2, 3}
  GRecs = {FALSE, TRUE}
  MaxGenes = 3
  WGenes = 0
  PopMax = 0
  TVals <- QuickTVals
  TSmallLen = 0
  Powers2 = {0}
  Probs8 <- AllProbs8
  UGrid = {0}
  MGrid = {0}
INVARIANTS V_Clauses V_LoopIsDefinition V_NoFalseRejection V_DetectsEndpoints V_DetectsNodeOrder V_DetectsDuplicates
           V_Blind V_Decoration
CHECK_DEADLOCK FALSE

---------------------------- MODULE InnovParInd ----------------------------
(***************************************************************************)
(* C16, unbounded: the innovation-registry protocol of InnovPar.tla with   *)
(* an INDUCTIVE INVARIANT, checked by Apalache (bin/pipe_ind.py, suite     *)
(* I16; `bin/check --property I16 --tier quick|thorough`).                 *)
(*                                                                         *)
(* The actions are those of InnovPar.tla, one per primitive call of the    *)
(* code (Lookup = Population.Innovations() + scan, IssueNode / IssueInn1 / *)
(* IssueInn2 = the atomic counters, Store = append under the mutex), with  *)
(* the same guards and effects.  Differences of presentation only:         *)
(*   - typed for Apalache (@type annotations);                             *)
(*   - the programs are VARIABLES that never change (prog, plen) instead   *)
(*     of the constant Prog, so that the obligations quantify over ALL     *)
(*     programs: prog[t] is a function on 1..MaxLen of which the first     *)
(*     plen[t] entries are the program of thread t;                        *)
(*   - Lookup is written with the predicates IsFirstHit / NoHit instead of *)
(*     `h == FirstHit(m)` with its CHOOSE (same meaning: FirstHitAgrees,   *)
(*     checked by TLC on the reachable states of the cross-check);         *)
(*   - the observation-only variable sched is dropped; accesses is kept as *)
(*     the set of `locked` flags of the accesses made so far;              *)
(*   - one HISTORY variable is added, src: src[t][i] is the index of the   *)
(*     registry record that output out[t][i] was copied from (a hit) or    *)
(*     stored as (a miss).  No action reads it.  It replaces an            *)
(*     existential witness in the invariant (see IndInv).                  *)
(*                                                                         *)
(* WHAT IS PROVED.  Three obligations, SMT queries of Apalache:            *)
(*   (O1) Init => IndInv                                                   *)
(*   (O2) IndInv /\ Next => IndInv'     (one run per conjunct of IndInv')  *)
(*   (O3) IndInv => Safety                                                 *)
(* Safety = OneMeaningPerNumber /\ Fresh /\ NoNumberIssuedTwice /\         *)
(* NodeIdsOneSplit (/\ RaceFree when LockedRead), the invariants that TLC  *)
(* checks on InnovPar.tla for 2-3 threads x <= 2 mutations, literally as   *)
(* they are written there.  (O1)-(O3) give them in EVERY reachable state   *)
(* of EVERY behaviour: the inductive step does not mention reachability,   *)
(* so the NUMBER OF STEPS and the INTERLEAVING are unbounded, the counters *)
(* nInn / nNode, their initial values and all issued numbers are unbounded *)
(* integers, and the programs are arbitrary.                               *)
(*                                                                         *)
(* WHAT REMAINS BOUNDED (parameters of the SMT queries):                   *)
(*   - the carrier sets given as CONSTANTS: Threads (which threads exist), *)
(*     NodeIds (the node ids requests may mention), GeneNos (the numbers   *)
(*     of the genes that may be split), MaxLen (the maximal length of a    *)
(*     program).  The check is for the given sets, e.g. 4 threads x <= 3   *)
(*     mutations over 3 node ids and 2 splittable genes; EVERY program     *)
(*     over them is covered.                                               *)
(*   - the LENGTH OF THE REGISTRY in the pre-state of (O2) / (O3):         *)
(*     Apalache needs a static bound to build an arbitrary sequence        *)
(*     (Gen(RegBound) in IndInit).  The shipped configurations take        *)
(*     RegBound = |Threads| * MaxLen; no reachable registry is longer (one *)
(*     record per fresh output - FreshOwnRecord below), but this counting  *)
(*     argument is NOT part of what Apalache checks.  IndInv itself does   *)
(*     not mention RegBound.                                               *)
(*                                                                         *)
(* ASSUMPTION ON PROGRAMS (what the code guarantees within one epoch, all  *)
(* genomes being read against one parent population in which a number      *)
(* denotes one connection - C03):                                          *)
(*   - a request to split a gene names the gene by its innovation number   *)
(*     `old`; two requests to split the same gene agree on src, dst, rec   *)
(*     (ProgConsistent).  Used in the equivalent form ProgConforms: there  *)
(*     is a map gene : number -> connection that all split requests        *)
(*     follow (FormsAgree: equivalence, evaluated by TLC on every program  *)
(*     over small carrier sets);                                           *)
(*   - a link request is identified by <<src, dst, rec>> (its `old` is 0). *)
(* Without it the protocol as specified (and as coded) hands the numbers   *)
(* recorded for one split to a request for another connection (Match       *)
(* compares src, dst, old only) - this is the premise, not a weakening of  *)
(* the conclusion.                                                         *)
(*                                                                         *)
(* The order of the registry matters only for FirstHit.  The invariant     *)
(* does not use it: (O2) and (O3) go through for ANY matching record.      *)
(***************************************************************************)
EXTENDS Integers, Sequences, FiniteSets, Apalache

(*
  @typeAlias: req = { kind: Str, src: Int, dst: Int, rec: Bool, old: Int };
  @typeAlias: regrec = { kind: Str, src: Int, dst: Int, rec: Bool, old: Int, node: Int, inn: Int, inn2: Int };
  @typeAlias: outrec = { m: $req, node: Int, inn: Int, inn2: Int, reused: Bool };
  @typeAlias: tmprec = { node: Int, inn: Int, inn2: Int };
  @typeAlias: gene = <<Int, Int, Int, Bool>>;
  @typeAlias: conn = { src: Int, dst: Int, rec: Bool };
*)
InnovParInd_aliases == TRUE

CONSTANTS
    \* @type: Set(Int);
    Threads,
    \* @type: Set(Int);
    NodeIds,      \* node ids that requests may mention
    \* @type: Set(Int);
    GeneNos,      \* innovation numbers of the genes that may be split (the `old` of a node request)
    \* @type: Int;
    MaxLen,       \* maximal program length
    \* @type: Int;
    NInn0,
    \* @type: Int;
    NNode0,
    \* @type: Bool;
    LockedRead,
    \* @type: Int;
    RegBound,     \* Apalache only: the registry of the pre-state of (O2), (O3) has at most RegBound records
    \* @type: Set(Bool);
    RecFlags      \* the recurrent flags requests may carry (BOOLEAN; a singleton only to keep the TLC cross-check small)

ASSUME MaxLen >= 1 /\ 0 \notin GeneNos /\ NInn0 >= 0 /\ NNode0 >= 0 /\ RecFlags \subseteq BOOLEAN

VARIABLES
    \* @type: Int -> $conn;
    gene,         \* never changes: gene[g] is the connection that gene number g denotes in the parent generation
    \* @type: Int -> (Int -> $req);
    prog,         \* never changes: prog[t][i] for i <= plen[t] is the i-th request of thread t
    \* @type: Int -> Int;
    plen,         \* never changes: the length of the program of thread t
    \* @type: Seq($regrec);
    reg,
    \* @type: Int;
    nInn,
    \* @type: Int;
    nNode,
    \* @type: Int -> Str;
    pc,
    \* @type: Int -> Int;
    idx,
    \* @type: Int -> $tmprec;
    tmp,
    \* @type: Int -> Seq($outrec);
    out,
    \* @type: Int -> Seq(Int);
    src,          \* history: the registry index behind every output (never read by an action)
    \* @type: Set(Bool);
    accesses

vars == <<gene, prog, plen, reg, nInn, nNode, pc, idx, tmp, out, src, accesses>>

PCs == {"lookup", "node", "inn1", "inn2", "store", "done"}
Idxs == 1..MaxLen
Slots == Threads \X Idxs
LinkReqs == [kind : {"link"}, src : NodeIds, dst : NodeIds, rec : RecFlags, old : {0}]
NodeReqs == [kind : {"node"}, src : NodeIds, dst : NodeIds, rec : RecFlags, old : GeneNos]
Reqs == LinkReqs \cup NodeReqs
Conns == [src : NodeIds, dst : NodeIds, rec : RecFlags]

\* m \in Reqs, field by field (cheaper for the SMT solver than membership in the enumerated set)
\* @type: $req => Bool;
ReqOK(m) == /\ m.kind \in {"link", "node"} /\ m.src \in NodeIds /\ m.dst \in NodeIds /\ m.rec \in RecFlags
            /\ IF m.kind = "link" THEN m.old = 0 ELSE m.old \in GeneNos
\* a = b for requests, field by field
\* @type: ($req, $req) => Bool;
SameReq(a, b) == a.kind = b.kind /\ a.src = b.src /\ a.dst = b.dst /\ a.rec = b.rec /\ a.old = b.old

(* the assumption on programs (see the header): every request to split gene number g names the connection gene[g] *)
\* @type: $req => Bool;
Conforms(m) == m.kind = "node" => (m.src = gene[m.old].src /\ m.dst = gene[m.old].dst /\ m.rec = gene[m.old].rec)
ProgConforms == \A t \in Threads : \A i \in Idxs : i <= plen[t] => Conforms(prog[t][i])
(* the same assumption without the map: any two requests to split the same gene agree.  The two forms are equivalent  *)
(* (given the pairwise form, let gene[g] be the connection of any request that splits g).  FormsAgree is evaluated by *)
(* TLC for every program over small carrier sets (InnovParInd_forms.cfg: INIT InitAnyProgram, NEXT Stutter).          *)
ProgConsistent ==
    \A t \in Threads, u \in Threads : \A i \in Idxs, j \in Idxs :
        (i <= plen[t] /\ j <= plen[u] /\ prog[t][i].kind = "node" /\ prog[u][j].kind = "node"
           /\ prog[t][i].old = prog[u][j].old)
        => (prog[t][i].src = prog[u][j].src /\ prog[t][i].dst = prog[u][j].dst /\ prog[t][i].rec = prog[u][j].rec)
FormsAgree == ProgConsistent <=> \E g \in [GeneNos -> Conns] : \A t \in Threads : \A i \in Idxs :
                  (i <= plen[t] /\ prog[t][i].kind = "node") =>
                      (prog[t][i].src = g[prog[t][i].old].src /\ prog[t][i].dst = g[prog[t][i].old].dst /\ prog[t][i].rec = g[prog[t][i].old].rec)

(* ------------------------------ the protocol, as in InnovPar.tla ------------------------------ *)
\* @type: Int => $req;
Cur(t) == prog[t][idx[t]]
\* @type: ($regrec, $req) => Bool;
Match(r, m) == IF m.kind = "node" THEN r.kind = "node" /\ r.src = m.src /\ r.dst = m.dst /\ r.old = m.old
               ELSE r.kind = "link" /\ r.src = m.src /\ r.dst = m.dst /\ r.rec = m.rec
\* @type: $req => Int;
FirstHit(m) == LET S == { i \in DOMAIN reg : Match(reg[i], m) } IN
               IF S = {} THEN 0 ELSE CHOOSE i \in S : \A j \in S : i <= j
\* FirstHit(m) = h # 0 iff IsFirstHit(h, m); FirstHit(m) = 0 iff NoHit(m).  Lookup is written with these two predicates
\* (the SMT solver need not show that a finite set has a least element).
\* @type: (Int, $req) => Bool;
IsFirstHit(h, m) == h \in DOMAIN reg /\ Match(reg[h], m) /\ \A j \in DOMAIN reg : Match(reg[j], m) => h <= j
\* @type: $req => Bool;
NoHit(m) == \A j \in DOMAIN reg : ~Match(reg[j], m)
FirstHitAgrees == \A t \in Threads : pc[t] = "lookup" =>
    LET h == FirstHit(Cur(t)) IN IF h = 0 THEN NoHit(Cur(t)) ELSE IsFirstHit(h, Cur(t))
Advance(t) == IF idx[t] < plen[t] THEN idx' = [idx EXCEPT ![t] = @ + 1] /\ pc' = [pc EXCEPT ![t] = "lookup"]
              ELSE idx' = idx /\ pc' = [pc EXCEPT ![t] = "done"]
Empty == [node |-> 0, inn |-> 0, inn2 |-> 0]

Init == /\ gene \in [GeneNos -> Conns] /\ prog \in [Threads -> [Idxs -> Reqs]] /\ plen \in [Threads -> 0..MaxLen] /\ ProgConforms
        /\ reg = <<>> /\ nInn = NInn0 /\ nNode = NNode0
        /\ pc = [t \in Threads |-> IF plen[t] = 0 THEN "done" ELSE "lookup"] /\ idx = [t \in Threads |-> 1]
        /\ tmp = [t \in Threads |-> Empty] /\ out = [t \in Threads |-> <<>>] /\ src = [t \in Threads |-> <<>>] /\ accesses = {}

Lookup(t) ==
    /\ pc[t] = "lookup"
    /\ accesses' = accesses \cup {LockedRead}
    /\ LET m == Cur(t) IN
       \/ \E h \in DOMAIN reg :
            /\ IsFirstHit(h, m)
            /\ out' = [out EXCEPT ![t] = Append(@, [m |-> m, node |-> reg[h].node, inn |-> reg[h].inn, inn2 |-> reg[h].inn2, reused |-> TRUE])]
            /\ src' = [src EXCEPT ![t] = Append(@, h)]
            /\ Advance(t) /\ UNCHANGED tmp
       \/ /\ NoHit(m)
          /\ pc' = [pc EXCEPT ![t] = IF m.kind = "node" THEN "node" ELSE "inn1"]
          /\ tmp' = [tmp EXCEPT ![t] = Empty] /\ UNCHANGED <<out, src, idx>>
    /\ UNCHANGED <<gene, prog, plen, reg, nInn, nNode>>
IssueNode(t) ==
    /\ pc[t] = "node"
    /\ nNode' = nNode + 1 /\ tmp' = [tmp EXCEPT ![t].node = nNode + 1] /\ pc' = [pc EXCEPT ![t] = "inn1"]
    /\ UNCHANGED <<gene, prog, plen, reg, nInn, idx, out, src, accesses>>
IssueInn1(t) ==
    /\ pc[t] = "inn1"
    /\ nInn' = nInn + 1 /\ tmp' = [tmp EXCEPT ![t].inn = nInn + 1]
    /\ pc' = [pc EXCEPT ![t] = IF Cur(t).kind = "node" THEN "inn2" ELSE "store"]
    /\ UNCHANGED <<gene, prog, plen, reg, nNode, idx, out, src, accesses>>
IssueInn2(t) ==
    /\ pc[t] = "inn2"
    /\ nInn' = nInn + 1 /\ tmp' = [tmp EXCEPT ![t].inn2 = nInn + 1] /\ pc' = [pc EXCEPT ![t] = "store"]
    /\ UNCHANGED <<gene, prog, plen, reg, nNode, idx, out, src, accesses>>
Store(t) ==
    /\ pc[t] = "store"
    /\ LET m == Cur(t) IN
       /\ reg' = Append(reg, [kind |-> m.kind, src |-> m.src, dst |-> m.dst, rec |-> m.rec, old |-> m.old,
                              node |-> tmp[t].node, inn |-> tmp[t].inn, inn2 |-> tmp[t].inn2])
       /\ out' = [out EXCEPT ![t] = Append(@, [m |-> m, node |-> tmp[t].node, inn |-> tmp[t].inn, inn2 |-> tmp[t].inn2, reused |-> FALSE])]
    /\ src' = [src EXCEPT ![t] = Append(@, Len(reg) + 1)]
    /\ accesses' = accesses \cup {TRUE}
    /\ Advance(t) /\ UNCHANGED <<gene, prog, plen, nInn, nNode, tmp>>
\* one disjunct per primitive
NextLookup == \E t \in Threads : Lookup(t)
NextIssueNode == \E t \in Threads : IssueNode(t)
NextIssueInn1 == \E t \in Threads : IssueInn1(t)
NextIssueInn2 == \E t \in Threads : IssueInn2(t)
NextStore == \E t \in Threads : Store(t)
Next == NextLookup \/ NextIssueNode \/ NextIssueInn1 \/ NextIssueInn2 \/ NextStore
Spec == Init /\ [][Next]_vars

(* ------------------------------ the properties of InnovPar.tla ------------------------------ *)
\* @type: $outrec => Set($gene);
GenesOf(o) == IF o.m.kind = "link" THEN { <<o.inn, o.m.src, o.m.dst, o.m.rec>> }
              ELSE { <<o.inn, o.m.src, o.node, o.m.rec>>, <<o.inn2, o.node, o.m.dst, FALSE>> }
Outs == UNION { { out[t][i] : i \in DOMAIN out[t] } : t \in Threads }
Genes == UNION { GenesOf(o) : o \in Outs }
OneMeaningPerNumber == \A a \in Genes, b \in Genes : a[1] = b[1] => a = b
Fresh == \A o \in Outs : o.inn > NInn0 /\ (o.m.kind = "node" => (o.inn2 > NInn0 /\ o.inn2 # o.inn /\ o.node > NNode0))
NoNumberIssuedTwice == \A o \in Outs, p \in Outs : (~o.reused /\ ~p.reused /\ o # p) =>
                          ({o.inn, o.inn2} \ {0}) \cap ({p.inn, p.inn2} \ {0}) = {}
NodeIdsOneSplit == \A o \in Outs, p \in Outs : (o.m.kind = "node" /\ p.m.kind = "node" /\ o.node = p.node) =>
                          (o.m = p.m /\ o.inn = p.inn /\ o.inn2 = p.inn2)
RaceFree == \A a \in accesses : a
Safety == OneMeaningPerNumber /\ Fresh /\ NoNumberIssuedTwice /\ NodeIdsOneSplit /\ (LockedRead => RaceFree)

(* ------------------------------ the inductive invariant ------------------------------ *)
(* (a) every variable is constrained *)
TypeOK ==
    /\ gene \in [GeneNos -> Conns]
    /\ DOMAIN prog = Threads /\ \A t \in Threads : DOMAIN prog[t] = Idxs /\ \A i \in Idxs : ReqOK(prog[t][i])
    /\ plen \in [Threads -> 0..MaxLen]
    /\ nInn \in Int /\ nNode \in Int /\ nInn >= NInn0 /\ nNode >= NNode0
    /\ pc \in [Threads -> PCs] /\ idx \in [Threads -> Idxs]
    /\ DOMAIN tmp = Threads /\ \A t \in Threads : tmp[t].node \in Int /\ tmp[t].inn \in Int /\ tmp[t].inn2 \in Int
    /\ DOMAIN out = Threads /\ DOMAIN src = Threads
    /\ accesses \subseteq {LockedRead, TRUE}
\* @type: $regrec => $req;
ReqOf(r) == [kind |-> r.kind, src |-> r.src, dst |-> r.dst, rec |-> r.rec, old |-> r.old]
\* registry records are well-typed requests of the same parent generation
RegTyped == \A k \in DOMAIN reg : ReqOK(ReqOf(reg[k])) /\ Conforms(ReqOf(reg[k]))

(* (b) control: where a thread is in its program; its outputs answer its requests in order *)
Control == \A t \in Threads :
    /\ IF pc[t] = "done" THEN Len(out[t]) = plen[t] ELSE (idx[t] <= plen[t] /\ Len(out[t]) = idx[t] - 1)
    /\ Len(out[t]) <= MaxLen /\ Len(src[t]) = Len(out[t])
    /\ \A i \in Idxs : i <= Len(out[t]) => SameReq(out[t][i].m, prog[t][i])
    /\ pc[t] \in {"node", "inn2"} => Cur(t).kind = "node"

(* (c) numbers that are still in tmp.  A number drawn from a counter is held in tmp until Store puts it into a registry *)
(* record (and a fresh output).                                                                                         *)
HoldsInn1(t) == pc[t] \in {"inn2", "store"}
HoldsInn2(t) == pc[t] = "store" /\ Cur(t).kind = "node"
HoldsNode(t) == pc[t] \in {"inn1", "inn2", "store"} /\ Cur(t).kind = "node"
InFlight(t) == pc[t] \in {"node", "inn1", "inn2", "store"}
\* issued ones lie in (initial, counter], the others are still 0 (Lookup cleared tmp on the miss)
TmpNumbers == \A t \in Threads : InFlight(t) =>
    /\ IF HoldsInn1(t) THEN (NInn0 < tmp[t].inn /\ tmp[t].inn <= nInn) ELSE tmp[t].inn = 0
    /\ IF HoldsInn2(t) THEN (NInn0 < tmp[t].inn2 /\ tmp[t].inn2 <= nInn) ELSE tmp[t].inn2 = 0
    /\ IF HoldsNode(t) THEN (NNode0 < tmp[t].node /\ tmp[t].node <= nNode) ELSE tmp[t].node = 0
\* numbers held in tmp by different threads, or in the two slots of one thread, are pairwise distinct
TmpDistinct == \A t \in Threads, u \in Threads :
    /\ (HoldsInn1(t) /\ HoldsInn2(u)) => tmp[t].inn # tmp[u].inn2
    /\ t # u => /\ (HoldsInn1(t) /\ HoldsInn1(u)) => tmp[t].inn # tmp[u].inn
                /\ (HoldsInn2(t) /\ HoldsInn2(u)) => tmp[t].inn2 # tmp[u].inn2
                /\ (HoldsNode(t) /\ HoldsNode(u)) => tmp[t].node # tmp[u].node

(* (d) numbers in the registry *)
\* in (initial, counter], the two numbers of a split differ, the unused ones are 0
RegNumbers == \A k \in DOMAIN reg :
    /\ NInn0 < reg[k].inn /\ reg[k].inn <= nInn
    /\ IF reg[k].kind = "node" THEN (NInn0 < reg[k].inn2 /\ reg[k].inn2 <= nInn /\ reg[k].inn2 # reg[k].inn
                                     /\ NNode0 < reg[k].node /\ reg[k].node <= nNode)
       ELSE (reg[k].inn2 = 0 /\ reg[k].node = 0)
\* different records carry different numbers (every Store writes numbers that were drawn for it alone)
RegDistinct == \A k \in DOMAIN reg, l \in DOMAIN reg : k # l =>
    /\ reg[k].inn # reg[l].inn /\ reg[k].inn # reg[l].inn2
    /\ (reg[k].kind = "node" /\ reg[l].kind = "node") => (reg[k].inn2 # reg[l].inn2 /\ reg[k].node # reg[l].node)
\* a number still held in tmp is in no record
TmpVsReg == \A t \in Threads : \A k \in DOMAIN reg :
    /\ HoldsInn1(t) => (tmp[t].inn # reg[k].inn /\ tmp[t].inn # reg[k].inn2)
    /\ HoldsInn2(t) => (tmp[t].inn2 # reg[k].inn /\ tmp[t].inn2 # reg[k].inn2)
    /\ HoldsNode(t) => tmp[t].node # reg[k].node

(* (e) the outputs: every output, fresh or re-used, is the registry record src[t][i] seen as an output *)
\* @type: $outrec => $regrec;
RecOf(o) == [kind |-> o.m.kind, src |-> o.m.src, dst |-> o.m.dst, rec |-> o.m.rec, old |-> o.m.old,
             node |-> o.node, inn |-> o.inn, inn2 |-> o.inn2]
\* @type: ($regrec, $regrec) => Bool;
SameRec(a, b) == /\ a.kind = b.kind /\ a.src = b.src /\ a.dst = b.dst /\ a.rec = b.rec /\ a.old = b.old
                 /\ a.node = b.node /\ a.inn = b.inn /\ a.inn2 = b.inn2
OutIsRecord == \A t \in Threads : \A i \in Idxs : i <= Len(out[t]) =>
    /\ src[t][i] \in DOMAIN reg
    /\ SameRec(RecOf(out[t][i]), reg[src[t][i]])
\* different fresh outputs stored different records (so: numbers of different fresh outputs are pairwise distinct, and
\* there are at most as many records as fresh outputs)
FreshOwnRecord ==
    LET fr == [x \in Slots |-> x[2] <= Len(out[x[1]]) /\ ~out[x[1]][x[2]].reused]  at == [x \in Slots |-> src[x[1]][x[2]]] IN
    \A x \in Slots, y \in Slots : (fr[x] /\ fr[y] /\ x # y) => at[x] # at[y]


(* (f) what (d) and (e) give for the outputs alone - the part of the invariant from which Safety follows (O3).  It is   *)
(* implied by the conjuncts above, but deriving it for all pairs of outputs at once is hard for the solver, whereas a    *)
(* step adds one output.                                                                                                 *)
OutNumbers == \A t \in Threads : \A i \in Idxs : i <= Len(out[t]) =>
    LET o == out[t][i] IN
    /\ NInn0 < o.inn /\ o.inn <= nInn
    /\ IF o.m.kind = "node" THEN (NInn0 < o.inn2 /\ o.inn2 <= nInn /\ o.inn2 # o.inn /\ NNode0 < o.node /\ o.node <= nNode)
       ELSE (o.inn2 = 0 /\ o.node = 0)
\* two outputs that share a number are for the same request and agree on all numbers; a first number is nobody's second
\* @type: ($regrec, $regrec) => Bool;
Compat(a, b) ==
    /\ (a.inn = b.inn \/ (a.kind = "node" /\ b.kind = "node" /\ (a.inn2 = b.inn2 \/ a.node = b.node))) => SameRec(a, b)
    /\ b.kind = "node" => a.inn # b.inn2
OutCompat ==
    LET oe == [x \in Slots |-> RecOf(out[x[1]][x[2]])]  on == [x \in Slots |-> x[2] <= Len(out[x[1]])]
        fr == [x \in Slots |-> ~out[x[1]][x[2]].reused] IN
    \A x \in Slots, y \in Slots : (on[x] /\ on[y]) =>
        /\ Compat(oe[x], oe[y])
        /\ (fr[x] /\ fr[y] /\ x # y) => oe[x].inn # oe[y].inn
OutFacts == (\A t \in Threads : Len(out[t]) <= MaxLen) /\ OutNumbers /\ OutCompat /\ accesses \subseteq {LockedRead, TRUE}

IndInv == /\ TypeOK /\ RegTyped /\ ProgConforms /\ Control /\ TmpNumbers /\ TmpDistinct
          /\ RegNumbers /\ RegDistinct /\ TmpVsReg /\ OutIsRecord /\ FreshOwnRecord
          /\ OutNumbers /\ OutCompat

(* an arbitrary state satisfying IndInv.  Functions are built over the constant carrier sets from arbitrary components  *)
(* (cheaper than Gen, which makes the domain symbolic); Gen(n) is an arbitrary sequence of at most n elements.          *)
IndInit ==
    /\ gene \in [GeneNos -> Conns] /\ plen \in [Threads -> 0..MaxLen]
    /\ \E pk \in [Slots -> {"link", "node"}], ps \in [Slots -> NodeIds], pd \in [Slots -> NodeIds], pr \in [Slots -> RecFlags],
          po \in [Slots -> GeneNos \cup {0}] :
          prog = [t \in Threads |-> [i \in Idxs |-> [kind |-> pk[<<t, i>>], src |-> ps[<<t, i>>], dst |-> pd[<<t, i>>],
                                                      rec |-> pr[<<t, i>>], old |-> po[<<t, i>>]]]]
    /\ pc \in [Threads -> PCs] /\ idx \in [Threads -> Idxs]
    /\ nInn \in Int /\ nNode \in Int /\ accesses \in SUBSET BOOLEAN
    /\ \E tn \in [Threads -> Int], ti \in [Threads -> Int], tj \in [Threads -> Int] :
          tmp = [t \in Threads |-> [node |-> tn[t], inn |-> ti[t], inn2 |-> tj[t]]]
    /\ \E on \in [Slots -> Int], oi \in [Slots -> Int], oj \in [Slots -> Int], ou \in [Slots -> BOOLEAN],
          os \in [Slots -> Int], ol \in [Threads -> 0..MaxLen] :
          /\ out = [t \in Threads |->
                      FunAsSeq([i \in Idxs |-> [m |-> prog[t][i], node |-> on[<<t, i>>], inn |-> oi[<<t, i>>], inn2 |-> oj[<<t, i>>],
                                                 reused |-> ou[<<t, i>>]]], ol[t], MaxLen)]
          /\ src = [t \in Threads |-> FunAsSeq([i \in Idxs |-> os[<<t, i>>]], ol[t], MaxLen)]
    /\ reg = Gen(RegBound)
    /\ IndInv

(* (O3) is checked as OutFacts => Safety: OutFacts is a sub-conjunction of IndInv (its first and last conjunct are in  *)
(* Control and TypeOK) and Safety reads out and accesses only.  An arbitrary state satisfying OutFacts:                 *)
SafetyInit ==
    /\ gene \in [GeneNos -> Conns] /\ plen \in [Threads -> 0..MaxLen] /\ prog \in [Threads -> [Idxs -> Reqs]]
    /\ pc \in [Threads -> PCs] /\ idx \in [Threads -> Idxs] /\ tmp = [t \in Threads |-> Empty] /\ reg = <<>>
    /\ nInn \in Int /\ nNode \in Int /\ accesses \in SUBSET BOOLEAN
    /\ \E mk \in [Slots -> {"link", "node"}], ms \in [Slots -> Int], md \in [Slots -> Int], mr \in [Slots -> BOOLEAN], mo \in [Slots -> Int],
          on \in [Slots -> Int], oi \in [Slots -> Int], oj \in [Slots -> Int], ou \in [Slots -> BOOLEAN],
          os \in [Slots -> Int], ol \in [Threads -> 0..MaxLen] :
          /\ out = [t \in Threads |->
                      FunAsSeq([i \in Idxs |-> [m |-> [kind |-> mk[<<t, i>>], src |-> ms[<<t, i>>], dst |-> md[<<t, i>>], rec |-> mr[<<t, i>>], old |-> mo[<<t, i>>]],
                                                 node |-> on[<<t, i>>], inn |-> oi[<<t, i>>], inn2 |-> oj[<<t, i>>],
                                                 reused |-> ou[<<t, i>>]]], ol[t], MaxLen)]
          /\ src = [t \in Threads |-> FunAsSeq([i \in Idxs |-> os[<<t, i>>]], ol[t], MaxLen)]
    /\ OutFacts

(* the constants that stay symbolic in the Apalache runs (--cinit); the carrier sets come from the .cfg files *)
CInit == NInn0 \in Nat /\ NNode0 \in Nat /\ LockedRead \in BOOLEAN

(* TLC only (InnovParInd_forms.cfg): every program over the carrier sets, consistent or not, no steps *)
InitAnyProgram == /\ gene \in [GeneNos -> Conns] /\ prog \in [Threads -> [Idxs -> Reqs]] /\ plen \in [Threads -> 0..MaxLen]
                  /\ reg = <<>> /\ nInn = NInn0 /\ nNode = NNode0 /\ pc = [t \in Threads |-> "done"] /\ idx = [t \in Threads |-> 1]
                  /\ tmp = [t \in Threads |-> Empty] /\ out = [t \in Threads |-> <<>>] /\ src = [t \in Threads |-> <<>>] /\ accesses = {}
Stutter == UNCHANGED vars
=============================================================================

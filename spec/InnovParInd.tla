---------------------------- MODULE InnovParInd ----------------------------
(***************************************************************************)
(* C16, unbounded: the innovation-registry protocol of InnovPar.tla with   *)
(* an INDUCTIVE INVARIANT, checked by Apalache (see bin/pipe_ind.py, I16). *)
(*                                                                         *)
(* The actions are those of InnovPar.tla, one per primitive call of the    *)
(* code (Lookup = Population.Innovations() + scan, IssueNode / IssueInn1 / *)
(* IssueInn2 = the atomic counters, Store = append under the mutex), with  *)
(* the same guards and effects.  Differences of presentation only:         *)
(*   - typed for Apalache (@type annotations);                             *)
(*   - the programs are VARIABLES that never change (prog, plen) instead   *)
(*     of the constant Prog, so that the obligations quantify over ALL     *)
(*     programs: prog[t] is a function on 1..MaxLen of which the first     *)
(*     plen[t] entries are the program of thread t;                        *)
(*   - the observation-only variable sched is dropped; accesses is kept as *)
(*     the set of `locked` flags of the accesses made so far.              *)
(*                                                                         *)
(* WHAT IS PROVED.  Three obligations, each one SMT query of Apalache:     *)
(*   (O1) Init => IndInv                                                   *)
(*   (O2) IndInv /\ Next => IndInv'                                        *)
(*   (O3) IndInv => Safety                                                 *)
(* Safety = OneMeaningPerNumber /\ Fresh /\ NoNumberIssuedTwice /\         *)
(* NodeIdsOneSplit (/\ RaceFree when LockedRead), the invariants that TLC  *)
(* checks on InnovPar.tla for 2-3 threads x <= 2 mutations.  (O1)-(O3)     *)
(* give them in EVERY reachable state of EVERY behaviour: the inductive    *)
(* step does not mention reachability, so the NUMBER OF STEPS and the      *)
(* INTERLEAVING are unbounded, the counters nInn / nNode and all issued    *)
(* numbers are unbounded integers, and the programs are arbitrary.         *)
(*                                                                         *)
(* WHAT REMAINS BOUNDED (parameters of the SMT query):                     *)
(*   - the carrier sets given as CONSTANTS: Threads (which threads exist), *)
(*     NodeIds (the node ids requests may mention), GeneNos (the numbers   *)
(*     of the genes that may be split), MaxLen (the maximal length of a    *)
(*     program).  The check is for the given sets, e.g. 4 threads x <= 3   *)
(*     mutations over 3 node ids and 2 splittable genes; every program     *)
(*     over them is covered.                                               *)
(*   - the LENGTH OF THE REGISTRY in the pre-state of (O2)/(O3): Apalache  *)
(*     needs a static bound to build an arbitrary sequence (Gen(N) in      *)
(*     IndInit, N = 12 below, > |Threads| * MaxLen for the shipped         *)
(*     configurations, and every reachable registry has at most            *)
(*     |Threads| * MaxLen records: one per fresh output).  IndInv itself   *)
(*     does not mention N.                                                 *)
(*                                                                         *)
(* ASSUMPTION ON PROGRAMS (ProgConsistent; what the code guarantees        *)
(* within one epoch, all genomes being read against one population):       *)
(*   - a request to split a gene names the gene by its innovation number   *)
(*     `old`; two requests to split the same gene agree on src, dst, rec   *)
(*     (one number denotes one connection: C03 for the parent generation); *)
(*   - a link request is identified by <<src, dst, rec>> (its `old` is 0). *)
(* Without it the protocol as specified (and as coded) would hand the      *)
(* numbers recorded for one split to a request for another connection      *)
(* (Match compares src, dst, old only) - this is the premise, not a        *)
(* weakening of the conclusion.                                            *)
(*                                                                         *)
(* FirstHit is kept as in InnovPar.tla (the least matching index).  The    *)
(* invariant does not use the order: it holds for ANY hit.                 *)
(***************************************************************************)
EXTENDS Integers, Sequences, FiniteSets, Apalache

(*
  @typeAlias: req = { kind: Str, src: Int, dst: Int, rec: Bool, old: Int };
  @typeAlias: regrec = { kind: Str, src: Int, dst: Int, rec: Bool, old: Int, node: Int, inn: Int, inn2: Int };
  @typeAlias: outrec = { m: $req, node: Int, inn: Int, inn2: Int, reused: Bool };
  @typeAlias: tmprec = { node: Int, inn: Int, inn2: Int };
  @typeAlias: gene = <<Int, Int, Int, Bool>>;
*)
InnovParInd_aliases == TRUE

CONSTANTS
    \* @type: Set(Int);
    Threads,
    \* @type: Set(Int);
    NodeIds,      \* node ids that requests may mention
    \* @type: Set(Int);
    GeneNos,      \* innovation numbers of the genes that may be split (the `old` of a node request)
    \* @type: Int;
    MaxLen,       \* maximal program length
    \* @type: Int;
    NInn0,
    \* @type: Int;
    NNode0,
    \* @type: Bool;
    LockedRead,
    \* @type: Set(Bool);
    RecFlags      \* the recurrent flags requests may carry (BOOLEAN; a singleton only to keep the TLC cross-check small)

ASSUME MaxLen >= 1 /\ 0 \notin GeneNos /\ NInn0 >= 0 /\ NNode0 >= 0 /\ RecFlags \subseteq BOOLEAN

VARIABLES
    \* @type: Int -> (Int -> $req);
    prog,         \* never changes: prog[t][i] for i <= plen[t] is the i-th request of thread t
    \* @type: Int -> Int;
    plen,         \* never changes: the length of the program of thread t
    \* @type: Seq($regrec);
    reg,
    \* @type: Int;
    nInn,
    \* @type: Int;
    nNode,
    \* @type: Int -> Str;
    pc,
    \* @type: Int -> Int;
    idx,
    \* @type: Int -> $tmprec;
    tmp,
    \* @type: Int -> Seq($outrec);
    out,
    \* @type: Set(Bool);
    accesses

vars == <<prog, plen, reg, nInn, nNode, pc, idx, tmp, out, accesses>>

PCs == {"lookup", "node", "inn1", "inn2", "store", "done"}
Idxs == 1..MaxLen
LinkReqs == [kind : {"link"}, src : NodeIds, dst : NodeIds, rec : RecFlags, old : {0}]
NodeReqs == [kind : {"node"}, src : NodeIds, dst : NodeIds, rec : RecFlags, old : GeneNos]
Reqs == LinkReqs \cup NodeReqs

(* the assumption on programs (see the header) *)
ProgConsistent ==
    \A t \in Threads, u \in Threads : \A i \in Idxs, j \in Idxs :
        (i <= plen[t] /\ j <= plen[u] /\ prog[t][i].kind = "node" /\ prog[u][j].kind = "node"
           /\ prog[t][i].old = prog[u][j].old) => prog[t][i] = prog[u][j]

(* ------------------------------ the protocol, as in InnovPar.tla ------------------------------ *)
\* @type: Int => $req;
Cur(t) == prog[t][idx[t]]
\* @type: ($regrec, $req) => Bool;
Match(r, m) == IF m.kind = "node" THEN r.kind = "node" /\ r.src = m.src /\ r.dst = m.dst /\ r.old = m.old
               ELSE r.kind = "link" /\ r.src = m.src /\ r.dst = m.dst /\ r.rec = m.rec
\* @type: $req => Int;
FirstHit(m) == LET S == { i \in DOMAIN reg : Match(reg[i], m) } IN
               IF S = {} THEN 0 ELSE CHOOSE i \in S : \A j \in S : i <= j
Advance(t) == IF idx[t] < plen[t] THEN idx' = [idx EXCEPT ![t] = @ + 1] /\ pc' = [pc EXCEPT ![t] = "lookup"]
              ELSE idx' = idx /\ pc' = [pc EXCEPT ![t] = "done"]
Empty == [node |-> 0, inn |-> 0, inn2 |-> 0]

Init == /\ prog \in [Threads -> [Idxs -> Reqs]] /\ plen \in [Threads -> 0..MaxLen] /\ ProgConsistent
        /\ reg = <<>> /\ nInn = NInn0 /\ nNode = NNode0
        /\ pc = [t \in Threads |-> IF plen[t] = 0 THEN "done" ELSE "lookup"] /\ idx = [t \in Threads |-> 1]
        /\ tmp = [t \in Threads |-> Empty] /\ out = [t \in Threads |-> <<>>] /\ accesses = {}

Lookup(t) ==
    /\ pc[t] = "lookup"
    /\ accesses' = accesses \cup {LockedRead}
    /\ LET m == Cur(t)  h == FirstHit(m) IN
       IF h # 0
       THEN /\ out' = [out EXCEPT ![t] = Append(@, [m |-> m, node |-> reg[h].node, inn |-> reg[h].inn, inn2 |-> reg[h].inn2, reused |-> TRUE])]
            /\ Advance(t) /\ UNCHANGED tmp
       ELSE /\ pc' = [pc EXCEPT ![t] = IF m.kind = "node" THEN "node" ELSE "inn1"]
            /\ tmp' = [tmp EXCEPT ![t] = Empty] /\ UNCHANGED <<out, idx>>
    /\ UNCHANGED <<prog, plen, reg, nInn, nNode>>
IssueNode(t) ==
    /\ pc[t] = "node"
    /\ nNode' = nNode + 1 /\ tmp' = [tmp EXCEPT ![t].node = nNode + 1] /\ pc' = [pc EXCEPT ![t] = "inn1"]
    /\ UNCHANGED <<prog, plen, reg, nInn, idx, out, accesses>>
IssueInn1(t) ==
    /\ pc[t] = "inn1"
    /\ nInn' = nInn + 1 /\ tmp' = [tmp EXCEPT ![t].inn = nInn + 1]
    /\ pc' = [pc EXCEPT ![t] = IF Cur(t).kind = "node" THEN "inn2" ELSE "store"]
    /\ UNCHANGED <<prog, plen, reg, nNode, idx, out, accesses>>
IssueInn2(t) ==
    /\ pc[t] = "inn2"
    /\ nInn' = nInn + 1 /\ tmp' = [tmp EXCEPT ![t].inn2 = nInn + 1] /\ pc' = [pc EXCEPT ![t] = "store"]
    /\ UNCHANGED <<prog, plen, reg, nNode, idx, out, accesses>>
Store(t) ==
    /\ pc[t] = "store"
    /\ LET m == Cur(t) IN
       /\ reg' = Append(reg, [kind |-> m.kind, src |-> m.src, dst |-> m.dst, rec |-> m.rec, old |-> m.old,
                              node |-> tmp[t].node, inn |-> tmp[t].inn, inn2 |-> tmp[t].inn2])
       /\ out' = [out EXCEPT ![t] = Append(@, [m |-> m, node |-> tmp[t].node, inn |-> tmp[t].inn, inn2 |-> tmp[t].inn2, reused |-> FALSE])]
    /\ accesses' = accesses \cup {TRUE}
    /\ Advance(t) /\ UNCHANGED <<prog, plen, nInn, nNode, tmp>>
Next == \E t \in Threads : Lookup(t) \/ IssueNode(t) \/ IssueInn1(t) \/ IssueInn2(t) \/ Store(t)
Spec == Init /\ [][Next]_vars

(* ------------------------------ the properties of InnovPar.tla ------------------------------ *)
\* @type: $outrec => Set($gene);
GenesOf(o) == IF o.m.kind = "link" THEN { <<o.inn, o.m.src, o.m.dst, o.m.rec>> }
              ELSE { <<o.inn, o.m.src, o.node, o.m.rec>>, <<o.inn2, o.node, o.m.dst, FALSE>> }
Outs == UNION { { out[t][i] : i \in DOMAIN out[t] } : t \in Threads }
Genes == UNION { GenesOf(o) : o \in Outs }
OneMeaningPerNumber == \A a \in Genes, b \in Genes : a[1] = b[1] => a = b
Fresh == \A o \in Outs : o.inn > NInn0 /\ (o.m.kind = "node" => (o.inn2 > NInn0 /\ o.inn2 # o.inn /\ o.node > NNode0))
NoNumberIssuedTwice == \A o \in Outs, p \in Outs : (~o.reused /\ ~p.reused /\ o # p) =>
                          ({o.inn, o.inn2} \ {0}) \cap ({p.inn, p.inn2} \ {0}) = {}
NodeIdsOneSplit == \A o \in Outs, p \in Outs : (o.m.kind = "node" /\ p.m.kind = "node" /\ o.node = p.node) =>
                          (o.m = p.m /\ o.inn = p.inn /\ o.inn2 = p.inn2)
RaceFree == \A a \in accesses : a
Safety == OneMeaningPerNumber /\ Fresh /\ NoNumberIssuedTwice /\ NodeIdsOneSplit /\ (LockedRead => RaceFree)

(* ------------------------------ the inductive invariant ------------------------------ *)
(* (a) every variable is constrained *)
TypeOK ==
    /\ prog \in [Threads -> [Idxs -> Reqs]] /\ plen \in [Threads -> 0..MaxLen]
    /\ \A k \in DOMAIN reg : /\ [kind |-> reg[k].kind, src |-> reg[k].src, dst |-> reg[k].dst, rec |-> reg[k].rec, old |-> reg[k].old] \in Reqs
                             /\ reg[k].node \in Int /\ reg[k].inn \in Int /\ reg[k].inn2 \in Int
    /\ nInn \in Int /\ nNode \in Int /\ nInn >= NInn0 /\ nNode >= NNode0
    /\ pc \in [Threads -> PCs] /\ idx \in [Threads -> Idxs]
    /\ DOMAIN tmp = Threads /\ \A t \in Threads : tmp[t].node \in Int /\ tmp[t].inn \in Int /\ tmp[t].inn2 \in Int
    /\ DOMAIN out = Threads
    /\ accesses \subseteq {LockedRead, TRUE}

(* (b) control: where a thread is in its program; its outputs answer its requests in order *)
Control == \A t \in Threads :
    /\ IF pc[t] = "done" THEN Len(out[t]) = plen[t] ELSE (idx[t] <= plen[t] /\ Len(out[t]) = idx[t] - 1)
    /\ \A i \in DOMAIN out[t] : i \in Idxs /\ out[t][i].m = prog[t][i]
    /\ pc[t] \in {"node", "inn2"} => Cur(t).kind = "node"

(* (c) who holds which number.  A number drawn from a counter is held by the SLOT <<thread, program index>> of the     *)
(* request it was drawn for: in tmp while the request is being served, in the fresh output afterwards.                 *)
HoldsInn1(t) == pc[t] \in {"inn2", "store"}
HoldsInn2(t) == pc[t] = "store" /\ Cur(t).kind = "node"
HoldsNode(t) == pc[t] \in {"inn1", "inn2", "store"} /\ Cur(t).kind = "node"
InFlight(t) == pc[t] \in {"node", "inn1", "inn2", "store"}
\* numbers in tmp: issued ones lie in (initial, counter], the others are still 0 (Lookup cleared tmp on the miss)
TmpNumbers == \A t \in Threads : InFlight(t) =>
    /\ IF HoldsInn1(t) THEN (NInn0 < tmp[t].inn /\ tmp[t].inn <= nInn) ELSE tmp[t].inn = 0
    /\ IF HoldsInn2(t) THEN (NInn0 < tmp[t].inn2 /\ tmp[t].inn2 <= nInn) ELSE tmp[t].inn2 = 0
    /\ IF HoldsNode(t) THEN (NNode0 < tmp[t].node /\ tmp[t].node <= nNode) ELSE tmp[t].node = 0
\* numbers in fresh outputs
FreshOut(t, i) == i \in DOMAIN out[t] /\ ~out[t][i].reused
OutNumbers == \A t \in Threads : \A i \in DOMAIN out[t] : ~out[t][i].reused =>
    LET o == out[t][i] IN
    /\ NInn0 < o.inn /\ o.inn <= nInn
    /\ IF o.m.kind = "node" THEN (NInn0 < o.inn2 /\ o.inn2 <= nInn /\ NNode0 < o.node /\ o.node <= nNode)
       ELSE (o.inn2 = 0 /\ o.node = 0)
\* the innovation numbers held by slot <<t, i>>: s = 1 the first, s = 2 the second number
InnLive(t, i, s) ==
    \/ FreshOut(t, i) /\ (s = 1 \/ out[t][i].m.kind = "node")
    \/ pc[t] # "done" /\ i = idx[t] /\ (IF s = 1 THEN HoldsInn1(t) ELSE HoldsInn2(t))
InnVal(t, i, s) ==
    IF i \in DOMAIN out[t] THEN (IF s = 1 THEN out[t][i].inn ELSE out[t][i].inn2)
    ELSE (IF s = 1 THEN tmp[t].inn ELSE tmp[t].inn2)
NodeLive(t, i) ==
    \/ FreshOut(t, i) /\ out[t][i].m.kind = "node"
    \/ pc[t] # "done" /\ i = idx[t] /\ HoldsNode(t)
NodeVal(t, i) == IF i \in DOMAIN out[t] THEN out[t][i].node ELSE tmp[t].node
\* numbers held by distinct slots are pairwise distinct
Distinct ==
    /\ \A t \in Threads, u \in Threads : \A i \in Idxs, j \in Idxs : \A s \in {1, 2}, r \in {1, 2} :
          (InnLive(t, i, s) /\ InnLive(u, j, r) /\ (t # u \/ i # j \/ s # r)) => InnVal(t, i, s) # InnVal(u, j, r)
    /\ \A t \in Threads, u \in Threads : \A i \in Idxs, j \in Idxs :
          (NodeLive(t, i) /\ NodeLive(u, j) /\ (t # u \/ i # j)) => NodeVal(t, i) # NodeVal(u, j)

(* (d) the registry and the re-used outputs *)
\* @type: $outrec => $regrec;
RecOf(o) == [kind |-> o.m.kind, src |-> o.m.src, dst |-> o.m.dst, rec |-> o.m.rec, old |-> o.m.old,
             node |-> o.node, inn |-> o.inn, inn2 |-> o.inn2]
\* every registry record was stored together with a fresh output for the same request with the same numbers
RegFromFresh == \A k \in DOMAIN reg : \E t \in Threads : \E i \in DOMAIN out[t] : ~out[t][i].reused /\ RecOf(out[t][i]) = reg[k]
\* a re-used output carries the numbers of a registry record that matches its request
ReusedFromReg == \A t \in Threads : \A i \in DOMAIN out[t] : out[t][i].reused =>
    \E k \in DOMAIN reg : Match(reg[k], out[t][i].m) /\ reg[k].node = out[t][i].node /\ reg[k].inn = out[t][i].inn /\ reg[k].inn2 = out[t][i].inn2

IndInv == TypeOK /\ ProgConsistent /\ Control /\ TmpNumbers /\ OutNumbers /\ Distinct /\ RegFromFresh /\ ReusedFromReg

(* an arbitrary state satisfying IndInv: Gen(N) is an arbitrary value of the variable's type in which every set, *)
(* sequence and function domain has at most N elements                                                          *)
IndInit ==
    /\ reg = Gen(12) /\ out = Gen(12) /\ tmp = Gen(12) /\ accesses = Gen(2)
    /\ nInn = Gen(1) /\ nNode = Gen(1)
    /\ prog \in [Threads -> [Idxs -> Reqs]] /\ plen \in [Threads -> 0..MaxLen]
    /\ pc \in [Threads -> PCs] /\ idx \in [Threads -> Idxs]
    /\ IndInv

(* the constants that stay symbolic in the Apalache runs (--cinit); the carrier sets come from the .cfg files *)
CInit == NInn0 \in Nat /\ NNode0 \in Nat /\ LockedRead \in BOOLEAN
=============================================================================

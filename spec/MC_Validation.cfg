SPECIFICATION Spec
CONSTANTS
  Kinds = {"verify", "trait", "value"}
  VFams = {"struct", "traits", "wiring", "big", "pop"}
  NodeIdPool = {1, 2, 3}
  MaxNodes = 3
  GInns = {1, 2}
  GSrc = {1, 2}
  GDst = {1, 2, 3}
  GRecs = {FALSE, TRUE}
  MaxGenes = 2
  WGenes = 2
  PopMax = 3
  TVals <- QuickTVals
  TSmallLen = 2
  Powers2 = {0, 1, 2, 4}
  Probs8 <- AllProbs8
  UGrid = {0, 4, 5, 7}
  MGrid = {0, 3, 7}
INVARIANTS V_Clauses V_LoopIsDefinition V_NoFalseRejection V_DetectsEndpoints V_DetectsNodeOrder V_DetectsDuplicates
           V_Blind V_Decoration V_Population T_Laws Val_Laws Val_Enums
CHECK_DEADLOCK FALSE

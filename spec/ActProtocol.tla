---------------------------- MODULE ActProtocol ----------------------------
(***************************************************************************)
(* X09 - the activation PROTOCOL and the error behaviour of the standard   *)
(* network (network.go / nnode.go) and of the fast solver                  *)
(* (fast_network.go) on NON-modular networks of ANY topology (cycles,      *)
(* self-loops, time-delayed links, outputs without incoming links, outputs *)
(* that no sensor reaches), beyond the feed-forward agreement of C12 and   *)
(* the flush equivalence of C13 (Solvers.tla, whose network record and     *)
(* solver states are used here unchanged):                                 *)
(*   - every call returns (bool, error): the error CLASS and the boolean   *)
(*     are specified, not only "an error occurred";                        *)
(*   - LoadSensors with any number of values (too few / too many / with    *)
(*     the bias value), NNode.SensorLoad on any node;                      *)
(*   - ActivateSteps / Activate as the loop of the code, keeping every     *)
(*     intermediate state (TRACE), next to what the call means in terms of *)
(*     reachability; per node the activation count, the isActive flag,     *)
(*     GetActiveOut, GetActiveOutTd (the value of the previous step),      *)
(*     FlushbackCheck;                                                     *)
(*   - fast solver: LoadSensors of a wrong length, ForwardSteps(<= 0),     *)
(*     RecursiveSteps on cyclic networks, Relax(maxSteps, delta) with the  *)
(*     returned flag and the number of steps performed;                    *)
(*   - NodeCount / LinkCount / Complexity of both, Network.IsRecurrent as  *)
(*     the counted depth-first search of the code next to reachability;    *)
(*   - (second half) Species.addOrganism / removeOrganism / firstOrganism /*)
(*     findChampion / lastImproved / Size and Organism.Phenotype /         *)
(*     UpdatePhenotype / CheckChampionChildDamaged as small state machines.*)
(* Every section gives the TRANSCRIPTION (what the code does, loop by      *)
(* loop) and the DEFINITION (what it means); the laws that tie them are    *)
(* invariants of MC_ActProtocol.                                           *)
(*                                                                         *)
(* Link records carry two more fields than Solvers.tla reads:              *)
(*   rec = Link.IsRecurrent (only read by Network.IsRecurrent).            *)
(* Values are integers (P5): weights and inputs are integers and the       *)
(* activation functions are the integer-closed ones of Solvers.tla, so     *)
(* every IEEE operation of the code is exact and comparison is ==.         *)
(* The relaxation threshold maxAllowedSignalDelta is the dyadic d2 / 2.    *)
(***************************************************************************)
EXTENDS Solvers, SequencesExt, FiniteSetsExt

(* error classes: "nil", "zero" = ErrZeroActivationStepsRequested, "exceeded" = ErrNetExceededMaxActivationAttempts,  *)
(* "size" = ErrNetUnsupportedSensorsArraySize, "notimpl" = Network.Relax, "panic" = run-time panic (index out of      *)
(* range), "absent" / "nogenes" in the second half                                                                    *)

(* =========================== the standard network =========================== *)
\* NNode.GetActiveOut / GetActiveOutTd / FlushbackCheck (# nil) on a node state of Solvers.tla
ActiveOut(s)   == IF s.c > 0 THEN s.a ELSE 0
ActiveOutTd(s) == IF s.c > 1 THEN s.l1 ELSE 0
FbCheck(s)     == s.c > 0 \/ s.a > 0 \/ s.l1 > 0 \/ s.l2 > 0
OnSet(st)      == { n \in DOMAIN st : st[n].on }
NI(net)        == Cardinality({ i \in DOMAIN net.inputs : net.kind[net.inputs[i]] = "I" })

(* ---- Network.LoadSensors: transcription ---- *)
\* branch len(sensors) == len(inputs): every sensor of `inputs` takes the next value, the bias included
RECURSIVE LoadWalkAll(_, _, _, _, _)
LoadWalkAll(net, st, v, i, cnt) ==
    IF i > Len(net.inputs) THEN st
    ELSE LET n == net.inputs[i] IN
         IF IsSensor(net, n)
         THEN LoadWalkAll(net, [st EXCEPT ![n] = SensorLoadNode(@, v[cnt + 1])], v, i + 1, cnt + 1)
         ELSE LoadWalkAll(net, st, v, i + 1, cnt)
\* any other length: an input neuron takes sensors[counter] (indexing past the end PANICS, the nodes walked so far
\* stay loaded), any other node of `inputs` takes the default bias value 1.0
RECURSIVE LoadWalkDefault(_, _, _, _, _)
LoadWalkDefault(net, st, v, i, cnt) ==
    IF i > Len(net.inputs) THEN [st |-> st, err |-> "nil"]
    ELSE LET n == net.inputs[i] IN
         IF net.kind[n] = "I"
         THEN IF cnt + 1 > Len(v) THEN [st |-> st, err |-> "panic"]
              ELSE LoadWalkDefault(net, [st EXCEPT ![n] = SensorLoadNode(@, v[cnt + 1])], v, i + 1, cnt + 1)
         ELSE LoadWalkDefault(net, [st EXCEPT ![n] = SensorLoadNode(@, 1)], v, i + 1, cnt)
LoadSensorsStd(net, st, v) ==
    IF Len(v) = Len(net.inputs) THEN [st |-> LoadWalkAll(net, st, v, 1, 0), err |-> "nil"]
    ELSE LoadWalkDefault(net, st, v, 1, 0)
(* ---- Network.LoadSensors: definition ---- *)
\* number of input neurons among the first i entries of `inputs`
InputRank(net, i) == Cardinality({ j \in 1..i : net.kind[net.inputs[j]] = "I" })
LoadDef(net, st, v) ==
    LET all == Len(v) = Len(net.inputs)
        pos(n) == CHOOSE i \in DOMAIN net.inputs : net.inputs[i] = n
        \* without the exact length a node is reached iff the input neurons up to it all found a value
        loaded(n) == n \in SeqRange(net.inputs) /\ (all \/ InputRank(net, pos(n)) <= Len(v))
        value(n) == IF all THEN v[pos(n)] ELSE IF net.kind[n] = "I" THEN v[InputRank(net, pos(n))] ELSE 1
    IN  [st  |-> [n \in DOMAIN st |-> IF loaded(n) THEN SensorLoadNode(st[n], value(n)) ELSE st[n]],
         err |-> IF ~all /\ Len(v) < NI(net) THEN "panic" ELSE "nil"]
\* what the call SHOULD mean (the documented ErrNetUnsupportedSensorsArraySize, the fast solver's behaviour): the input
\* values, optionally with the bias values; anything else is an error that loads nothing
LoadLengthSupported(net, len) == len = NI(net) \/ len = Len(net.inputs)
\* the as-coded behaviour departs from that on: too few values (panic after a partial load) and too many values that
\* are not exactly len(inputs) (silently accepted, the surplus ignored)
LoadDeviates(net, len) == ~LoadLengthSupported(net, len)

(* ---- NNode.SensorLoad on any node ---- *)
SensorLoadAny(net, st, n, x) ==
    IF IsSensor(net, n) THEN [st |-> [st EXCEPT ![n] = SensorLoadNode(@, x)], res |-> TRUE]
    ELSE [st |-> st, res |-> FALSE]

(* ---- Network.ActivateSteps: transcription with the trace of states (trace[1] = state at the call, ---- *)
(* ---- trace[j+1] = state after the j-th pass of the loop; Sweep is one pass, Solvers.tla)           ---- *)
RECURSIVE ActRun(_, _, _, _, _, _)
ActRun(net, st, maxSteps, oneTime, abort, trace) ==
    IF OutputIsOff(net, st) \/ ~oneTime
    THEN IF abort >= maxSteps
         THEN [st |-> st, err |-> "exceeded", res |-> FALSE, trace |-> trace]
         ELSE LET s2 == TLCEval(Sweep(net, st))
              IN  ActRun(net, s2, maxSteps, TRUE, abort + 1, Append(trace, s2))
    ELSE [st |-> st, err |-> "nil", res |-> TRUE, trace |-> trace]
ActivateStepsT(net, st, maxSteps) ==
    IF maxSteps = 0 THEN [st |-> st, err |-> "zero", res |-> FALSE, trace |-> <<st>>]
    ELSE ActRun(net, st, maxSteps, FALSE, 0, <<st>>)
MaxAttempts == 20                      \* Network.Activate: ActivateSteps(20)
ActivateT(net, st) == ActivateStepsT(net, st, MaxAttempts)
\* Network.ForwardSteps: `steps` calls of ActivateSteps(steps); the boolean is the one of the last call
RECURSIVE FwdRun(_, _, _, _, _, _)
FwdRun(net, st, steps, i, res, trace) ==
    IF i >= steps THEN [st |-> st, err |-> "nil", res |-> res, trace |-> trace]
    ELSE LET r == TLCEval(ActivateStepsT(net, st, steps)) IN
         IF r.err # "nil" THEN [st |-> r.st, err |-> r.err, res |-> FALSE, trace |-> trace \o Tail(r.trace)]
         ELSE FwdRun(net, r.st, steps, i + 1, r.res, trace \o Tail(r.trace))
ForwardStepsT(net, st, steps) ==
    IF steps = 0 THEN [st |-> st, err |-> "zero", res |-> FALSE, trace |-> <<st>>]
    ELSE FwdRun(net, st, steps, 0, FALSE, <<st>>)
\* Network.RecursiveSteps: ForwardSteps(MaxActivationDepthWithCap(0)) - the depth may be ZERO (an output without
\* incoming links in a network with a hidden node), which makes the call fail with "zero"
RecursiveStepsT(net, st) == ForwardStepsT(net, st, StdDepth(net))
\* Network.Relax
RelaxStd(net, st) == [st |-> st, err |-> "notimpl", res |-> FALSE, trace |-> <<st>>]
\* Network.Flush: Flushback + FlushbackCheck of every node: (true, nil)
FlushT(net, st) == [st |-> StdFlush(net, st), err |-> "nil", res |-> TRUE, trace |-> <<st>>]

(* ---- ActivateSteps: definition ---- *)
\* the neurons that activity can reach: least set containing the neurons that are already active and closed under
\* "has a link that is not time-delayed from a sensor or from a member"
RECURSIVE Grow(_, _)
Grow(net, S) ==
    LET nxt == { n \in NeuronSet(net) \ S :
                   \E k \in DOMAIN net.inc[n] : ~net.inc[n][k].td /\
                        (net.inc[n][k].src \in S \/ IsSensor(net, net.inc[n][k].src)) }
    IN  IF nxt = {} THEN S ELSE Grow(net, S \cup nxt)
Reach(net, on0) == Grow(net, on0)
\* the outputs that are still off at the call
OffOutputs(net, st) == { net.outputs[i] : i \in { j \in DOMAIN net.outputs : st[net.outputs[j]].c = 0 } }
\* Activate can succeed iff activity reaches every output that is still off
CanTurnOn(net, st) == OffOutputs(net, st) \subseteq Reach(net, OnSet(st))
Sweeps(r) == Len(r.trace) - 1

\* laws of one call of ActivateSteps(k) from state st with result r
ActivateLaws(net, st, k, r) ==
    /\ r.trace[1] = st /\ r.trace[Len(r.trace)] = r.st
    /\ r.res = (r.err = "nil")
    \* agreement with the functional description of Solvers.tla (C12 / C13 use that one)
    /\ LET s == StdActivateSteps(net, st, k) IN s.st = r.st /\ s.err = (r.err # "nil")
    /\ k = 0 => r.err = "zero" /\ r.st = st
    /\ k < 0 => r.err = "exceeded" /\ r.st = st
    /\ k > 0 =>
         /\ r.err \in {"nil", "exceeded"}
         \* success: at least one pass, every output has been activated at least once, and the loop stopped as soon
         \* as that was so
         /\ r.err = "nil" => /\ Sweeps(r) >= 1 /\ Sweeps(r) <= k
                             /\ ~OutputIsOff(net, r.st)
                             /\ \A j \in 2..(Len(r.trace) - 1) : OutputIsOff(net, r.trace[j])
         \* failure: exactly k passes were made (the state moved on) and some output is still off
         /\ r.err = "exceeded" => Sweeps(r) = k /\ OutputIsOff(net, r.st)
         \* the meaning: with at least as many attempts as there are neurons the call succeeds iff activity can
         \* reach every output that is off (through links that are not time-delayed, from ANY sensor - loaded or
         \* not - or from a neuron that is already active)
         /\ k >= Cardinality(NeuronSet(net)) => (r.err = "nil") = CanTurnOn(net, st)
         /\ r.err = "nil" => CanTurnOn(net, st)
\* laws of one pass s -> t
SweepLaws(net, s, t) ==
    /\ \A n \in DOMAIN s :
         /\ s[n].on => t[n].on                                       \* flags are only ever raised
         /\ IsSensor(net, n) => t[n] = s[n]                          \* a pass never touches a sensor
         /\ IsNeuron(net, n) =>
              IF t[n].on
              THEN /\ t[n].c = s[n].c + 1                            \* every active neuron is activated exactly once
                   /\ t[n].l1 = s[n].a /\ t[n].l2 = s[n].l1           \* and remembers its two previous values
                   \* the time-delayed output is the value the node showed during the previous pass
                   /\ ActiveOutTd(t[n]) = ActiveOut(s[n])
                   /\ t[n].a = Act(net.act[n], SumLinks(s, net.inc[n], 1))   \* from the values BEFORE the pass
              ELSE t[n] = s[n]
    /\ OnSet(t) \subseteq Reach(net, OnSet(s))                       \* only reachable neurons become active
    \* a neuron fed directly (not time-delayed) by a sensor or by a neuron that was active is active after the pass
    /\ \A n \in NeuronSet(net) :
         (\E k \in DOMAIN net.inc[n] : ~net.inc[n][k].td /\
               (IsSensor(net, net.inc[n][k].src) \/ s[net.inc[n][k].src].on)) => t[n].on
TraceLaws(net, r) == \A j \in 1..(Len(r.trace) - 1) : SweepLaws(net, r.trace[j], r.trace[j + 1])
ForwardLaws(net, st, k, r) ==
    /\ LET s == StdForwardSteps(net, st, k) IN s.st = r.st /\ s.err = (r.err # "nil")
    /\ k = 0 => r.err = "zero" /\ r.st = st
    /\ k < 0 => r.err = "nil" /\ ~r.res /\ r.st = st                 \* no pass, no error, FALSE
    /\ k > 0 => /\ r.res = (r.err = "nil")
                /\ r.err = "nil" => Sweeps(r) >= k /\ ~OutputIsOff(net, r.st)
                \* once every output is on each ActivateSteps makes exactly one pass
                /\ ~OutputIsOff(net, st) => r.err = "nil" /\ Sweeps(r) = k
LoadLaws(net, st, v, r) ==
    /\ r = LoadDef(net, st, v)                                       \* the walk is the definition
    /\ Len(v) = NI(net) => r.err = "nil" /\ r.st = StdLoad(net, st, v)
    /\ r.err = "nil" => \A n \in DOMAIN st : IF IsSensor(net, n) /\ n \in SeqRange(net.inputs)
                                              THEN r.st[n].c = st[n].c + 1 /\ r.st[n].l1 = st[n].a
                                              ELSE r.st[n] = st[n]
    /\ LoadLengthSupported(net, Len(v)) => r.err = "nil"
FlushLaws(net, r) == r.st = StdFresh(net) /\ \A n \in DOMAIN r.st : ~FbCheck(r.st[n])

(* =============================== the fast solver =============================== *)
\* forwardStep(maxAllowedSignalDelta = d2 / 2)
FastStepD(fm, fs, d2) ==
    LET acc == TLCEval([p \in 1..fm.n |-> fs.pre[p] + ConnSum(fs, fm.conns, p, 1)])
        new == TLCEval([p \in 1..fm.n |-> IF p > fm.ns THEN Act(fm.act[p], acc[p] + FoldedBias(fm, p)) ELSE acc[p]])
    IN  [fs |-> [fs EXCEPT !.sig = [p \in 1..fm.n |-> IF p > fm.ns THEN new[p] ELSE fs.sig[p]],
                           !.pre = [p \in 1..fm.n |-> IF p > fm.ns THEN 0 ELSE new[p]]],
         relaxed |-> d2 <= 0 \/ \A p \in (fm.ns + 1)..fm.n : 2 * AbsI(fs.sig[p] - new[p]) <= d2]
\* Relax: the loop, with the number of steps performed
RECURSIVE RelaxRun(_, _, _, _, _)
RelaxRun(fm, fs, maxSteps, d2, i) ==
    IF i >= maxSteps THEN [fs |-> fs, err |-> "nil", res |-> FALSE, steps |-> i]
    ELSE LET r == TLCEval(FastStepD(fm, fs, d2)) IN
         IF r.relaxed THEN [fs |-> r.fs, err |-> "nil", res |-> TRUE, steps |-> i + 1]
         ELSE RelaxRun(fm, r.fs, maxSteps, d2, i + 1)
FastRelaxT(fm, fs, maxSteps, d2) ==
    IF maxSteps <= 0 THEN [fs |-> fs, err |-> "nil", res |-> FALSE, steps |-> 0] ELSE RelaxRun(fm, fs, maxSteps, d2, 0)
\* ForwardSteps: no error and FALSE for steps <= 0 (the standard network answers "zero" to 0)
FastForwardT(fm, fs, steps) ==
    [fs |-> FastForwardSteps(fm, fs, steps), err |-> "nil", res |-> steps > 0, steps |-> IF steps > 0 THEN steps ELSE 0]
FastRecursiveT(fm, fs) == [fs |-> FastRecursiveSteps(fm, fs), err |-> "nil", res |-> TRUE, steps |-> 0]
FastFlushT(fm, fs) == [fs |-> FastFlush(fm, fs), err |-> "nil", res |-> TRUE, steps |-> 0]
\* LoadSensors: exactly the input neurons, anything else is "size" and changes nothing
FastLoadT(fm, fs, v) ==
    IF Len(v) = fm.ni THEN [fs |-> FastLoad(fm, fs, v), err |-> "nil", res |-> TRUE, steps |-> 0]
    ELSE [fs |-> fs, err |-> "size", res |-> FALSE, steps |-> 0]

\* definition of Relax: the state is that of ForwardSteps(j) for the number j of steps performed; with a positive
\* threshold j is the first step that moved no neuron by more than the threshold (relaxed) or maxSteps (not relaxed)
MovedMoreThan(fm, f, g, d2) == \E p \in (fm.ns + 1)..fm.n : 2 * AbsI(f.sig[p] - g.sig[p]) > d2
RelaxLaws(fm, fs, k, d2, r) ==
    /\ FastObservable(r.fs) = FastObservable(FastForwardSteps(fm, fs, r.steps))
    /\ k <= 0 => r.steps = 0 /\ ~r.res /\ r.fs = fs
    /\ (k > 0 /\ d2 <= 0) => r.steps = 1 /\ r.res            \* no threshold: ONE step whatever maxSteps, TRUE
    /\ (k > 0 /\ d2 > 0) =>
         /\ r.steps >= 1 /\ r.steps <= k
         /\ r.res => ~MovedMoreThan(fm, FastForwardSteps(fm, fs, r.steps - 1), r.fs, d2)
         /\ ~r.res => r.steps = k
         /\ \A j \in 1..(r.steps - (IF r.res THEN 1 ELSE 0)) :
               MovedMoreThan(fm, FastForwardSteps(fm, fs, j - 1), FastForwardSteps(fm, fs, j), d2)
    /\ d2 = 1 => LET s == FastRelax(fm, fs, k, TRUE) IN FastObservable(s) = FastObservable(r.fs)   \* Solvers.tla
\* no call of the fast solver but LoadSensors writes a sensor signal; bias signals are one for ever
FastFrame(fm, fs, gs, isLoad) ==
    /\ \A p \in 1..fm.nb : gs.sig[p] = 1
    /\ ~isLoad => \A p \in 1..fm.ns : gs.sig[p] = fs.sig[p]

(* ============================= static queries ============================= *)
StdNodeCount(net)  == Len(net.order)
RECURSIVE SumLens(_, _)
SumLens(net, ns) == IF ns = <<>> THEN 0 ELSE Len(net.inc[Head(ns)]) + SumLens(net, Tail(ns))
StdLinkCount(net)  == SumLens(net, net.order)
StdComplexity(net) == StdNodeCount(net) + StdLinkCount(net)
FastNodeCount(fm)  == fm.n
\* the connections plus one per neuron whose FOLDED bias weight is not zero (only when there is a bias neuron)
FastLinkCount(fm)  == Len(fm.conns) + (IF fm.nb > 0 THEN Cardinality({ p \in 1..fm.n : fm.bias[p] # 0 }) ELSE 0)
BiasLinks(net) == { <<n, i>> \in NeuronSet(net) \X (1..Len(net.order)) :
                      i \in DOMAIN net.inc[n] /\ net.kind[net.inc[n][i].src] = "B" }
CountLaws(net, fm) ==
    /\ FastNodeCount(fm) = StdNodeCount(net)
    /\ FastLinkCount(fm) = StdLinkCount(net) - Cardinality(BiasLinks(net))
                           + Cardinality({ p \in 1..fm.n : fm.bias[p] # 0 })
    \* the two counts agree iff no neuron has several bias links or a bias weight (sum) of zero
    /\ (\A n \in NeuronSet(net) : Cardinality({ b \in BiasLinks(net) : b[1] = n }) =
            (IF BiasSum(net, net.inc[n], 1) # 0 THEN 1 ELSE 0)) => FastLinkCount(fm) = StdLinkCount(net)

\* Network.IsRecurrent(inNode, outNode, &count, thresh): result [r, cnt]
RECURSIVE IsRec(_, _, _, _, _), IsRecScan(_, _, _, _, _, _)
IsRec(net, in, out, cnt, thresh) ==
    LET c1 == cnt + 1 IN
    IF c1 > thresh THEN [r |-> FALSE, cnt |-> c1]
    ELSE IF in = out THEN [r |-> TRUE, cnt |-> c1]
    ELSE IsRecScan(net, in, out, c1, thresh, 1)
IsRecScan(net, in, out, cnt, thresh, i) ==
    IF i > Len(net.inc[in]) THEN [r |-> FALSE, cnt |-> cnt]
    ELSE IF net.inc[in][i].rec THEN IsRecScan(net, in, out, cnt, thresh, i + 1)
    ELSE LET r == IsRec(net, net.inc[in][i].src, out, cnt, thresh) IN
         IF r.r THEN r ELSE IsRecScan(net, in, out, r.cnt, thresh, i + 1)
\* definition: a link in -> out would close a loop iff `out` is `in` or lies upstream of `in` along links that are
\* not themselves marked recurrent
RECURSIVE Upstream(_, _, _)
Upstream(net, frontier, acc) ==
    LET nxt == (UNION { { net.inc[x][i].src : i \in { j \in DOMAIN net.inc[x] : ~net.inc[x][j].rec } } : x \in frontier }) \ acc
    IN  IF nxt = {} THEN acc ELSE Upstream(net, nxt, acc \cup nxt)
WouldBeRecurrent(net, in, out) == out \in Upstream(net, {in}, {in})
IsRecLaws(net, in, out, thresh) ==
    LET q == IsRec(net, in, out, 0, thresh) IN
    /\ q.r => WouldBeRecurrent(net, in, out) /\ q.cnt <= thresh       \* never a false alarm
    /\ q.cnt <= thresh => q.r = WouldBeRecurrent(net, in, out)        \* exact unless the visit budget ran out
    \* (once the budget is gone every further visit still counts: cnt may end far above thresh)

(* ===================== JSON view handed to the replayer ==================== *)
RECURSIVE LinksOfX(_, _)
LinksOfX(nt, ns) ==
    IF ns = <<>> THEN <<>>
    ELSE [i \in DOMAIN nt.inc[Head(ns)] |->
            [src |-> nt.inc[Head(ns)][i].src, dst |-> Head(ns), w |-> nt.inc[Head(ns)][i].w,
             td |-> nt.inc[Head(ns)][i].td, rec |-> nt.inc[Head(ns)][i].rec]] \o LinksOfX(nt, Tail(ns))
\* links in creation order: grouped by target neuron in the order of allNodes, inside a group the order of Incoming
CreationLinks(nt) == LinksOfX(nt, SelectSeq(nt.order, LAMBDA n : IsNeuron(nt, n)))
NetJsonX(nt, build) ==
    [nodes |-> [i \in DOMAIN nt.order |-> [id |-> nt.order[i], kind |-> nt.kind[nt.order[i]], act |-> nt.act[nt.order[i]]]],
     inputs |-> nt.inputs, outputs |-> nt.outputs, links |-> CreationLinks(nt), build |-> build]
\* NNode.ConnectFrom / AddIncoming / AddOutgoing: Incoming of the target and Outgoing of the source, in creation order
IncomingOf(nt, n) == SelectSeq(CreationLinks(nt), LAMBDA l : l.dst = n)
OutgoingOf(nt, n) == SelectSeq(CreationLinks(nt), LAMBDA l : l.src = n)
PerNode(nt, st, F(_)) == [i \in DOMAIN nt.order |-> F(st[nt.order[i]])]
StdObs(nt, st, err, res) ==
    [err |-> err, res |-> res, off |-> OutputIsOff(nt, st), outs |-> StdOutputs(nt, st),
     c   |-> PerNode(nt, st, LAMBDA s : s.c),   a  |-> PerNode(nt, st, LAMBDA s : s.a),
     out |-> PerNode(nt, st, ActiveOut),         td |-> PerNode(nt, st, ActiveOutTd),
     on  |-> PerNode(nt, st, LAMBDA s : s.on),  l2 |-> PerNode(nt, st, LAMBDA s : s.l2),
     fbc |-> PerNode(nt, st, FbCheck)]
FastObs(m, fs, err, res, steps) ==
    [err |-> err, res |-> res, outs |-> FastOutputs(m, fs), sig |-> fs.sig, pre |-> fs.pre, steps |-> steps]

(* ============== second half: species and organism helper operations ============== *)
\* genetics.Organisms.Less
KeyLess(a, b) == a.fit < b.fit \/ (a.fit = b.fit /\ a.hi < b.hi)
\* A species is [members: Seq(id)] over organisms 1..N with keys key[id] = [fit, hi]; `exact` is FALSE once a sort has
\* had to order two different organisms with equal keys (sort.Sort is not stable: either order is right).
SpFresh == [members |-> <<>>, exact |-> TRUE]
\* best first under Less, equal keys by id (one admissible result of sort.Sort(sort.Reverse(...)))
SpSorted(key, ms) == SortSeq(ms, LAMBDA x, y : KeyLess(key[y], key[x]) \/ (~KeyLess(key[x], key[y]) /\ x < y))
HasTie(key, ms) == \E i, j \in DOMAIN ms : ms[i] # ms[j] /\ ~KeyLess(key[ms[i]], key[ms[j]]) /\ ~KeyLess(key[ms[j]], key[ms[i]])
SpApply(key, sp, o) ==
    CASE o.op = "add" ->                                   \* addOrganism: append, duplicates welcome
           [sp |-> [sp EXCEPT !.members = Append(@, o.k)], err |-> "nil", ret |-> 0]
      [] o.op = "remove" ->                                \* removeOrganism: filter; an error unless exactly one went
           LET rest == SelectSeq(sp.members, LAMBDA x : x # o.k) IN
           IF Len(rest) # Len(sp.members) - 1 THEN [sp |-> sp, err |-> "absent", ret |-> 0]
           ELSE [sp |-> [sp EXCEPT !.members = rest], err |-> "nil", ret |-> 1]
      [] o.op = "champ" ->                                 \* findChampion: sort best first, take Organisms[0]
           IF sp.members = <<>> THEN [sp |-> sp, err |-> "panic", ret |-> 0]
           ELSE LET s == SpSorted(key, sp.members) IN
                [sp |-> [members |-> s, exact |-> sp.exact /\ ~HasTie(key, sp.members)], err |-> "nil", ret |-> s[1]]
SpFirst(sp) == IF sp.members = <<>> THEN 0 ELSE sp.members[1]          \* firstOrganism (0 = nil)
SpSize(sp) == Len(sp.members)
SpLastImproved(age, imp) == age - imp
SpLaws(key, sp, o, r) ==
    /\ o.op = "add" => r.err = "nil" /\ r.sp.members = Append(sp.members, o.k)
    /\ o.op = "remove" =>
         /\ (r.err = "nil") = (Cardinality({ i \in DOMAIN sp.members : sp.members[i] = o.k }) = 1)
         /\ r.err = "nil" => /\ o.k \notin SeqRange(r.sp.members) /\ SpSize(r.sp) = SpSize(sp) - 1
                             /\ r.sp.members = SelectSeq(sp.members, LAMBDA x : x # o.k)      \* order of the others kept
         /\ r.err # "nil" => r.err = "absent" /\ r.sp = sp
    /\ o.op = "champ" =>
         /\ (r.err = "panic") = (sp.members = <<>>)
         /\ r.err = "nil" => /\ \A i \in DOMAIN sp.members : ~KeyLess(key[r.ret], key[sp.members[i]])   \* maximal
                             /\ SpFirst(r.sp) = r.ret
                             /\ \A i, j \in DOMAIN r.sp.members : i < j => ~KeyLess(key[r.sp.members[i]], key[r.sp.members[j]])
                             /\ \A x \in SeqRange(sp.members) :
                                   Cardinality({ i \in DOMAIN sp.members : sp.members[i] = x }) =
                                   Cardinality({ i \in DOMAIN r.sp.members : r.sp.members[i] = x })
SpObs(key, sp, err, ret, age, imp) ==
    [err |-> err, ret |-> ret, retkey |-> IF ret > 0 /\ ret <= Len(key) THEN <<key[ret]>> ELSE <<>>,
     ids |-> sp.members, keys |-> [i \in DOMAIN sp.members |-> key[sp.members[i]]], exact |-> sp.exact,
     size |-> SpSize(sp), first |-> SpFirst(sp),
     firstkey |-> IF sp.members = <<>> THEN <<>> ELSE <<key[sp.members[1]]>>, lastimp |-> SpLastImproved(age, imp)]

\* An organism over a genome with genes 1..Len(genes) (each [src, dst, w]) whose enabled flags are `en`, `nogenes` =
\* the gene list was emptied.  Networks are numbered in the order they are created; nets[i] = links expressed by the
\* i-th Genesis; cache = Organism.orgPhenotype, gph = Genome.Phenotype (0 = nil).
OrgFresh(en) == [en |-> en, nogenes |-> FALSE, cache |-> 0, gph |-> 0, nets |-> <<>>]
Expressed(genes, en) == SelectSeq([i \in DOMAIN genes |-> [src |-> genes[i].src, dst |-> genes[i].dst, w |-> genes[i].w, g |-> i]],
                                  LAMBDA x : en[x.g])
\* Genome.Genesis: an error for a genome without genes (ALL genes disabled is fine: a network without links)
Genesis(genes, X) ==
    IF X.nogenes THEN [X |-> X, err |-> "nogenes", id |-> 0]
    ELSE LET id == Len(X.nets) + 1 IN
         [X |-> [X EXCEPT !.nets = Append(@, Expressed(genes, X.en)), !.gph = id], err |-> "nil", id |-> id]
OrgApply(genes, X, o) ==
    CASE o.op = "pheno" ->                                 \* Organism.Phenotype: build once, then the cached network
           IF X.cache = 0
           THEN LET g == Genesis(genes, X) IN
                IF g.err # "nil" THEN [X |-> X, err |-> g.err, ret |-> 0]
                ELSE [X |-> [g.X EXCEPT !.cache = g.id], err |-> "nil", ret |-> g.id]
           ELSE [X |-> X, err |-> "nil", ret |-> X.cache]
      [] o.op = "update" ->                                \* UpdatePhenotype: drop the cache, express again
           LET g == Genesis(genes, [X EXCEPT !.cache = 0]) IN
           IF g.err # "nil" THEN [X |-> [X EXCEPT !.cache = 0], err |-> g.err, ret |-> 0]
           ELSE [X |-> [g.X EXCEPT !.cache = g.id], err |-> "nil", ret |-> g.id]
      [] o.op = "toggle" ->                                \* the caller flips Gene.IsEnabled of gene k
           [X |-> [X EXCEPT !.en[o.k] = ~@], err |-> "nil", ret |-> 0]
      [] o.op = "drop" ->                                  \* the caller empties Genome.Genes
           [X |-> [X EXCEPT !.nogenes = TRUE], err |-> "nil", ret |-> 0]
OrgLinks(X) == IF X.cache = 0 THEN <<>> ELSE X.nets[X.cache]
\* the cached network expresses the genome as it is now
OrgFreshNow(genes, X) == X.cache # 0 /\ ~X.nogenes /\ OrgLinks(X) = Expressed(genes, X.en)
OrgLaws(genes, X, o, r) ==
    /\ o.op = "update" =>
         /\ (r.err = "nil") = ~X.nogenes
         /\ r.err = "nil" => /\ OrgFreshNow(genes, r.X)                   \* regenerated from the genome as it is now
                             /\ r.X.cache = Len(X.nets) + 1               \* always a NEW network
                             /\ r.X.gph = r.X.cache
         /\ r.err # "nil" => r.X.cache = 0 /\ r.X.gph = X.gph             \* the old network stays on the genome
    /\ o.op = "pheno" =>
         /\ X.cache # 0 => r.X = X /\ r.ret = X.cache /\ r.err = "nil"    \* cached: whatever happened to the genome
         /\ (X.cache = 0 /\ ~X.nogenes) => r.err = "nil" /\ OrgFreshNow(genes, r.X) /\ r.ret = r.X.cache
         /\ (X.cache = 0 /\ X.nogenes) => r.err = "nogenes" /\ r.X = X
    /\ o.op \in {"toggle", "drop"} => r.X.cache = X.cache /\ r.X.nets = X.nets  \* the genome moves, the cache does not
OrgObs(genes, X, err, ret) ==
    [err |-> err, ret |-> ret, cache |-> X.cache, gph |-> X.gph, links |-> OrgLinks(X),
     fresh |-> OrgFreshNow(genes, X), created |-> Len(X.nets)]
\* Organism.CheckChampionChildDamaged
Damaged(child, hi, fit) == child /\ hi > fit
=============================================================================

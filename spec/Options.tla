------------------------------- MODULE Options -------------------------------
(***************************************************************************)
(* X02 - neat.Options: the two readers (plain `.neat`, YAML), validation,  *)
(* the context carrier and the reader dispatch on the file name (growth    *)
(* of the specification beyond the listed properties, DESIGN.md 3).        *)
(*                                                                         *)
(* An option file is a token list <<key, literal>>; the plain syntax       *)
(* writes a token as `key literal` on a line, YAML as `key: literal` (plus *)
(* the `node_activators` list, which only YAML can express).  Literals are *)
(* strings; their numeric meaning is given by the tables below as exact    *)
(* rationals <<num, den>> / integers (TLC has neither floats nor string    *)
(* parsing).  The readers are transcribed with the behaviour they have:    *)
(*   plain: tokens are applied in order (a later token overrides an        *)
(*          earlier one), an unknown key is an error at the token where it *)
(*          occurs, a literal that is not a number silently becomes 0      *)
(*          (spf13/cast drops the error), integers are read with base      *)
(*          prefixes (010 = 8) and `7.0` = 7;                              *)
(*   YAML:  a duplicate key or a literal of the wrong type is a decode     *)
(*          error, unknown keys are ignored, integral floats are accepted  *)
(*          for integers and other floats are truncated;                   *)
(*   both:  then the log level is installed (error if unsupported), the    *)
(*          activator list is parsed (default: one SigmoidSteepened with   *)
(*          probability 1), then Validate: executor, compatibility method, *)
(*          activators present, as many probabilities as activators.       *)
(***************************************************************************)
EXTENDS Integers, Sequences, FiniteSets, FiniteSetsExt, SequencesExt, Functions, TLC

FloatKeys == <<"trait_param_mut_prob", "trait_mutation_power", "weight_mut_power", "disjoint_coeff", "excess_coeff",
               "mutdiff_coeff", "compat_threshold", "age_significance", "survival_thresh", "mutate_only_prob",
               "mutate_random_trait_prob", "mutate_link_trait_prob", "mutate_node_trait_prob",
               "mutate_link_weights_prob", "mutate_toggle_enable_prob", "mutate_gene_reenable_prob",
               "mutate_add_node_prob", "mutate_add_link_prob", "mutate_connect_sensors", "interspecies_mate_rate",
               "mate_multipoint_prob", "mate_multipoint_avg_prob", "mate_singlepoint_prob", "mate_only_prob",
               "recur_only_prob">>
IntKeys == <<"pop_size", "dropoff_age", "newlink_tries", "print_every", "babies_stolen", "num_runs", "num_generations">>
EnumKeys == <<"epoch_executor", "genome_compat_method", "log_level">>
FloatKeySet == Range(FloatKeys)
IntKeySet == Range(IntKeys)
KnownKeys == FloatKeySet \cup IntKeySet \cup Range(EnumKeys)

Executors == {"sequential", "parallel"}
CompatMethods == {"linear", "fast"}
LogLevels == {"debug", "info", "warn", "error"}
Absent == "<absent>"

(* ---- literals and their meaning ---- *)
FloatLits == <<"0.5", "1.0", "2.5", "0.0010", "3", "1e-3", ".25", "0.0", "-1.5">>
FloatVal == ("0.5" :> <<1, 2>>) @@ ("1.0" :> <<1, 1>>) @@ ("2.5" :> <<5, 2>>) @@ ("0.0010" :> <<1, 1000>>) @@ ("3" :> <<3, 1>>)
            @@ ("1e-3" :> <<1, 1000>>) @@ (".25" :> <<1, 4>>) @@ ("0.0" :> <<0, 1>>) @@ ("-1.5" :> <<-3, 2>>)
            @@ ("0.25" :> <<1, 4>>) @@ ("0.35" :> <<35, 100>>) @@ ("0.15" :> <<15, 100>>)
IntLits == <<"200", "50", "1", "0", "010", "7.0", "-3">>
IntVal == ("200" :> 200) @@ ("50" :> 50) @@ ("1" :> 1) @@ ("0" :> 0) @@ ("010" :> 8) @@ ("7.0" :> 7) @@ ("-3" :> -3)
\* literals on which the two readers are known to differ (not numbers of the expected type)
OddFloatLits == {"abc"}
OddIntLits == {"abc", "1e3", "200.5"}
YamlOddInt == ("1e3" :> 1000) @@ ("200.5" :> 200)
Err == <<"ERR">>

PlainFloat(lit) == IF lit = Absent THEN <<0, 1>> ELSE IF lit \in DOMAIN FloatVal THEN FloatVal[lit] ELSE <<0, 1>>
PlainInt(lit) == IF lit = Absent THEN 0 ELSE IF lit \in DOMAIN IntVal THEN IntVal[lit] ELSE 0
YamlFloat(lit) == IF lit = Absent THEN <<0, 1>> ELSE IF lit \in DOMAIN FloatVal THEN FloatVal[lit] ELSE Err
YamlIntOK(lit) == lit = Absent \/ lit \in DOMAIN IntVal \/ lit \in DOMAIN YamlOddInt
YamlInt(lit) == IF lit = Absent THEN 0 ELSE IF lit \in DOMAIN IntVal THEN IntVal[lit] ELSE YamlOddInt[lit]

(* ---- activator lines: a line is a sequence of fields ---- *)
KnownActivators == {"SigmoidSteepenedActivation", "SigmoidBipolarActivation", "GaussianBipolarActivation",
                    "LinearAbsActivation", "SineActivation", "TanhActivation", "NullActivation", "LinearActivation",
                    "StepActivation", "MultiplyModuleActivation"}
DefaultActs == << <<"SigmoidSteepenedActivation", 1, 1>> >>
\* the first line that cannot be read decides; the result is the error class or the list <<name, num, den>>
RECURSIVE ParseActs(_, _)
ParseActs(lines, acc) ==
    IF lines = <<>> THEN [err |-> "", acts |-> acc]
    ELSE LET l == Head(lines) IN
         IF Len(l) < 2 THEN [err |-> "activator_fields", acts |-> <<>>]      \* a reader must report this as an error
         ELSE IF l[1] \notin KnownActivators THEN [err |-> "activator_name", acts |-> <<>>]
         ELSE IF l[2] \notin DOMAIN FloatVal THEN [err |-> "activator_prob", acts |-> <<>>]
         ELSE ParseActs(Tail(lines), Append(acc, <<l[1], FloatVal[l[2]][1], FloatVal[l[2]][2]>>))   \* further fields are ignored
InitActs(lines) == IF lines = <<>> THEN [err |-> "", acts |-> DefaultActs] ELSE ParseActs(lines, <<>>)

(* ---- Validate on the loaded record ---- *)
ValidateErr(exec, compat, nActs, nProbs) ==
    IF exec \notin Executors THEN "executor"
    ELSE IF compat \notin CompatMethods THEN "compat"
    ELSE IF nActs = 0 THEN "no_activators"
    ELSE IF nActs # nProbs THEN "mismatch"
    ELSE ""

(* ---- the readers ---- *)
NoVals == [k \in KnownKeys |-> Absent]
Str(lit) == IF lit = Absent THEN "" ELSE lit
Failed(e) == [status |-> e]
Loaded(vals, syntax, acts, lines) ==
    [status |-> "ok",
     floats |-> [k \in FloatKeySet |-> IF syntax = "plain" THEN PlainFloat(vals[k]) ELSE YamlFloat(vals[k])],
     ints |-> [k \in IntKeySet |-> IF syntax = "plain" THEN PlainInt(vals[k]) ELSE YamlInt(vals[k])],
     exec |-> Str(vals["epoch_executor"]), compat |-> Str(vals["genome_compat_method"]), level |-> Str(vals["log_level"]),
     acts |-> acts, act_lines |-> lines]
\* what both readers do after the fields are known
Finish(vals, syntax, lines) ==
    IF Str(vals["log_level"]) \notin LogLevels THEN Failed("log_level")
    ELSE LET a == InitActs(lines) IN
         IF a.err # "" THEN Failed(a.err)
         ELSE LET v == ValidateErr(Str(vals["epoch_executor"]), Str(vals["genome_compat_method"]), Len(a.acts), Len(a.acts)) IN
              IF v # "" THEN Failed(v) ELSE Loaded(vals, syntax, a.acts, lines)

RECURSIVE PlainScan(_, _)
PlainScan(toks, vals) ==        \* result: the value map, or <<"unknown_key">>
    IF toks = <<>> THEN vals
    ELSE LET t == Head(toks) IN
         IF t[1] \notin KnownKeys THEN <<"unknown_key">>
         ELSE PlainScan(Tail(toks), [vals EXCEPT ![t[1]] = t[2]])
PlainRead(toks) == LET v == PlainScan(toks, NoVals) IN
                   IF v = <<"unknown_key">> THEN Failed("unknown_key") ELSE Finish(v, "plain", <<>>)

KeysOf(toks) == [i \in DOMAIN toks |-> toks[i][1]]
HasDuplicateKey(toks) == \E i, j \in DOMAIN toks : i < j /\ toks[i][1] = toks[j][1]
YamlVals(toks) == [k \in KnownKeys |-> IF \E i \in DOMAIN toks : toks[i][1] = k
                                       THEN toks[CHOOSE i \in DOMAIN toks : toks[i][1] = k][2] ELSE Absent]
YamlRead(toks, lines) ==
    IF HasDuplicateKey(toks) THEN Failed("decode")
    ELSE LET v == YamlVals(toks) IN
         IF (\E k \in FloatKeySet : YamlFloat(v[k]) = Err) \/ (\E k \in IntKeySet : ~YamlIntOK(v[k])) THEN Failed("decode")
         ELSE Finish(v, "yaml", lines)

\* the process-wide log level after a read that started with level `before`: installed as soon as it is recognised,
\* whatever happens afterwards; a read that fails earlier leaves it alone
LevelAfter(result, toksLevel, before, reachedLogger) ==
    IF reachedLogger /\ toksLevel \in LogLevels THEN toksLevel ELSE before

(* ---- the validity predicate stated independently of the walks ---- *)
WellFormedFile(toks) ==      \* every literal is a number of the expected type, keys known and not repeated
    /\ ~HasDuplicateKey(toks)
    /\ \A i \in DOMAIN toks :
        /\ toks[i][1] \in KnownKeys
        /\ toks[i][1] \in FloatKeySet => toks[i][2] \in DOMAIN FloatVal
        /\ toks[i][1] \in IntKeySet => toks[i][2] \in DOMAIN IntVal
Get(toks, k) == YamlVals(toks)[k]
AcceptableFile(toks) ==      \* what the code documents as required of a well-formed file
    /\ Str(Get(toks, "log_level")) \in LogLevels
    /\ Str(Get(toks, "epoch_executor")) \in Executors
    /\ Str(Get(toks, "genome_compat_method")) \in CompatMethods

(* ---- context carrier: a context is a stack of layers, a layer carries an options id or something else ---- *)
FromContext(stack) ==
    LET opt == { i \in DOMAIN stack : stack[i] # 0 } IN      \* 0 = a layer with a foreign key
    IF opt = {} THEN [found |-> FALSE, id |-> 0] ELSE [found |-> TRUE, id |-> stack[Max(opt)]]

(* ---- reader dispatch on the file name (a name is a sequence of characters) ---- *)
HasSuffix(name, suf) == Len(name) >= Len(suf) /\ SubSeq(name, Len(name) - Len(suf) + 1, Len(name)) = suf
ReadAsYaml(name) == HasSuffix(name, <<"y", "m", "l">>) \/ HasSuffix(name, <<"y", "a", "m", "l">>)
=============================================================================

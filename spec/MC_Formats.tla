---------------------------- MODULE MC_Formats ----------------------------
(* X06: every network of a bounded scope is built link by link (one canonical order, so every network is one state), *)
(* the laws of Formats.tla are checked on the specification for each of them, and each is handed to the replayer      *)
(* together with the element sets the specification assigns to the Cytoscape writer, to the DOT writer and to the     *)
(* file names of experiment/utils.                                                                                   *)
(*                                                                                                                   *)
(* Scope of one run = a set of SHAPES (as MC_Phenotype).  A shape fixes the list of ordinary nodes (roles in list     *)
(* order with their ids - not necessarily ascending, possibly with gaps), the ids control nodes get (inside the gaps, *)
(* so that DOT's id order interleaves them) and the bounds: mg = max links, mgm = max links when a control node is    *)
(* present, mm = max control nodes.  Enumerated exhaustively per shape: every set of <= mg links over the slots       *)
(* <<src, dst, rec>> (src any node, dst any non-sensor: self-loops included; the two recurrence flags of one pair are *)
(* two slots, so PARALLEL links occur), every control node with 1..2 listed inputs and 1..2 listed outputs (<= MaxIo  *)
(* in total, disjoint unless AllowOverlap).  Crossed with the payload pattern pat:                                   *)
(*   0 - what a genome can say (no activation values, no Params, no time-delayed links, unnamed network): these are   *)
(*       also written through the three file writers of experiment/utils from a real organism;                      *)
(*   1 - everything the writers read is set: activation values, traits, node / link Params, time-delayed links,      *)
(*       an unregistered activation type, control nodes of any neuron type, a network name (plain / needs quoting /  *)
(*       a DOT keyword), weights whose %f rendering rounds (both ties and both directions);                          *)
(*   2 - one non-finite number (a link weight, else a control-link weight, else an activation value).                *)
(* Payload values rotate with a number derived from the structure, so every value occurs at every position somewhere.*)
(* Style options of WriteCytoscapeJSONWithStyle are crossed on the smallest networks only.                           *)
EXTENDS Formats, Json

CONSTANTS Shapes,        \* set of shape records
          Pats,          \* payload patterns in scope
          AllowOverlap,  \* TRUE only in the information config (a node listed as input AND output of one control node)
          MaxIo,
          MaxL           \* the failing-writer table is checked and emitted for output lengths 0..MaxL

Shape(roles, ids, cids, mg, mgm, mm) == [roles |-> roles, ids |-> ids, cids |-> cids, mg |-> mg, mgm |-> mgm, mm |-> mm]
ShapesQuick == {
    Shape(<<>>, <<>>, <<>>, 0, 0, 0),
    Shape(<<"I", "O">>, <<1, 2>>, <<3, 4>>, 4, 2, 2),
    Shape(<<"O", "X", "I">>, <<5, 3, 1>>, <<4>>, 2, 1, 1),
    Shape(<<"I", "B", "H", "O">>, <<1, 2, 4, 6>>, <<3>>, 3, 1, 1),
    Shape(<<"I", "B", "H", "H", "O">>, <<1, 2, 3, 5, 6>>, <<4>>, 2, 0, 1),
    Shape(<<"I", "I", "B", "H", "H", "O", "O">>, <<1, 2, 3, 4, 5, 6, 7>>, <<8>>, 1, 0, 1) }
ShapesThorough == {
    Shape(<<>>, <<>>, <<>>, 0, 0, 0),
    Shape(<<"O">>, <<1>>, <<2>>, 2, 2, 1),
    Shape(<<"I", "O">>, <<1, 2>>, <<3, 4>>, 4, 4, 2),
    Shape(<<"O", "X", "I">>, <<5, 3, 1>>, <<4, 2>>, 3, 2, 2),
    Shape(<<"I", "H", "O">>, <<2, 3, 5>>, <<4, 1>>, 3, 2, 2),
    Shape(<<"I", "B", "H", "O">>, <<1, 2, 4, 6>>, <<3>>, 4, 1, 1),
    Shape(<<"B", "I", "O", "O", "H">>, <<1, 2, 3, 4, 5>>, <<9>>, 3, 1, 1),
    Shape(<<"I", "I", "B", "H", "O", "O">>, <<1, 2, 3, 4, 7, 8>>, <<5>>, 3, 1, 1),
    Shape(<<"I", "I", "B", "H", "H", "O", "O">>, <<1, 2, 3, 4, 5, 6, 7>>, <<8>>, 2, 1, 1) }
ShapesOverlap == {
    Shape(<<"I", "O">>, <<1, 2>>, <<3>>, 2, 2, 1),
    Shape(<<"I", "H", "O">>, <<1, 2, 4>>, <<3>>, 1, 1, 1) }

VARIABLES sh,    \* the shape
          gs,    \* link picks in canonical (slot) order: [p, rec]
          ms,    \* control-node picks: [ins, outs] (sets of node positions)
          pat,   \* payload pattern
          st     \* style option handed to the Cytoscape writer
vars == <<sh, gs, ms, pat, st>>

Pos1(s) == 1..Len(s.roles)
Targets(s) == {i \in Pos1(s) : ~Sensor(s.roles[i])}
PairNo(s, i, j) == (i - 1) * Len(s.roles) + j
PairSrc(s, p) == ((p - 1) \div Len(s.roles)) + 1
PairDst(s, p) == ((p - 1) % Len(s.roles)) + 1
SlotNo(pick) == 2 * pick.p + (IF pick.rec THEN 1 ELSE 0)
PickP(x) == x.p
Reverse(q) == [i \in DOMAIN q |-> q[Len(q) + 1 - i]]
RECURSIVE SetToAsc(_)
SetToAsc(S) == IF S = {} THEN <<>> ELSE LET x == CHOOSE x \in S : \A y \in S : x <= y IN <<x>> \o SetToAsc(S \ {x})

(* ---- payload tables (numerators over WDen) ---- *)
ValTab == <<0, 128, -384, 16777217>>      \* the last one has 25 significant bits
ParTab == << <<>>, <<128, 256>>, <<2>> >>
NameTab == <<"", "net", "my net", "graph">>
GxW == <<1, 2, 3, 6, 7, 8, 9>>         \* weight symbols a gene can carry
GxCW == <<1, 3, 6, 7, 8, 9>>           \* weight symbols a module link can carry
CtrlRoleTab == <<"H", "I", "X">>
CtrlActTab == <<5, 6, 1, 4>>

Hash(s, g, m) == Len(s.roles) + Len(g) + SumSeq(Map(g, PickP)) + Len(m)

\* the network of a state
NetOf(s, g, m, pt) ==
    LET h == Hash(s, g, m)
        rev == h % 2 = 1
        ord == IF rev THEN Reverse(g) ELSE g
        infLink == pt = 2 /\ g # <<>>
        infIo == pt = 2 /\ g = <<>> /\ m # <<>>
        infVal == pt = 2 /\ g = <<>> /\ m = <<>>
        NodeAt(i) ==
            [id |-> s.ids[i], role |-> s.roles[i],
             act |-> IF pt = 0 THEN (IF Sensor(s.roles[i]) THEN 0 ELSE (i + h) % 4) ELSE (i + h) % 5,
             val |-> IF infVal /\ i = 1 THEN INF ELSE IF pt = 0 THEN 0 ELSE ValTab[((i + h) % 4) + 1],
             tr |-> (i + h) % 3,
             par |-> IF pt = 0 THEN <<>> ELSE ParTab[((i + h) % 3) + 1]]
        LinkAt(k) ==
            [src |-> s.ids[PairSrc(s, ord[k].p)], dst |-> s.ids[PairDst(s, ord[k].p)],
             w |-> IF infLink /\ k = 1 THEN WInf
                   ELSE IF pt = 0 THEN GxW[((k + h) % Len(GxW)) + 1] ELSE ((k + h) % NFiniteW) + 1,
             rec |-> ord[k].rec]
        Io(S, k, first) ==
            LET q == IF rev THEN Reverse(SetToAsc(S)) ELSE SetToAsc(S)
            IN [j \in DOMAIN q |->
                  [n |-> s.ids[q[j]],
                   w |-> IF infIo /\ first /\ j = 1 THEN WInf
                         ELSE IF pt = 0 THEN GxCW[((j + k + h) % Len(GxCW)) + 1] ELSE ((j + k + h) % NFiniteW) + 1]]
        CtrlAt(k) ==
            [id |-> s.cids[k],
             role |-> IF pt = 0 THEN "H" ELSE CtrlRoleTab[((k + h) % 3) + 1],
             act |-> IF pt = 0 THEN 5 + ((k + h) % 2) ELSE CtrlActTab[((k + h) % 4) + 1],
             val |-> IF pt = 0 THEN 0 ELSE ValTab[((k + h + 1) % 4) + 1],
             tr |-> (k + h) % 3,
             par |-> IF pt = 0 THEN <<>> ELSE ParTab[((k + h + 2) % 3) + 1],
             ins |-> Io(m[k].ins, k, k = 1), outs |-> Io(m[k].outs, k + 1, FALSE)]
        nodes == [i \in Pos1(s) |-> NodeAt(i)]
    IN [name |-> IF pt = 0 THEN "" ELSE NameTab[(h % 4) + 1],
        nodes |-> nodes,
        inputs |-> Map(SelectSeq(nodes, IsInput), IdOf),
        outputs |-> Map(SelectSeq(nodes, IsOutput), IdOf),
        links |-> [k \in DOMAIN ord |-> LinkAt(k)],
        ctrl |-> [k \in DOMAIN m |-> CtrlAt(k)]]

N == NetOf(sh, gs, ms, pat)

(* ------------------------------------------------------------------ the case handed to the replayer *)
\* the failing writer is tried with EVERY byte budget on the smallest networks
SinkScope(s, g, m, pt, o) == /\ Len(s.roles) <= 2 /\ Len(g) <= 1 /\ m = <<>>
                             /\ (pt # 1 \/ (o.mode # "default" /\ s.roles = <<>>))
HasSelfLoop(net) == \E l \in Range(net.links) : l.src = l.dst
HasRecurrent(net) == \E l \in Range(net.links) : l.rec
CaseOf(s, g, m, pt, o) ==
    LET net == NetOf(s, g, m, pt)
        cy == CyAlg(net)
        so == StyleOut(o)
        h == Hash(s, g, m)
        trial == h % 3
    IN [kind |-> "net", pat |-> pt, net |-> net, st |-> o,
        cy |-> [ok |-> cy.ok, nodes |-> cy.nodes, edges |-> cy.edges,
                has_layout |-> so.has_layout, layout |-> so.layout, has_style |-> so.has_style, styles |-> so.styles],
        dot |-> DotAlg(net),
        file |-> [gx |-> GenomeExpressible(net), nc |-> NodeCountDef(net), lc |-> LinkCountDef(net), trial |-> trial,
                  plain |-> FilePath("OUT", trial, "best", "", net),
                  dot |-> FilePath("OUT", trial, "best", ".dot", net),
                  cyjs |-> FilePath("OUT", trial, "best", ".cyjs", net)],
        sink |-> SinkScope(s, g, m, pt, o),
        flags |-> [parallel |-> ParallelPairs(net) # {}, overlap |-> ~NetNoOverlap(net), selfloop |-> HasSelfLoop(net),
                   recurrent |-> HasRecurrent(net), ctrl |-> net.ctrl # <<>>,
                   rounded |-> \E l \in Range(AllLinks(net)) : WTab[l.w].num # INF /\ ~MicroExact(WTab[l.w].num)]]

\* emitted once: the tables the cases refer to by symbol, and the failing-writer table
Tables ==
    [kind |-> "tables", wden |-> WDen, inf |-> INF, wtab |-> WTab, traitpar |-> TraitPar,
     layouts |-> LayoutTab, styles |-> StyleTab,
     maxl |-> MaxL,
     sink |-> [L1 \in 1..(MaxL + 1) |-> [k1 \in 1..(L1 + 1) |-> SinkOutcome(L1 - 1, k1 - 1)]],    \* [L + 1][k + 1], k <= L + 1
     encode_failure |-> EncodeFailure,
     utils |-> <<UtilsOutcome(TRUE), UtilsOutcome(FALSE)>>]
ASSUME PrintT(ToJson(Tables))
ASSUME StylingLaws
ASSUME SinkLaws(MaxL)
ASSUME RoundingLaws

(* ------------------------------------------------------------------------------------- behaviours *)
StyleSeqs == {<<>>, <<1>>, <<3>>, <<1, 2>>, <<2, 1>>, <<3, 1, 2>>}
StyleOpts == {NilSt} \cup {OptSt(l, ss) : l \in 0..Len(LayoutTab), ss \in StyleSeqs}
StyleScope == Len(sh.roles) <= 2 /\ Len(gs) <= 1 /\ ms = <<>> /\ pat = 1

Init == /\ sh \in Shapes /\ gs = <<>> /\ ms = <<>> /\ pat \in Pats /\ st = DefaultSt
        /\ PrintT(ToJson(CaseOf(sh, gs, ms, pat, st)))

AddLink ==
    /\ ms = <<>> /\ st = DefaultSt
    /\ Len(gs) < (IF pat = 2 /\ sh.mg > 1 THEN 1 ELSE sh.mg)
    /\ \E i \in Pos1(sh), j \in Targets(sh), rec \in BOOLEAN :
          LET pick == [p |-> PairNo(sh, i, j), rec |-> rec] IN
          /\ gs # <<>> => SlotNo(gs[Len(gs)]) < SlotNo(pick)
          /\ gs' = Append(gs, pick)
    /\ UNCHANGED <<sh, ms, pat, st>>
    /\ PrintT(ToJson(CaseOf(sh, gs', ms, pat, st)))

AddCtrl ==
    /\ st = DefaultSt /\ Len(gs) <= sh.mgm /\ Len(ms) < sh.mm
    /\ \E ins \in SUBSET Pos1(sh), outs \in SUBSET Pos1(sh) :
          /\ Cardinality(ins) \in 1..2 /\ Cardinality(outs) \in 1..2 /\ Cardinality(ins) + Cardinality(outs) <= MaxIo
          /\ IF AllowOverlap THEN TRUE ELSE ins \cap outs = {}
          /\ ms' = Append(ms, [ins |-> ins, outs |-> outs])
    /\ UNCHANGED <<sh, gs, pat, st>>
    /\ PrintT(ToJson(CaseOf(sh, gs, ms', pat, st)))

ChooseStyle ==
    /\ st = DefaultSt /\ StyleScope
    /\ st' \in StyleOpts
    /\ UNCHANGED <<sh, gs, ms, pat>>
    /\ PrintT(ToJson(CaseOf(sh, gs, ms, pat, st')))

Next == AddLink \/ AddCtrl \/ ChooseStyle
Spec == Init /\ [][Next]_vars

(* ---------------------------------------------------------------------------------- the laws on the model *)
ScopeWellFormed == IdsDistinct(N) /\ (AllowOverlap \/ NetNoOverlap(N))
Inv_CyAlgIsDef == CyAlgIsDef(N)
Inv_CyClosedAndCounted == CyClosedAndCounted(N)
Inv_DotShape == DotShape(N)
Inv_DotAlgIsDef == NetNoOverlap(N) => DotAlgIsDef(N)
\* information config: where a node is listed on both sides of a control node, Edge() answers nil for the arrow control -> node
\* and the printer writes that arrow WITHOUT attributes - the specification of the printer follows the code there
Inv_OverlapLosesAttributes ==
    ~NetNoOverlap(N) => /\ ~DotAlgIsDef(N)
                        /\ \E i \in DOMAIN DotAlg(N).edges : ~DotAlg(N).edges[i].attrs
\* the file name carries the number of node elements and the number of Cytoscape edge elements
Inv_FileName ==
    LET cy == CyAlg(N) IN
    FileSuffix(N) = "_" \o ToString(Len(cy.nodes)) \o "-" \o ToString(Len(cy.edges))
\* Cytoscape output exists iff every number is finite; the DOT writer has no failing input
Inv_Failure == CyAlg(N).ok <=> (pat # 2 \/ Len(sh.roles) = 0)
=============================================================================

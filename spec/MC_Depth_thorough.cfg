SPECIFICATION Spec
CONSTANTS
  ClearOnError = TRUE
  Sensors = {1}
  Hidden = {2, 3}
  OutSet = {4, 5}
  Caps = {0, 1, 2, 3}
  MaxQ = 2
  MaxEdges = 7
  Canonical = TRUE
INVARIANTS MarksClean DagDepth Bounds CapLaw Stable NoHiddenIsOne
CHECK_DEADLOCK FALSE

SPECIFICATION Spec
CONSTANTS
  Kinds = {"verify", "trait", "value"}
  VFams = {"struct", "traits", "wiring", "big", "pop"}
  NodeIdPool = {1, 2, 3, 4}
  MaxNodes = 3
  GInns = {1, 2, 3}
  GSrc = {1, 2, 3}
  GDst = {1, 2, 3}
  GRecs = {FALSE, TRUE}
  MaxGenes = 2
  WGenes = 3
  PopMax = 4
  TVals <- ThoroughTVals
  TSmallLen = 3
  Powers2 = {0, 1, 2, 4, 16}
  Probs8 <- AllProbs8
  UGrid = {0, 1, 4, 5, 7}
  MGrid = {0, 1, 3, 7}
INVARIANTS V_Clauses V_LoopIsDefinition V_NoFalseRejection V_DetectsEndpoints V_DetectsNodeOrder V_DetectsDuplicates
           V_Blind V_Decoration V_Population T_Laws Val_Laws Val_Enums
CHECK_DEADLOCK FALSE

SPECIFICATION Spec
CONSTANTS
  RecursiveAddsBias = TRUE
  Inputs = {1, 2}
  Biases = {3, 4}
  Hidden = {7, 8}
  OutSet = {5, 6}
  Shapes = {{1, 5, 7}}
  Weights <- W2
  TdFlags = {FALSE}
  InVals <- V2
  OrderKinds = {"IBHO"}
  ActSchemes <- SchemesQuick
  LinkCaps = {3}
  SealAtCap = FALSE
  Canonical = TRUE
  FwdKs = {1, 2}
  RelaxKs = {2}
  UseRec = TRUE
  UseAct = TRUE
  MaxHist = 3
  MaxSuf = 3
  Limit = 1000
  FlushWorks = TRUE
INVARIANTS FlushRestores SuffixEqual
CHECK_DEADLOCK FALSE

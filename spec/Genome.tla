------------------------------- MODULE Genome -------------------------------
(***************************************************************************)
(* Abstract genomes of goNEAT and the genetic operators over them          *)
(* (C01, C03, C04, C05, C06).                                              *)
(*                                                                         *)
(* A genome is a record [traits, nodes, genes (, mods, id)] of sequences:  *)
(*   trait = [id, p]            p: sequence of parameter symbols           *)
(*   node  = [id, role, act, tr]  role in {"I","B","O","H"}, tr = trait id *)
(*                                or 0 for a nil trait                     *)
(*   gene  = [inn, src, dst, rec, en, w, mut, tr]                          *)
(* Weights, mutation numbers and trait parameters are SYMBOLS (integers    *)
(* interning float64 bit patterns, DESIGN.md 4.2 P1); ONE / ZERO are the   *)
(* symbols of 1.0 and 0.0.  Records projected from the Go objects carry    *)
(* additional identity fields ("cells", see WFCells) which the operators   *)
(* below never look at.                                                    *)
(*                                                                         *)
(* Part 1: well-formedness (C01).  Part 2: the statements of C04/C05/C06   *)
(* as before/after relations.  Part 3: the operators as the code performs  *)
(* them, parameterised by their random choices (used by MC_GenomeOps to    *)
(* explore histories and by Trace_GenomeOps to explain recorded steps).    *)
(***************************************************************************)
EXTENDS Integers, Sequences, FiniteSets

Range(s) == { s[i] : i \in DOMAIN s }
MinOf(S) == CHOOSE x \in S : \A y \in S : x <= y
MaxOf(S) == CHOOSE x \in S : \A y \in S : x >= y

(* genetic content of the component records (drops identity fields) *)
GG(x) == [inn |-> x.inn, src |-> x.src, dst |-> x.dst, rec |-> x.rec, en |-> x.en, w |-> x.w, mut |-> x.mut, tr |-> x.tr]
NG(x) == [id |-> x.id, role |-> x.role, act |-> x.act, tr |-> x.tr]
TG(x) == [id |-> x.id, p |-> x.p]
GenesG(g)  == [i \in DOMAIN g.genes  |-> GG(g.genes[i])]
NodesG(g)  == [i \in DOMAIN g.nodes  |-> NG(g.nodes[i])]
TraitsG(g) == [i \in DOMAIN g.traits |-> TG(g.traits[i])]
Abs(g) == [traits |-> TraitsG(g), nodes |-> NodesG(g), genes |-> GenesG(g)]

Inns(g)     == { g.genes[i].inn : i \in DOMAIN g.genes }
NodeIds(g)  == { g.nodes[i].id : i \in DOMAIN g.nodes }
TraitIds(g) == { g.traits[i].id : i \in DOMAIN g.traits }
Key(x)      == <<x.src, x.dst, x.rec>>
Keys(g)     == { Key(g.genes[i]) : i \in DOMAIN g.genes }
Topo(x)     == <<x.inn, x.src, x.dst, x.rec>>
Topos(g)    == { Topo(g.genes[i]) : i \in DOMAIN g.genes }
GeneOf(g, n) == g.genes[CHOOSE i \in DOMAIN g.genes : g.genes[i].inn = n]
NodeOf(g, id) == g.nodes[CHOOSE i \in DOMAIN g.nodes : g.nodes[i].id = id]
RoleOf(g, id) == NodeOf(g, id).role
IsSensor(r) == r \in {"I", "B"}
IBO(g) == { <<g.nodes[i].id, g.nodes[i].role>> : i \in { j \in DOMAIN g.nodes : g.nodes[j].role \in {"I", "B", "O"} } }
LastInn(g) == IF g.genes = <<>> THEN 0 ELSE g.genes[Len(g.genes)].inn
LastNode(g) == IF g.nodes = <<>> THEN 0 ELSE g.nodes[Len(g.nodes)].id

(* ---------------------------------------------------------------- Part 1 *)
(* C01: the structural part that is visible in the abstract record *)
GenesAscending(g) == \A i \in 1 .. Len(g.genes) - 1 : g.genes[i].inn < g.genes[i + 1].inn
NoDuplicateLink(g) == \A i, j \in DOMAIN g.genes : i # j => Key(g.genes[i]) # Key(g.genes[j])
NodesAscending(g) == \A i \in 1 .. Len(g.nodes) - 1 : g.nodes[i].id < g.nodes[i + 1].id
EndpointsOwn(g) == \A i \in DOMAIN g.genes : g.genes[i].src \in NodeIds(g) /\ g.genes[i].dst \in NodeIds(g)
TraitRefsOwn(g) == /\ \A i \in DOMAIN g.genes : g.genes[i].tr = 0 \/ g.genes[i].tr \in TraitIds(g)
                   /\ \A i \in DOMAIN g.nodes : g.nodes[i].tr = 0 \/ g.nodes[i].tr \in TraitIds(g)
NoSensorTarget(g) == \A i \in DOMAIN g.genes :
                        g.genes[i].dst \in NodeIds(g) => ~IsSensor(RoleOf(g, g.genes[i].dst))
WFAbs(g) == /\ GenesAscending(g) /\ NoDuplicateLink(g) /\ NodesAscending(g)
            /\ EndpointsOwn(g) /\ TraitRefsOwn(g) /\ NoSensorTarget(g)

(* C01 on projected genomes: the endpoint / trait POINTERS of a gene are the genome's own objects and the id index  *)
(* (NodeWithId) returns the node of the list.  c = identity of the object, sc/dc = identity of the gene's endpoint  *)
(* node objects, tc = identity of the referenced trait object (0 = nil), lk = identity returned by NodeWithId(id).  *)
WFCells(g) ==
    /\ \A i \in DOMAIN g.genes :
         LET x == g.genes[i] IN
         /\ \E k \in DOMAIN g.nodes : g.nodes[k].id = x.src /\ g.nodes[k].c = x.sc
         /\ \E k \in DOMAIN g.nodes : g.nodes[k].id = x.dst /\ g.nodes[k].c = x.dc
         /\ (x.tr = 0 /\ x.tc = 0) \/ \E k \in DOMAIN g.traits : g.traits[k].id = x.tr /\ g.traits[k].c = x.tc
    /\ \A i \in DOMAIN g.nodes :
         LET n == g.nodes[i] IN
         /\ n.lk = n.c
         /\ (n.tr = 0 /\ n.tc = 0) \/ \E k \in DOMAIN g.traits : g.traits[k].id = n.tr /\ g.traits[k].c = n.tc
    /\ g.absentLookupNil
WellFormed(g) == WFAbs(g) /\ WFCells(g)
(* modular genomes (covered by C01 for duplication and expression): the links of a module end in the genome's OWN node *)
(* objects and refer to its OWN trait objects (ec = identity of the far-end node object, tc = of the trait, 0 = nil)    *)
WFModCells(g) ==
    \A i \in DOMAIN g.mods :
       \A e \in { g.mods[i].ins[k] : k \in DOMAIN g.mods[i].ins } \cup { g.mods[i].outs[k] : k \in DOMAIN g.mods[i].outs } :
          /\ \E k \in DOMAIN g.nodes : g.nodes[k].id = e.n /\ g.nodes[k].c = e.ec
          /\ (e.t = 0 /\ e.tc = 0) \/ \E k \in DOMAIN g.traits : g.traits[k].id = e.t /\ g.traits[k].c = e.tc
(* all input, bias and output nodes of the ancestor(s) are retained *)
Retains(post, pre) == IBO(pre) \subseteq IBO(post)

(* identities of every mutable object reachable from a projected genome *)
\* lpc: the backing array of a link's parameter vector (derived from its trait), where the projection records it
LinkParamCell(x) == IF "lpc" \in DOMAIN x THEN x.lpc ELSE 0
\* the links of the modules (inputs and outputs of every control node), where the projection records their identities
ModEnds(g) == UNION { { g.mods[i].ins[k] : k \in DOMAIN g.mods[i].ins } \cup { g.mods[i].outs[k] : k \in DOMAIN g.mods[i].outs } : i \in DOMAIN g.mods }
EndField(e, f) == IF f \in DOMAIN e THEN e[f] ELSE 0
Cells(g) == ({ g.traits[i].c : i \in DOMAIN g.traits } \cup { g.traits[i].pc : i \in DOMAIN g.traits }
            \cup { EndField(e, "c") : e \in ModEnds(g) }
            \cup { g.nodes[i].c : i \in DOMAIN g.nodes }
            \cup { g.genes[i].c : i \in DOMAIN g.genes } \cup { g.genes[i].lc : i \in DOMAIN g.genes }
            \cup { LinkParamCell(g.genes[i]) : i \in DOMAIN g.genes }
            \cup { g.mods[i].c : i \in DOMAIN g.mods } \cup { g.mods[i].nc : i \in DOMAIN g.mods }) \ {0}

(* identities a projected genome REFERS to: gene endpoints and traits, node traits, the id index *)
Refs(g) == ({ g.genes[i].sc : i \in DOMAIN g.genes } \cup { g.genes[i].dc : i \in DOMAIN g.genes }
            \cup { g.genes[i].tc : i \in DOMAIN g.genes } \cup { g.nodes[i].tc : i \in DOMAIN g.nodes }
            \cup { g.nodes[i].lk : i \in DOMAIN g.nodes }
            \cup { EndField(e, "ec") : e \in ModEnds(g) } \cup { EndField(e, "tc") : e \in ModEnds(g) }
            \cup { EndField(g.mods[i], "ntc") : i \in DOMAIN g.mods }) \ {0}

(* ---------------------------------------------------------------- Part 2 *)
(* C06: equal in every genetic respect apart from the id, sharing no mutable state *)
\* the genetic content of a module link (without the identities)
EndsG(es) == [k \in DOMAIN es |-> [f \in DOMAIN es[k] \ {"c", "ec", "tc"} |-> es[k][f]]]
ModsG(g) == [i \in DOMAIN g.mods |-> [inn |-> g.mods[i].inn, mut |-> g.mods[i].mut, en |-> g.mods[i].en, nid |-> g.mods[i].nid,
                                       act |-> g.mods[i].act, tr |-> g.mods[i].tr, ins |-> EndsG(g.mods[i].ins), outs |-> EndsG(g.mods[i].outs)]]
GenEq(a, b) == Abs(a) = Abs(b)
GenEqM(a, b) == Abs(a) = Abs(b) /\ ModsG(a) = ModsG(b)
IsDuplicate(c, g) == GenEqM(c, g) /\ Cells(c) \cap Cells(g) = {} /\ Refs(c) \cap Cells(g) = {}
(* a spawned genome: the start genome's topology and flags, only w / mut differ and mut mirrors w *)
IsSpawnOf(c, g) ==
    /\ TraitsG(c) = TraitsG(g) /\ NodesG(c) = NodesG(g) /\ Len(c.genes) = Len(g.genes)
    /\ \A i \in DOMAIN g.genes :
         /\ Topo(c.genes[i]) = Topo(g.genes[i]) /\ c.genes[i].en = g.genes[i].en /\ c.genes[i].tr = g.genes[i].tr
         /\ c.genes[i].mut = c.genes[i].w

(* C05, successful add-node: exactly one previously enabled gene a->b of weight w is disabled, one new hidden node n *)
(* with exactly two new enabled genes a->n (weight ONE, old recurrence flag) and n->b (weight w); nothing else.      *)
SetGene(s, i, x) == [s EXCEPT ![i] = x]
RemoveAt(s, i) == [k \in 1 .. Len(s) - 1 |-> IF k < i THEN s[k] ELSE s[k + 1]]
WithoutInns(gs, S) == LET idx == { i \in DOMAIN gs : gs[i].inn \notin S }
                          f[k \in 0 .. Len(gs)] == IF k = 0 THEN <<>> ELSE LET prev == f[k - 1] IN IF k \in idx THEN Append(prev, gs[k]) ELSE prev
                      IN f[Len(gs)]
WithoutNode(ns, id) == LET f[k \in 0 .. Len(ns)] == IF k = 0 THEN <<>> ELSE LET prev == f[k - 1] IN IF ns[k].id # id THEN Append(prev, ns[k]) ELSE prev
                       IN f[Len(ns)]
AddNodeStatement(pre, post, ONE) ==
    LET newN == NodeIds(post) \ NodeIds(pre)
        newI == Inns(post) \ Inns(pre)
    IN /\ Cardinality(newN) = 1 /\ Cardinality(newI) = 2
       /\ Inns(pre) \subseteq Inns(post) /\ NodeIds(pre) \subseteq NodeIds(post)
       /\ LET n == CHOOSE x \in newN : TRUE IN
          /\ RoleOf(post, n) = "H"
          /\ TraitsG(post) = TraitsG(pre)
          /\ WithoutNode(NodesG(post), n) = NodesG(pre)
          /\ \E i \in DOMAIN pre.genes :
               LET old == pre.genes[i] IN
               /\ old.en
               /\ WithoutInns(GenesG(post), newI) = SetGene(GenesG(pre), i, [GG(old) EXCEPT !.en = FALSE])
               /\ \E a, b \in newI :
                    /\ a # b
                    /\ LET ga == GeneOf(post, a)  gb == GeneOf(post, b) IN
                       /\ ga.src = old.src /\ ga.dst = n /\ ga.w = ONE /\ ga.rec = old.rec /\ ga.en
                       /\ gb.src = n /\ gb.dst = old.dst /\ gb.w = old.w /\ gb.en
(* C05, successful add-link: exactly one new gene between two existing nodes, duplicating no link, not ending in a sensor *)
AddLinkStatement(pre, post) ==
    LET newI == Inns(post) \ Inns(pre) IN
    /\ Cardinality(newI) = 1
    /\ NodesG(post) = NodesG(pre) /\ TraitsG(post) = TraitsG(pre)
    /\ WithoutInns(GenesG(post), newI) = GenesG(pre)
    /\ LET x == GeneOf(post, CHOOSE n \in newI : TRUE) IN
       /\ x.src \in NodeIds(pre) /\ x.dst \in NodeIds(pre)
       /\ Key(x) \notin Keys(pre)
       /\ ~IsSensor(RoleOf(pre, x.dst))
(* C05, connect-sensors: only adds genes, all from ONE previously unconnected sensor, one to every non-sensor node *)
NonSensorIds(g) == { g.nodes[i].id : i \in { j \in DOMAIN g.nodes : ~IsSensor(g.nodes[j].role) } }
ConnectSensorsStatement(pre, post) ==
    LET newI == Inns(post) \ Inns(pre) IN
    /\ NodesG(post) = NodesG(pre) /\ TraitsG(post) = TraitsG(pre)
    /\ WithoutInns(GenesG(post), newI) = GenesG(pre)
    /\ newI # {} =>
         \E s \in NodeIds(pre) :
            /\ IsSensor(RoleOf(pre, s))
            /\ \A i \in DOMAIN pre.genes : pre.genes[i].src # s
            /\ \A n \in newI : GeneOf(post, n).src = s
            /\ { GeneOf(post, n).dst : n \in newI } = NonSensorIds(pre)
            /\ Cardinality(newI) = Cardinality(NonSensorIds(pre))
(* C05, parametric mutations never change the node set, gene endpoints or innovation numbers *)
NodeShape(g) == [i \in DOMAIN g.nodes |-> <<g.nodes[i].id, g.nodes[i].role>>]
TopoSeq(g) == [i \in DOMAIN g.genes |-> Topo(g.genes[i])]
ParametricFrame(pre, post) == NodeShape(post) = NodeShape(pre) /\ TopoSeq(post) = TopoSeq(pre)
(* toggle-enable never disables the last enabled gene leaving a node *)
HasEnabledOut(g, s) == \E i \in DOMAIN g.genes : g.genes[i].src = s /\ g.genes[i].en
ToggleStatement(pre, post) ==
    /\ ParametricFrame(pre, post)
    /\ \A i \in DOMAIN pre.genes :
         (pre.genes[i].en /\ ~post.genes[i].en) => HasEnabledOut(post, pre.genes[i].src)
(* re-enable enables only the first disabled gene *)
EnSeq(g) == [i \in DOMAIN g.genes |-> g.genes[i].en]
ReEnableStatement(pre, post) ==
    /\ ParametricFrame(pre, post)
    /\ LET D == { i \in DOMAIN pre.genes : ~pre.genes[i].en } IN
       IF D = {} THEN EnSeq(post) = EnSeq(pre)
       ELSE EnSeq(post) = [EnSeq(pre) EXCEPT ![MinOf(D)] = TRUE]

(* C04 - relations between a crossover child and its parents.  avg is the set of <<a, b, (a+b)/2>> triples logged   *)
(* with the event (computed with the IEEE expression the library uses).                                             *)
IsAvg(avg, a, b, c) == <<a, b, c>> \in avg \/ <<b, a, c>> \in avg \/ (a = b /\ c = a)
Carriers(n, p1, p2) == { p \in {p1, p2} : n \in Inns(p) }
(* every child gene has innovation number, endpoints and recurrence flag of a parent gene and occurs once *)
C04_FromParents(c, p1, p2) ==
    /\ \A i \in DOMAIN c.genes : Topo(c.genes[i]) \in Topos(p1) \cup Topos(p2)
    /\ \A i, j \in DOMAIN c.genes : i # j => c.genes[i].inn # c.genes[j].inn
(* weight: the carrying parent's weight, or the mean of both where the method averages *)
C04_Weights(c, p1, p2, avg, averaging) ==
    \A i \in DOMAIN c.genes :
       LET x == c.genes[i]  n == x.inn IN
       \/ n \in Inns(p1) /\ GeneOf(p1, n).w = x.w
       \/ n \in Inns(p2) /\ GeneOf(p2, n).w = x.w
       \/ averaging /\ n \in Inns(p1) /\ n \in Inns(p2) /\ IsAvg(avg, GeneOf(p1, n).w, GeneOf(p2, n).w, x.w)
(* multipoint methods: genes of one parent only come only from the fitter parent (fewer genes on a fitness tie;    *)
(* when fitness and gene count both tie the statement leaves the choice open but it is ONE parent)                   *)
Better(p1, p2, cmp) == IF cmp > 0 THEN {1} ELSE IF cmp < 0 THEN {2}
                       ELSE IF Len(p1.genes) < Len(p2.genes) THEN {1}
                       ELSE IF Len(p2.genes) < Len(p1.genes) THEN {2} ELSE {1, 2}
C04_FitterOnly(c, p1, p2, cmp) ==
    \E b \in Better(p1, p2, cmp) :
       LET worse == IF b = 1 THEN p2 ELSE p1   better == IF b = 1 THEN p1 ELSE p2 IN
       \A i \in DOMAIN c.genes : c.genes[i].inn \in Inns(worse) => c.genes[i].inn \in Inns(better)
(* every gene present in both parents is inherited - unless it would duplicate a link the child already has under   *)
(* another (smaller) number, which C01 forbids                                                                      *)
C04_MatchingInherited(c, p1, p2) ==
    \A n \in Inns(p1) \cap Inns(p2) :
       \/ n \in Inns(c)
       \/ \E i \in DOMAIN c.genes : Key(c.genes[i]) = Key(GeneOf(p1, n)) /\ c.genes[i].inn < n
(* enabled if enabled in every carrier, disabled if disabled in its only carrier *)
C04_Enabled(c, p1, p2) ==
    \A i \in DOMAIN c.genes :
       LET x == c.genes[i]  cs == Carriers(x.inn, p1, p2) IN
       /\ (cs # {} /\ \A p \in cs : GeneOf(p, x.inn).en) => x.en
       /\ (Cardinality(cs) = 1 /\ \A p \in cs : ~GeneOf(p, x.inn).en) => ~x.en
(* all input, bias and output nodes plus exactly the nodes its genes touch *)
C04_Nodes(c, p1, p2) ==
    /\ { x[1] : x \in IBO(p1) \cup IBO(p2) } \cup { c.genes[i].src : i \in DOMAIN c.genes } \cup { c.genes[i].dst : i \in DOMAIN c.genes }
         = NodeIds(c)
    /\ IBO(p1) \cup IBO(p2) = IBO(c)
    /\ \A i, j \in DOMAIN c.nodes : i # j => c.nodes[i].id # c.nodes[j].id          \* exactly: each node once
(* the parents' number of traits with averaged parameters *)
C04_Traits(c, p1, p2, avg) ==
    /\ Len(c.traits) = Len(p1.traits) /\ Len(c.traits) = Len(p2.traits)
    /\ \A i \in DOMAIN c.traits :
         /\ Len(c.traits[i].p) = Len(p1.traits[i].p)
         /\ \A k \in DOMAIN c.traits[i].p : IsAvg(avg, p1.traits[i].p[k], p2.traits[i].p[k], c.traits[i].p[k])

(* ---------------------------------------------------------------- Part 3 *)
(* ordered insertion as geneInsert / nodeInsert do it on ordered lists *)
InsertGene(s, x) == LET k == Cardinality({ i \in DOMAIN s : s[i].inn < x.inn })
                    IN  SubSeq(s, 1, k) \o <<x>> \o SubSeq(s, k + 1, Len(s))
InsertNode(s, x) == LET k == Cardinality({ i \in DOMAIN s : s[i].id < x.id })
                    IN  SubSeq(s, 1, k) \o <<x>> \o SubSeq(s, k + 1, Len(s))

(* the innovation registry of one generation: a sequence of records                                              *)
(*   [k |-> "L", src, dst, rec, inn, w, tr]                 new link (tr = index of the trait, from 0)           *)
(*   [k |-> "N", src, dst, old, inn, inn2, node]            new node splitting gene `old` between src and dst    *)
(* Counters follow Population: NextInnovationNumber returns nextInn + 1, NextNodeId returns nextNode + 1.        *)
FirstMatch(reg, P(_)) == LET S == { i \in DOMAIN reg : P(reg[i]) } IN IF S = {} THEN 0 ELSE MinOf(S)
LinkRec(u, v, rec, inn, w, t) == [k |-> "L", src |-> u, dst |-> v, rec |-> rec, inn |-> inn, inn2 |-> 0, node |-> 0, old |-> 0, w |-> w, tr |-> t]
NodeRec(u, v, old, i1, i2, n) == [k |-> "N", src |-> u, dst |-> v, rec |-> FALSE, inn |-> i1, inn2 |-> i2, node |-> n, old |-> old, w |-> 0, tr |-> 0]

(* add-node on gene i of abstract genome a.  Result [ok, g, reg, nInn, nNode].  `act` is the activation type of a    *)
(* freshly created node (a random choice of the code).                                                            *)
AddNodeEligible(a, i) == a.genes[i].en /\ RoleOf(a, a.genes[i].src) # "B"
AddNodeStep(a, i, reg, nInn, nNode, act, defAct, ONE, ZERO) ==
    LET old == a.genes[i]
        dis == [a EXCEPT !.genes[i].en = FALSE]
        m   == FirstMatch(reg, LAMBDA r : r.k = "N" /\ r.src = old.src /\ r.dst = old.dst /\ r.old = old.inn)
    IN IF m # 0 /\ reg[m].node \in NodeIds(a)
       THEN [ok |-> FALSE, g |-> dis, reg |-> reg, nInn |-> nInn, nNode |-> nNode]
       ELSE LET n  == IF m # 0 THEN reg[m].node ELSE nNode + 1
                i1 == IF m # 0 THEN reg[m].inn  ELSE nInn + 1
                i2 == IF m # 0 THEN reg[m].inn2 ELSE nInn + 2
                g1 == [inn |-> i1, src |-> old.src, dst |-> n, rec |-> old.rec, en |-> TRUE, w |-> ONE, mut |-> ZERO, tr |-> old.tr]
                g2 == [inn |-> i2, src |-> n, dst |-> old.dst, rec |-> FALSE, en |-> TRUE, w |-> old.w, mut |-> ZERO, tr |-> old.tr]
                nd == [id |-> n, role |-> "H", act |-> IF m # 0 THEN defAct ELSE act, tr |-> a.traits[1].id]
            IN [ok |-> TRUE,
                g |-> [dis EXCEPT !.genes = InsertGene(InsertGene(@, g1), g2), !.nodes = InsertNode(@, nd)],
                reg |-> IF m # 0 THEN reg ELSE Append(reg, NodeRec(old.src, old.dst, old.inn, i1, i2, n)),
                nInn |-> IF m # 0 THEN nInn ELSE nInn + 2,
                nNode |-> IF m # 0 THEN nNode ELSE nNode + 1]

(* add-link u -> v with recurrence flag rec; w, t = weight symbol and trait index chosen when the link is novel *)
AddLinkEligible(a, u, v, rec) == /\ u \in NodeIds(a) /\ v \in NodeIds(a) /\ ~IsSensor(RoleOf(a, v))
                                 /\ <<u, v, rec>> \notin Keys(a) /\ (u = v => rec)
AddLinkStep(a, u, v, rec, reg, nInn, w, t, ZERO) ==
    LET m == FirstMatch(reg, LAMBDA r : r.k = "L" /\ r.src = u /\ r.dst = v /\ r.rec = rec)
        x == IF m # 0 THEN [inn |-> reg[m].inn, src |-> u, dst |-> v, rec |-> rec, en |-> TRUE, w |-> reg[m].w, mut |-> ZERO,
                            tr |-> a.traits[reg[m].tr + 1].id]
             ELSE [inn |-> nInn + 1, src |-> u, dst |-> v, rec |-> rec, en |-> TRUE, w |-> w, mut |-> w, tr |-> a.traits[t + 1].id]
    IN [ok |-> TRUE, g |-> [a EXCEPT !.genes = InsertGene(@, x)],
        reg |-> IF m # 0 THEN reg ELSE Append(reg, LinkRec(u, v, rec, nInn + 1, w, t)),
        nInn |-> IF m # 0 THEN nInn ELSE nInn + 1]

(* connect-sensors on the unconnected sensor s: one gene to every non-sensor node in node order; ws[k], ts[k] are  *)
(* the weight symbol / trait index drawn for the k-th target when its link is novel                                *)
UnconnectedSensors(a) == { a.nodes[i].id : i \in { j \in DOMAIN a.nodes :
                             IsSensor(a.nodes[j].role) /\ \A k \in DOMAIN a.genes : a.genes[k].src # a.nodes[j].id } }
NonSensorSeq(a) == LET f[k \in 0 .. Len(a.nodes)] == IF k = 0 THEN <<>>
                         ELSE LET prev == f[k - 1] IN IF IsSensor(a.nodes[k].role) THEN prev ELSE Append(prev, a.nodes[k].id)
                   IN f[Len(a.nodes)]
RECURSIVE ConnectFrom(_, _, _, _, _, _, _, _, _)
ConnectFrom(a, s, outs, k, reg, nInn, ws, ts, ZERO) ==
    IF k > Len(outs) THEN [ok |-> TRUE, g |-> a, reg |-> reg, nInn |-> nInn]
    ELSE LET r == AddLinkStep(a, s, outs[k], FALSE, reg, nInn, ws[k], ts[k], ZERO)
         IN  ConnectFrom(r.g, s, outs, k + 1, r.reg, r.nInn, ws, ts, ZERO)
ConnectSensorsStep(a, s, reg, nInn, ws, ts, ZERO) == ConnectFrom(a, s, NonSensorSeq(a), 1, reg, nInn, ws, ts, ZERO)

(* toggle-enable on gene i (the code only ever disables) and re-enable *)
ToggleStep(a, i) ==
    IF a.genes[i].en /\ \E k \in DOMAIN a.genes : a.genes[k].src = a.genes[i].src /\ a.genes[k].en /\ a.genes[k].inn # a.genes[i].inn
    THEN [a EXCEPT !.genes[i].en = FALSE] ELSE a
ReEnableStep(a) == LET D == { i \in DOMAIN a.genes : ~a.genes[i].en }
                   IN  IF D = {} THEN a ELSE [a EXCEPT !.genes[MinOf(D)].en = TRUE]

(* The gene sequence of a multipoint child is determined up to the per-gene random choices: walk both parents by    *)
(* innovation number; matching genes and the better parent's own genes are candidates; a candidate is dropped when    *)
(* the child already has a gene for the same link.  MergeInns = ascending union of both parents' numbers.            *)
MergeInns(p1, p2) ==
    LET S == Inns(p1) \cup Inns(p2)
        f[k \in 0 .. Cardinality(S)] == IF k = 0 THEN <<>>
             ELSE LET prev == f[k - 1] IN Append(prev, MinOf({ n \in S : \A j \in DOMAIN prev : prev[j] < n }))
    IN f[Cardinality(S)]
KeyOfInn(p1, p2, n) == IF n \in Inns(p1) THEN Key(GeneOf(p1, n)) ELSE Key(GeneOf(p2, n))
MultipointInns(p1, p2, p1better) ==
    LET m == MergeInns(p1, p2)
        cand(n) == (n \in Inns(p1) /\ n \in Inns(p2)) \/ (p1better /\ n \in Inns(p1)) \/ (~p1better /\ n \in Inns(p2))
        f[k \in 0 .. Len(m)] == IF k = 0 THEN <<>>
             ELSE LET prev == f[k - 1] IN
                  IF cand(m[k]) /\ \A j \in DOMAIN prev : KeyOfInn(p1, p2, prev[j]) # KeyOfInn(p1, p2, m[k])
                  THEN Append(prev, m[k]) ELSE prev
    IN f[Len(m)]
P1Better(p1, p2, cmp) == cmp > 0 \/ (cmp = 0 /\ Len(p1.genes) < Len(p2.genes))
(* the child the code builds when every matching gene is taken from parent `pick` (1 or 2), disabled when disabled in *)
(* either parent; nodes = sensors/outputs of p2 plus gene endpoints (copied from the parent supplying the gene)      *)
NodeFrom(p1, p2, id, prefer) == IF prefer = 1 /\ id \in NodeIds(p1) THEN NodeOf(p1, id)
                                ELSE IF id \in NodeIds(p2) THEN NodeOf(p2, id) ELSE NodeOf(p1, id)
ChildNodes(p1, p2, genes, prefer) ==
    LET ids == { x[1] : x \in IBO(p2) } \cup { genes[i].src : i \in DOMAIN genes } \cup { genes[i].dst : i \in DOMAIN genes }
        f[k \in 0 .. Cardinality(ids)] == IF k = 0 THEN <<>>
             ELSE LET prev == f[k - 1] IN
                  Append(prev, NodeFrom(p1, p2, MinOf({ n \in ids : \A j \in DOMAIN prev : prev[j].id < n }), prefer))
    IN f[Cardinality(ids)]
MultipointChild(p1, p2, cmp, pick) ==
    LET ns == MultipointInns(p1, p2, P1Better(p1, p2, cmp))
        gene(n) == IF n \in Inns(p1) /\ n \in Inns(p2)
                   THEN [(IF pick = 1 THEN GeneOf(p1, n) ELSE GeneOf(p2, n)) EXCEPT !.en = GeneOf(p1, n).en /\ GeneOf(p2, n).en]
                   ELSE IF n \in Inns(p1) THEN GeneOf(p1, n) ELSE GeneOf(p2, n)
        genes == [k \in DOMAIN ns |-> gene(ns[k])]
    IN [traits |-> p1.traits, nodes |-> ChildNodes(p1, p2, genes, pick), genes |-> genes]
(* single-point: genes of the shorter parent up to the crossing point, of the longer one afterwards (abstracted to   *)
(* the crossing position x in the merged order; used by the model only)                                              *)
SinglePointChild(p1, p2, x) ==
    LET m == MergeInns(p1, p2)
        A == IF Len(p1.genes) < Len(p2.genes) THEN p1 ELSE p2
        B == IF Len(p1.genes) < Len(p2.genes) THEN p2 ELSE p1
        take(k) == IF k <= x THEN m[k] \in Inns(A) ELSE m[k] \in Inns(B)
        src(k) == IF k <= x THEN A ELSE B
        f[k \in 0 .. Len(m)] == IF k = 0 THEN <<>>
             ELSE LET prev == f[k - 1] IN
                  IF take(k) /\ \A j \in DOMAIN prev : Key(prev[j]) # Key(GeneOf(src(k), m[k]))
                  THEN Append(prev, GeneOf(src(k), m[k])) ELSE prev
        genes == f[Len(m)]
    IN [traits |-> p1.traits, nodes |-> ChildNodes(p1, p2, genes, 2), genes |-> genes]
=============================================================================

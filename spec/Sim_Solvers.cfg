SPECIFICATION Spec
CONSTANTS
  Inputs = {1, 2}
  Biases = {3}
  Hidden = {6, 7}
  OutSet = {4, 5}
  Weights <- W3
  InVals <- V3
  OrderKinds = {"IBOH", "IBHO", "BIOH", "BIHO", "IBOHr"}
  ActSchemes <- SchemesAll
  LinkCaps = {4, 5, 6, 7, 8, 9, 10, 12, 14}
  SealAtCap = TRUE
  Extra = 1
  Canonical = FALSE
INVARIANTS FeedForward InScope DepthAgrees
CHECK_DEADLOCK FALSE

SPECIFICATION Spec
INVARIANT TraceOK
CHECK_DEADLOCK FALSE

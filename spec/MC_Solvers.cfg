SPECIFICATION Spec
CONSTANTS
  Inputs = {1}
  Biases = {2}
  Hidden = {4}
  OutSet = {3}
  Weights <- W2
  InVals <- V3
  OrderKinds = {"IBOH", "BIHO"}
  ActSchemes <- SchemesQuick
  LinkCaps = {6}
  SealAtCap = FALSE
  Extra = 1
  Canonical = TRUE
INVARIANTS FeedForward InScope DepthAgrees
CHECK_DEADLOCK FALSE

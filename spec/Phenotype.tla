----------------------------- MODULE Phenotype -----------------------------
(***************************************************************************)
(* C11 - a phenotype network expresses exactly the enabled part of its     *)
(* genome, and the network's graph view and counts report that structure.  *)
(*                                                                         *)
(* Abstract genome (DESIGN.md 4.1, the part expression looks at):          *)
(*   g = [nodes : Seq([id, role \in {"I","B","O","H"}, act]),              *)
(*        genes : Seq([inn, src, dst, w, rec, en]),                        *)
(*        mods  : Seq([id, en, act, ins : Seq([n, w]), outs : Seq([n, w])])]*)
(* w is a small integer SYMBOL of a weight (the replayer maps it to an     *)
(* exactly representable float64), act a symbol of an activation type.     *)
(*                                                                         *)
(* Three layers:                                                           *)
(*  1. Genesis(g)  - the network DEFINED by the statement of C11:          *)
(*     Net = [nodes, inputs, outputs, links, ctrl]  (DESIGN.md 4.1).       *)
(*  2. the graph view DEFINED over that record (the multigraph whose       *)
(*     edges are the links plus the control links).                        *)
(*  3. Built(net) + the *Alg operators - the data structure                *)
(*     Genome.Genesis leaves behind (per-node Incoming / Outgoing lists,   *)
(*     control nodes that are NOT in the adjacency lists of the ordinary   *)
(*     nodes) and the lookups of network_graph.go / network.go transcribed *)
(*     branch by branch (edgeBetween with its control-node branch,         *)
(*     nodeWithID, From, To, NodeCount, LinkCount, Complexity).            *)
(* MC_Phenotype checks layer 3 against layer 2 on every ordered id pair.   *)
(* Organism phenotype cache: CacheFresh(org) at the end of the module.     *)
(***************************************************************************)
EXTENDS Integers, Sequences, FiniteSets

Range(s) == {s[i] : i \in DOMAIN s}
Map(s, F(_)) == [i \in DOMAIN s |-> F(s[i])]
RECURSIVE SumSeq(_)
SumSeq(s) == IF s = <<>> THEN 0 ELSE Head(s) + SumSeq(Tail(s))
RECURSIVE Flatten(_)
Flatten(ss) == IF ss = <<>> THEN <<>> ELSE Head(ss) \o Flatten(Tail(ss))
Count(s, P(_)) == Len(SelectSeq(s, P))

Sensor(role) == role \in {"I", "B"}
NoNode == [id |-> -1, role |-> "-", act |-> -1]
NoEdge == [src |-> -1, dst |-> -1, w |-> 0, rec |-> FALSE]

(* ------------------------------------------------------------------ genome *)
NodeIds(g) == {g.nodes[i].id : i \in DOMAIN g.nodes}
ModIds(g) == {g.mods[i].id : i \in DOMAIN g.mods}
IoIds(io) == {io[i].n : i \in DOMAIN io}
RoleOf(g, id) == (CHOOSE n \in Range(g.nodes) : n.id = id).role

\* the quantifier of C11: well-formed genomes (C01) that can be expressed at all
WellFormed(g) ==
    /\ \A i, j \in DOMAIN g.nodes : i < j => g.nodes[i].id < g.nodes[j].id
    /\ \A i, j \in DOMAIN g.genes : i < j => g.genes[i].inn < g.genes[j].inn
    /\ \A i, j \in DOMAIN g.genes : i # j =>
          <<g.genes[i].src, g.genes[i].dst, g.genes[i].rec>> # <<g.genes[j].src, g.genes[j].dst, g.genes[j].rec>>
    /\ \A i \in DOMAIN g.genes : /\ g.genes[i].src \in NodeIds(g) /\ g.genes[i].dst \in NodeIds(g)
                                 /\ ~Sensor(RoleOf(g, g.genes[i].dst))
    /\ \A i, j \in DOMAIN g.mods : i # j => g.mods[i].id # g.mods[j].id
    /\ ModIds(g) \cap NodeIds(g) = {}
    /\ \A i \in DOMAIN g.mods : IoIds(g.mods[i].ins) \cup IoIds(g.mods[i].outs) \subseteq NodeIds(g)
\* Genesis refuses a genome without connection genes or without an output node
Expressible(g) == Len(g.genes) > 0 /\ \E n \in Range(g.nodes) : n.role = "O"
\* a module that lists one node both as input and as output is outside the scope of the check (DESIGN.md 7/C11)
NoOverlap(g) == \A i \in DOMAIN g.mods : IoIds(g.mods[i].ins) \cap IoIds(g.mods[i].outs) = {}
\* one module never lists the same node twice on one side
NoRepeat(g) == \A i \in DOMAIN g.mods :
                  /\ Cardinality(IoIds(g.mods[i].ins)) = Len(g.mods[i].ins)
                  /\ Cardinality(IoIds(g.mods[i].outs)) = Len(g.mods[i].outs)

(* ----------------------------------------------------- 1. expression (def) *)
LinkOf(gene) == [src |-> gene.src, dst |-> gene.dst, w |-> gene.w, rec |-> gene.rec]
NetNodeOf(n) == [id |-> n.id, role |-> n.role, act |-> n.act]
CtrlOf(m) == [id |-> m.id, act |-> m.act, ins |-> m.ins, outs |-> m.outs]
IdOf(n) == n.id
IsInput(n) == Sensor(n.role)
IsOutput(n) == n.role = "O"
IsEnabled(x) == x.en

Genesis(g) ==
    [nodes   |-> Map(g.nodes, NetNodeOf),
     inputs  |-> Map(SelectSeq(g.nodes, IsInput), IdOf),      \* input AND bias nodes, genome order
     outputs |-> Map(SelectSeq(g.nodes, IsOutput), IdOf),     \* genome order
     links   |-> Map(SelectSeq(g.genes, IsEnabled), LinkOf),  \* one per ENABLED gene, gene order
     ctrl    |-> Map(SelectSeq(g.mods, IsEnabled), CtrlOf)]   \* one control node per ENABLED module

(* ------------------------------------------------- 2. the graph view (def) *)
\* control links: never recurrent; listed input -> control node, control node -> listed output
CtrlIn(c)  == [i \in DOMAIN c.ins  |-> [src |-> c.ins[i].n, dst |-> c.id, w |-> c.ins[i].w, rec |-> FALSE]]
CtrlOut(c) == [i \in DOMAIN c.outs |-> [src |-> c.id, dst |-> c.outs[i].n, w |-> c.outs[i].w, rec |-> FALSE]]
CtrlLinksOf(c) == CtrlIn(c) \o CtrlOut(c)
CtrlLinks(net) == Flatten(Map(net.ctrl, CtrlLinksOf))
AllLinks(net) == net.links \o CtrlLinks(net)          \* the edge multiset of the network

OrdIds(net) == {net.nodes[i].id : i \in DOMAIN net.nodes}
CtrlIds(net) == {net.ctrl[i].id : i \in DOMAIN net.ctrl}
AllIds(net) == OrdIds(net) \cup CtrlIds(net)
NodesSeq(net) == Map(net.nodes, IdOf) \o Map(net.ctrl, IdOf)   \* Nodes(): ordinary nodes, then control nodes
NodeDef(net, id) ==
    IF id \in OrdIds(net) THEN CHOOSE n \in Range(net.nodes) : n.id = id
    ELSE IF id \in CtrlIds(net) THEN LET c == CHOOSE c \in Range(net.ctrl) : c.id = id
                                     IN [id |-> id, role |-> "C", act |-> c.act]
    ELSE NoNode
EdgesDef(net, u, v) == LET Hit(l) == l.src = u /\ l.dst = v IN SelectSeq(AllLinks(net), Hit)
HasEdgeFromToDef(net, u, v) == EdgesDef(net, u, v) # <<>>
HasEdgeBetweenDef(net, u, v) == HasEdgeFromToDef(net, u, v) \/ HasEdgeFromToDef(net, v, u)
SuccDef(net, u) == {l.dst : l \in {x \in Range(AllLinks(net)) : x.src = u}}
PredDef(net, v) == {l.src : l \in {x \in Range(AllLinks(net)) : x.dst = v}}
NodeCountDef(net) == Len(net.nodes) + Len(net.ctrl)
LinkCountDef(net) == Len(AllLinks(net))
ComplexityDef(net) == NodeCountDef(net) + LinkCountDef(net)

(* --------------------------- 3. the structure Genesis builds + the lookups *)
\* Genesis appends the link of every enabled gene, in gene order, to dst.Incoming and to src.Outgoing; a control node
\* gets its own Incoming / Outgoing but the ordinary nodes it touches are NOT told ("only incoming to control node")
Built(net) ==
    [nodes |-> [i \in DOMAIN net.nodes |->
                  LET id == net.nodes[i].id
                      In(l) == l.dst = id
                      Out(l) == l.src = id
                  IN [id |-> id, inc |-> SelectSeq(net.links, In), out |-> SelectSeq(net.links, Out)]],
     ctrl  |-> [i \in DOMAIN net.ctrl |->
                  [id |-> net.ctrl[i].id, inc |-> CtrlIn(net.ctrl[i]), out |-> CtrlOut(net.ctrl[i])]]]

\* first position in a sequence of [id, ...] records holding the id, 0 when absent
RECURSIVE Pos(_, _, _)
Pos(s, id, i) == IF i > Len(s) THEN 0 ELSE IF s[i].id = id THEN i ELSE Pos(s, id, i + 1)
First(s) == IF s = <<>> THEN NoEdge ELSE s[1]

\* Network.nodeWithID: scans allNodesMIMO = ordinary nodes followed by the control nodes
NodeWithIdAlg(b, id) ==
    LET o == Pos(b.nodes, id, 1)  c == Pos(b.ctrl, id, 1)
    IN IF o > 0 THEN [kind |-> "ord", n |-> b.nodes[o]]
       ELSE IF c > 0 THEN [kind |-> "ctrl", n |-> b.ctrl[c]]
       ELSE [kind |-> "none"]

\* Network.edgeBetween(uid, vid, directed)
EdgeBetweenAlg(b, uid, vid, directed) ==
    LET u == Pos(b.nodes, uid, 1)                       \* the scan of allNodes (control nodes are not in it)
        v == Pos(b.nodes, vid, 1)
    IN
    IF u = 0 /\ v = 0 THEN NoEdge
    ELSE IF u = 0 \/ v = 0 THEN
        \* a control node may be on one side
        LET cid == IF u = 0 THEN uid ELSE vid
            oid == IF u = 0 THEN vid ELSE uid
            c == Pos(b.ctrl, cid, 1)
        IN IF c = 0 THEN NoEdge
           ELSE LET FromO(l) == l.src = oid
                    ToO(l) == l.dst = oid
                    ii == SelectSeq(b.ctrl[c].inc, FromO)
                    oo == SelectSeq(b.ctrl[c].out, ToO)
                IN IF ii # <<>> THEN (IF ~directed \/ u # 0 THEN ii[1] ELSE NoEdge)
                   ELSE IF oo # <<>> THEN (IF ~directed \/ v # 0 THEN oo[1] ELSE NoEdge)
                   ELSE NoEdge
    ELSE
        LET U == b.nodes[u]  V == b.nodes[v]
            FromU(l) == l.src = uid
            FromV(l) == l.src = vid
            ToV(l) == l.dst = vid
            a == IF directed THEN SelectSeq(V.inc, FromU) ELSE SelectSeq(U.inc, FromV)
            o == SelectSeq(U.out, ToV)
        IN IF a # <<>> THEN a[1] ELSE First(o)

EdgeAlg(b, u, v) == EdgeBetweenAlg(b, u, v, TRUE)              \* Edge, WeightedEdge
HasEdgeFromToAlg(b, u, v) == EdgeBetweenAlg(b, u, v, TRUE) # NoEdge
HasEdgeBetweenAlg(b, u, v) == EdgeBetweenAlg(b, u, v, FALSE) # NoEdge
WeightAlg(b, u, v) == LET e == EdgeBetweenAlg(b, u, v, TRUE)
                      IN IF e = NoEdge THEN [ok |-> FALSE, w |-> 0] ELSE [ok |-> TRUE, w |-> e.w]

DstOf(l) == l.dst
SrcOf(l) == l.src
\* Network.From: the node's Outgoing, then every control node that lists it as an input
FromAlg(b, id) ==
    LET f == NodeWithIdAlg(b, id) IN
    IF f.kind = "none" THEN <<>>
    ELSE LET Feeds(c) == \E l \in Range(c.inc) : l.src = id
         IN Map(f.n.out, DstOf) \o Map(SelectSeq(b.ctrl, Feeds), IdOf)
\* Network.To: the node's Incoming, then every control node that lists it as an output
ToAlg(b, id) ==
    LET f == NodeWithIdAlg(b, id) IN
    IF f.kind = "none" THEN <<>>
    ELSE LET Drives(c) == \E l \in Range(c.out) : l.dst = id
         IN Map(f.n.inc, SrcOf) \o Map(SelectSeq(b.ctrl, Drives), IdOf)

IncLen(n) == Len(n.inc)
IncOutLen(n) == Len(n.inc) + Len(n.out)
NodeCountAlg(b) == Len(b.nodes) + Len(b.ctrl)
LinkCountAlg(b) == SumSeq(Map(b.nodes, IncLen)) + SumSeq(Map(b.ctrl, IncOutLen))
ComplexityAlg(b) == NodeCountAlg(b) + LinkCountAlg(b)

(* ----------------------------------------------------------- the property *)
\* gene <-> link bijection on the enabled genes, nothing from disabled genes, one control node per enabled module
Faithful(g, net) ==
    /\ Map(net.nodes, IdOf) = Map(g.nodes, IdOf)
    /\ \A i \in DOMAIN g.nodes : net.nodes[i].role = g.nodes[i].role /\ net.nodes[i].act = g.nodes[i].act
    /\ Len(net.links) = Count(g.genes, IsEnabled)
    /\ \A i \in DOMAIN g.genes :
          LET Same(l) == l = LinkOf(g.genes[i])
              SamePlace(l) == l.src = g.genes[i].src /\ l.dst = g.genes[i].dst /\ l.rec = g.genes[i].rec
          IN IF g.genes[i].en THEN Count(net.links, Same) = 1 /\ Count(net.links, SamePlace) = 1
             ELSE Count(net.links, SamePlace) = 0
    /\ \A k \in DOMAIN net.links : \E i \in DOMAIN g.genes : g.genes[i].en /\ net.links[k] = LinkOf(g.genes[i])
    /\ Len(net.ctrl) = Count(g.mods, IsEnabled)
    /\ \A i \in DOMAIN g.mods :
          LET Same(c) == c = CtrlOf(g.mods[i])
              SameId(c) == c.id = g.mods[i].id
          IN IF g.mods[i].en THEN Count(net.ctrl, Same) = 1 ELSE Count(net.ctrl, SameId) = 0
    /\ \A k \in DOMAIN net.inputs : Sensor(NodeDef(net, net.inputs[k]).role)
    /\ \A k \in DOMAIN net.outputs : NodeDef(net, net.outputs[k]).role = "O"
    /\ Len(net.inputs) = Count(g.nodes, IsInput) /\ Len(net.outputs) = Count(g.nodes, IsOutput)
    /\ \A j, k \in DOMAIN net.inputs : j < k => net.inputs[j] < net.inputs[k]     \* genome order = ascending ids
    /\ \A j, k \in DOMAIN net.outputs : j < k => net.outputs[j] < net.outputs[k]

\* the lookups of the implementation report the defined structure on every ordered pair of ids in Dom
\* (shared sub-results are bound once in LETs: TLC evaluates a LET definition at most once per context)
GraphViewAgrees(net, Dom) ==
    LET b == Built(net)
        al == AllLinks(net)
        all == AllIds(net)
        succ(u) == {l.dst : l \in {x \in Range(al) : x.src = u}}      \* = SuccDef(net, u)
        pred(u) == {l.src : l \in {x \in Range(al) : x.dst = u}}      \* = PredDef(net, u)
    IN
    /\ \A u \in Dom :
          /\ (NodeWithIdAlg(b, u).kind # "none") <=> (u \in all)
          /\ Range(FromAlg(b, u)) = succ(u)
          /\ Range(ToAlg(b, u)) = pred(u)
          /\ u \notin all => NodeDef(net, u) = NoNode /\ FromAlg(b, u) = <<>> /\ ToAlg(b, u) = <<>>
    /\ \A u, v \in Dom :
          LET e == EdgeAlg(b, u, v)                                \* Edge, WeightedEdge, HasEdgeFromTo, Weight
              Hit(l) == l.src = u /\ l.dst = v
              def == SelectSeq(al, Hit)                            \* = EdgesDef(net, u, v)
              wt == WeightAlg(b, u, v)
              uv == HasEdgeBetweenAlg(b, u, v)
          IN
          /\ (e # NoEdge) <=> (def # <<>>)                        \* nil iff there is no such link
          /\ e # NoEdge => e \in Range(def)
          /\ (e # NoEdge) <=> v \in Range(FromAlg(b, u))
          /\ (e # NoEdge) <=> u \in Range(ToAlg(b, v))
          /\ wt.ok <=> (e # NoEdge)
          /\ wt.ok => wt.w = e.w
          /\ uv <=> (v \in succ(u) \/ u \in succ(v))             \* = HasEdgeBetweenDef(net, u, v)
          /\ uv <=> HasEdgeBetweenAlg(b, v, u)
          /\ (u \notin all \/ v \notin all) => e = NoEdge /\ ~uv

CountsAgree(net) ==
    LET b == Built(net)
        FromLen(u) == Len(FromAlg(b, u))
        ToLen(u) == Len(ToAlg(b, u))
    IN
    /\ NodeCountAlg(b) = NodeCountDef(net) /\ NodeCountAlg(b) = Cardinality(AllIds(net))
    /\ Len(NodesSeq(net)) = NodeCountAlg(b) /\ Range(NodesSeq(net)) = AllIds(net)
    /\ LinkCountAlg(b) = LinkCountDef(net)
    /\ ComplexityAlg(b) = ComplexityDef(net)
    \* the counts and the adjacency queries describe the same multigraph
    /\ SumSeq(Map(NodesSeq(net), FromLen)) = LinkCountAlg(b)
    /\ SumSeq(Map(NodesSeq(net), ToLen)) = LinkCountAlg(b)

(* ------------------------------------------------ organism phenotype cache *)
\* Equality of two networks as far as C11 fixes it: the node, link and control lists as multisets (the statement does
\* not fix their order), inputs and outputs as sequences ("in genome order").
SameBag(s, t) == /\ Len(s) = Len(t)
                 /\ \A x \in Range(s) \cup Range(t) : LET Is(y) == y = x IN Count(s, Is) = Count(t, Is)
SameNet(a, b) ==
    /\ SameBag(a.nodes, b.nodes)
    /\ a.inputs = b.inputs /\ a.outputs = b.outputs
    /\ SameBag(a.links, b.links)
    /\ Len(a.ctrl) = Len(b.ctrl)
    /\ \A i \in DOMAIN a.ctrl : LET Twin(d) == /\ d.id = a.ctrl[i].id /\ d.act = a.ctrl[i].act
                                             /\ SameBag(d.ins, a.ctrl[i].ins) /\ SameBag(d.outs, a.ctrl[i].outs)
                                   SameId(d) == d.id = a.ctrl[i].id
                               IN Count(b.ctrl, Twin) = 1 /\ Count(a.ctrl, SameId) = 1

\* An organism carries a genome and (possibly) a cached network.  C11 for organisms: whatever Organism.Phenotype()
\* hands out - cached at construction, built lazily or rebuilt by UpdatePhenotype - is the expression of the
\* organism's CURRENT genome.  `stale` is what the cache holds when it is not.
CacheFresh(genome, phenotype) == SameNet(phenotype, Genesis(genome))
=============================================================================

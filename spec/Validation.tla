----------------------------- MODULE Validation -----------------------------
(***************************************************************************)
(* X08 - the self-checks and small value operations of goNEAT that no      *)
(* other module of the specification covers (growth of the specification   *)
(* beyond the listed properties, DESIGN.md section 15).                    *)
(*                                                                         *)
(*  1. Genome.verify() (neat/genetics/genome.go) clause by clause as the   *)
(*     code performs it, NEXT TO the well-formedness definition WellFormed *)
(*     of Genome.tla (same record shape, decorated with object identities  *)
(*     the way the projector of the harness does): which clauses of        *)
(*     WellFormed verify() detects, which it does not, and what it rejects *)
(*     although WellFormed holds.  Population.Verify() on top of it.       *)
(*  2. neat.Trait (neat/trait.go): NewTrait, NewTraitCopy, NewTraitAvrg,   *)
(*     Trait.Mutate as the loop of the code over an explicit draw script,  *)
(*     Trait.String.  A parameter is a dyadic rational n/8, a mean n/16.   *)
(*  3. Gene / MIMOControlGene / Innovation constructors and predicates     *)
(*     (gene.go, mimo_gene.go, innovation.go) and the enum <-> string      *)
(*     tables of neat/network/common.go and neat/genetics/common.go.       *)
(***************************************************************************)
EXTENDS Genome, TLC

(* ======================================================================= *)
(* 1. Genome.verify()                                                      *)
(* ======================================================================= *)
\* the "two disables in a row" rule is applied only to genomes with MORE than this many nodes (constant of the code)
DisabledRuleAbove == 500

(* ---- decoration: an abstract genome a = [traits, nodes, genes] (Genome.tla shape) becomes the projected record on
   which WFCells is stated.  `wiring` says how the replayer links the real objects:
     "own"            gene endpoints / traits point to the genome's own objects wherever an object with that id exists
                      (the first one in list order), otherwise to a fresh object carrying the id
     "foreign_ends"   every gene endpoint is a fresh node object carrying the id (never an element of the node list)
     "foreign_trait"  every non-nil trait reference is a fresh trait object carrying the id
     "alias"          as "own", and equal gene records are ONE gene object listed several times
   Cells: trait k -> 100+k, node k -> 200+k, gene k -> 300+k, fresh objects 400.. / 500..; lk is what the id index
   (Genome.NodeWithId, a map filled in list order: the LAST node with an id wins) returns for the node's id. ---- *)
FirstWith(s, id) == LET S == { k \in DOMAIN s : s[k].id = id } IN IF S = {} THEN 0 ELSE MinOf(S)
LastWith(s, id)  == LET S == { k \in DOMAIN s : s[k].id = id } IN IF S = {} THEN 0 ELSE MaxOf(S)
NodeCell(a, id, wiring, fresh) ==
    IF wiring = "foreign_ends" \/ FirstWith(a.nodes, id) = 0 THEN fresh ELSE 200 + FirstWith(a.nodes, id)
TraitCell(a, tr, wiring, fresh) ==
    IF tr = 0 THEN 0
    ELSE IF wiring = "foreign_trait" \/ FirstWith(a.traits, tr) = 0 THEN fresh ELSE 100 + FirstWith(a.traits, tr)
GeneCell(a, k, wiring) ==
    IF wiring = "alias" THEN 300 + MinOf({ j \in DOMAIN a.genes : a.genes[j] = a.genes[k] }) ELSE 300 + k
Decorate(a, wiring) ==
    [traits |-> [k \in DOMAIN a.traits |-> [id |-> a.traits[k].id, p |-> a.traits[k].p, c |-> 100 + k]],
     nodes  |-> [k \in DOMAIN a.nodes |->
                   LET n == a.nodes[k] IN
                   [id |-> n.id, role |-> n.role, act |-> n.act, tr |-> n.tr, c |-> 200 + k,
                    tc |-> TraitCell(a, n.tr, wiring, 500 + k), lk |-> 200 + LastWith(a.nodes, n.id)]],
     genes  |-> [k \in DOMAIN a.genes |->
                   LET x == a.genes[k] IN
                   [inn |-> x.inn, src |-> x.src, dst |-> x.dst, rec |-> x.rec, en |-> x.en, w |-> x.w, mut |-> x.mut,
                    tr |-> x.tr, c |-> GeneCell(a, k, wiring),
                    sc |-> NodeCell(a, x.src, wiring, 400 + 2 * k), dc |-> NodeCell(a, x.dst, wiring, 401 + 2 * k),
                    tc |-> TraitCell(a, x.tr, wiring, 550 + k)]],
     absentLookupNil |-> TRUE]

(* ---- the clauses of WellFormed, one name each (the detection matrix is stated per clause) ---- *)
CellsEnds(g) == \A i \in DOMAIN g.genes :
    /\ \E k \in DOMAIN g.nodes : g.nodes[k].id = g.genes[i].src /\ g.nodes[k].c = g.genes[i].sc
    /\ \E k \in DOMAIN g.nodes : g.nodes[k].id = g.genes[i].dst /\ g.nodes[k].c = g.genes[i].dc
CellsTraits(g) ==
    /\ \A i \in DOMAIN g.genes : (g.genes[i].tr = 0 /\ g.genes[i].tc = 0)
                                 \/ \E k \in DOMAIN g.traits : g.traits[k].id = g.genes[i].tr /\ g.traits[k].c = g.genes[i].tc
    /\ \A i \in DOMAIN g.nodes : (g.nodes[i].tr = 0 /\ g.nodes[i].tc = 0)
                                 \/ \E k \in DOMAIN g.traits : g.traits[k].id = g.nodes[i].tr /\ g.traits[k].c = g.nodes[i].tc
CellsIndex(g) == \A i \in DOMAIN g.nodes : g.nodes[i].lk = g.nodes[i].c
\* gene objects listed once (not a clause of WellFormed by itself: an aliased gene breaks GenesAscending and NoDuplicateLink)
GeneObjectsDistinct(g) == \A i, j \in DOMAIN g.genes : i # j => g.genes[i].c # g.genes[j].c
Clauses(g) == [genes_ascending |-> GenesAscending(g), no_duplicate_link |-> NoDuplicateLink(g),
               nodes_ascending |-> NodesAscending(g), endpoints_own |-> EndpointsOwn(g),
               trait_refs_own |-> TraitRefsOwn(g), no_sensor_target |-> NoSensorTarget(g),
               cells_ends |-> CellsEnds(g), cells_traits |-> CellsTraits(g), cells_index |-> CellsIndex(g)]
ClauseNames == DOMAIN Clauses([traits |-> <<>>, nodes |-> <<>>, genes |-> <<>>])
Broken(g) == { n \in ClauseNames : ~Clauses(g)[n] }
\* the split into named clauses is the definition of Genome.tla
ClausesAreWellFormed(g) == WellFormed(g) <=> Broken(g) = {}

(* ---- verify() as the code performs it: three emptiness tests, then the loops, each returning at its first failure.
   The result is the name of the failing step ("ok" = (true, nil)).  The checks read ids only - except the duplicate
   test, which skips a gene compared with ITSELF (pointer test gn != gn2). ---- *)
\* for gene i: scan the node list until both ends are found
RECURSIVE EndScan(_, _, _, _, _)
EndScan(g, i, k, inF, outF) ==
    IF k > Len(g.nodes) \/ (inF /\ outF) THEN <<inF, outF>>
    ELSE EndScan(g, i, k + 1, inF \/ g.genes[i].src = g.nodes[k].id, outF \/ g.genes[i].dst = g.nodes[k].id)
RECURSIVE GeneLoop(_, _)
GeneLoop(g, i) ==
    IF i > Len(g.genes) THEN "ok"
    ELSE LET f == EndScan(g, i, 1, FALSE, FALSE) IN
         IF ~f[1] THEN "missing_in" ELSE IF ~f[2] THEN "missing_out" ELSE GeneLoop(g, i + 1)
RECURSIVE OrderLoop(_, _, _)
OrderLoop(g, k, lastId) ==
    IF k > Len(g.nodes) THEN "ok"
    ELSE IF g.nodes[k].id < lastId THEN "nodes_order" ELSE OrderLoop(g, k + 1, g.nodes[k].id)
DupLoop(g) == IF \E i, j \in DOMAIN g.genes : g.genes[i].c # g.genes[j].c /\ Key(g.genes[i]) = Key(g.genes[j])
              THEN "dup_gene" ELSE "ok"
RECURSIVE DisabledLoop(_, _, _)
DisabledLoop(g, i, disabled) ==
    IF i > Len(g.genes) THEN "ok"
    ELSE IF ~g.genes[i].en /\ disabled THEN "two_disabled" ELSE DisabledLoop(g, i + 1, ~g.genes[i].en)
VerifyCode(g, big) ==
    IF Len(g.genes) = 0 THEN "no_genes"
    ELSE IF Len(g.nodes) = 0 THEN "no_nodes"
    ELSE IF Len(g.traits) = 0 THEN "no_traits"
    ELSE IF GeneLoop(g, 1) # "ok" THEN GeneLoop(g, 1)          \* "missing_in" / "missing_out" of the first gene that fails
    ELSE IF OrderLoop(g, 1, 0) # "ok" THEN "nodes_order"
    ELSE IF DupLoop(g) # "ok" THEN "dup_gene"
    ELSE IF Len(g.nodes) > big THEN DisabledLoop(g, 1, FALSE)
    ELSE "ok"

(* ---- the same as a definition: the first failing clause in the order of the code ---- *)
NodeDescent(g) == \E k \in DOMAIN g.nodes : g.nodes[k].id < (IF k = 1 THEN 0 ELSE g.nodes[k - 1].id)
TwoDisabledInARow(g) == \E i \in 1 .. Len(g.genes) - 1 : ~g.genes[i].en /\ ~g.genes[i + 1].en
DupByDistinctObjects(g) == \E i, j \in DOMAIN g.genes : g.genes[i].c # g.genes[j].c /\ Key(g.genes[i]) = Key(g.genes[j])
VerifyDef(g, big) ==
    IF g.genes = <<>> THEN "no_genes" ELSE IF g.nodes = <<>> THEN "no_nodes" ELSE IF g.traits = <<>> THEN "no_traits"
    ELSE LET bad == { i \in DOMAIN g.genes : g.genes[i].src \notin NodeIds(g) \/ g.genes[i].dst \notin NodeIds(g) } IN
         IF bad # {} THEN (IF g.genes[MinOf(bad)].src \notin NodeIds(g) THEN "missing_in" ELSE "missing_out")
         ELSE IF NodeDescent(g) THEN "nodes_order"
         ELSE IF DupByDistinctObjects(g) THEN "dup_gene"
         ELSE IF Len(g.nodes) > big /\ TwoDisabledInARow(g) THEN "two_disabled"
         ELSE "ok"

(* ---- laws ---- *)
NonEmpty(g) == g.genes # <<>> /\ g.nodes # <<>> /\ g.traits # <<>>
VerifyLoopIsDefinition(g, big) == VerifyCode(g, big) = VerifyDef(g, big)
\* no false rejection - with the two requirements verify() adds to WellFormed spelled out: a genome without genes or
\* without traits (or, above the size limit, with two consecutive disabled genes) is rejected although it may be well formed
NoFalseRejection(g, big) ==
    (WellFormed(g) /\ NonEmpty(g) /\ ~(Len(g.nodes) > big /\ TwoDisabledInARow(g))) => VerifyCode(g, big) = "ok"
\* what is rejected although well formed is exactly that
RejectedThoughWellFormed(g, big) ==
    (WellFormed(g) /\ VerifyCode(g, big) # "ok") => VerifyCode(g, big) \in {"no_genes", "no_traits", "two_disabled"}
\* clause 1 (claimed): endpoint ids.  Detected whenever broken, on every non-empty genome.
DetectsEndpoints(g, big) ==
    NonEmpty(g) => (VerifyCode(g, big) \in {"missing_in", "missing_out"} <=> ~EndpointsOwn(g))
\* clause 2 (claimed): node order.  Detected only as a DESCENT: two nodes with the same id next to each other pass.
DetectsNodeOrder(g, big) ==
    (NonEmpty(g) /\ EndpointsOwn(g)) =>
        /\ VerifyCode(g, big) = "nodes_order" <=> NodeDescent(g)
        /\ NodeDescent(g) => ~NodesAscending(g)
        /\ (~NodesAscending(g) /\ ~NodeDescent(g)) => \E k \in 1 .. Len(g.nodes) - 1 : g.nodes[k].id = g.nodes[k + 1].id
\* clause 3 (claimed): duplicate links.  Detected whenever two DISTINCT gene objects carry the same link.
DetectsDuplicates(g, big) ==
    (NonEmpty(g) /\ EndpointsOwn(g) /\ ~NodeDescent(g)) =>
        /\ VerifyCode(g, big) = "dup_gene" <=> DupByDistinctObjects(g)
        /\ GeneObjectsDistinct(g) => (DupByDistinctObjects(g) <=> ~NoDuplicateLink(g))
\* everything else verify() never looks at: innovation numbers (order, uniqueness), roles (a link into a sensor),
\* trait references, weights, which objects the pointers lead to.  Stated as: the verdict is a function of Forget(g).
Forget(g) ==
    [traits |-> [k \in DOMAIN g.traits |-> [id |-> 0, p |-> <<>>, c |-> 0]],
     nodes  |-> [k \in DOMAIN g.nodes |-> [id |-> g.nodes[k].id, role |-> "H", act |-> 0, tr |-> 0, c |-> 0, tc |-> 0, lk |-> 0]],
     genes  |-> [k \in DOMAIN g.genes |->
                   [inn |-> 0, src |-> g.genes[k].src, dst |-> g.genes[k].dst, rec |-> g.genes[k].rec, en |-> g.genes[k].en,
                    w |-> 0, mut |-> 0, tr |-> 0, c |-> g.genes[k].c, sc |-> 0, dc |-> 0, tc |-> 0]],
     absentLookupNil |-> TRUE]
BlindToTheRest(g, big) == VerifyCode(g, big) = VerifyCode(Forget(g), big)
\* below the size limit the enabled flags do not matter either
SmallIgnoresEnabled(g, big) ==
    Len(g.nodes) <= big =>
        VerifyCode(g, big) = VerifyCode([g EXCEPT !.genes = [k \in DOMAIN g.genes |-> [g.genes[k] EXCEPT !.en = TRUE]]], big)

(* ---- Population.Verify(): the organisms in order, the error of the first genome that fails; (true, nil) otherwise,
   also for a population without organisms ---- *)
RECURSIVE PopVerify(_, _, _)
PopVerify(gs, i, big) ==
    IF i > Len(gs) THEN "ok"
    ELSE IF VerifyCode(gs[i], big) # "ok" THEN VerifyCode(gs[i], big) ELSE PopVerify(gs, i + 1, big)
PopVerifyDef(gs, big) ==
    LET bad == { i \in DOMAIN gs : VerifyCode(gs[i], big) # "ok" } IN
    IF bad = {} THEN "ok" ELSE VerifyCode(gs[MinOf(bad)], big)

(* ======================================================================= *)
(* 2. neat.Trait                                                           *)
(* ======================================================================= *)
\* a trait is [id, p] (Genome.tla); a parameter is the integer n of n/8.  pc names the parameter slice (the object that
\* Mutate writes into): two traits are independent iff their pc differ.
NumTraitParams == 8
NewTrait == [id |-> 0, p |-> [i \in 1 .. NumTraitParams |-> 0]]
NewTraitCopy(t) == [id |-> t.id, p |-> t.p]
\* the mean of n1/8 and n2/8 is (n1+n2)/16: means are in sixteenths
NewTraitAvrg(t1, t2) ==
    IF Len(t1.p) # Len(t2.p) THEN [ok |-> FALSE, id |-> 0, p16 |-> <<>>]
    ELSE [ok |-> TRUE, id |-> t1.id, p16 |-> [i \in DOMAIN t1.p |-> t1.p[i] + t2.p[i]]]
AvrgLaws(t1, t2) ==
    LET a == NewTraitAvrg(t1, t2)  b == NewTraitAvrg(t2, t1) IN
    /\ a.ok <=> Len(t1.p) = Len(t2.p)
    /\ a.ok => /\ a.id = t1.id /\ b.ok /\ b.id = t2.id /\ a.p16 = b.p16          \* commutative apart from the id
               /\ Len(a.p16) = Len(t1.p)
               /\ \A i \in DOMAIN a.p16 :                                          \* a mean lies between its operands
                    /\ 2 * (IF t1.p[i] < t2.p[i] THEN t1.p[i] ELSE t2.p[i]) <= a.p16[i]
                    /\ a.p16[i] <= 2 * (IF t1.p[i] < t2.p[i] THEN t2.p[i] ELSE t1.p[i])
    /\ NewTraitAvrg(t1, t1).p16 = [i \in DOMAIN t1.p |-> 2 * t1.p[i]]            \* the mean with itself is itself

(* ---- Trait.Mutate(power, prob) over an explicit script of draws.  For parameter i the code draws one uniform u;
   if u > prob (sic: a parameter is perturbed with probability 1 - prob) it draws an integer v (RandSign: -1 when v is
   even, +1 when odd) and another uniform m and adds sign * m * power, clamping a negative result to 0.
   Units: u, prob, m in eighths (u, m in 0..7: a uniform is < 1), power in halves, parameters in eighths;
   n/8 + s * (m/8) * (q/2) = (2n + s*m*q)/16: results are in SIXTEENTHS. ---- *)
SignOf(v) == IF v % 2 = 0 THEN -1 ELSE 1
Mutated(d, prob8) == d.u > prob8
MutElem16(n, d, power2, prob8) ==
    IF Mutated(d, prob8)
    THEN LET r == 2 * n + SignOf(d.v) * d.m * power2 IN IF r < 0 THEN 0 ELSE r
    ELSE 2 * n
\* the loop of the code: position i about to be processed, acc = results so far, used = values taken from the stream
RECURSIVE MutateLoop(_, _, _, _, _, _, _)
MutateLoop(p, script, power2, prob8, i, acc, used) ==
    IF i > Len(p) THEN [p16 |-> acc, used |-> used]
    ELSE MutateLoop(p, script, power2, prob8, i + 1, Append(acc, MutElem16(p[i], script[i], power2, prob8)),
                    used + (IF Mutated(script[i], prob8) THEN 3 ELSE 1))
Mutate(t, script, power2, prob8) ==
    LET r == MutateLoop(t.p, script, power2, prob8, 1, <<>>, 0) IN [id |-> t.id, p16 |-> r.p16, used |-> r.used]
MutateDef(t, script, power2, prob8) ==
    [id |-> t.id, p16 |-> [i \in DOMAIN t.p |-> MutElem16(t.p[i], script[i], power2, prob8)],
     used |-> Len(t.p) + 2 * Cardinality({ i \in DOMAIN t.p : Mutated(script[i], prob8) })]
MutateLaws(t, script, power2, prob8) ==
    LET r == Mutate(t, script, power2, prob8) IN
    /\ r = MutateDef(t, script, power2, prob8)
    /\ r.id = t.id /\ Len(r.p16) = Len(t.p)
    /\ \A i \in DOMAIN t.p :
         /\ ~Mutated(script[i], prob8) => r.p16[i] = 2 * t.p[i]                      \* frame
         /\ (Mutated(script[i], prob8) \/ t.p[i] >= 0) => r.p16[i] >= 0               \* never negative afterwards
         /\ r.p16[i] # 0 => (r.p16[i] - 2 * t.p[i] <= 8 * power2 /\ 2 * t.p[i] - r.p16[i] <= 8 * power2)   \* |change| < power
         /\ (Mutated(script[i], prob8) /\ SignOf(script[i].v) = 1 /\ t.p[i] >= 0) => r.p16[i] >= 2 * t.p[i]
         /\ (Mutated(script[i], prob8) /\ SignOf(script[i].v) = -1) => r.p16[i] <= (IF t.p[i] < 0 THEN 0 ELSE 2 * t.p[i])
    /\ prob8 >= 8 => r.p16 = [i \in DOMAIN t.p |-> 2 * t.p[i]]                       \* prob >= 1: nothing is ever changed (u < 1)
    /\ (prob8 < 0 /\ power2 > 0) => r.used = 3 * Len(t.p)                             \* prob < 0: every parameter is perturbed
    /\ power2 = 0 => \A i \in DOMAIN t.p : r.p16[i] = (IF Mutated(script[i], prob8) /\ t.p[i] < 0 THEN 0 ELSE 2 * t.p[i])
    /\ r.used >= Len(t.p) /\ r.used <= 3 * Len(t.p)
\* the table handed to the replayer: for parameter n and sign s the result for m = 0/8 .. 8/8 (monotone in m: a real
\* draw between two grid points gives a value between the two entries)
MutRow16(n, s, power2) == [j \in 1 .. 9 |-> LET r == 2 * n + s * (j - 1) * power2 IN IF r < 0 THEN 0 ELSE r]
RowMonotone(row, s) == \A j \in 1 .. Len(row) - 1 : IF s = 1 THEN row[j] <= row[j + 1] ELSE row[j] >= row[j + 1]

(* ---- Trait.String(): "Trait #<id> (" then " %f" per parameter then " )" ---- *)
Digits6(k) == IF k = 0 THEN "000000" ELSE ToString(k)            \* k in {0, 125000, ..., 875000}
Abs8(n) == IF n < 0 THEN -n ELSE n
Fmt8(n) == (IF n < 0 THEN "-" ELSE "") \o ToString(Abs8(n) \div 8) \o "." \o Digits6((Abs8(n) % 8) * 125000)
RECURSIVE JoinParams(_, _)
JoinParams(p, i) == IF i > Len(p) THEN "" ELSE " " \o Fmt8(p[i]) \o JoinParams(p, i + 1)
TraitString(t) == "Trait #" \o ToString(t.id) \o " (" \o JoinParams(t.p, 1) \o " )"

(* ======================================================================= *)
(* 3. Gene, MIMOControlGene, Innovation, enum tables                       *)
(* ======================================================================= *)
\* connection genes as Genome.tla records [inn, src, dst, rec, en, w, mut, tr]; src / dst / tr name the OBJECTS handed in
NewConnectionGene(w, src, dst, rec, tr, inn, mut, en) ==
    [inn |-> inn, src |-> src, dst |-> dst, rec |-> rec, en |-> en, w |-> w, mut |-> mut, tr |-> tr]
NewGene(w, src, dst, rec, inn, mut) == NewConnectionGene(w, src, dst, rec, 0, inn, mut, TRUE)
NewGeneWithTrait(tr, w, src, dst, rec, inn, mut) == NewConnectionGene(w, src, dst, rec, tr, inn, mut, TRUE)
\* weight and recurrence from the link of g; innovation number, mutation number and ENABLED FLAG from g; ends and trait as given
NewGeneCopy(g, tr, src, dst) == NewConnectionGene(g.w, src, dst, g.rec, tr, g.inn, g.mut, g.en)
GeneCopyLaws(g, tr, src, dst) ==
    LET c == NewGeneCopy(g, tr, src, dst) IN
    /\ NewGeneCopy(g, g.tr, g.src, g.dst) = g                  \* a copy onto the same ends and trait is the same gene
    /\ c.en = g.en /\ c.rec = g.rec /\ c.inn = g.inn /\ c.mut = g.mut /\ c.w = g.w
    /\ c.src = src /\ c.dst = dst /\ c.tr = tr

\* MIMO control genes as the module records of Genome.tla (ModsG): [inn, mut, en, nid, ins, outs]; the gene remembers
\* the IO nodes of its control node (ins then outs) at construction time
NewMIMOGene(node, inn, mut, en) ==
    [inn |-> inn, mut |-> mut, en |-> en, nid |-> node.id, ins |-> node.ins, outs |-> node.outs, io |-> node.ins \o node.outs]
NewMIMOGeneCopy(g, node) == NewMIMOGene(node, g.inn, g.mut, g.en)
RECURSIVE IntersectLoop(_, _, _)
IntersectLoop(io, S, i) == IF i > Len(io) THEN FALSE ELSE IF io[i] \in S THEN TRUE ELSE IntersectLoop(io, S, i + 1)
HasIntersection(g, S) == IntersectLoop(g.io, S, 1)
\* the only place the ORDER of the IO nodes shows: crossover (mateModules) appends to the child, for an inherited control
\* gene, the IO nodes the child does not have yet - in IO order, once per occurrence
ModuleExtraNodes(g, S) == IF HasIntersection(g, S) THEN SelectSeq(g.io, LAMBDA n : n \notin S) ELSE <<>>
MIMOLaws(node, inn, mut, en, S) ==
    LET g == NewMIMOGene(node, inn, mut, en) IN
    /\ HasIntersection(g, S) <=> Range(g.io) \cap S # {}
    /\ ~HasIntersection(g, {})
    /\ g.io = <<>> => ~HasIntersection(g, S)
    /\ \A T \in SUBSET S : HasIntersection(g, T) => HasIntersection(g, S)
    /\ NewMIMOGeneCopy(g, node) = g
    /\ Range(ModuleExtraNodes(g, S)) \cap S = {} /\ Range(ModuleExtraNodes(g, S)) \subseteq Range(g.io)

\* innovation records: LinkRec / NodeRec of Genome.tla are what the three constructors store
InnovationForNode(u, v, i1, i2, n, old) == NodeRec(u, v, old, i1, i2, n)
InnovationForLink(u, v, inn, w, t) == LinkRec(u, v, FALSE, inn, w, t)
InnovationForRecurrentLink(u, v, inn, w, t, rec) == LinkRec(u, v, rec, inn, w, t)
InnovationKindCode(r) == IF r.k = "N" THEN 1 ELSE 2            \* newNodeInnType = 1, newLinkInnType = 2

\* enum tables.  NodeNeuronType / NodeType / GenomeEncoding are bytes: codes 0..255.
NeuronNames == <<"HIDN", "INPT", "OUTP", "BIAS">>            \* code = position - 1
UnknownNeuronName == "UNKNOWN NEURON TYPE"
NodeTypeNames == <<"NEURON", "SENSOR">>
UnknownNodeTypeName == "UNKNOWN NODE TYPE"
UnknownNeuronCode == 127                                      \* math.MaxInt8, returned together with the error
NeuronTypeName(c) == IF c \in 0 .. 3 THEN NeuronNames[c + 1] ELSE UnknownNeuronName
NodeTypeName(c) == IF c \in 0 .. 1 THEN NodeTypeNames[c + 1] ELSE UnknownNodeTypeName
NeuronTypeByName(n) == IF \E c \in 0 .. 3 : NeuronNames[c + 1] = n
                       THEN [ok |-> TRUE, code |-> CHOOSE c \in 0 .. 3 : NeuronNames[c + 1] = n]
                       ELSE [ok |-> FALSE, code |-> UnknownNeuronCode]
\* the role letters of Genome.tla and the codes; a sensor is an input or a bias (NNode.IsSensor / NodeType)
RoleCode(r) == CASE r = "H" -> 0 [] r = "I" -> 1 [] r = "O" -> 2 [] r = "B" -> 3
NodeTypeOfNeuron(c) == IF c \in {1, 3} THEN 1 ELSE 0
EncodingSupported(c) == c \in {1, 2}                          \* PlainGenomeEncoding = 1, YAMLGenomeEncoding = 2
EnumLaws ==
    /\ \A a, b \in 0 .. 3 : NeuronTypeName(a) = NeuronTypeName(b) => a = b                   \* one-to-one
    /\ \A c \in 0 .. 3 : NeuronTypeByName(NeuronTypeName(c)) = [ok |-> TRUE, code |-> c]      \* round trip
    /\ \A c \in 4 .. 255 : NeuronTypeName(c) = UnknownNeuronName /\ ~NeuronTypeByName(NeuronTypeName(c)).ok
    /\ \A c \in 2 .. 255 : NodeTypeName(c) = UnknownNodeTypeName
    /\ NodeTypeName(0) # NodeTypeName(1)
    /\ UnknownNeuronCode \notin 0 .. 3
    /\ \A r \in {"I", "B", "O", "H"} : IsSensor(r) <=> NodeTypeOfNeuron(RoleCode(r)) = 1
    /\ \A r, s \in {"I", "B", "O", "H"} : RoleCode(r) = RoleCode(s) => r = s
=============================================================================

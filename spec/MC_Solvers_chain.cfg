SPECIFICATION Spec
CONSTANTS
  RecursiveAddsBias = TRUE
  Inputs = {1}
  Biases = {3}
  Hidden = {7, 8, 9}
  OutSet = {5}
  Shapes = {{1, 5, 7, 8, 9}}
  Weights <- W1
  InVals <- V01
  OrderKinds = {"IBOH", "IBOHr"}
  ActSchemes <- SchemesChain
  LinkCaps = {5}
  SealAtCap = FALSE
  Extra = 1
  Canonical = TRUE
INVARIANTS FeedForward InScope DepthAgrees
CHECK_DEADLOCK FALSE

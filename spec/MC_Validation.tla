--------------------------- MODULE MC_Validation ---------------------------
(* X08: every case in scope is an initial state (three case kinds: verify / trait / value); the laws of Validation.tla  *)
(* are invariants over the case; each state is handed to the replayer as one JSON case with the result the             *)
(* specification assigns.                                                                                              *)
EXTENDS Validation, Json
CONSTANTS Kinds,                 \* which case kinds this configuration explores
          VFams,                 \* which families of verify cases (struct, traits, wiring, big, pop)
          NodeIdPool, MaxNodes,  \* verify / struct: node lists = all sequences up to MaxNodes over these ids
          GInns, GSrc, GDst, GRecs, MaxGenes,   \* verify / struct: gene lists = all sequences up to MaxGenes over this pool
          WGenes,                \* verify / wiring: gene lists up to this length over a 4-gene pool
          PopMax,                \* popverify: populations up to this size over the palette
          TVals, TSmallLen,      \* traits: every parameter vector up to this length over these values (eighths)
          Powers2, Probs8, UGrid, MGrid          \* Mutate: power (halves), prob (eighths), draw grid (eighths)
VARIABLES kind, c, g, emitted
vars == <<kind, c, g, emitted>>

SeqsUpTo(S, n) == UNION { [1 .. k -> S] : k \in 0 .. n }
RECURSIVE SortedSeq(_)
SortedSeq(S) == IF S = {} THEN <<>> ELSE <<MinOf(S)>> \o SortedSeq(S \ {MinOf(S)})

(* ------------------------------------------------------------------ verify: scope *)
RoleOfId(id) == CASE id = 1 -> "I" [] id = 2 -> "H" [] id = 3 -> "O" [] id = 4 -> "B" [] OTHER -> "H"
MkNode(id, tr) == [id |-> id, role |-> RoleOfId(id), act |-> 0, tr |-> tr]
MkTrait(id) == [id |-> id, p |-> <<>>]
MkGene(inn, s, d, rec, en, tr) == [inn |-> inn, src |-> s, dst |-> d, rec |-> rec, en |-> en, w |-> 0, mut |-> 0, tr |-> tr]
PadNodes(a, n) == [a EXCEPT !.nodes = a.nodes \o [i \in 1 .. n |-> MkNode(1000 + i, 0)]]
VCase(fam, a, wiring, pad) == [fam |-> fam, a |-> a, wiring |-> wiring, pad |-> pad]

\* Every family is a PREDICATE over the case (the initial states are listed by nested quantification: no large set of
\* records is ever built).
\* struct: one trait, every node list and every gene list in scope, own wiring
NodeLists == SeqsUpTo({ MkNode(i, 0) : i \in NodeIdPool }, MaxNodes)
GeneLists == SeqsUpTo({ MkGene(i, s, d, r, TRUE, 1) : i \in GInns, s \in GSrc, d \in GDst, r \in GRecs }, MaxGenes)
IsStructCase(x) == \E ns \in NodeLists, gs \in GeneLists :
    x = VCase("struct", [traits |-> <<MkTrait(1)>>, nodes |-> ns, genes |-> gs], "own", 0)
\* traits: a fixed sound structure, every trait list / trait reference in scope
TraitLists == { <<>>, <<MkTrait(1)>>, <<MkTrait(1), MkTrait(2)>>, <<MkTrait(2), MkTrait(1)>>, <<MkTrait(1), MkTrait(1)>> }
IsTraitsCase(x) == \E ts \in TraitLists, nt \in 0 .. 2, t1 \in 0 .. 2, t2 \in 0 .. 2, w \in {"own", "foreign_trait"} :
    x = VCase("traits", [traits |-> ts, nodes |-> <<MkNode(1, 0), MkNode(2, nt), MkNode(3, 0)>>,
                         genes |-> <<MkGene(1, 1, 3, FALSE, TRUE, t1), MkGene(2, 2, 3, FALSE, TRUE, t2)>>], w, 0)
\* wiring: pointers that lead outside the genome, one gene object listed twice
IsWiringCase(x) == \E ns \in SeqsUpTo({ MkNode(i, 0) : i \in {1, 2, 3} }, 3),
                      gs \in SeqsUpTo({ MkGene(1, s, d, FALSE, TRUE, 1) : s \in {1, 2}, d \in {2, 3} }, WGenes),
                      w \in {"own", "foreign_ends", "alias"} :
    x = VCase("wiring", [traits |-> <<MkTrait(1)>>, nodes |-> ns, genes |-> gs], w, 0)
\* big: the enabled flags of four genes on a sound structure, below / at / above the size limit of the disabled rule ...
IsBigCase(x) ==
    \/ \E e \in [1 .. 4 -> BOOLEAN], pad \in {0, DisabledRuleAbove - 3, DisabledRuleAbove - 2} :
         x = VCase("big", [traits |-> <<MkTrait(1)>>, nodes |-> <<MkNode(1, 0), MkNode(2, 0), MkNode(3, 0)>>,
                           genes |-> <<MkGene(1, 1, 3, FALSE, e[1], 1), MkGene(2, 2, 3, FALSE, e[2], 1),
                                       MkGene(3, 1, 2, FALSE, e[3], 1), MkGene(4, 2, 2, TRUE, e[4], 1)>>], "own", pad)
    \* ... and the other clauses are still checked above the limit
    \/ \E ns \in { <<MkNode(1, 0), MkNode(2, 0), MkNode(3, 0)>>, <<MkNode(1, 0), MkNode(3, 0)>> }, s \in {1, 2} :
         x = VCase("big", [traits |-> <<MkTrait(1)>>, nodes |-> ns,
                           genes |-> <<MkGene(1, 1, 3, FALSE, FALSE, 1), MkGene(2, s, 3, FALSE, FALSE, 1)>>], "own", DisabledRuleAbove)
IsVerifyCase(x) == \/ "struct" \in VFams /\ IsStructCase(x)
                   \/ "traits" \in VFams /\ IsTraitsCase(x)
                   \/ "wiring" \in VFams /\ IsWiringCase(x)
                   \/ "big" \in VFams /\ IsBigCase(x)

\* populations over a palette of genomes (one sound, four broken in different ways)
Sound == [traits |-> <<MkTrait(1)>>, nodes |-> <<MkNode(1, 0), MkNode(2, 0), MkNode(3, 0)>>,
          genes |-> <<MkGene(1, 1, 3, FALSE, TRUE, 1), MkGene(2, 2, 3, FALSE, FALSE, 1)>>]
Palette == << Sound,
              [Sound EXCEPT !.genes = <<>>],
              [Sound EXCEPT !.genes = <<MkGene(1, 4, 3, FALSE, TRUE, 1)>>],
              [Sound EXCEPT !.nodes = <<MkNode(3, 0), MkNode(1, 0), MkNode(2, 0)>>],
              [Sound EXCEPT !.genes = <<MkGene(1, 1, 3, FALSE, TRUE, 1), MkGene(2, 1, 3, FALSE, TRUE, 1)>>] >>
IsPopCase(x) == \E l \in SeqsUpTo(1 .. Len(Palette), PopMax) : x = [list |-> l]
PopGenomes(l) == [i \in DOMAIN l |-> Decorate(Palette[l[i]], "own")]

(* ------------------------------------------------------------------ traits: scope *)
Base8 == <<0, 1, -3, 4, 14, 13, -18, 23>>                  \* every residue mod 8, both signs
Rot8(r) == [i \in 1 .. 8 |-> Base8[((i + r - 1) % 8) + 1]]
Vectors == SeqsUpTo(TVals, TSmallLen) \cup { Rot8(r) : r \in 0 .. 7 } \cup { [i \in 1 .. 8 |-> v] : v \in TVals }
Tr(id, p) == [id |-> id, p |-> p]
Draws == [u : UGrid, v : {0, 1}, m : MGrid]
\* draw scripts quantified over: every script for short vectors, two strided families through all draws for long ones
DrawSeq == LET RECURSIVE Enum(_) Enum(S) == IF S = {} THEN <<>> ELSE LET x == CHOOSE y \in S : TRUE IN <<x>> \o Enum(S \ {x})
           IN Enum(Draws)
ScriptsFor(L) == IF L <= 2 THEN [1 .. L -> Draws]
                 ELSE { [i \in 1 .. L |-> DrawSeq[((i * a + r) % Len(DrawSeq)) + 1]] : r \in 0 .. Len(DrawSeq) - 1, a \in {1, 5} }
IsTraitKindCase(x) ==
    \/ x = [op |-> "new"]
    \/ \E id \in {1, 5}, p \in Vectors : x = [op |-> "copy", t |-> Tr(id, p)]
    \/ \E id \in {1, 5}, p1 \in Vectors, p2 \in Vectors : x = [op |-> "avg", t1 |-> Tr(id, p1), t2 |-> Tr(2, p2)]
    \/ \E p \in Vectors, q \in Powers2, pr \in Probs8 : x = [op |-> "mutate", t |-> Tr(3, p), power2 |-> q, prob8 |-> pr]
    \/ \E id \in {0, 7, 12}, p \in Vectors : x = [op |-> "string", t |-> Tr(id, p)]

(* ------------------------------------------------------------------ values: scope *)
BigInn == 2147483647
GeneSrc == { NewConnectionGene(w, 1, 2, r, t, i, m, e) : w \in {-3, 0, 5}, r \in BOOLEAN, t \in {0, 1}, i \in {1, BigInn}, m \in {0, 5}, e \in BOOLEAN }
NamePalette == {"HIDN", "INPT", "OUTP", "BIAS", "", "hidn", "HIDN ", " INPT", "HIDDEN", "NEURON", "SENSOR", "OUTPUT",
                UnknownNeuronName, UnknownNodeTypeName}
ModIns == SeqsUpTo({3, 4}, 2)
ModOuts == SeqsUpTo({5, 6}, 1)
ProbeSets == { {1, 2} \cup X : X \in SUBSET {3, 4, 5, 6} } \cup { {}, {3}, {7} }
IsValueCase(x) ==
    \/ \E w \in {-3, 0, 5}, r \in BOOLEAN, i \in {1, BigInn}, m \in {0, 5} :
         x = [op |-> "NewGene", w |-> w, rec |-> r, inn |-> i, mut |-> m]
    \/ \E w \in {-3, 0, 5}, r \in BOOLEAN, i \in {1, BigInn}, m \in {0, 5}, t \in {0, 1} :
         x = [op |-> "NewGeneWithTrait", w |-> w, rec |-> r, inn |-> i, mut |-> m, tr |-> t]
    \/ \E y \in GeneSrc : x = [op |-> "NewConnectionGene", gene |-> y]
    \/ \E y \in GeneSrc, t \in {0, 1, 2}, s \in BOOLEAN : x = [op |-> "NewGeneCopy", gene |-> y, tr |-> t, same_ends |-> s]
    \/ \E a \in ModIns, b \in ModOuts, e \in BOOLEAN, S \in ProbeSets :
         x = [op |-> "mimo", node |-> [id |-> 9, ins |-> a, outs |-> b], inn |-> 4, mut |-> 5, en |-> e, probe |-> S]
    \/ \E u \in {1, 2}, v \in {2, 3}, i \in {3, BigInn - 1}, i2 \in {4, BigInn}, o \in {0, 2} :
         x = [op |-> "InnovationForNode", u |-> u, v |-> v, inn |-> i, inn2 |-> i2, node |-> 7, old |-> o]
    \/ \E u \in {1, 2}, v \in {2, 3}, i \in {3, BigInn}, w \in {-3, 0, 5}, t \in {0, 2} :
         x = [op |-> "InnovationForLink", u |-> u, v |-> v, inn |-> i, w |-> w, tr |-> t]
    \/ \E u \in {1, 2}, v \in {2, 3}, i \in {3, BigInn}, w \in {-3, 5}, t \in {0, 2}, r \in BOOLEAN :
         x = [op |-> "InnovationForRecurrentLink", u |-> u, v |-> v, inn |-> i, w |-> w, tr |-> t, rec |-> r]
    \/ \E k \in 0 .. 255 : x = [op |-> "neuron_name", code |-> k]
    \/ \E k \in 0 .. 255 : x = [op |-> "node_type_name", code |-> k]
    \/ \E n \in NamePalette : x = [op |-> "neuron_by_name", name |-> n]
    \/ \E k \in 0 .. 255 : x = [op |-> "encoding", code |-> k]
    \/ \E r \in {"I", "B", "O", "H"} : x = [op |-> "role", role |-> r]

\* constant sets with negative members (a .cfg file cannot write them)
QuickTVals == {-3, 0, 1, 8}
ThoroughTVals == {-3, 0, 1, 8, 21}
AllProbs8 == {-1, 0, 4, 8, 9}

(* ------------------------------------------------------------------ states *)
Init == /\ emitted = FALSE
        /\ \/ "verify" \in Kinds /\ kind = "verify" /\ IsVerifyCase(c)
           \/ "verify" \in Kinds /\ "pop" \in VFams /\ kind = "popverify" /\ IsPopCase(c)
           \/ "trait" \in Kinds /\ kind = "trait" /\ IsTraitKindCase(c)
           \/ "value" \in Kinds /\ kind = "value" /\ IsValueCase(c)
        /\ g = <<>>
\* the decorated genome of a verify case is computed by the Emit step (by the workers, not while the initial states are listed)
GenomeOfCase == IF kind = "verify" THEN Decorate(PadNodes(c.a, c.pad), c.wiring) ELSE <<>>

(* ------------------------------------------------------------------ cases *)
CompactGenome(a) ==
    [traits |-> [k \in DOMAIN a.traits |-> a.traits[k].id],
     nodes  |-> [k \in DOMAIN a.nodes |-> [id |-> a.nodes[k].id, role |-> a.nodes[k].role, tr |-> a.nodes[k].tr]],
     genes  |-> [k \in DOMAIN a.genes |-> [inn |-> a.genes[k].inn, src |-> a.genes[k].src, dst |-> a.genes[k].dst,
                                           rec |-> a.genes[k].rec, en |-> a.genes[k].en, tr |-> a.genes[k].tr]]]
VerifyCase(dg) ==
    [kind |-> "verify", fam |-> c.fam, g |-> CompactGenome(c.a), wiring |-> c.wiring, pad |-> c.pad,
     verify |-> VerifyCode(dg, DisabledRuleAbove), wf |-> Clauses(dg), wellformed |-> WellFormed(dg)]
PopCase ==
    [kind |-> "popverify", genomes |-> [i \in DOMAIN c.list |-> CompactGenome(Palette[c.list[i]])],
     each |-> [i \in DOMAIN c.list |-> VerifyCode(PopGenomes(c.list)[i], DisabledRuleAbove)],
     verify |-> PopVerify(PopGenomes(c.list), 1, DisabledRuleAbove)]
TraitCase ==
    CASE c.op = "new" -> [kind |-> "trait", op |-> "new", id |-> NewTrait.id, p |-> NewTrait.p]
      [] c.op = "copy" -> [kind |-> "trait", op |-> "copy", t |-> c.t, id |-> NewTraitCopy(c.t).id, p |-> NewTraitCopy(c.t).p]
      [] c.op = "avg" -> LET r == NewTraitAvrg(c.t1, c.t2) IN
                         [kind |-> "trait", op |-> "avg", t1 |-> c.t1, t2 |-> c.t2, ok |-> r.ok, id |-> r.id, p16 |-> r.p16]
      [] c.op = "mutate" -> [kind |-> "trait", op |-> "mutate", t |-> c.t, power2 |-> c.power2, prob8 |-> c.prob8,
                             plus |-> [i \in DOMAIN c.t.p |-> MutRow16(c.t.p[i], 1, c.power2)],
                             minus |-> [i \in DOMAIN c.t.p |-> MutRow16(c.t.p[i], -1, c.power2)]]
      [] c.op = "string" -> [kind |-> "trait", op |-> "string", t |-> c.t, str |-> TraitString(c.t)]
GeneOfCase ==
    CASE c.op = "NewGene" -> NewGene(c.w, 1, 2, c.rec, c.inn, c.mut)
      [] c.op = "NewGeneWithTrait" -> NewGeneWithTrait(c.tr, c.w, 1, 2, c.rec, c.inn, c.mut)
      [] c.op = "NewConnectionGene" -> c.gene
      [] c.op = "NewGeneCopy" -> IF c.same_ends THEN NewGeneCopy(c.gene, c.tr, c.gene.src, c.gene.dst) ELSE NewGeneCopy(c.gene, c.tr, 3, 4)
ValueCase ==
    CASE c.op \in {"NewGene", "NewGeneWithTrait", "NewConnectionGene", "NewGeneCopy"} ->
           [kind |-> "value", op |-> c.op, args |-> c, gene |-> GeneOfCase]
      [] c.op = "mimo" -> LET m == NewMIMOGene(c.node, c.inn, c.mut, c.en) IN
           [kind |-> "value", op |-> "mimo", args |-> [c EXCEPT !.probe = SortedSeq(c.probe)], gene |-> m,
            hit |-> HasIntersection(m, c.probe),
            extra |-> ModuleExtraNodes(m, c.probe),
            \* the copy onto another control node (the outputs of the first as its inputs, no outputs) has THAT node's IO nodes
            copy |-> NewMIMOGeneCopy(m, [id |-> 10, ins |-> c.node.outs, outs |-> <<>>]),
            copy_hit |-> HasIntersection(NewMIMOGeneCopy(m, [id |-> 10, ins |-> c.node.outs, outs |-> <<>>]), c.probe)]
      [] c.op = "InnovationForNode" ->
           LET r == InnovationForNode(c.u, c.v, c.inn, c.inn2, c.node, c.old) IN
           [kind |-> "value", op |-> c.op, args |-> c, rec |-> r, code |-> InnovationKindCode(r)]
      [] c.op = "InnovationForLink" ->
           LET r == InnovationForLink(c.u, c.v, c.inn, c.w, c.tr) IN
           [kind |-> "value", op |-> c.op, args |-> c, rec |-> r, code |-> InnovationKindCode(r)]
      [] c.op = "InnovationForRecurrentLink" ->
           LET r == InnovationForRecurrentLink(c.u, c.v, c.inn, c.w, c.tr, c.rec) IN
           [kind |-> "value", op |-> c.op, args |-> c, rec |-> r, code |-> InnovationKindCode(r)]
      [] c.op = "neuron_name" -> [kind |-> "value", op |-> c.op, code |-> c.code, name |-> NeuronTypeName(c.code),
                                  node_type |-> NodeTypeOfNeuron(c.code)]
      [] c.op = "node_type_name" -> [kind |-> "value", op |-> c.op, code |-> c.code, name |-> NodeTypeName(c.code)]
      [] c.op = "neuron_by_name" -> [kind |-> "value", op |-> c.op, name |-> c.name, ok |-> NeuronTypeByName(c.name).ok,
                                     code |-> NeuronTypeByName(c.name).code]
      [] c.op = "encoding" -> [kind |-> "value", op |-> c.op, code |-> c.code, ok |-> EncodingSupported(c.code)]
      [] c.op = "role" -> [kind |-> "value", op |-> c.op, role |-> c.role, code |-> RoleCode(c.role),
                           sensor |-> IsSensor(c.role), node_type |-> NodeTypeName(NodeTypeOfNeuron(RoleCode(c.role))),
                           name |-> NeuronTypeName(RoleCode(c.role))]

Emit == /\ ~emitted /\ emitted' = TRUE /\ UNCHANGED <<kind, c>>
        /\ g' = GenomeOfCase
        /\ CASE kind = "verify" -> PrintT(ToJson(VerifyCase(g')))
             [] kind = "popverify" -> PrintT(ToJson(PopCase))
             [] kind = "trait" -> PrintT(ToJson(TraitCase))
             [] kind = "value" -> PrintT(ToJson(ValueCase))
Next == Emit
Spec == Init /\ [][Next]_vars

(* ------------------------------------------------------------------ laws (checked once per case, on the emitted state) *)
Big == DisabledRuleAbove
OnVerify(P) == (kind = "verify" /\ emitted) => P
V_Clauses == OnVerify(ClausesAreWellFormed(g))
V_LoopIsDefinition == OnVerify(VerifyLoopIsDefinition(g, Big))
V_NoFalseRejection == OnVerify(NoFalseRejection(g, Big) /\ RejectedThoughWellFormed(g, Big))
V_DetectsEndpoints == OnVerify(DetectsEndpoints(g, Big))
V_DetectsNodeOrder == OnVerify(DetectsNodeOrder(g, Big))
V_DetectsDuplicates == OnVerify(DetectsDuplicates(g, Big))
V_Blind == OnVerify(BlindToTheRest(g, Big) /\ SmallIgnoresEnabled(g, Big))
\* the decoration does what its description says: own wiring of a genome whose ids exist and are unique has sound cells
V_Decoration == OnVerify((c.wiring \in {"own", "alias"} /\ EndpointsOwn(g) /\ TraitRefsOwn(g)) => (CellsEnds(g) /\ CellsTraits(g)))
V_Population == (kind = "popverify" /\ emitted) =>
    LET gs == PopGenomes(c.list) IN
    /\ PopVerify(gs, 1, Big) = PopVerifyDef(gs, Big)
    /\ PopVerify(gs, 1, Big) = "ok" <=> \A i \in DOMAIN gs : VerifyCode(gs[i], Big) = "ok"
    /\ c.list = <<>> => PopVerify(gs, 1, Big) = "ok"
T_Laws == (kind = "trait" /\ emitted) =>
    CASE c.op = "new" -> Len(NewTrait.p) = NumTraitParams /\ NewTrait.id = 0 /\ \A i \in DOMAIN NewTrait.p : NewTrait.p[i] = 0
      [] c.op = "copy" -> NewTraitCopy(c.t) = c.t
      [] c.op = "avg" -> AvrgLaws(c.t1, c.t2)
      [] c.op = "mutate" -> /\ \A s \in ScriptsFor(Len(c.t.p)) : MutateLaws(c.t, s, c.power2, c.prob8)
                            /\ \A i \in DOMAIN c.t.p :
                                 /\ RowMonotone(MutRow16(c.t.p[i], 1, c.power2), 1) /\ RowMonotone(MutRow16(c.t.p[i], -1, c.power2), -1)
                                 /\ \A d \in Draws : Mutated(d, c.prob8) =>
                                      MutElem16(c.t.p[i], d, c.power2, c.prob8) =
                                        (IF SignOf(d.v) = 1 THEN MutRow16(c.t.p[i], 1, c.power2)[d.m + 1]
                                         ELSE MutRow16(c.t.p[i], -1, c.power2)[d.m + 1])
      [] c.op = "string" -> c.t.p = <<>> => TraitString(c.t) = "Trait #" \o ToString(c.t.id) \o " ( )"
Val_Laws == (kind = "value" /\ emitted) =>
    CASE c.op = "NewGeneCopy" -> GeneCopyLaws(c.gene, c.tr, 3, 4) /\ (c.same_ends /\ c.tr = c.gene.tr => GeneOfCase = c.gene)
      [] c.op = "NewGene" -> GeneOfCase.en /\ GeneOfCase.tr = 0
      [] c.op = "NewGeneWithTrait" -> GeneOfCase.en /\ GeneOfCase.tr = c.tr
      [] c.op = "mimo" -> MIMOLaws(c.node, c.inn, c.mut, c.en, c.probe)
      [] c.op = "InnovationForLink" -> InnovationForLink(c.u, c.v, c.inn, c.w, c.tr) = InnovationForRecurrentLink(c.u, c.v, c.inn, c.w, c.tr, FALSE)
      [] OTHER -> TRUE
Val_Enums == (kind = "value" /\ emitted /\ c.op = "role") => EnumLaws
=============================================================================

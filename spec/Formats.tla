------------------------------ MODULE Formats ------------------------------
(***************************************************************************)
(* X06 - the graph writers of neat/network/formats and the file writers of *)
(* experiment/utils that are built on them (growth of the specification    *)
(* beyond the listed properties, DESIGN.md section 15).                    *)
(*                                                                         *)
(*   formats.WriteCytoscapeJSON / WriteCytoscapeJSONWithStyle              *)
(*           (nodeToCyJsNode, linkToCyJsEdge, nodeShape / nodeBgColor /    *)
(*            nodeBorderColor, default node / edge style and layout)       *)
(*   formats.WriteDOT  = gonum's dot.Marshal on the graph view of the      *)
(*            network (Network.Nodes / From / Edge, NNode.Attributes,      *)
(*            Link.Attributes)                                             *)
(*   utils.WriteGenomePlain / WriteGenomeDOT / WriteGenomeCytoscapeJSON    *)
(*            (file name from NodeCount / LinkCount of the phenotype)      *)
(*                                                                         *)
(* What a writer emits is specified as a PROJECTION of the abstract        *)
(* network of Phenotype.tla, whose record is reused and carries a little   *)
(* more payload here (everything the writers read):                        *)
(*   Net = [name, nodes : Seq([id, role, act, val, tr, par]),              *)
(*          inputs, outputs, links : Seq([src, dst, w, rec]),              *)
(*          ctrl : Seq([id, role, act, val, tr, par,                       *)
(*                      ins : Seq([n, w]), outs : Seq([n, w])])]           *)
(* role "X" is a neuron type outside the four constants.  act is a symbol  *)
(* of an activation type (ActName; symbol 4 is a type code that is not     *)
(* registered).  val (the node's activation value) is a numerator over     *)
(* WDen = 256; tr is 0 (no trait) or a trait number; par the Params of the *)
(* node.  The weight symbol w of a link indexes WTab: numerator over 256   *)
(* (INF = +Inf), the time-delayed flag, the link's trait and its Params.   *)
(* All numbers are dyadic, so every float the writers print is exact and   *)
(* the replayer compares with ==.                                          *)
(*                                                                         *)
(* Two layers per writer, as in Phenotype.tla:                             *)
(*   *Def - the element sets defined over the Net record: one node element *)
(*          per ordinary and per control node, one edge element per link   *)
(*          (control links included), each exactly once, nothing else;     *)
(*   *Alg - the loops of the code over the structure the library keeps     *)
(*          (Built(net): per-node Incoming / Outgoing, control nodes kept  *)
(*          apart) and, for DOT, gonum's printer over the transcribed      *)
(*          graph view (FromAlg / EdgeAlg of Phenotype.tla).               *)
(* MC_Formats checks Alg against Def on every network in scope.            *)
(***************************************************************************)
EXTENDS Phenotype, TLC

(* ------------------------------------------------------------ the tables *)
WDen == 256
INF == 2000000000                      \* numerator that stands for +Inf (json.Marshal refuses it, %f prints +Inf)

\* network.NeuronTypeName / NodeTypeName ("X": any other value of NodeNeuronType)
NeuronTypeName(r) == CASE r = "I" -> "INPT" [] r = "B" -> "BIAS" [] r = "O" -> "OUTP" [] r = "H" -> "HIDN"
                       [] OTHER -> "UNKNOWN NEURON TYPE"
NodeTypeName(r) == IF Sensor(r) THEN "SENSOR" ELSE "NEURON"

\* activation symbols -> registered name ("" = the type code is not registered)
ActName == <<"NullActivation", "SigmoidSteepenedActivation", "TanhActivation", "LinearActivation", "",
             "MultiplyModuleActivation", "MaxModuleActivation">>
ActKnown(a) == ActName[a + 1] # ""

\* the documented styling: a function of (control?, neuron type)
ShapeOf(r, control) ==
    IF control THEN "octagon"
    ELSE CASE r = "I" -> "diamond" [] r = "O" -> "round-rectangle" [] r = "H" -> "hexagon" [] r = "B" -> "pentagon"
           [] OTHER -> "ellipse"
BgOf(r, control) ==
    IF control THEN "#EA1E53"
    ELSE CASE r = "I" -> "#339FDC" [] r = "O" -> "#E7298A" [] r = "H" -> "#009999" [] r = "B" -> "#FFCC33"
           [] OTHER -> "#555"
BorderOf(control) == IF control THEN "#AAAAAA" ELSE "#CCCCCC"
StyleRoles == {"I", "B", "O", "H", "X"}

\* weight symbols: [num / 256, time delayed, trait, Params]
TraitPar == << <<64, 0, 0, 0, 0, 0, 0, 0>>, <<128, 256, 0, 0, 0, 0, 0, 0>> >>    \* Params of trait 1 and trait 2
WRec(num, td, tr, par) == [num |-> num, td |-> td, tr |-> tr, par |-> par]
WTab == << WRec(-512, FALSE, 0, <<>>),            \* 1: -2
           WRec(0, FALSE, 1, TraitPar[1]),        \* 2: 0, trait 1 and the Params NewLinkWithTrait derives from it
           WRec(192, FALSE, 0, <<>>),             \* 3: 0.75
           WRec(2, TRUE, 0, <<128>>),             \* 4: 2/256, a tie of the 6-digit rounding of %f that goes DOWN; time delayed
           WRec(6, FALSE, 2, <<>>),               \* 5: 6/256, a tie that goes UP; trait 2 without derived Params
           WRec(1280, FALSE, 0, <<>>),            \* 6: 5
           WRec(1, FALSE, 0, <<>>),               \* 7: 1/256 = 0.00390625 rounds down
           WRec(-3, FALSE, 0, <<>>),              \* 8: -3/256 = -0.01171875 rounds away from zero
           WRec(16777217, FALSE, 0, <<>>),        \* 9: (2^24 + 1)/256 = 65536.00390625: 25 significant bits (not a float32)
           WRec(INF, FALSE, 0, <<>>) >>           \* 10: +Inf
NFiniteW == 9
WInf == 10
\* what a genome can express (Genesis: NewLinkWithTrait for genes, NewLink for module links; never time delayed)
WGenomeLink(w) == /\ WTab[w].num # INF /\ ~WTab[w].td
                  /\ WTab[w].par = (IF WTab[w].tr = 0 THEN <<>> ELSE TraitPar[WTab[w].tr])
WGenomeCtrl(w) == WGenomeLink(w) /\ WTab[w].tr = 0

(* ----------------------------------------- 2'. the multigraph with payload *)
\* Phenotype.tla defines AllLinks, EdgesDef, NodeCountDef, LinkCountDef, Built, FromAlg, EdgeAlg ... over the record
CtrlRecOf(net, id) == CHOOSE c \in Range(net.ctrl) : c.id = id
NodeRecOf(net, id) == IF id \in OrdIds(net) THEN CHOOSE n \in Range(net.nodes) : n.id = id ELSE CtrlRecOf(net, id)
InDeg(net, id)  == LET In(l) == l.dst = id IN Count(net.links, In)      \* ordinary links only: a control node is
OutDeg(net, id) == LET Out(l) == l.src = id IN Count(net.links, Out)    \* not in the lists of the nodes it touches
ParallelPairs(net) == {p \in AllIds(net) \X AllIds(net) : Len(EdgesDef(net, p[1], p[2])) > 1}
NetNoOverlap(net) == \A i \in DOMAIN net.ctrl : IoIds(net.ctrl[i].ins) \cap IoIds(net.ctrl[i].outs) = {}
IdsDistinct(net) == /\ Cardinality(OrdIds(net)) = Len(net.nodes) /\ Cardinality(CtrlIds(net)) = Len(net.ctrl)
                    /\ OrdIds(net) \cap CtrlIds(net) = {}

(* ------------------------------------------------------ Cytoscape elements *)
IdStr(i) == ToString(i)
\* nodeToCyJsNode: `in` / `out` are len(Incoming) / len(Outgoing); the attribute "trait" is present iff tr # 0;
\* "parent" is always emitted (gonum's NodeData writes it even when empty)
CyNode(n, control, nin, nout) ==
    [id |-> IdStr(n.id), parent |-> "", selectable |-> TRUE,
     activation_value |-> n.val,
     activation_function |-> IF ActKnown(n.act) THEN ActName[n.act + 1] ELSE "unknown",
     neuron_type |-> NeuronTypeName(n.role), node_type |-> NodeTypeName(n.role),
     nin |-> nin, nout |-> nout, control_node |-> control,
     bg |-> BgOf(n.role, control), border |-> BorderOf(control), shape |-> ShapeOf(n.role, control),
     trait |-> n.tr]
\* linkToCyJsEdge: Link.IDString() is "<src>-<dst>"
CyEdge(l) ==
    [id |-> IdStr(l.src) \o "-" \o IdStr(l.dst), source |-> IdStr(l.src), target |-> IdStr(l.dst),
     weight |-> WTab[l.w].num, recurrent |-> l.rec, time_delayed |-> WTab[l.w].td, trait |-> WTab[l.w].tr,
     selectable |-> TRUE]

\* json.Marshal fails on a non-finite float: nothing is written, the error is returned
CyFails(net) ==
    \/ \E n \in Range(net.nodes) \cup Range(net.ctrl) : n.val = INF
    \/ \E l \in Range(AllLinks(net)) : WTab[l.w].num = INF

\* definition: one node element per id, one edge element per link of the multigraph
CyNodeDef(net, id) ==
    IF id \in OrdIds(net) THEN CyNode(NodeRecOf(net, id), FALSE, InDeg(net, id), OutDeg(net, id))
    ELSE LET c == CtrlRecOf(net, id) IN CyNode(c, TRUE, Len(c.ins), Len(c.outs))
CyNodesDef(net) == {CyNodeDef(net, id) : id \in AllIds(net)}
CyEdgesDef(net) == Map(AllLinks(net), CyEdge)                        \* a bag: parallel links give equal ids

\* the loops of WriteCytoscapeJSONWithStyle over the structure the library keeps
CyAlg(net) ==
    LET b == Built(net)
        BaseNode(i) == CyNode(net.nodes[i], FALSE, Len(b.nodes[i].inc), Len(b.nodes[i].out))
        CtrlNode(i) == CyNode(net.ctrl[i], TRUE, Len(b.ctrl[i].inc), Len(b.ctrl[i].out))
        BaseEdges(i) == Map(b.nodes[i].inc, CyEdge)                  \* "populate edges data from incoming side"
        CtrlEdges(i) == Map(b.ctrl[i].inc \o b.ctrl[i].out, CyEdge)  \* incoming, then outgoing side
    IN [ok |-> ~CyFails(net),
        nodes |-> [i \in DOMAIN net.nodes |-> BaseNode(i)] \o [i \in DOMAIN net.ctrl |-> CtrlNode(i)],
        edges |-> Flatten([i \in DOMAIN net.nodes |-> BaseEdges(i)]) \o Flatten([i \in DOMAIN net.ctrl |-> CtrlEdges(i)])]

(* ---- style options of WriteCytoscapeJSONWithStyle ---- *)
\* st = [mode \in {"default", "nil", "opt"}, layout \in 0..Len(LayoutTab) (0 = nil), styles \in Seq(1..Len(StyleTab))]
LayoutTab == << [name |-> "circle"],                                   \* 1: defaultLayout()
                [name |-> "grid", rows |-> 2] >>
StyleTab == <<
    [selector |-> "node",                                              \* 1: defaultNodeStyle()
     style |-> ("shape" :> "data(shape)") @@ ("background-color" :> "data(background-color)") @@
               ("border-color" :> "data(border-color)") @@ ("border-width" :> 3) @@ ("label" :> "data(id)")],
    [selector |-> "edge",                                              \* 2: defaultEdgeStyle()
     style |-> ("width" :> 5) @@ ("curve-style" :> "bezier") @@ ("line-color" :> "#CCCCCC") @@
               ("target-arrow-shape" :> "triangle-backcurve") @@ ("target-arrow-color" :> "#CCCCCC")],
    [selector |-> ".big", style |-> ("width" :> 2)] >>
DefaultSt == [mode |-> "default", layout |-> 0, styles |-> <<>>]
NilSt == [mode |-> "nil", layout |-> 0, styles |-> <<>>]
OptSt(layout, styles) == [mode |-> "opt", layout |-> layout, styles |-> styles]
\* the top-level members next to "elements": "layout" iff a layout is given, "style" iff the list is not empty (in order)
StyleOut(st) ==
    LET eff == IF st.mode = "default" THEN OptSt(1, <<1, 2>>) ELSE st      \* WriteCytoscapeJSON = WithStyle(defaults)
    IN IF st.mode = "nil" THEN [has_layout |-> FALSE, layout |-> 0, has_style |-> FALSE, styles |-> <<>>]
       ELSE [has_layout |-> eff.layout # 0, layout |-> eff.layout, has_style |-> eff.styles # <<>>, styles |-> eff.styles]

(* ------------------------------------------------------------ DOT elements *)
\* fmt.Sprintf("%f", w): the decimal rounding of num/256 to 6 places, exact ties to even.  The text is given as sign,
\* integer part and the 6 digits after the point as a number (TLC's integers are 32 bit: no product of the whole value)
RoundHalfEven(a, d) ==           \* a >= 0, d > 0
    LET q == a \div d  r == a % d
    IN IF 2 * r < d THEN q ELSE IF 2 * r > d THEN q + 1 ELSE IF q % 2 = 0 THEN q ELSE q + 1
AbsI(x) == IF x < 0 THEN 0 - x ELSE x
FracMicro(num) == RoundHalfEven((AbsI(num) % WDen) * 1000000, WDen)        \* < 1000000 for WDen = 256: no carry
DotW(num) == [neg |-> num < 0, ip |-> AbsI(num) \div WDen, fp |-> FracMicro(num)]
MicroExact(num) == ((AbsI(num) % WDen) * 1000000) % WDen = 0

\* NNode.Attributes: neuron_type always, activation_type iff the type is registered (act = "" when absent),
\* parameters iff Params is not empty
DotNode(n) == [id |-> IdStr(n.id), neuron_type |-> NeuronTypeName(n.role),
               act |-> ActName[n.act + 1], par |-> n.par]
\* Link.Attributes of the link Network.Edge(u, v) returns; an edge for which Edge() returns nil has no attribute list
DotEdge(u, v, e) ==
    IF e = NoEdge THEN [src |-> IdStr(u), dst |-> IdStr(v), attrs |-> FALSE, fin |-> TRUE, w |-> DotW(0), rec |-> FALSE, par |-> <<>>]
    ELSE [src |-> IdStr(u), dst |-> IdStr(v), attrs |-> TRUE, fin |-> WTab[e.w].num # INF,
          w |-> IF WTab[e.w].num = INF THEN DotW(0) ELSE DotW(WTab[e.w].num), rec |-> e.rec, par |-> WTab[e.w].par]

RECURSIVE SetToAscF(_)
SetToAscF(S) == IF S = {} THEN <<>> ELSE LET x == CHOOSE x \in S : \A y \in S : x <= y IN <<x>> \o SetToAscF(S \ {x})
\* ordered.ByID on a list that may hold an id twice (two parallel links give the successor twice)
RECURSIVE InsertAsc(_, _)
InsertAsc(s, x) == IF s = <<>> THEN <<x>> ELSE IF x < Head(s) THEN <<x>> \o s ELSE <<Head(s)>> \o InsertAsc(Tail(s), x)
RECURSIVE SortAsc(_)
SortAsc(s) == IF s = <<>> THEN <<>> ELSE InsertAsc(SortAsc(Tail(s)), Head(s))
\* the `visited` map of the printer: a (from, to) pair is printed once
RECURSIVE DedupAdj(_)
DedupAdj(s) == IF Len(s) < 2 THEN s ELSE IF s[1] = s[2] THEN DedupAdj(Tail(s)) ELSE <<s[1]>> \o DedupAdj(Tail(s))

\* gonum's simpleGraphPrinter.print over the graph view: nodes by ascending id; per node the successors by ascending
\* id, each ordered pair once, attributes of Network.Edge(u, v)
DotAlg(net) ==
    LET b == Built(net)
        order == SortAsc(NodesSeq(net))
        NodeAt(k) == DotNode(NodeRecOf(net, order[k]))
        EdgesFrom(u) == LET to == DedupAdj(SortAsc(FromAlg(b, u)))
                        IN [k \in DOMAIN to |-> DotEdge(u, to[k], EdgeAlg(b, u, to[k]))]
    IN [strict |-> TRUE, directed |-> TRUE, name |-> net.name,
        nodes |-> [k \in DOMAIN order |-> NodeAt(k)],
        edges |-> Flatten(Map(order, EdgesFrom))]

\* definition: the nodes of the multigraph in id order; one edge per ordered pair that has a link, carrying the
\* attributes of the first such link (a strict digraph cannot hold the others)
DotDef(net) ==
    LET ids == SetToAscF(AllIds(net))
        EdgesFrom(u) == LET to == SetToAscF(SuccDef(net, u))
                        IN [k \in DOMAIN to |-> DotEdge(u, to[k], EdgesDef(net, u, to[k])[1])]
        NodeOf(id) == DotNode(NodeRecOf(net, id))
    IN [strict |-> TRUE, directed |-> TRUE, name |-> net.name,
        nodes |-> Map(ids, NodeOf),
        edges |-> Flatten(Map(ids, EdgesFrom))]

(* ---------------------------------------------------- experiment/utils names *)
\* "<outDir>/<trial>/<genomeFile>_<NodeCount>-<LinkCount><ext>" with the counts of Network.NodeCount / LinkCount
FileSuffix(net) == LET b == Built(net) IN "_" \o ToString(NodeCountAlg(b)) \o "-" \o ToString(LinkCountAlg(b))
FilePath(outDir, trial, base, ext, net) == outDir \o "/" \o ToString(trial) \o "/" \o base \o FileSuffix(net) \o ext
\* what a genome can say (then the three utils writers can be reached through a real organism): a gene and an output
\* node exist, ids ascend, no foreign neuron type, nothing set that Genesis does not copy
GenomeExpressible(net) ==
    /\ net.name = "" /\ net.links # <<>> /\ \E n \in Range(net.nodes) : n.role = "O"
    /\ \A i, j \in DOMAIN net.nodes : i < j => net.nodes[i].id < net.nodes[j].id
    /\ \A n \in Range(net.nodes) \cup Range(net.ctrl) : n.role # "X" /\ n.val = 0 /\ n.par = <<>> /\ ActKnown(n.act)
    /\ \A l \in Range(net.links) : WGenomeLink(l.w)
    /\ \A l \in Range(CtrlLinks(net)) : WGenomeCtrl(l.w)

\* the three writers create the file and hand it to the format writer: a failure of either step gives ("", error),
\* otherwise the path and no error
UtilsOutcome(createOk) == [create_ok |-> createOk, err |-> ~createOk, has_path |-> createOk]

(* ------------------------------------------------------ the failing writer *)
\* Sink(k): an io.Writer that takes k bytes in total and then fails.  Both writers encode first and then hand the
\* whole output (L bytes) to the writer in ONE Write call: the error comes back iff the sink is too small.
SinkOutcome(L, k) == [err |-> k < L, accepted |-> IF k < L THEN k ELSE L, calls |-> 1]
\* an encoding failure (Cytoscape, non-finite number) returns the error without touching the writer
EncodeFailure == [err |-> TRUE, accepted |-> 0, calls |-> 0]

(* ------------------------------------------------------------------- laws *)
ElemIds(s) == {s[i].id : i \in DOMAIN s}
CyPairs(es) == {<<es[i].source, es[i].target>> : i \in DOMAIN es}
DotPairs(es) == {<<es[i].src, es[i].dst>> : i \in DOMAIN es}
ElemId(e) == e.id
NinOf(e) == e.nin
NoutOf(e) == e.nout

\* the loops emit exactly the defined elements, each once
CyAlgIsDef(net) ==
    LET cy == CyAlg(net) IN
    /\ Range(cy.nodes) = CyNodesDef(net)
    /\ Len(cy.nodes) = Cardinality(AllIds(net)) /\ Cardinality(ElemIds(cy.nodes)) = Len(cy.nodes)
    /\ SameBag(cy.edges, CyEdgesDef(net))
\* every edge joins two emitted nodes; the element counts are the counts the file names carry
CyClosedAndCounted(net) ==
    LET cy == CyAlg(net)  b == Built(net) IN
    /\ \A i \in DOMAIN cy.edges : cy.edges[i].source \in ElemIds(cy.nodes) /\ cy.edges[i].target \in ElemIds(cy.nodes)
    /\ Len(cy.nodes) = NodeCountAlg(b) /\ Len(cy.nodes) = NodeCountDef(net)
    /\ Len(cy.edges) = LinkCountAlg(b) /\ Len(cy.edges) = LinkCountDef(net)
    \* LinkCount is "incoming of the ordinary nodes + both sides of the control nodes", which the elements repeat
    /\ SumSeq(Map(SubSeq(cy.nodes, 1, Len(net.nodes)), NinOf))
         + SumSeq(Map(SubSeq(cy.nodes, Len(net.nodes) + 1, Len(cy.nodes)), NinOf))
         + SumSeq(Map(SubSeq(cy.nodes, Len(net.nodes) + 1, Len(cy.nodes)), NoutOf)) = Len(cy.edges)
    /\ SumSeq(Map(SubSeq(cy.nodes, 1, Len(net.nodes)), NoutOf)) = Len(net.links)
    \* edge ids are unique exactly when no two links join the same ordered pair
    /\ (Cardinality(ElemIds(cy.edges)) = Len(cy.edges)) <=> (ParallelPairs(net) = {})
DotAlgIsDef(net) == DotAlg(net) = DotDef(net)
\* what holds of the printer's output even where Edge() disagrees with the multigraph (overlapping module lists)
DotShape(net) ==
    LET d == DotAlg(net)  cy == CyAlg(net) IN
    /\ Len(d.nodes) = NodeCountDef(net) /\ ElemIds(d.nodes) = ElemIds(cy.nodes)
    /\ Map(d.nodes, ElemId) = Map(SetToAscF(AllIds(net)), IdStr)     \* ascending ids, whatever the list order
    /\ DotPairs(d.edges) = CyPairs(cy.edges)                         \* both writers show the same arrows
    /\ Cardinality(DotPairs(d.edges)) = Len(d.edges)                 \* strict: each arrow once
    /\ Len(d.edges) <= Len(cy.edges)
    /\ (Len(d.edges) = Len(cy.edges)) <=> (ParallelPairs(net) = {})
    /\ \A i \in DOMAIN d.edges : d.edges[i].attrs \/ ~NetNoOverlap(net)
\* the styling tells the five kinds of node apart, and a control node looks the same whatever its neuron type
StylingLaws ==
    /\ \A r, s \in StyleRoles : r # s => ShapeOf(r, FALSE) # ShapeOf(s, FALSE) /\ BgOf(r, FALSE) # BgOf(s, FALSE)
    /\ \A r, s \in StyleRoles : ShapeOf(r, TRUE) = ShapeOf(s, TRUE) /\ BgOf(r, TRUE) = BgOf(s, TRUE)
    /\ \A r \in StyleRoles : ShapeOf(r, TRUE) # ShapeOf(r, FALSE) /\ BgOf(r, TRUE) # BgOf(r, FALSE)
    /\ BorderOf(TRUE) # BorderOf(FALSE)
    /\ \A r, s \in StyleRoles : r # s => NeuronTypeName(r) # NeuronTypeName(s)
    /\ \A a, c \in 0..(Len(ActName) - 1) : (a # c /\ ActKnown(a) /\ ActKnown(c)) => ActName[a + 1] # ActName[c + 1]
    /\ StyleOut(DefaultSt) = StyleOut(OptSt(1, <<1, 2>>))
    /\ ~StyleOut(NilSt).has_layout /\ ~StyleOut(NilSt).has_style
SinkLaws(MaxL) ==
    \A L \in 0..MaxL, k \in 0..(MaxL + 1) :
        LET o == SinkOutcome(L, k) IN
        /\ o.err <=> (k < L) /\ o.accepted <= k /\ o.accepted <= L /\ (~o.err => o.accepted = L)
        /\ (k < MaxL + 1 /\ o.err) => SinkOutcome(L, k + 1).accepted = o.accepted + 1     \* one more byte fits
RoundingLaws ==
    /\ \A w \in DOMAIN WTab : WTab[w].num # INF =>
          LET num == WTab[w].num  f == AbsI(num) % WDen  d == DotW(num) IN
          /\ d.fp < 1000000 /\ d.ip * WDen + f = AbsI(num)
          /\ (d.fp * WDen - f * 1000000) * 2 <= WDen /\ (f * 1000000 - d.fp * WDen) * 2 <= WDen    \* within half a unit
          /\ MicroExact(num) => d.fp * WDen = f * 1000000
          /\ DotW(0 - num).fp = d.fp /\ DotW(0 - num).ip = d.ip
    /\ FracMicro(2) = 7812 /\ FracMicro(6) = 23438                  \* the two ties, one each way
    /\ FracMicro(1) = 3906 /\ FracMicro(-3) = 11719 /\ FracMicro(192) = 750000 /\ DotW(16777217) = [neg |-> FALSE, ip |-> 65536, fp |-> 3906]
=============================================================================

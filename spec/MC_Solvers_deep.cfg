SPECIFICATION Spec
CONSTANTS
  Inputs = {1}
  Biases = {2}
  Hidden = {4, 5}
  OutSet = {3}
  Weights <- W2
  InVals <- V2
  OrderKinds = {"IBOH", "IBOHr"}
  ActSchemes <- SchemesTwo
  LinkCaps = {5}
  SealAtCap = FALSE
  Extra = 1
  Canonical = TRUE
INVARIANTS FeedForward InScope DepthAgrees
CHECK_DEADLOCK FALSE

---------------------------- MODULE MC_PopStats ----------------------------
(* X04: every population / trial / experiment in scope is an initial state; the laws are invariants; each state is      *)
(* handed to the replayer with the values the definitions assign.                                                      *)
EXTENDS PopStats, Json
CONSTANTS Fits, His,                  \* organisms
          MaxOrgs, MaxSpecies,        \* populations: <= MaxSpecies species of 1..MaxOrgs organisms
          ChampFits, WithNoChamp,     \* generations: champion keys; whether generations without a champion are in scope
          MaxGens,                    \* trials: <= MaxGens generations
          MaxTrials, MaxTrialGens     \* experiments: <= MaxTrials trials of <= MaxTrialGens generations
VARIABLES kind, pop, solved0, trial, exper, emitted
vars == <<kind, pop, solved0, trial, exper, emitted>>

SeqsUpTo(S, n) == UNION { [1..k -> S] : k \in 0..n }
SeqsFrom1(S, n) == UNION { [1..k -> S] : k \in 1..n }
Orgs == [fit : Fits, hi : His]
\* the age of a species is tied to its position and size
MkPop(ls) == [i \in DOMAIN ls |-> [age |-> 1 + ((3 * i + Len(ls[i])) % 5), orgs |-> ls[i]]]
Champs == [fit : ChampFits, hi : {0, 1}] \cup (IF WithNoChamp THEN {NoOrg} ELSE {})
\* duration and species age of a generation are tied to one free bit
MkGen(g) == [solved |-> g.solved, champ |-> g.champ, dur |-> 1 + 3 * g.aux + (IF g.solved THEN 7 ELSE 0), age |-> 2 * g.aux]
GenSet == [solved : BOOLEAN, champ : Champs, aux : {0, 1}]
MkTrial(gs) == [i \in DOMAIN gs |-> MkGen(gs[i])]
SmallGenSet == [solved : BOOLEAN, champ : Champs, aux : {1}]
MkExp(ts) == [i \in DOMAIN ts |-> [dur |-> 5 + 4 * i + Len(ts[i]), gens |-> MkTrial(ts[i])]]

Init == /\ emitted = FALSE
        /\ \/ /\ kind = "fill" /\ trial = <<>> /\ exper = <<>> /\ solved0 \in BOOLEAN
              /\ \E ls \in SeqsUpTo(SeqsFrom1(Orgs, MaxOrgs), MaxSpecies) : pop = MkPop(ls)
           \/ /\ kind = "trial" /\ pop = <<>> /\ exper = <<>> /\ solved0 = FALSE
              /\ \E gs \in SeqsUpTo(GenSet, MaxGens) : trial = MkTrial(gs)
           \/ /\ kind = "exper" /\ pop = <<>> /\ trial = <<>> /\ solved0 = FALSE
              /\ \E ts \in SeqsUpTo(SeqsUpTo(SmallGenSet, MaxTrialGens), MaxTrials) : exper = MkExp(ts)
Emit == /\ ~emitted /\ emitted' = TRUE /\ UNCHANGED <<kind, pop, solved0, trial, exper>>
        /\ IF kind = "fill" THEN PrintT(ToJson([kind |-> "fill", pop |-> pop, solved |-> solved0, want |-> Fill(pop, solved0)]))
           ELSE IF kind = "trial" THEN PrintT(ToJson([kind |-> "trial", gens |-> trial, want |-> TrialAgg(trial)]))
           ELSE PrintT(ToJson([kind |-> "exper", trials |-> exper, want |-> ExpAgg(exper),
                               per_trial |-> [i \in DOMAIN exper |-> TrialAgg(exper[i].gens)]]))
Next == Emit
Spec == Init /\ [][Next]_vars

FitsA == {-1, 0, 2}
FitsB == {0, 2}

(* ---- laws ---- *)
FillLaws == kind = "fill" =>
    LET f == Fill(pop, FALSE) IN
    /\ ChampSpecies(pop) = ChampSpeciesDef(pop)                       \* the loop finds the first species holding the best fitness
    /\ pop # <<>> => /\ f.champ.fit = Max(AllFits(pop))
                     /\ \A i \in DOMAIN pop : \A k \in DOMAIN pop[i].orgs : ~OrgLess(f.champ, pop[i].orgs[k]) \/ i # f.champ_species
    /\ \A i \in DOMAIN pop : /\ f.fitness[i] = Max({ pop[i].orgs[k].fit : k \in DOMAIN pop[i].orgs })
                             /\ SortedDesc(OrgLess, f.sorted[i])
    /\ f.diversity * Max(AllFits(pop) \cup {-99}) >= f.fit_sum \/ pop = <<>>
    /\ Fill(pop, TRUE).champ_changes = FALSE
TrialLaws == kind = "trial" =>
    LET a == TrialAgg(trial) IN
    /\ a.best_solvers.found <=> a.solved
    /\ a.best_all.found <=> trial # <<>>
    /\ (a.best_all.found /\ ~a.best_all.needs_champions) =>
          /\ a.best_all.gens # {}
          /\ \A i \in DOMAIN trial : ~OrgLess(a.best_all.key, trial[i].champ)
    /\ (a.best_solvers.found /\ ~a.best_solvers.needs_champions /\ ~a.best_all.needs_champions) =>
          ~OrgLess(a.best_all.key, a.best_solvers.key)                 \* restricting to solvers cannot improve the best
    /\ trial # <<>> => /\ a.avg_epoch_ns * Len(trial) <= SumOver(trial, LAMBDA g : g.dur)
                       /\ (a.avg_epoch_ns + 1) * Len(trial) > SumOver(trial, LAMBDA g : g.dur)
ExperLaws == kind = "exper" =>
    LET a == ExpAgg(exper) IN
    /\ a.best_all.found <=> \E i \in DOMAIN exper : exper[i].gens # <<>>
    /\ a.best_solvers.found <=> \E i \in DOMAIN exper : TrialSolved(exper[i].gens)
    /\ (a.best_all.found /\ ~a.best_all.needs_champions) =>
          \A i \in DOMAIN exper : \A j \in DOMAIN exper[i].gens : ~OrgLess(a.best_all.key, exper[i].gens[j].champ)
    /\ a.eff.solved_count <= a.eff.trials
    /\ GoDiv(-1, 2) = 0 /\ GoDiv(-3, 2) = -1 /\ GoDiv(3, 2) = 1
=============================================================================

-------------------------- MODULE Trace_Reproduce --------------------------
(***************************************************************************)
(* B1 (code -> spec): validation of Species.reproduce as it runs inside    *)
(* real sequential epochs (harness command `vh_x10 record`, hook sites     *)
(* `x10.*` under the build tag verif) against Reproduce.tla.               *)
(*                                                                         *)
(* One line per hook event.  The specification keeps, per species of the   *)
(* current epoch, the state of the branch protocol (counter, cloneDone,    *)
(* made, exact, phase) and the offspring under construction (cur: branch,  *)
(* parents, the genome as last seen, the mutators applied so far), advances*)
(* them with After / the logged genome and checks on every line            *)
(*  (a) that the branch / operator / decision was ENABLED in that state,   *)
(*  (b) that the genome relates to its parents / its previous state as the *)
(*      branch or mutator says,                                            *)
(*  (c) the bookkeeping (stamps, flags, counters, totals).                 *)
(* Everything the trace needs is logged (branch names, parents, picked     *)
(* species), so validation is linear: Next is deterministic.  As in        *)
(* Trace_GenomeOps / Trace_Epoch, Next never blocks on a clause: the       *)
(* violated clauses of a line are printed as one JSON record and the state *)
(* advances with the logged values.  Clauses implied by a listed property  *)
(* carry its id (C01, C02, C04, C05, C06, C09, C10); the rest is `X10:`.   *)
(***************************************************************************)
EXTENDS Reproduce, TLC, Json, IOUtils

TraceFile == IF "TRACE" \in DOMAIN IOEnv THEN IOEnv.TRACE ELSE "x10.ndjson"
Trace == ndJsonDeserialize(TraceFile)
ONE == 1        \* the interner gives 0.0 the symbol 0 and 1.0 the symbol 1

VARIABLES l,        \* next line
          iline,    \* line of the init event of the scenario (options)
          eline,    \* line of the epoch event (species table, old generation) or 0
          sps,      \* species id -> [counter, cloneDone, made, exact, phase]
          cur,      \* the offspring under construction
          born      \* oids of the babies completed in this epoch
vars == <<l, iline, eline, sps, cur, born>>

F(cond, tag) == IF cond THEN {} ELSE {tag}
G(guard, set) == IF guard THEN set ELSE {}
Report(ev, fails) == IF fails = {} THEN TRUE ELSE PrintT(ToJson([l |-> l, ev |-> ev, fails |-> fails]))
SumSeq(s) == LET f[k \in 0 .. Len(s)] == IF k = 0 THEN 0 ELSE LET prev == f[k - 1] IN prev + s[k] IN f[Len(s)]
Sgn(x) == IF x > 0 THEN 1 ELSE IF x < 0 THEN 0 - 1 ELSE 0

P == Trace[iline].opts
E == Trace[eline]
OrgIdx(o) == { i \in DOMAIN E.orgs : E.orgs[i].oid = o }
HasOrg(o) == eline > 0 /\ OrgIdx(o) # {}
Org(o) == E.orgs[CHOOSE i \in OrgIdx(o) : TRUE]
SpIdx(id) == { i \in DOMAIN E.species : E.species[i].id = id }
Sp(id) == E.species[CHOOSE i \in SpIdx(id) : TRUE]
Known(id) == eline > 0 /\ id \in DOMAIN sps /\ SpIdx(id) # {}
StOf(id) == [quota |-> Sp(id).quota, pool |-> Len(Sp(id).pool), counter |-> sps[id].counter,
             cloneDone |-> sps[id].cloneDone, made |-> sps[id].made, exact |-> sps[id].exact]
NoCur == [on |-> FALSE, sp |-> 0, idx |-> 0, kind |-> "", mom |-> 0, dad |-> 0, gc |-> 0, g |-> <<>>, ops |-> <<>>,
          post |-> FALSE, counter0 |-> 0, must |-> FALSE, may |-> FALSE]
OldOids == { E.orgs[i].oid : i \in DOMAIN E.orgs }

(* ------------------------------------------------------------------- init *)
DoInit(e) ==
    /\ Report("init", F(~e.err, "X10:population construction failed"))
    /\ iline' = l /\ eline' = 0 /\ sps' = <<>> /\ cur' = NoCur /\ born' = {}

(* ------------------------------------------------------------------ epoch *)
(* the prepared species table, before any offspring *)
PoolOK(e, s) ==
    LET members == { i \in DOMAIN e.orgs : e.orgs[i].sp = s.id /\ ~e.orgs[i].elim } IN
    /\ Cardinality(Range(s.pool)) = Len(s.pool)
    /\ Range(s.pool) = { e.orgs[i].oid : i \in members }
    /\ s.pool # <<>>
RankIn(e, o, f) == LET i == CHOOSE j \in DOMAIN e.orgs : e.orgs[j].oid = o IN IF f = "frank" THEN e.orgs[i].frank ELSE e.orgs[i].orank
BestFirst(e, s) ==
    /\ \A i \in 1 .. Len(s.pool) - 1 : RankIn(e, s.pool[i], "frank") >= RankIn(e, s.pool[i + 1], "frank")
    /\ \A i \in DOMAIN e.orgs : (e.orgs[i].sp = s.id /\ e.orgs[i].elim) =>
          \A k \in DOMAIN s.pool : e.orgs[i].frank <= RankIn(e, s.pool[k], "frank")
SortedOK(e) ==
    LET ids == { e.species[i].id : i \in DOMAIN e.species }
        champ(id) == e.species[CHOOSE i \in DOMAIN e.species : e.species[i].id = id].pool[1] IN
    /\ Range(e.sorted) = ids /\ Len(e.sorted) = Cardinality(ids)
    /\ \A i \in 1 .. Len(e.sorted) - 1 : RankIn(e, champ(e.sorted[i]), "orank") >= RankIn(e, champ(e.sorted[i + 1]), "orank")
DoEpoch(e) ==
    /\ LET tableOK == \A i \in DOMAIN e.species : PoolOK(e, e.species[i])
           fails ==
            F(~cur.on, "X10:epoch began while an offspring was under construction")
            \cup F(Cardinality({ e.species[i].id : i \in DOMAIN e.species }) = Len(e.species), "X10:duplicate species id in the species table")
            \cup F(Cardinality({ e.orgs[i].oid : i \in DOMAIN e.orgs }) = Len(e.orgs), "X10:duplicate organism in the old generation")
            \cup F(Cardinality({ e.orgs[i].gid : i \in DOMAIN e.orgs }) = Len(e.orgs), "X10:genome ids of the old generation are not unique (same-parent test compares ids)")
            \cup F(tableOK, "X10:pool of a species is not exactly its members that are not marked for elimination")
            \cup G(tableOK, F(\A i \in DOMAIN e.species : BestFirst(e, e.species[i]), "X10:pool not ordered best first / a better organism was eliminated")
                            \cup F(SortedOK(e), "X10:sorted species list is not the species table ordered by the champions' original fitness"))
            \cup F(SumSeq([i \in DOMAIN e.species |-> e.species[i].quota]) = P.popsize, "C09:quotas do not total the population size")
            \cup F(\A i \in DOMAIN e.species : e.species[i].counter >= 0 /\ e.species[i].counter <= e.species[i].quota,
                   "X10:super-champion counter exceeds the quota of its species")
       IN Report("epoch", fails)
    /\ eline' = l /\ cur' = NoCur /\ born' = {}
    /\ sps' = [id \in { e.species[i].id : i \in DOMAIN e.species } |->
                 LET s == e.species[CHOOSE i \in DOMAIN e.species : e.species[i].id = id] IN
                 [counter |-> s.counter, cloneDone |-> FALSE, made |-> 0, exact |-> FALSE, phase |-> "idle"]]
    /\ UNCHANGED iline

(* ------------------------------------------------------------------ enter *)
DoEnter(e) ==
    /\ LET fails ==
            IF ~Known(e.sp) THEN {"X10:Species.reproduce entered for a species that is not in the species table"} ELSE
            F(sps[e.sp].phase = "idle", "X10:Species.reproduce entered twice for one species")
            \cup F(\A id \in DOMAIN sps : sps[id].phase # "open", "X10:Species.reproduce entered while another species is reproducing (sequential executor)")
            \cup F(e.quota = Sp(e.sp).quota, "X10:quota differs from the species table")
            \cup F(e.gen = E.gen, "X10:generation passed to Species.reproduce")
            \cup F(~cur.on, "X10:offspring under construction at entry")
       IN Report("enter", fails)
    /\ sps' = IF Known(e.sp) THEN [sps EXCEPT ![e.sp].phase = "open"] ELSE sps
    /\ UNCHANGED <<iline, eline, cur, born>>

(* ----------------------------------------------------------------- branch *)
MateFails(c, p1, p2, e, cmp) ==
    LET mp == e.method \in {"multipoint", "multipoint-avg"}
        avg == Range(e.avg) IN
    F(C04_FromParents(c, p1, p2), "C04:child gene not a parent's gene, or repeated")
    \cup F(C04_Weights(c, p1, p2, avg, e.method # "multipoint"), "C04:weight neither a parent's nor the mean")
    \cup F(mp => C04_FitterOnly(c, p1, p2, cmp), "C04:gene of the less fit parent only")
    \cup F(mp => C04_MatchingInherited(c, p1, p2), "C04:matching gene not inherited")
    \cup F(C04_Enabled(c, p1, p2), "C04:enabled flag")
    \cup F(C04_Nodes(c, p1, p2), "C04:child nodes")
    \cup F(C04_Traits(c, p1, p2, avg), "C04:traits")
    \cup F((Cells(c) \cup Refs(c)) \cap (Cells(p1) \cup Cells(p2)) = {}, "C04:child shares an object with a parent")
DoBranch(e) ==
    LET known == Known(e.sp) /\ e.kind \in Kinds
        st == StOf(e.sp)
        pool == Sp(e.sp).pool
        momOK == HasOrg(e.mom)
        dadOK == HasOrg(e.dad)
        clone == e.kind \in {"super-champion", "champion-clone"}
        same == momOK /\ dadOK /\ Org(e.mom).gid = Org(e.dad).gid
        c0 == IF momOK /\ dadOK /\ P.coeffPositive THEN CompatZero(Org(e.mom).g, Org(e.dad).g) ELSE e.compat0
        fails ==
          IF ~known THEN {"X10:offspring of a species that is not in the species table of the epoch (no table at all: enter hook missing), or of an unknown kind"} ELSE
          (* (a) the branch was enabled *)
          F(sps[e.sp].phase = "open", "X10:offspring outside Species.reproduce of its species")
          \cup F(~cur.on, "X10:offspring started before the previous baby was completed")
          \cup F(e.idx = st.made, "X10:offspring index is not the number of babies made so far")
          \cup F(st.made < st.quota, "X10:more offspring than the quota")
          \cup F(e.quota = st.quota, "X10:quota changed during reproduction")
          \cup F(e.counter = st.counter, "X10:super-champion counter differs from the specification's")
          \cup G(e.kind = "super-champion", F(SuperEnabled(st), "X10:super-champion branch although the counter is not positive"))
          \cup G(e.kind # "super-champion", F(~SuperEnabled(st), "X10:super-champion branch skipped while the counter is positive"))
          \cup G(e.kind = "champion-clone", F(~st.cloneDone, "C10:champion cloned more than once")
                                            \cup F(st.quota > 5, "X10:champion cloned although the quota is not above 5"))
          \cup G(e.kind \in {"mutate-only", "mate"} /\ ~SuperEnabled(st), F(~CloneEnabled(st), "C10:champion clone skipped although the quota exceeds 5 and the champion is not cloned yet"))
          \cup G(e.kind = "mutate-only", F(CoinMay(P.mutateOnly) \/ st.pool = 1, "X10:mutate-only although its probability is 0 and the pool has several organisms"))
          \cup G(e.kind = "mate", F(st.pool # 1, "X10:mating in a pool of one organism")
                                  \cup F(CoinMayNot(P.mutateOnly), "X10:mating although mutate-only has probability 1"))
          (* the parents *)
          \cup F(momOK, "X10:mom is not an organism of the old generation")
          \cup G(momOK,
                 G(clone, F(pool # <<>> /\ e.mom = pool[1], "C10:cloned organism is not the champion of its species"))
                 \cup G(~clone, F(e.mom \in Range(pool), "X10:mom is not a surviving member of the species"))
                 \cup F(~Org(e.mom).elim, "X10:organism marked for elimination used as a parent"))
          \cup G(e.kind # "mate", F(e.dad = 0, "X10:dad given on a branch without mating"))
          \cup G(e.kind = "mate",
                 F(dadOK, "X10:dad is not an organism of the old generation")
                 \cup G(dadOK, F(~Org(e.dad).elim, "X10:organism marked for elimination used as a parent"))
                 \cup F(MethodMay(e.method, P), "X10:crossover method impossible under the configured probabilities")
                 \cup (CASE e.how = "within" ->
                              F(e.dad \in Range(pool), "X10:dad (within the species) is not a surviving member of the species")
                              \cup F(WithinMay(P), "X10:mating within the species although the interspecies rate is 1")
                         [] e.how = "interspecies" ->
                              F(InterMay(P), "X10:interspecies mating although its rate is 0")
                              \cup F(InterPickOK(e.sp, e.pick, e.giveup, E.sorted), "X10:interspecies pick is not from the leading quarter of the sorted species / wrong number of attempts")
                              \cup F(SpIdx(e.pick) # {} /\ Sp(e.pick).pool # <<>> /\ e.dad = Sp(e.pick).pool[1], "X10:interspecies dad is not the champion of the picked species")
                         [] OTHER -> {"X10:mating without a consistent dad-selection event"}))
          (* (b) the genome as built relates to the parents as the branch says *)
          \cup G(momOK /\ e.kind # "mate",
                 F(IsDuplicate(e.g, Org(e.mom).g), "C06:duplicate differs from the original in a genetic field or shares an object with it"))
          \cup G(momOK /\ dadOK /\ e.kind = "mate",
                 MateFails(e.g, Org(e.mom).g, Org(e.dad).g, e, Sgn(Org(e.mom).orank - Org(e.dad).orank))
                 \cup F(P.coeffPositive => (e.compat0 = c0), "X10:logged compatibility-zero flag differs from the definition"))
    IN /\ Report("branch", fails)
       /\ cur' = [on |-> TRUE, sp |-> e.sp, idx |-> e.idx, kind |-> e.kind, mom |-> e.mom, dad |-> e.dad, gc |-> e.gc, g |-> e.g,
                  ops |-> <<>>, post |-> FALSE, counter0 |-> e.counter,
                  must |-> e.kind = "mate" /\ PostMutMust(same, c0, P), may |-> e.kind = "mate" /\ PostMutMay(same, c0, P)]
       /\ UNCHANGED <<iline, eline, sps, born>>

(* ---------------------------------------------------------------- postmut *)
DoPostMut(e) ==
    /\ LET fails ==
            F(cur.on /\ cur.kind = "mate", "X10:post-mating mutation block entered outside a mating")
            \cup G(cur.on /\ cur.kind = "mate",
                   F(~cur.post /\ cur.ops = <<>>, "X10:post-mating mutation block entered twice / after a mutation")
                   \cup F(e.mom = cur.mom /\ e.dad = cur.dad, "X10:post-mating decision taken on other parents")
                   \cup F(cur.may, "X10:child mutated although mate-only has probability 1 and the parents differ"))
       IN Report("postmut", fails)
    /\ cur' = [cur EXCEPT !.post = TRUE]
    /\ UNCHANGED <<iline, eline, sps, born>>

(* -------------------------------------------------------------------- mut *)
OpClass(op) ==
    CASE op = "add-node" -> P.addNode [] op = "add-link" -> P.addLink [] op = "connect-sensors" -> P.connect
      [] op = "random-trait" -> P.rndTrait [] op = "link-trait" -> P.linkTrait [] op = "node-trait" -> P.nodeTrait
      [] op = "link-weights" -> P.linkWeights [] op = "toggle-enable" -> P.toggle [] op = "gene-reenable" -> P.reenable
      [] OTHER -> SOMETIMES
StepFails(op, pre, post, res) ==
    CASE op = "add-node" ->
            IF AddNodeSucceeded(pre, post) THEN F(AddNodeStatement(pre, post, ONE), "C05:add-node changed something other than documented")
            ELSE F(AddNodeFailedFrame(pre, post), "X10:unsuccessful add-node changed more than the enable flag of one gene")
      [] op = "add-link" ->
            IF AddLinkSucceeded(pre, post) THEN F(AddLinkStatement(pre, post), "C05:add-link changed something other than documented")
            ELSE F(Abs(post) = Abs(pre), "X10:unsuccessful add-link changed the genome")
      [] op = "connect-sensors" ->
            IF res = 1 THEN F(ConnectSensorsStatement(pre, post) /\ Inns(post) # Inns(pre), "C05:connect-sensors changed something other than documented")
            ELSE F(Abs(post) = Abs(pre), "X10:connect-sensors reported no link but changed the genome")
      [] op = "random-trait" -> F(ParametricFrame(pre, post), "C05:random-trait changed structure") \cup F(RandomTraitFrame(pre, post), "X10:random-trait changed more than the parameters of one trait")
      [] op = "link-trait" -> F(ParametricFrame(pre, post), "C05:link-trait changed structure") \cup F(LinkTraitFrame(pre, post), "X10:link-trait changed more than the trait of one gene")
      [] op = "node-trait" -> F(ParametricFrame(pre, post), "C05:node-trait changed structure") \cup F(NodeTraitFrame(pre, post), "X10:node-trait changed more than the trait of one node")
      [] op = "link-weights" -> F(ParametricFrame(pre, post), "C05:link-weights changed structure") \cup F(LinkWeightsFrame(pre, post), "X10:link-weights changed more than weights and mutation numbers")
      [] op = "toggle-enable" -> F(ToggleStatement(pre, post), "C05:toggle-enable changed something other than documented") \cup F(ToggleFrame(pre, post), "X10:toggle-enable changed more than one enable flag")
      [] op = "gene-reenable" -> F(ReEnableStatement(pre, post), "C05:gene-reenable changed something other than documented") \cup F(ReEnableFrame(pre, post), "X10:gene-reenable changed more than enable flags")
      [] op = "nonstructural-begin" -> F(post = pre, "X10:genome changed between the structural stage and the parametric mutators")
      [] OTHER -> {"X10:unknown mutator"}
DoMut(e) ==
    /\ LET mutating == cur.on /\ \/ cur.kind = "super-champion" /\ cur.counter0 > 1
                                 \/ cur.kind = "mutate-only"
                                 \/ cur.kind = "mate" /\ cur.post
           fails ==
            F(cur.on, "X10:mutation outside the construction of an offspring")
            \cup G(cur.on,
                   F(mutating, "X10:mutation on a branch that does not mutate (exact copy, champion clone, unmutated child)")
                   \cup F(e.gc = cur.gc, "X10:mutation applied to a genome other than the baby's")
                   \cup F(CoinMay(OpClass(e.op)), "X10:mutator with probability 0 fired")
                   \cup G(cur.kind = "super-champion", F(cur.ops = <<>> /\ SuperOpMay(e.op, P), "X10:super-champion offspring mutated other than once by link-weights / add-link"))
                   \cup G(e.gc = cur.gc, StepFails(e.op, cur.g, e.g, e.res)))
       IN Report("mut:" \o e.op, fails)
    /\ cur' = IF cur.on /\ e.gc = cur.gc THEN [cur EXCEPT !.g = e.g, !.ops = Append(@, [op |-> e.op, res |-> e.res])] ELSE cur
    /\ UNCHANGED <<iline, eline, sps, born>>

(* ------------------------------------------------------------------- baby *)
DigsOK(e) == /\ Len(e.olddigs) = Len(E.orgs)
             /\ \A i \in DOMAIN E.orgs : e.olddigs[i][1] = E.orgs[i].oid /\ e.olddigs[i][2] = E.orgs[i].dig
DoBaby(e) ==
    LET ok == cur.on /\ Known(cur.sp) /\ e.sp = cur.sp
        st == StOf(cur.sp)
        aft == After(st, cur.kind)
        exactKind == cur.kind = "champion-clone" \/ (cur.kind = "super-champion" /\ cur.counter0 = 1)
        fails ==
          IF ~ok THEN {"X10:baby completed without a branch event for it (branch hook missing?)"} ELSE
          F(e.idx = cur.idx, "X10:baby index differs from its branch event")
          (* (b) the completed genome *)
          \cup F(e.gc = cur.gc, "X10:baby does not carry the genome that was built for it")
          \cup F(e.g = cur.g, "X10:baby genome changed without a mutation event")
          \cup F(WellFormed(e.g), "C01:baby genome not well-formed")
          \cup G(HasOrg(cur.mom), F(Retains(e.g, Org(cur.mom).g), "C01:sensor or output node of the parent lost"))
          \cup G(exactKind, F(cur.ops = <<>>, "C10:copy of the champion was mutated"))
          \cup G(exactKind /\ HasOrg(cur.mom), F(GenEqM(e.g, Org(cur.mom).g), "C10:copy of the champion differs from the champion"))
          \cup G(cur.kind = "super-champion" /\ cur.counter0 > 1,
                 F(Len(cur.ops) = 1, "X10:super-champion offspring with counter > 1 not mutated exactly once"))
          \cup G(cur.kind = "mutate-only", F(ChainOK(cur.ops, P), "X10:mutation chain is not a path of the decision tree under the configured probabilities"))
          \cup G(cur.kind = "mate",
                 F(cur.must => cur.post, "X10:child not mutated although the parents are the same / compatible at 0 / mate-only has probability 0")
                 \cup G(~cur.post, F(cur.ops = <<>>, "X10:child mutated without the post-mating decision"))
                 \cup G(cur.post, F(ChainOK(cur.ops, P), "X10:mutation chain is not a path of the decision tree under the configured probabilities")))
          (* (c) bookkeeping *)
          \cup F(e.gen = E.gen, "X10:baby generation stamp")
          \cup F(e.bsp = 0, "X10:baby belongs to a species before speciation")
          \cup F(e.fit0, "X10:baby starts with a fitness other than 0")
          \cup F(e.mate = (cur.kind = "mate"), "X10:mateBaby flag")
          \cup F(e.struct = StructFlag(cur.ops), "X10:mutationStructBaby flag")
          \cup F(e.popchild = (cur.kind = "super-champion" /\ cur.counter0 = 1 /\ HasOrg(cur.mom) /\ Org(cur.mom).popchamp), "X10:population-champion-child mark")
          \cup F(e.counter = aft.counter, "X10:super-champion counter after the offspring")
          \cup F(e.cloneDone = aft.cloneDone, "X10:champion-clone flag after the offspring")
          \cup F(e.oid \notin born /\ e.oid \notin OldOids, "X10:baby is not a new organism")
          \cup F(DigsOK(e), "X10:an organism of the old generation changed during reproduction")
    IN /\ Report("baby", fails)
       /\ sps' = IF ok THEN [sps EXCEPT ![cur.sp] = [@ EXCEPT !.made = @ + 1, !.counter = e.counter, !.cloneDone = e.cloneDone,
                                                             !.exact = After(StOf(cur.sp), cur.kind).exact]]
                 ELSE sps
       /\ born' = born \cup {e.oid}
       /\ cur' = NoCur
       /\ UNCHANGED <<iline, eline>>

(* ------------------------------------------------------------------- exit *)
DoExit(e) ==
    /\ LET fails ==
            IF ~Known(e.sp) THEN {"X10:Species.reproduce returned for a species that is not in the species table"} ELSE
            LET st == StOf(e.sp) IN
            F(sps[e.sp].phase = "open", "X10:Species.reproduce returned without having been entered")
            \cup F(~cur.on, "X10:Species.reproduce returned with an offspring under construction")
            \cup F(st.made = st.quota, "X10:species did not produce exactly its quota of babies")
            \cup F(e.n = st.made, "X10:number of babies returned differs from the babies announced")
            \cup F(st.counter = 0, "X10:super-champion counter not used up")
            \cup F(st.quota > 5 => st.exact, "C10:champion of a species with quota > 5 got no unmodified copy")
       IN Report("exit", fails)
    /\ sps' = IF Known(e.sp) THEN [sps EXCEPT ![e.sp].phase = "closed"] ELSE sps
    /\ cur' = NoCur
    /\ UNCHANGED <<iline, eline, born>>

(* ------------------------------------------------------------------ after *)
DoAfter(e) ==
    /\ LET fails ==
            IF e.err THEN {"C02:NextEpoch returned an error"} ELSE
            F(e.hooked /\ eline > 0 /\ E.gen = e.gen, "X10:epoch without hook events")
            \cup F(\A id \in DOMAIN sps : sps[id].phase = "closed", "X10:a species of the table did not run Species.reproduce to its end")
            \cup F(Range(e.oids) = born /\ Len(e.oids) = Cardinality(born), "C02:organisms of the new generation are not exactly the babies announced")
            \cup F(Len(e.oids) = P.popsize, "C02:population size")
       IN Report("after", fails)
    /\ eline' = 0 /\ sps' = <<>> /\ cur' = NoCur /\ born' = {}
    /\ UNCHANGED iline

Init == l = 1 /\ iline = 1 /\ eline = 0 /\ sps = <<>> /\ cur = NoCur /\ born = {}
Next == /\ l <= Len(Trace)
        /\ l' = l + 1
        /\ LET e == Trace[l] IN
           CASE e.ev = "init" -> DoInit(e)
             [] e.ev = "epoch" -> DoEpoch(e)
             [] e.ev = "enter" -> DoEnter(e)
             [] e.ev = "branch" -> DoBranch(e)
             [] e.ev = "postmut" -> DoPostMut(e)
             [] e.ev = "mut" -> DoMut(e)
             [] e.ev = "baby" -> DoBaby(e)
             [] e.ev = "exit" -> DoExit(e)
             [] e.ev = "after" -> DoAfter(e)
Spec == Init /\ [][Next]_vars
TraceAccepted == TLCGet("stats").diameter = Len(Trace) + 1
=============================================================================

----------------------------- MODULE Evaluator -----------------------------
(* Growth suite X11: the GENERATION-EVALUATION protocol that the shipped example evaluators (examples/xor/XOR.go,     *)
(* examples/pole/cartpole.go) implement around their fitness functions, together with                                *)
(* Generation.FillPopulationStatistics (experiment/generation.go) and the result files of experiment/utils.          *)
(*                                                                                                                   *)
(* One evaluation of a population in generation `id` of trial `trial`:                                               *)
(*   1. every organism is evaluated in the order of Population.Organisms; an organism reported as a winner becomes   *)
(*      the generation's champion when there is none yet or its fitness is STRICTLY greater than the champion's:     *)
(*      Solved, WinnerNodes (genome nodes), WinnerGenes (enabled genes), WinnerEvals = PopSize * id + genome id;     *)
(*      when its genome has exactly `optn` nodes (5 for XOR, 7 for the pole) the "optimal" genome file is written;   *)
(*   2. FillPopulationStatistics: diversity = number of species; per species (in list order) its age and the         *)
(*      complexity and fitness of its best organism; when the generation is not solved the champion is the best      *)
(*      organism of the first species whose best fitness is the population's maximum;                                *)
(*   3. the population file gen_<id> is written iff solved or id is a multiple of PrintEvery;                        *)
(*   4. when solved, the winner files (plain genome; XOR: DOT; Cytoscape) named after the champion's phenotype        *)
(*      node and link counts.                                                                                        *)
(*                                                                                                                   *)
(* An organism is  [gid, fit, rk, win, nodes, ext, nc, lc]  (fit: fixed point, U units = 1.0; rk: the dense rank of   *)
(* its EXACT float64 fitness among the organisms of the population, larger = fitter - two fitness values that differ  *)
(* in the last bits have different ranks and may have the same fixed-point value, so every comparison of the protocol *)
(* is made on ranks; nodes / ext: genome nodes / enabled genes; nc / lc: node / link count of the phenotype); a       *)
(* species is [age, mem] with mem the indices of its members in the organism list.                                    *)
EXTENDS Integers, Sequences, FiniteSets, TLC

U == 1048576               \* fixed-point unit of fitness values (2^-20)
MaxI(a, b) == IF a > b THEN a ELSE b

(* ---------------------------------------------------------------- step 1: the organisms in order *)
RECURSIVE ChampUpTo(_, _)
ChampUpTo(orgs, k) ==       \* index of the champion after the first k organisms (0: none)
    IF k = 0 THEN 0
    ELSE LET c == ChampUpTo(orgs, k - 1) IN
         IF orgs[k].win /\ (c = 0 \/ orgs[k].rk > orgs[c].rk) THEN k ELSE c
WinnerChampion(orgs) == ChampUpTo(orgs, Len(orgs))
\* the organisms that were champion at some moment of the walk (each of them may have triggered the "optimal" dump)
Updates(orgs) == { k \in DOMAIN orgs : ChampUpTo(orgs, k) = k /\ (k = 1 \/ ChampUpTo(orgs, k - 1) # k) }

(* ---------------------------------------------------------------- step 2: statistics *)
BestFit(orgs, sp) == CHOOSE f \in { orgs[i].rk : i \in sp.mem } : \A i \in sp.mem : orgs[i].rk <= f     \* (a rank)
BestOf(orgs, sp) == { i \in sp.mem : orgs[i].rk = BestFit(orgs, sp) }        \* (the sort is not stable: any of them)
PopBest(orgs, species) ==
    CHOOSE f \in { BestFit(orgs, species[s]) : s \in DOMAIN species } : \A s \in DOMAIN species : BestFit(orgs, species[s]) <= f
FirstBestSpecies(orgs, species) ==
    CHOOSE s \in DOMAIN species : /\ BestFit(orgs, species[s]) = PopBest(orgs, species)
                                  /\ \A t \in 1 .. s - 1 : BestFit(orgs, species[t]) < PopBest(orgs, species)
\* the champion(s) the statistics step may name when the generation is not solved
StatChampions(orgs, species) == BestOf(orgs, species[FirstBestSpecies(orgs, species)])

(* ---------------------------------------------------------------- the generation record afterwards *)
Solved(orgs) == WinnerChampion(orgs) # 0
PostOK(orgs, species, popsize, id, post) ==
    LET c == WinnerChampion(orgs) IN
    /\ post.solved = Solved(orgs)
    /\ post.diversity = Len(species)
    /\ Len(post.age) = Len(species) /\ Len(post.cplx) = Len(species) /\ Len(post.fit) = Len(species)
    /\ \A s \in DOMAIN species :
         /\ post.age[s] = species[s].age
         /\ \E i \in BestOf(orgs, species[s]) : post.fit[s] = orgs[i].fit /\ post.cplx[s] = orgs[i].nc + orgs[i].lc
    /\ IF c # 0
       THEN /\ post.champ = c
            /\ post.wn = orgs[c].nodes /\ post.wg = orgs[c].ext /\ post.we = popsize * id + orgs[c].gid
       ELSE /\ post.champ \in StatChampions(orgs, species)
            /\ post.wn = 0 /\ post.wg = 0 /\ post.we = 0

(* ---------------------------------------------------------------- steps 3, 4: the files *)
Str(n) == ToString(n)
Dir(trial) == Str(trial) \o "/"
Counts(o) == Str(o.nc) \o "-" \o Str(o.lc)
Prefix(kind) == IF kind = "xor" THEN "xor" ELSE IF kind = "pole" THEN "pole1" ELSE "pole2"
ExpectedFiles(kind, orgs, trial, id, printevery, optn) ==
    LET c == WinnerChampion(orgs) IN
    (IF c # 0 \/ id % printevery = 0 THEN { Dir(trial) \o "gen_" \o Str(id) } ELSE {})
    \cup { Dir(trial) \o Prefix(kind) \o "_optimal_" \o Counts(orgs[k]) : k \in { j \in Updates(orgs) : orgs[j].nodes = optn } }
    \cup (IF c = 0 THEN {}
          ELSE LET base == Dir(trial) \o Prefix(kind) \o "_winner_genome_" \o Counts(orgs[c]) IN
               { base, base \o ".cyjs" } \cup (IF kind = "xor" THEN { base \o ".dot" } ELSE {}))

(* ---------------------------------------------------------------- the fitness scales of the two examples *)
\* XOR: fitness = (4 - e)^2 with e the summed absolute error over the four patterns (Error = e^2); winner iff fitness > 15.5.
\* fit10 / es10: fitness and e = sqrt(Error) in units of 2^-10 (TLC has 32-bit integers: no squares of 2^-20 values)
XorWinner(o) == o.win <=> o.fit > 15 * U + U \div 2
XorScale(o) == LET d == 4 * 1024 - o.es10 IN
               /\ o.es10 >= 0 /\ o.es10 <= 4 * 1024 + 2
               /\ (d * d) \div 1024 - o.fit10 <= 24 /\ o.fit10 - (d * d) \div 1024 <= 24
\* pole: steps balanced -> fitness 1 - (ln W - ln steps) / ln W, error = 1 - fitness; a winner has fitness 1, error 0
PoleWinner(o) == o.win <=> o.fit >= U
PoleScale(o) == /\ o.fit >= 0 /\ o.fit <= U
                /\ o.fit + o.err - U <= 4 /\ U - o.fit - o.err <= 4
=============================================================================

-------------------------- MODULE Trace_InnovPar --------------------------
(* B3: the outcomes of schedules of InnovPar.tla forced on real goroutines (vh_genome replay-schedules).  Each line  *)
(* holds the schedule, the outcome the specification assigns (expect) and what the real mutators produced (real: the *)
(* genes <<number, src, dst, rec>> and node ids each mutation added), the real registry and counters.  The clauses of *)
(* C16 are evaluated on the REAL outcome; equality with the specification's outcome is conformance (information).     *)
EXTENDS Integers, Sequences, FiniteSets, TLC, Json, IOUtils

TraceFile == IF "TRACE" \in DOMAIN IOEnv THEN IOEnv.TRACE ELSE "schedules.out.ndjson"
Trace == ndJsonDeserialize(TraceFile)
VARIABLE l
F(cond, tag) == IF cond THEN {} ELSE {tag}

Muts(e) == UNION { { e.real[t][i] : i \in DOMAIN e.real[t] } : t \in DOMAIN e.real }
GenesOfMut(o) == { o.genes[i] : i \in DOMAIN o.genes }
Genes(e) == UNION { GenesOfMut(o) : o \in Muts(e) }
NodesOfMut(o) == { o.nodes[i] : i \in DOMAIN o.nodes }
(* a number denotes one connection *)
OneMeaning(e) == \A a, b \in Genes(e) : a[1] = b[1] => a = b
(* issued numbers and node ids exceed what the population held before *)
Fresh(e) == (\A g \in Genes(e) : g[1] > e.ninn0) /\ (\A o \in Muts(e) : \A n \in NodesOfMut(o) : n > e.nnode0)
(* a node id denotes one split: mutations that produced the same node id are the same innovation with the same numbers *)
OneSplitPerNode(e) == \A o, p \in Muts(e) : NodesOfMut(o) \cap NodesOfMut(p) # {} => (o.m = p.m /\ GenesOfMut(o) = GenesOfMut(p))
(* every mutation succeeded and produced what it documents (one gene for a link, one node and two genes for a split) *)
Shape(e) == \A o \in Muts(e) :
               /\ o.ok /\ ~o.err
               /\ IF o.m.kind = "link" THEN Cardinality(GenesOfMut(o)) = 1 /\ NodesOfMut(o) = {}
                  ELSE Cardinality(GenesOfMut(o)) = 2 /\ Cardinality(NodesOfMut(o)) = 1
CountersAhead(e) == (\A g \in Genes(e) : g[1] <= e.ninn) /\ (\A o \in Muts(e) : \A n \in NodesOfMut(o) : n <= e.nnode)
(* conformance with the outcome InnovPar assigns to this schedule *)
ExpectedGenes(x) == IF x.m.kind = "link" THEN { <<x.inn, x.m.src, x.m.dst, IF x.m.rec THEN 1 ELSE 0>> }
                    ELSE { <<x.inn, x.m.src, x.node, IF x.m.rec THEN 1 ELSE 0>>, <<x.inn2, x.node, x.m.dst, 0>> }
ConformsModel(e) ==
    /\ e.followed /\ e.ninn = e.xninn /\ e.nnode = e.xnnode /\ Len(e.reg) = e.xreglen
    /\ \A t \in DOMAIN e.expect : Len(e.real[t]) = Len(e.expect[t])
         /\ \A i \in DOMAIN e.expect[t] : GenesOfMut(e.real[t][i]) = ExpectedGenes(e.expect[t][i])
\* schedules found by exploring the code's own primitives carry no expectation
Conforms(e) == IF "explored" \in DOMAIN e THEN TRUE ELSE ConformsModel(e)

Init == l = 1
Next == /\ l <= Len(Trace) /\ l' = l + 1
        /\ LET e == Trace[l]
               fails == F(OneMeaning(e), "C16:number with two meanings")
                        \cup F(Fresh(e), "C16:issued number not larger than all held before")
                        \cup F(OneSplitPerNode(e), "C16:node id shared by different splits")
                        \cup F(Shape(e), "C16:mutation failed or produced a malformed result under this schedule")
                        \cup F(CountersAhead(e), "C16:counter behind an issued number")
                        \cup F(Conforms(e), "conf:outcome differs from the one InnovPar assigns to the schedule")
           IN IF fails = {} THEN TRUE ELSE PrintT(ToJson([l |-> l, fails |-> fails, note |-> e.note]))
Spec == Init /\ [][Next]_l
TraceAccepted == TLCGet("stats").diameter = Len(Trace) + 1
=============================================================================

\* as MC_Codec.cfg with larger populations and experiments
SPECIFICATION Spec
CONSTANTS
  PopStartNewline = TRUE
  Modes = {"genome", "org", "pop", "popsp", "exp"}
  MinTraits = 2
  MaxTraits = 2
  Pats = {1}
  BiasCounts = {1}
  MinInputs = 1
  MaxInputs = 1
  MaxOutputs = 1
  MinHidden = 1
  MaxHidden = 1
  Acts = {14}
  NodeTraitFree = FALSE
  MaxGenes = 1
  PairSet = {}
  Ws = {1, 5, 7, 8, 9}
  Muts = {2, 6, 9}
  Flags = {0, 1, 2, 3}
  GeneTraitFree = TRUE
  MaxMods = 0
  ModActs = {21}
  ModEnabled = {TRUE}
  OrgFits = {1, 2, 5, 7, 8, 9}
  OrgGens = {0, 3, 250}
  MaxPop = 4
  MaxTrials = 3
  MaxGens = 2
  GenChoices = {101, 22, 13, 122}
  Sample = FALSE
INVARIANTS Plain Yaml Organism Population FastModel ExperimentFile ReadIntoUsed TokensTyped
CHECK_DEADLOCK FALSE

------------------------------ MODULE MC_Quota ------------------------------
(* C09: a population is assembled species by species (every multiset of raw fitness values, every age class from the *)
(* palette), then taken through the preparation phase of an epoch one code step per action: adjust -> count (with   *)
(* every admissible float64 loss vector) -> sort / stagnation / steal or delta coding -> purge of the organisms     *)
(* marked for elimination.  The finished behaviour is printed for the replayer.                                     *)
EXTENDS Quota, Json
CONSTANTS Params,       \* set of scope records, see P below
          MaxN          \* largest population of the exhaustive families (fixes their common denominator and the fitness tables)

VARIABLES species, par, pc, res
vars == <<species, par, pc, res>>

\* age classes: [age, aoli, mx] with DropOffAge = 3
\*   y  young, fresh              ys young (<= 10), stagnant, old enough to donate, dying
\*   o  old, fresh                os old, stagnant, dying            oz age debt exactly 0 (counts as stagnant)
\*   y10 / o11: the youth-boost boundary                             oi stagnant but improving in this very epoch
Cls == [y   |-> [age |-> 2,  aoli |-> 2,  mx |-> 100], ys  |-> [age |-> 8,  aoli |-> 3,  mx |-> 100],
        o   |-> [age |-> 12, aoli |-> 11, mx |-> 100], os  |-> [age |-> 12, aoli |-> 4,  mx |-> 100],
        oz  |-> [age |-> 12, aoli |-> 10, mx |-> 100], y10 |-> [age |-> 10, aoli |-> 9,  mx |-> 100],
        o11 |-> [age |-> 11, aoli |-> 10, mx |-> 100], oi  |-> [age |-> 12, aoli |-> 4,  mx |-> 0],
        y6  |-> [age |-> 6,  aoli |-> 6,  mx |-> 100]]

\* non-increasing fitness sequences of length n over 0..F (one per multiset)
NonInc(n, F) == { s \in [1..n -> 0..F] : \A i \in 1..(n - 1) : s[i] >= s[i + 1] }
NonIncTab == TLCEval([n \in 1..MaxN |-> TLCEval([F \in 1..3 |-> TLCEval(NonInc(n, F))])])

Total == Sum([k \in DOMAIN species |-> Len(species[k].fit)])
N == Total
Opts == [dropoff |-> par.dropoff, sig |-> par.sig, st |-> res.st, bs |-> res.bs]

\* a scope with fixed size shapes (large-steal family) picks one shape for the whole behaviour
Init == \E p \in Params : \E sh \in p.shapes :
          /\ par = [p EXCEPT !.shape = sh] /\ species = <<>> /\ pc = "setup" /\ res = [x |-> 0]
Lbase == IF par.lbase = 0 THEN LcmUpTo(MaxN) ELSE par.lbase

AddSpecies(fs, c) ==
    /\ pc = "setup" /\ Len(species) < par.maxsp /\ par.shape = <<>>
    /\ species' = Append(species, [id |-> 10 + Len(species) + 1, age |-> Cls[c].age, aoli |-> Cls[c].aoli, mx |-> Cls[c].mx, fit |-> fs])
    /\ UNCHANGED <<par, pc, res>>
\* large-steal family: the k-th species has the k-th size of the shape and one raw fitness for all its organisms; the
\* first (big) species takes its age class from par.big, the others from par.classes
AddUniform(f, c) ==
    /\ pc = "setup" /\ par.shape # <<>> /\ Len(species) < Len(par.shape)
    /\ c \in (IF species = <<>> THEN par.big ELSE par.classes)
    /\ species' = Append(species, [id |-> 10 + Len(species) + 1, age |-> Cls[c].age, aoli |-> Cls[c].aoli, mx |-> Cls[c].mx,
                                    fit |-> [i \in 1..par.shape[Len(species) + 1] |-> f]])
    /\ UNCHANGED <<par, pc, res>>

\* population-level stagnation state before the epoch: "fresh" no record yet; "stale" one epoch before delta coding
\* fires; "almost" two epochs before
Start(st, bs, mode) ==
    /\ pc = "setup" /\ Total \in par.ns /\ Len(species) = (IF par.shape = <<>> THEN Len(species) ELSE Len(par.shape))
    /\ \E k \in DOMAIN species : species[k].fit[1] > 0          \* quantifier of C09: at least one positive fitness
    /\ bs <= Total \div 2
    /\ LET o == [dropoff |-> par.dropoff, sig |-> par.sig, st |-> st, bs |-> bs]
           ad == [k \in DOMAIN species |-> Adjust(species[k], o, Lbase)]      \* Species.adjustFitness, every species
           adjs == [k \in DOMAIN species |-> ad[k].adj]
       IN res' = [st |-> st, bs |-> bs, mode0 |-> mode,
                  hf0 |-> IF mode = "fresh" THEN 0 ELSE 100,
                  ehlc0 |-> IF mode = "fresh" THEN 0 ELSE IF mode = "stale" THEN par.dropoff + 4 ELSE par.dropoff + 3,
                  adj |-> ad, ens |-> ENum(adjs), T |-> TDen(adjs),
                  exact |-> FloatExact([k \in DOMAIN species |-> Len(species[k].fit)], [k \in DOMAIN species |-> ad[k].penalised],
                                       par.sig.d, adjs, LDen(o, Lbase), ENum(adjs), TDen(adjs))]
    /\ pc' = "adjusted"
    /\ UNCHANGED <<species, par>>

Ens == res.ens
T == res.T

DoCount(lost) ==
    /\ pc = "adjusted"
    /\ LossOK(Ens, T, lost, res.exact)
    /\ LET raw == RawQuota(Ens, T, lost)
           mu == MakeUp(raw, N)
       IN res' = [lost |-> lost, raw |-> raw, q1 |-> mu.q, mk |-> mu.mk, died |-> mu.died, kept |-> Kept(mu.q)] @@ res
    /\ pc' = "counted"
    /\ UNCHANGED <<species, par>>

Ages == [k \in DOMAIN species |-> species[k].age]
BestOrig == [k \in DOMAIN species |-> res.adj[k].orig[1]]
Aoli1 == [k \in DOMAIN species |-> res.adj[k].aoli]

\* B2: the finished behaviour.  Rationals are numerators over the stated denominators (lden, T).
CaseOf(r) ==
    [n |-> N, dropoff |-> par.dropoff, sig |-> par.sig, st |-> r.st, bs |-> r.bs, hf0 |-> r.hf0, ehlc0 |-> r.ehlc0,
     species |-> [k \in DOMAIN species |-> [id |-> species[k].id, age |-> species[k].age, aoli |-> species[k].aoli,
                                             mx |-> species[k].mx, fit |-> species[k].fit]],
     lden |-> LDen(Opts, Lbase),
     adj |-> [k \in DOMAIN species |-> [a |-> r.adj[k].adj, orig |-> r.adj[k].orig, aoli |-> r.adj[k].aoli, mx |-> r.adj[k].mx,
                                         parents |-> r.adj[k].parents, pen |-> r.adj[k].penalised, young |-> r.adj[k].young]],
     T |-> r.T, e |-> r.ens,
     fc |-> [k \in DOMAIN species |-> FloorCum(r.ens, r.T, k)], bnd |-> [k \in DOMAIN species |-> Boundary(r.ens, r.T, k)],
     exact |-> r.exact, lost |-> r.lost, raw |-> r.raw, q1 |-> r.q1, mk |-> r.mk, died |-> r.died, kept |-> r.kept,
     sorted |-> r.sorted, sorttie |-> SortTie(r.kept, BestOrig, Ages), mode |-> r.mode, q2 |-> r.q2, sc |-> r.sc,
     aoli2 |-> r.aoli2, hf |-> r.hf, ehlc |-> r.ehlc, taken |-> r.taken,
     coins |-> [i \in DOMAIN r.sorted |-> i \in r.coins], flips |-> [i \in DOMAIN r.sorted |-> i \in r.used]]

\* sort, population stagnation, deltaCoding / giveBabiesToTheBest (cs: sorted positions whose coin shows "give");
\* then purgeOrganisms leaves every species its parents and each listed species produces its quota of offspring
DoRedistribute(cs) ==
    /\ pc = "counted"
    /\ LET srt == Sorted(res.kept, BestOrig, Ages)
           sg == Stagnation(res.hf0, res.ehlc0, BestOrig[srt[1]])
           zero == [k \in DOMAIN species |-> 0]
           coins == [i \in DOMAIN srt |-> i \in cs]
           nr == IF sg.ehlc >= par.dropoff + 5
                 THEN LET d == Delta(srt, [q |-> res.q1, sc |-> zero, aoli |-> Aoli1], Ages, N) IN
                      [sorted |-> srt, mode |-> "delta", q2 |-> d.q, sc |-> d.sc, aoli2 |-> d.aoli, hf |-> sg.hf, ehlc |-> 0,
                       taken |-> 0, coins |-> {}, used |-> {}] @@ res
                 ELSE IF res.bs > 0
                 THEN LET s == Steal(srt, [q |-> res.q1, sc |-> zero], Ages, [k \in DOMAIN species |-> Ages[k] - Aoli1[k]], Opts, coins) IN
                      [sorted |-> srt, mode |-> "steal", q2 |-> s.q, sc |-> s.sc, aoli2 |-> Aoli1, hf |-> sg.hf, ehlc |-> sg.ehlc,
                       taken |-> s.taken, coins |-> cs, used |-> s.used] @@ res
                 ELSE [sorted |-> srt, mode |-> "none", q2 |-> res.q1, sc |-> zero, aoli2 |-> Aoli1, hf |-> sg.hf, ehlc |-> sg.ehlc,
                       taken |-> 0, coins |-> {}, used |-> {}] @@ res
       IN /\ cs \subseteq nr.used
          /\ res' = nr
          /\ PrintT(ToJson(CaseOf(nr)))
    /\ pc' = "done"
    /\ UNCHANGED <<species, par>>

Next ==
    \/ \E n \in 1..(par.maxn - Total) : \E fs \in NonIncTab[n][par.maxfit], c \in par.classes : AddSpecies(fs, c)
    \/ \E f \in par.fits, c \in par.big \cup par.classes : AddUniform(f, c)
    \/ \E st \in par.sts, bs \in par.bss, mode \in par.modes : Start(st, bs, mode)
    \/ \E lost \in [DOMAIN species -> {0, 1}] : DoCount(lost)
    \/ \E cs \in SUBSET (4..Len(species)) : DoRedistribute(cs)
Spec == Init /\ [][Next]_vars

(* ---------------- scopes ---------------- *)
Fr(n, d) == [n |-> n, d |-> d]
P(ns, maxsp, maxfit, classes, sig, sts, bss, modes) ==
    [ns |-> ns, maxn |-> IF ns = {} THEN 0 ELSE CHOOSE m \in ns : \A x \in ns : x <= m, maxsp |-> maxsp, maxfit |-> maxfit,
     classes |-> classes, dropoff |-> 3, sig |-> sig, sts |-> sts, bss |-> bss, modes |-> modes,
     shapes |-> {<<>>}, shape |-> <<>>, fits |-> {}, big |-> {}, lbase |-> 0]
\* large-steal family: BabiesStolen >= 10, so that the hand-out blocks BabiesStolen/5, /5, /10 are 2, 2, 1 and the pool of
\* stolen babies can be SMALLER than a block (few robbable species: age > 5 and quota > 2).  Populations of 20 / 22 in 3-4
\* species of fixed sizes: one big species (class from big) and small ones; one raw fitness per species (from fits).
\* lbase: a common multiple of every size that occurs in the shapes.
SumSeq(sh) == Sum(sh)
PL(shapes, lbase, fits, big, classes, sig, bss) ==
    [ns |-> { SumSeq(sh) : sh \in shapes }, maxn |-> 0, maxsp |-> 4, maxfit |-> 1,
     classes |-> classes, dropoff |-> 3, sig |-> sig, sts |-> {Fr(1, 2)}, bss |-> bss, modes |-> {"fresh"},
     shapes |-> shapes, shape |-> <<>>, fits |-> fits, big |-> big, lbase |-> lbase]
\* the same with the survival thresholds given
PLT(shapes, lbase, fits, big, classes, sig, bss, sts) == [PL(shapes, lbase, fits, big, classes, sig, bss) EXCEPT !.sts = sts]
Half == Fr(1, 2)
\* quick: (a) apportionment over all age classes that change the multiplier, (b) redistribution (steal / delta coding)
ParamsQuick ==
    { P(1..4, 3, 2, {"y", "os", "o"}, Fr(2, 1), {Half}, {0}, {"fresh"}),
      P(1..3, 2, 3, {"oz", "y10", "o11", "oi"}, Fr(3, 2), {Fr(1, 4), Fr(1, 1)}, {0}, {"fresh"}),
      \* survival thresholds that are not whole percents (1/8, 3/8, 29/100) on species large enough for the cut-off to move
      PLT({<<8, 4>>, <<7, 5>>}, 280, {1, 2}, {"y", "o"}, {"o"}, Fr(2, 1), {0}, {Fr(1, 8), Fr(3, 8), Fr(29, 100)}),
      P({5, 6}, 2, 1, {"y6", "o", "os"}, Fr(2, 1), {Half}, {1, 2, 3}, {"fresh"}),
      \* an age significance BELOW one (young species are scaled down: "all age-significance settings")
      P(1..4, 2, 2, {"y", "os", "o", "y10"}, Fr(1, 2), {Half}, {0}, {"fresh"}),
      P(2..5, 3, 1, {"y", "o"}, Fr(2, 1), {Half}, {2}, {"stale", "almost"}),
      PL({<<12, 4, 2, 2>>, <<14, 3, 3>>, <<14, 4, 2, 2>>}, 84, {1, 3}, {"y"}, {"y", "o", "os"}, Fr(1, 1), {10, 11}) }
ParamsThorough ==
    { P(1..6, 3, 2, {"y", "os", "o"}, Fr(2, 1), {Half}, {0}, {"fresh"}),
      P({6, 7, 8}, 2, 3, {"y", "os"}, Fr(3, 2), {Fr(1, 4)}, {0}, {"fresh"}),
      P(1..5, 2, 3, {"oz", "y10", "o11", "oi"}, Fr(3, 2), {Fr(1, 4), Fr(3, 4), Fr(1, 1)}, {0}, {"fresh"}),
      PLT({<<8, 4>>, <<7, 5>>, <<8, 7>>, <<16, 3>>}, 1680, {1, 2, 3}, {"y", "o", "os"}, {"y", "o"}, Fr(2, 1), {0},
          {Fr(1, 8), Fr(3, 8), Fr(5, 8), Fr(7, 8), Fr(29, 100), Fr(57, 100), Fr(1, 3)}),
      P({7}, 4, 1, {"o", "os"}, Fr(2, 1), {Half}, {2, 3}, {"fresh"}),
      P(1..5, 3, 2, {"y", "os", "o", "y10", "o11"}, Fr(1, 2), {Half, Fr(1, 4)}, {0, 2}, {"fresh"}),
      P(1..4, 2, 2, {"y", "o"}, Fr(3, 4), {Half}, {0}, {"fresh"}),
      P({6}, 3, 2, {"y6", "os"}, Fr(2, 1), {Half}, {1, 2, 3}, {"fresh"}),
      P({7}, 3, 2, {"os", "o"}, Fr(2, 1), {Fr(1, 4)}, {0}, {"fresh"}),
      P(2..6, 3, 2, {"y", "o"}, Fr(2, 1), {Half}, {2}, {"stale", "almost"}),
      PL({<<12, 4, 2, 2>>, <<12, 4, 4>>, <<14, 3, 3>>, <<14, 4, 2, 2>>, <<12, 4, 3, 3>>, <<14, 4, 4>>}, 84, {1, 2, 3}, {"y", "o"},
         {"y", "o", "os", "y6"}, Fr(1, 1), {10, 11}),
      PL({<<12, 4, 2, 2>>, <<14, 4, 2, 2>>}, 84, {1, 3}, {"y"}, {"o", "os", "oi"}, Fr(2, 1), {10, 11}) }
\* simulation: larger populations, all age classes, all modes (MaxN = 10)
ParamsSim ==
    { P({n}, 5, 3, {"y", "ys", "o", "os", "oz", "y10", "o11", "oi", "y6"}, Fr(2, 1), {Fr(1, 4), Half}, 0..5, {"fresh", "stale", "almost"}) : n \in {8, 9, 10} }
    \cup { P({n}, 5, 2, {"y6", "o", "os", "oi"}, Fr(3, 2), {Fr(3, 4)}, 2..5, {"fresh"}) : n \in {7, 10} }

(* ---------------- properties (C09) ---------------- *)
Counted == pc \in {"counted", "done"}
Redistributed == pc = "done"
SpeciesIdx == DOMAIN species
\* expectations total the population size
ExpectationsTotalN == pc \in {"adjusted", "counted", "done"} => Sum([k \in SpeciesIdx |-> Sum(Ens[k])]) = N * T
\* the per-organism loop of countOffspring is floor-and-carry of the running total
LoopIsFloorCarry == pc = "adjusted" => ExactRaw(Ens, T) = RawQuota(Ens, T, [k \in SpeciesIdx |-> 0])
\* quotas total the population size after every stage
TotalAfterCount == Counted => Sum(res.q1) = N /\ \A k \in SpeciesIdx : res.q1[k] >= 0
TotalAfterRedistribution == Redistributed => Sum(res.q2) = N /\ \A k \in SpeciesIdx : res.q2[k] >= 0
\* each quota differs from the sum of its members' expectations by less than one (exactly one at a float64 boundary),
\* not counting the single make-up offspring
NearShare ==
    Counted => \A k \in SpeciesIdx :
        LET share == Sum(Ens[k])
            qq == res.q1[k] - (IF res.mk = k THEN 1 ELSE 0)
            slack == res.lost[k] = 1 \/ (k > 1 /\ res.lost[k - 1] = 1)
        IN  IF slack THEN AbsI(qq * T - share) <= T ELSE AbsI(qq * T - share) < T
\* the make-up offspring exists exactly when the final float total was one short, and goes to one species
MakeUpOnce == Counted => /\ ~res.died
                         /\ (res.mk # 0) <=> (res.lost[Len(species)] = 1)
                         /\ \A k \in SpeciesIdx : res.q1[k] = res.raw[k] + (IF res.mk = k THEN 1 ELSE 0)
\* parents: the top floor(t * n) + 1 organisms (all of them when that exceeds the size), never none
ParentCutOff == pc # "setup" =>
    \A k \in SpeciesIdx : LET n == Len(species[k].fit) IN
        /\ res.adj[k].parents = MinI(n, (res.st.n * n) \div res.st.d + 1)
        /\ res.adj[k].parents >= 1
\* zero-quota species are removed from the list of species that reproduce
ZeroQuotaPurged == Counted => { res.kept[i] : i \in DOMAIN res.kept } = { k \in SpeciesIdx : res.q1[k] > 0 }
\* stealing moves offspring between listed species only, every donor keeps one; delta coding hands everything to the top two
StealShape == (Redistributed /\ res.mode = "steal") =>
    /\ \A k \in SpeciesIdx : res.q1[k] = 0 => res.q2[k] = 0
    /\ \A k \in SpeciesIdx : res.q1[k] > 0 => res.q2[k] >= 1
    /\ res.taken <= res.bs
DeltaShape == (Redistributed /\ res.mode = "delta") =>
    /\ Cardinality({ k \in SpeciesIdx : res.q2[k] > 0 }) <= 2
    /\ res.ehlc = 0
=============================================================================

SPECIFICATION Spec
CONSTANTS
  RecursiveAddsBias = TRUE
  Inputs = {1, 2}
  Biases = {3}
  Hidden = {5, 6}
  OutSet = {8, 9}
  Shapes = {{1, 5, 8}, {1, 3, 5, 8}}
  Weights <- W2
  PatternW = TRUE
  TdFlags = {FALSE, TRUE}
  InVecs <- VecsQ
  OrderKinds = {"BIOH"}
  ActSchemes <- SchemesRec
  LinkCaps = {2}
  MinLinks = 0
  Canonical = TRUE
  AcyclicOnly = FALSE
  Tight = TRUE
  ModuleActs = {"mul"}
  ModuleActs2 = {"max"}
  MaxMods = 1
  InsSizes = {1, 2}
  OutArities = {1}
  SensorIns = TRUE
  FwdKs = {1, 2}
  ActKs = {2}
  Act0Ks = {3}
  UseRec = TRUE
  LoadFirst = TRUE
  MaxHist = 3
  MaxSuf = 2
  Limit = 5000
INVARIANTS Settles SolversAgree FlushRestores SuffixEqual CountsAgree DepthTwoWays Refusals InScope
CHECK_DEADLOCK FALSE

---------------------------- MODULE MC_ModularAct ----------------------------
(* X07: a MODULAR network is built over one of the node sets in Shapes - ordinary links one by one (every simple     *)
(* digraph or, with AcyclicOnly, every simple DAG, one canonical insertion order per link set), then one to MaxMods   *)
(* control nodes (module function, input nodes, output nodes) - and sealed with an allNodes order and activation     *)
(* functions.  An instance A (standard network + the fast solver made from it) then lives through a HISTORY of API   *)
(* calls, is flushed, and lives through a SUFFIX of API calls side by side with a twin T created fresh at the flush: *)
(*   load v  : Network.LoadSensors(v)      | fast LoadSensors(v)                                                     *)
(*   fwd k   : Network.ForwardSteps(k)     | fast ForwardSteps(k)                                                    *)
(*   act k   : Network.ActivateSteps(k)    | fast Relax(k, delta > 0)                                                *)
(*   act0 k  : Network.Activate()          | fast Relax(k, 0)                                                        *)
(*   rec     : Network.RecursiveSteps()    | fast RecursiveSteps()          (both refuse modular networks)           *)
(* After EVERY call the complete state of both solvers as ModularAct.tla predicts it is recorded.  The laws:         *)
(*   Settles        on a network of the class (see ModularAct!StdClass / FastClass), once Need(net) sweeps / steps   *)
(*                  have run since the last LoadSensors (or a Relax found a step that changed nothing), the outputs  *)
(*                  equal the topological definition MTopoEval and the call did not fail (calls refused by design    *)
(*                  apart) - for each solver, hence the two solvers agree with each other;                           *)
(*   FlushRestores  right after Flush the ordinary nodes / the signal arrays are those of a fresh instance;          *)
(*   SuffixEqual    whatever the history, after every suffix call everything observable through the API coincides    *)
(*                  with the fresh twin;                                                                             *)
(*   CountsAgree    NodeCount of both solvers = ordinary nodes + control nodes; LinkCount of both = ordinary links   *)
(*                  + control links (in and out), when no bias links were merged or cancelled;                       *)
(*   DepthTwoWays   the modular MaxActivationDepth as transcribed = the largest edge count among the minimum-weight  *)
(*                  input-output paths (explicit path sets);                                                         *)
(*   Refusals       RecursiveSteps fails on both solvers and changes nothing; so does a request for zero steps       *)
(*                  (standard solver: error; fast solver: (false, nil)).                                             *)
(* Cases printed: "net" at sealing (static facts), "hist" at the flush (calls, predicted observations, the flushed    *)
(* state), "suffix" at the end of a suffix (calls, predicted observations of the flushed instance).                  *)
EXTENDS ModularAct, Json, SequencesExt
CONSTANTS Inputs, Biases, Hidden, OutSet, Shapes,      \* node ids (sets)
          Weights, PatternW, TdFlags, InVecs, OrderKinds, ActSchemes, LinkCaps, MinLinks, Canonical, AcyclicOnly, Tight,
          ModuleActs, ModuleActs2, MaxMods, InsSizes, OutArities, SensorIns,
          FwdKs, ActKs, Act0Ks, UseRec, LoadFirst, MaxHist, MaxSuf, Limit

VARIABLES shape, inc, ctrl, cap, ph, net, fm, mods, meta, A, T, ops, log, tlog, lastv, cnt, con0
vars == <<shape, inc, ctrl, cap, ph, net, fm, mods, meta, A, T, ops, log, tlog, lastv, cnt, con0>>
Ins == Inputs \cap shape
Bis == Biases \cap shape
Hid == Hidden \cap shape
Sensors == Ins \cup Bis
Neurons == Hid \cup (OutSet \cap shape)
Asc(X) == SetToSortSeq(X, <)
Outputs == Asc(OutSet \cap shape)

OrderOf(kind) ==
    CASE kind = "IBHO" -> Asc(Ins) \o Asc(Bis) \o Asc(Hid) \o Outputs
      [] kind = "IBOH" -> Asc(Ins) \o Asc(Bis) \o Outputs \o Asc(Hid)
      [] kind = "BIHO" -> Asc(Bis) \o Asc(Ins) \o Asc(Hid) \o Outputs
      [] kind = "BIOH" -> Asc(Bis) \o Asc(Ins) \o Outputs \o Asc(Hid)
      [] kind = "IBOHr" -> Asc(Ins) \o Asc(Bis) \o Outputs \o Reverse(Asc(Hid))
KindOf(n) == IF n \in Inputs THEN "I" ELSE IF n \in Biases THEN "B" ELSE IF n \in Hidden THEN "H" ELSE "O"
ActsOf(scheme) ==
    LET ns == Asc(Neurons) IN
    [n \in Sensors \cup Neurons |->
        IF n \in Sensors THEN "null"
        ELSE scheme[(((CHOOSE i \in DOMAIN ns : ns[i] = n) - 1) % Len(scheme)) + 1]]
NetOf(order, acts) ==
    [order |-> order, kind |-> [n \in Sensors \cup Neurons |-> KindOf(n)], act |-> acts,
     inputs |-> SelectSeq(order, LAMBDA n : n \in Sensors), outputs |-> Outputs,
     inc |-> [n \in Sensors \cup Neurons |-> IF n \in Neurons THEN inc[n] ELSE <<>>],
     ctrl |-> ctrl]
\* the graph under construction: ordinary links and control nodes as vertices
LinkSet == UNION { { <<inc[n][i].src, n>> : i \in DOMAIN inc[n] } : n \in Neurons }
NumLinks == Cardinality(LinkSet)
CEdges(cs) == UNION { { <<cs[i].ins[j], CtrlId(i)>> : j \in DOMAIN cs[i].ins }
                      \cup { <<CtrlId(i), cs[i].outs[j]>> : j \in DOMAIN cs[i].outs } : i \in DOMAIN cs }
AllNodes == Inputs \cup Biases \cup Hidden \cup OutSet
\* a fixed weight per node pair (keeps the quick scopes small while still mixing signs and magnitudes)
PatW(u, v) == IF (u + v) % 2 = 0 THEN 2 ELSE 0 - 1

InsChoices == { I \in SUBSET AllNodes : Cardinality(I) \in InsSizes }
OutChoices == { O \in SUBSET (Hidden \cup OutSet) : Cardinality(O) \in OutArities }
Op(o, k, v) == [op |-> o, k |-> k, v |-> v]
Loads == { Op("load", 0, [i \in 1..Cardinality(Ins) |-> v[i]]) : v \in InVecs }
OpSet == Loads \cup { Op("fwd", k, <<>>) : k \in FwdKs } \cup { Op("act", k, <<>>) : k \in ActKs }
         \cup { Op("act0", k, <<>>) : k \in Act0Ks } \cup (IF UseRec THEN {Op("rec", 0, <<>>)} ELSE {})

\* one API call on an instance X = [std, fast]; r = what the two calls return
Apply(o, X) ==
    CASE o.op = "load" ->
           [std |-> MStdLoad(net, X.std, o.v), fast |-> MFastLoad(fm, X.fast, o.v),
            se |-> "", sn |-> 0, fok |-> TRUE, fe |-> "", fn |-> 0, fix |-> FALSE]
      [] OTHER ->
           LET r == CASE o.op = "fwd"  -> MStdForwardSteps(net, X.std, o.k)
                      [] o.op = "act"  -> MStdActivateSteps(net, X.std, o.k)
                      [] o.op = "act0" -> MStdActivate(net, X.std)
                      [] o.op = "rec"  -> MStdRecursiveSteps(net, X.std)
               f == CASE o.op = "fwd"  -> MFastForwardSteps(fm, mods, X.fast, o.k)
                      [] o.op = "act"  -> MFastRelax(fm, mods, X.fast, o.k, TRUE)
                      [] o.op = "act0" -> MFastRelax(fm, mods, X.fast, o.k, FALSE)
                      [] o.op = "rec"  -> MFastRecursiveSteps(fm, mods, X.fast)
           IN  [std |-> [st |-> r.st, con |-> r.con], fast |-> f.fs,
                se |-> r.err, sn |-> r.n, fok |-> f.ok, fe |-> f.err, fn |-> f.n, fix |-> f.fix]
\* sweeps / steps since the last LoadSensors; 99 = a Relax stopped on a step that changed nothing (a fixed point)
CntAfter(o, r, c) ==
    IF o.op = "load" THEN [s |-> 0, f |-> 0]
    ELSE [s |-> c.s + r.sn, f |-> IF r.fix \/ c.f = 99 THEN 99 ELSE c.f + r.fn]
VecAfter(o, v) == IF o.op = "load" THEN o.v ELSE v
\* what is recorded after a call.  api: observable through exported fields / methods; int: internal state
ObsOf(r, v, c) ==
    [so |-> MStdOutputs(net, r.std), sok |-> r.se = "", se |-> r.se, sst |-> MStdJson(net, r.std), scon |-> MConJson(r.std),
     fo |-> MFastOutputs(fm, r.fast), fok |-> r.fok, fe |-> r.fe, fsig |-> r.fast.sig, fpre |-> r.fast.pre,
     sn |-> c.s, fn |-> c.f,
     want |-> IF v # <<>> /\ meta.defined THEN MTopoEval(net, v) ELSE <<>>,
     sset |-> v # <<>> /\ meta.std /\ c.s >= meta.need,
     fset |-> v # <<>> /\ meta.fast /\ c.f >= meta.need]
\* the part of an observation that the API shows: outputs, results, and per node Activation, ActivationsCount,
\* GetActiveOut, GetActiveOutTd; the fast solver shows its outputs and results only
ApiStd(sst) == [i \in DOMAIN sst |-> LET s == [a |-> sst[i][1], c |-> sst[i][2], l1 |-> sst[i][3]]
                                       IN  <<s.a, s.c, GetActiveOut(s), GetActiveOutTd(s)>>]
ApiOf(ob) == [so |-> ob.so, sok |-> ob.sok, se |-> ob.se, nodes |-> ApiStd(ob.sst), fo |-> ob.fo, fok |-> ob.fok, fe |-> ob.fe]

Init == /\ shape \in Shapes /\ inc = [n \in Neurons |-> <<>>] /\ ctrl = <<>> /\ ph = "build" /\ cap \in LinkCaps
        /\ net = <<>> /\ fm = <<>> /\ mods = <<>> /\ meta = <<>> /\ A = <<>> /\ T = <<>>
        /\ ops = <<>> /\ log = <<>> /\ tlog = <<>> /\ lastv = <<>> /\ cnt = [s |-> 0, f |-> 0] /\ con0 = <<>>

Addable(u, v) ==
    /\ \A i \in DOMAIN inc[v] : inc[v][i].src # u                                     \* simple graphs
    /\ AcyclicOnly => u # v /\ u \notin Desc(LinkSet, v)
AddLink(u, v, w, td) ==
    /\ ph = "build" /\ u \in shape /\ v \in shape /\ NumLinks < cap /\ Addable(u, v)
    /\ PatternW => w = PatW(u, v)
    /\ Canonical => \A e \in LinkSet : e[2] < v \/ (e[2] = v /\ e[1] < u)
    /\ inc' = [inc EXCEPT ![v] = Append(@, [src |-> u, w |-> w, td |-> td])]
    /\ UNCHANGED <<shape, ctrl, cap, ph, net, fm, mods, meta, A, T, ops, log, tlog, lastv, cnt, con0>>
\* a control node: module function, the set of its input nodes (linked in ascending id order), its output nodes
AddModule(act, I, O) ==
    /\ ph \in {"build", "mods"} /\ Len(ctrl) < MaxMods /\ NumLinks >= MinLinks
    /\ act \in (IF ctrl = <<>> THEN ModuleActs ELSE ModuleActs2)
    /\ I \subseteq (IF SensorIns THEN shape ELSE Neurons) /\ Cardinality(I) \in InsSizes
    /\ O \subseteq Neurons /\ Cardinality(O) \in OutArities
    /\ LET c2 == Append(ctrl, [act |-> act, ins |-> Asc(I), outs |-> Asc(O)])
       IN  /\ AcyclicOnly => AcyclicE(LinkSet \cup CEdges(c2), shape \cup { CtrlId(i) : i \in DOMAIN c2 })
           /\ ctrl' = c2
    /\ ph' = "mods"
    /\ UNCHANGED <<shape, inc, cap, net, fm, mods, meta, A, T, ops, log, tlog, lastv, cnt, con0>>
\* no dead parts: every neuron hangs (through links and control nodes) below a sensor and above an output
NoDeadParts ==
    LET E == LinkSet \cup CEdges(ctrl) IN
    /\ \A n \in Neurons : \E s \in Sensors : n \in Desc(E, s)
    /\ \A n \in Neurons : n \in OutSet \/ \E o \in OutSet \cap shape : o \in Desc(E, n)
MetaOf(nt, m, ms) ==
    LET def == Defined(nt)
        fa  == FullAcyclic(nt)
    IN  [std |-> StdClass(nt), fast |-> FastClass(nt), defined |-> def,
         wellordered |-> WellOrdered(nt), sensorfed |-> ~NoSensorFed(nt), notd |-> NoTd(nt), arity1 |-> Arity1(nt),
         allreach |-> def /\ AllReach(nt),
         need |-> IF def THEN Need(nt) ELSE 0,
         acyclic |-> fa,
         depth |-> IF fa THEN MDepthCode(nt) ELSE 0 - 1,
         depthdef |-> IF fa THEN MDepthDef(nt) ELSE 0 - 1,
         longest |-> IF fa THEN MLongest(nt) ELSE 0 - 1,
         ncs |-> MStdNodeCount(nt), ncf |-> MFastNodeCount(m, ms),
         lcs |-> MStdLinkCount(nt), lcf |-> MFastLinkCount(m, ms), plainbias |-> PlainBias(nt),
         relaxerr |-> MStdRelax(nt, MStdFresh(nt)).err]
\* the topological value for every input vector of the scope
WantsOf(nt, mt) == LET ls == SetToSeq(Loads) IN
                   [i \in DOMAIN ls |-> [v |-> ls[i].v, want |-> IF mt.defined THEN MTopoEval(nt, ls[i].v) ELSE <<>>]]
NetCase(nt, mt) == [kind |-> "net", net |-> MNetJson(nt), meta |-> mt, wants |-> WantsOf(nt, mt)]
Seal(ok, scheme) ==
    /\ ph = "mods" /\ (Tight => NoDeadParts)
    /\ LET nt == NetOf(OrderOf(ok), ActsOf(scheme))
           m  == FastModel(nt)
           ms == MFastModules(nt, m)
           mt == MetaOf(nt, m, ms)
       IN  /\ net' = nt /\ fm' = m /\ mods' = ms /\ meta' = mt
           /\ A' = [std |-> MStdFresh(nt), fast |-> MFastFresh(m)]
           /\ PrintT(ToJson(NetCase(nt, mt)))
    /\ ph' = "hist"
    /\ UNCHANGED <<shape, inc, ctrl, cap, T, ops, log, tlog, lastv, cnt, con0>>
Small(X) == MStdSmall(X.std, Limit) /\ MFastSmall(X.fast, Limit)
FirstOk(o) == (LoadFirst /\ ops = <<>>) => o.op = "load"
Do(o) ==
    /\ ph = "hist" /\ Len(ops) < MaxHist /\ FirstOk(o)
    /\ LET r == Apply(o, A)  c == CntAfter(o, r, cnt)  v == VecAfter(o, lastv) IN
         /\ Small(r)
         /\ A' = [std |-> r.std, fast |-> r.fast] /\ cnt' = c /\ lastv' = v
         /\ ops' = Append(ops, o) /\ log' = Append(log, ObsOf(r, v, c))
    /\ UNCHANGED <<shape, inc, ctrl, cap, ph, net, fm, mods, meta, T, tlog, con0>>
\* Network.Flush and the fast solver's Flush; the twin is born here
Flushed(X) == [std |-> MStdFlush(net, X.std), fast |-> MFastFlush(fm, X.fast)]
FlushObs(X) == [sst |-> MStdJson(net, X.std), scon |-> MConJson(X.std), so |-> MStdOutputs(net, X.std),
                fo |-> MFastOutputs(fm, X.fast), fsig |-> X.fast.sig, fpre |-> X.fast.pre]
HistCase == [kind |-> "hist", net |-> MNetJson(net), ops |-> ops, log |-> log, flushed |-> FlushObs(Flushed(A))]
Flush ==
    /\ ph = "hist" /\ Len(ops) >= 1
    /\ PrintT(ToJson(HistCase))
    /\ A' = Flushed(A)
    /\ T' = [std |-> MStdFresh(net), fast |-> MFastFresh(fm)]
    /\ ops' = <<>> /\ log' = <<>> /\ tlog' = <<>> /\ lastv' = <<>> /\ cnt' = [s |-> 0, f |-> 0]
    /\ ph' = "suffix" /\ con0' = MConJson(A.std)
    /\ UNCHANGED <<shape, inc, ctrl, cap, net, fm, mods, meta>>
DoS(o) ==
    /\ ph = "suffix" /\ Len(ops) < MaxSuf /\ FirstOk(o)
    /\ LET r == Apply(o, A)  t == Apply(o, T)  c == CntAfter(o, r, cnt)  v == VecAfter(o, lastv) IN
         /\ Small(r) /\ Small(t)
         /\ A' = [std |-> r.std, fast |-> r.fast] /\ T' = [std |-> t.std, fast |-> t.fast]
         /\ cnt' = c /\ lastv' = v /\ ops' = Append(ops, o)
         /\ log' = Append(log, ObsOf(r, v, c)) /\ tlog' = Append(tlog, ObsOf(t, v, c))
    /\ UNCHANGED <<shape, inc, ctrl, cap, ph, net, fm, mods, meta, con0>>
\* con0: isActive of the control nodes of the flushed instance when the suffix began (Flush does not touch them)
SufCase == [kind |-> "suffix", net |-> MNetJson(net), ops |-> ops, log |-> log, con0 |-> con0]
EmitS == /\ ph = "suffix" /\ Len(ops) >= 1 /\ PrintT(ToJson(SufCase))
         /\ ph' = "done" /\ UNCHANGED <<shape, inc, ctrl, cap, net, fm, mods, meta, A, T, ops, log, tlog, lastv, cnt, con0>>

Next == \/ \E u \in AllNodes, v \in Hidden \cup OutSet, w \in Weights, td \in TdFlags : AddLink(u, v, w, td)
        \/ \E a \in ModuleActs \cup ModuleActs2, I \in InsChoices, O \in OutChoices : AddModule(a, I, O)
        \/ \E ok \in OrderKinds, sc \in ActSchemes : Seal(ok, sc)
        \/ \E o \in OpSet : Do(o) \/ DoS(o)
        \/ Flush \/ EmitS
Spec == Init /\ [][Next]_vars

(* ------------------------------------ the laws ------------------------------------ *)
\* (RecursiveSteps always refuses - law Refusals - and a request for zero steps is an error of the standard solver; both
\*  leave the settled outputs where they are)
Refused(o) == o.op = "rec" \/ (o.op \in {"fwd", "act"} /\ o.k = 0)
Settled(l, os) == \A i \in DOMAIN l :
                 /\ l[i].sset => l[i].so = l[i].want /\ (~Refused(os[i]) => l[i].se = "")
                 /\ l[i].fset => l[i].fo = l[i].want /\ (~Refused(os[i]) => l[i].fe = "")
Settles == ph \in {"hist", "suffix", "done"} => Settled(log, ops)
SolversAgree == ph \in {"hist", "suffix", "done"} =>
                   \A i \in DOMAIN log : (log[i].sset /\ log[i].fset) => log[i].so = log[i].fo
FlushRestores == (ph = "suffix" /\ ops = <<>>) =>
                    /\ A.std.st = MStdFresh(net).st
                    /\ A.fast = MFastFresh(fm)
SuffixEqual == ph \in {"suffix", "done"} =>
                    /\ Len(log) = Len(tlog)
                    /\ \A i \in DOMAIN log : ApiOf(log[i]) = ApiOf(tlog[i])
CountsAgree == ph \in {"hist", "suffix", "done"} =>
                    /\ meta.ncs = Len(net.order) + Len(net.ctrl) /\ meta.ncf = meta.ncs
                    /\ meta.plainbias => meta.lcs = meta.lcf
DepthTwoWays == ph \in {"hist", "suffix", "done"} => meta.depth = meta.depthdef /\ meta.depth <= meta.longest
Unchanged(i) == i > 1 => /\ log[i].sst = log[i - 1].sst /\ log[i].scon = log[i - 1].scon
                         /\ log[i].fsig = log[i - 1].fsig /\ log[i].fpre = log[i - 1].fpre
Refusals == ph \in {"hist", "suffix", "done"} =>
                \A i \in DOMAIN log :
                    /\ ops[i].op = "rec" =>
                          log[i].se = "modular" /\ log[i].fe = "modular" /\ ~log[i].fok /\ Unchanged(i)
                    /\ (ops[i].op \in {"fwd", "act"} /\ ops[i].k = 0) =>
                          log[i].se = "zero" /\ log[i].fe = "" /\ ~log[i].fok /\ Unchanged(i)
(* ---- what one might expect but the library does NOT do (each is EXPECTED TO FAIL, MC_ModularAct_should_*.cfg; ---- *)
(* ---- the replayer shows the same on the real code and records it as an observation, never as a violation)   ---- *)
\* the fast solver settles on the definition also when a control node is fed directly by a sensor
ShouldSensorFed == ph \in {"hist", "suffix", "done"} =>
    \A i \in DOMAIN log : (log[i].want # <<>> /\ meta.defined /\ meta.wellordered /\ log[i].fe = "" /\ log[i].fn >= meta.need)
                               => log[i].fo = log[i].want
\* the order of the control nodes in the list does not matter
ShouldAnyOrder == ph \in {"hist", "suffix", "done"} =>
    \A i \in DOMAIN log : (/\ log[i].want # <<>> /\ meta.arity1 /\ meta.notd /\ meta.allreach /\ ~meta.sensorfed
                            /\ log[i].sn >= meta.need + 2 /\ log[i].fn >= meta.need + 2)
                               => log[i].so = log[i].want /\ log[i].fo = log[i].want
\* MaxActivationDepth() steps are enough to reach the feed-forward value
ShouldDepthSuffice == ph = "hist" => ((meta.std /\ meta.fast /\ meta.acyclic) => meta.depth >= meta.need)
\* Flush leaves nothing of the history behind, control nodes included
ShouldFlushControl == (ph = "suffix" /\ ops = <<>>) => A.std = MStdFresh(net)
\* a control node with two outputs is refused by both solvers alike
ShouldRefuseAlike == ph \in {"hist", "suffix", "done"} => \A i \in DOMAIN log : log[i].fe # "panic"

\* scope facts
InScope == ph = "hist" => /\ Len(net.ctrl) \in 1..MaxMods
                          /\ \A i \in DOMAIN net.ctrl : /\ net.ctrl[i].act \in ModActNames
                                                        /\ SeqRange(net.ctrl[i].outs) \subseteq NeuronSet(net)
                                                        /\ SeqRange(net.ctrl[i].ins) \subseteq NodeSet(net)
                          /\ AcyclicOnly => meta.acyclic

\* value palettes referred to by the configurations (a .cfg file cannot hold negative numbers or sequences)
W3 == {0 - 1, 1, 2}
W2 == {0 - 1, 2}
VecsQ == {<<2, 0 - 1>>, <<0 - 1, 3>>}
VecsOne == {<<2, 0 - 1>>}
SchemesLinear  == {<<"linear">>}
SchemesQuick   == {<<"linear">>, <<"step", "clip", "abs">>}
SchemesStep    == {<<"step", "abs">>}
SchemesRec1    == {<<"linear", "clip">>}
SchemesRec     == {<<"linear", "clip">>, <<"step", "abs">>}
SchemesThree   == {<<"linear">>, <<"clip", "linear">>, <<"abs", "step", "clip">>}
=============================================================================

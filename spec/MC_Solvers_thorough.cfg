SPECIFICATION Spec
CONSTANTS
  RecursiveAddsBias = TRUE
  Inputs = {1, 2}
  Biases = {3, 4}
  Hidden = {7, 8}
  OutSet = {5, 6}
  Shapes = {{1, 3, 5, 7}, {1, 5, 7}, {1, 3, 4, 5}}
  Weights <- W3
  InVals <- V3
  OrderKinds = {"IBOH", "BIHO", "IBHO"}
  ActSchemes <- SchemesAll
  LinkCaps = {6}
  SealAtCap = FALSE
  Extra = 2
  Canonical = TRUE
INVARIANTS FeedForward InScope DepthAgrees
CHECK_DEADLOCK FALSE

SPECIFICATION Spec
CONSTANTS
  Inputs = {1}
  Biases = {2}
  Hidden = {4}
  OutSet = {3}
  Weights <- W4
  InVals <- V4
  OrderKinds = {"IBOH", "BIHO", "IBHO"}
  ActSchemes <- SchemesAll
  LinkCaps = {6}
  SealAtCap = FALSE
  Extra = 2
  Canonical = TRUE
INVARIANTS FeedForward InScope DepthAgrees
CHECK_DEADLOCK FALSE

---------------------------- MODULE MC_GenomeOps ----------------------------
(* C01 / C03 / C04 / C05 / C06 at design level: every history of at most MaxOps applications of the genetic operators   *)
(* of Genome.tla (as reproduction uses them: each result is a NEW genome next to its parents), over a shared innovation *)
(* registry that is cleared at generation boundaries, starting from small start genomes with a bias node, a disabled    *)
(* gene and a recurrent gene.                                                                                           *)
EXTENDS Genome, TLC
CONSTANTS MaxOps, MaxPool, MaxGenes, MaxNodes, MaxGens, Starts

ONE == 1
ZERO == 0
DefAct == 0
T1 == <<[id |-> 1, p |-> <<5>>]>>
Start(k) ==
    CASE k = 1 -> [traits |-> T1,
                   nodes |-> <<[id |-> 1, role |-> "I", act |-> 0, tr |-> 1], [id |-> 2, role |-> "B", act |-> 0, tr |-> 1],
                               [id |-> 3, role |-> "O", act |-> 0, tr |-> 1]>>,
                   genes |-> <<[inn |-> 1, src |-> 1, dst |-> 3, rec |-> FALSE, en |-> TRUE, w |-> 2, mut |-> 2, tr |-> 1],
                               [inn |-> 2, src |-> 2, dst |-> 3, rec |-> FALSE, en |-> TRUE, w |-> 3, mut |-> 3, tr |-> 1]>>]
      [] k = 2 -> [traits |-> T1,   \* a hidden node, a disabled gene, a recurrent self-loop, an unconnected sensor
                   nodes |-> <<[id |-> 1, role |-> "I", act |-> 0, tr |-> 1], [id |-> 2, role |-> "I", act |-> 0, tr |-> 0],
                               [id |-> 3, role |-> "O", act |-> 0, tr |-> 1], [id |-> 4, role |-> "H", act |-> 0, tr |-> 1]>>,
                   genes |-> <<[inn |-> 1, src |-> 1, dst |-> 3, rec |-> FALSE, en |-> FALSE, w |-> 2, mut |-> 2, tr |-> 1],
                               [inn |-> 2, src |-> 1, dst |-> 4, rec |-> FALSE, en |-> TRUE, w |-> 1, mut |-> 0, tr |-> 1],
                               [inn |-> 3, src |-> 4, dst |-> 3, rec |-> FALSE, en |-> TRUE, w |-> 2, mut |-> 0, tr |-> 0],
                               [inn |-> 4, src |-> 4, dst |-> 4, rec |-> TRUE, en |-> TRUE, w |-> 3, mut |-> 3, tr |-> 1]>>]

VARIABLES pool, reg, nInn, nNode, ops, gens, start, lastOp
vars == <<pool, reg, nInn, nNode, ops, gens, start, lastOp>>

Init == /\ start \in Starts /\ pool = {Start(start)} /\ reg = <<>>
        /\ nInn = LastInn(Start(start)) /\ nNode = LastNode(Start(start)) + 1      \* as Population.spawn sets them
        /\ ops = 0 /\ gens = 0 /\ lastOp = [op |-> "init"]

Small(g) == Len(g.genes) <= MaxGenes /\ Len(g.nodes) <= MaxNodes
Room == ops < MaxOps /\ Cardinality(pool) < MaxPool
Put(g, op) == /\ Small(g) /\ pool' = pool \cup {g} /\ ops' = ops + 1 /\ lastOp' = op /\ UNCHANGED <<gens, start>>

AddNode == \E a \in pool : \E i \in DOMAIN a.genes : \E act \in {0, 7} :
    /\ Room /\ AddNodeEligible(a, i)
    /\ LET r == AddNodeStep(a, i, reg, nInn, nNode, act, DefAct, ONE, ZERO) IN
       /\ Put(r.g, [op |-> "addnode", pre |-> a, post |-> r.g, ok |-> r.ok])
       /\ reg' = r.reg /\ nInn' = r.nInn /\ nNode' = r.nNode
AddLink == \E a \in pool : \E u, v \in NodeIds(a) : \E rec \in BOOLEAN :
    /\ Room /\ AddLinkEligible(a, u, v, rec)
    /\ LET r == AddLinkStep(a, u, v, rec, reg, nInn, 4, 0, ZERO) IN
       /\ Put(r.g, [op |-> "addlink", pre |-> a, post |-> r.g, ok |-> TRUE])
       /\ reg' = r.reg /\ nInn' = r.nInn /\ UNCHANGED nNode
Connect == \E a \in pool : \E s \in UnconnectedSensors(a) :
    /\ Room
    /\ LET n == Len(NonSensorSeq(a))
           r == ConnectSensorsStep(a, s, reg, nInn, [k \in 1 .. n |-> 4], [k \in 1 .. n |-> 0], ZERO) IN
       /\ Put(r.g, [op |-> "connect", pre |-> a, post |-> r.g, ok |-> TRUE])
       /\ reg' = r.reg /\ nInn' = r.nInn /\ UNCHANGED nNode
Toggle == \E a \in pool : \E i \in DOMAIN a.genes :
    /\ Room /\ Put(ToggleStep(a, i), [op |-> "toggle", pre |-> a, post |-> ToggleStep(a, i), ok |-> TRUE])
    /\ UNCHANGED <<reg, nInn, nNode>>
ReEnable == \E a \in pool :
    /\ Room /\ Put(ReEnableStep(a), [op |-> "reenable", pre |-> a, post |-> ReEnableStep(a), ok |-> TRUE])
    /\ UNCHANGED <<reg, nInn, nNode>>
Reweigh == \E a \in pool : \E i \in DOMAIN a.genes :       \* weight mutation abstracted to one gene getting symbol 6
    /\ Room /\ Put([a EXCEPT !.genes[i].w = 6, !.genes[i].mut = 6], [op |-> "weights", pre |-> a, post |-> [a EXCEPT !.genes[i].w = 6, !.genes[i].mut = 6], ok |-> TRUE])
    /\ UNCHANGED <<reg, nInn, nNode>>
MateMP == \E a, b \in pool : \E cmp \in {-1, 0, 1} : \E pick \in {1, 2} :
    /\ Room /\ LET c == MultipointChild(a, b, cmp, pick) IN
               Put(c, [op |-> "multipoint", p1 |-> a, p2 |-> b, cmp |-> cmp, child |-> c])
    /\ UNCHANGED <<reg, nInn, nNode>>
MateSP == \E a, b \in pool : \E x \in 0 .. 3 :
    /\ Room /\ a # b /\ LET c == SinglePointChild(a, b, x) IN
               Put(c, [op |-> "singlepoint", p1 |-> a, p2 |-> b, cmp |-> 0, child |-> c])
    /\ UNCHANGED <<reg, nInn, nNode>>
NextGen == /\ gens < MaxGens /\ reg # <<>> /\ reg' = <<>> /\ gens' = gens + 1 /\ lastOp' = [op |-> "nextgen"]
           /\ UNCHANGED <<pool, nInn, nNode, ops, start>>
Next == AddNode \/ AddLink \/ Connect \/ Toggle \/ ReEnable \/ Reweigh \/ MateMP \/ MateSP \/ NextGen
Spec == Init /\ [][Next]_vars

(* ---- C01: closure under well-formedness, ancestors' sensors and outputs retained ---- *)
AllWellFormed == \A g \in pool : WFAbs(g)
AllRetain == \A g \in pool : Retains(g, Start(start))
(* ---- C03: one meaning per innovation number / node id over everything that ever lived; counters ahead; one record per innovation ---- *)
OneMeaningPerNumber == \A a, b \in pool : \A i \in DOMAIN a.genes : \A j \in DOMAIN b.genes :
                          a.genes[i].inn = b.genes[j].inn => Key(a.genes[i]) = Key(b.genes[j])
OneRolePerNode == \A a, b \in pool : \A i \in DOMAIN a.nodes : \A j \in DOMAIN b.nodes :
                          a.nodes[i].id = b.nodes[j].id => a.nodes[i].role = b.nodes[j].role
CountersAhead == \A g \in pool : LastInn(g) <= nInn /\ (\A i \in DOMAIN g.nodes : g.nodes[i].id <= nNode)
RegistryFunctional == \A i, j \in DOMAIN reg : i # j =>
                          ~(reg[i].k = reg[j].k /\ reg[i].src = reg[j].src /\ reg[i].dst = reg[j].dst
                            /\ reg[i].rec = reg[j].rec /\ reg[i].old = reg[j].old)
(* ---- C05 / C04: the operators as performed satisfy the statements ---- *)
StepStatements ==
    CASE lastOp.op = "addnode" -> (lastOp.ok => AddNodeStatement(lastOp.pre, lastOp.post, ONE))
      [] lastOp.op = "addlink" -> AddLinkStatement(lastOp.pre, lastOp.post)
      [] lastOp.op = "connect" -> ConnectSensorsStatement(lastOp.pre, lastOp.post)
      [] lastOp.op = "toggle" -> ToggleStatement(lastOp.pre, lastOp.post)
      [] lastOp.op = "reenable" -> ReEnableStatement(lastOp.pre, lastOp.post)
      [] lastOp.op = "weights" -> ParametricFrame(lastOp.pre, lastOp.post)
      [] lastOp.op = "multipoint" ->
            /\ C04_FromParents(lastOp.child, lastOp.p1, lastOp.p2) /\ C04_Weights(lastOp.child, lastOp.p1, lastOp.p2, {}, FALSE)
            /\ C04_FitterOnly(lastOp.child, lastOp.p1, lastOp.p2, lastOp.cmp) /\ C04_MatchingInherited(lastOp.child, lastOp.p1, lastOp.p2)
            /\ C04_Enabled(lastOp.child, lastOp.p1, lastOp.p2) /\ C04_Nodes(lastOp.child, lastOp.p1, lastOp.p2)
      [] lastOp.op = "singlepoint" ->
            /\ C04_FromParents(lastOp.child, lastOp.p1, lastOp.p2) /\ C04_Weights(lastOp.child, lastOp.p1, lastOp.p2, {}, FALSE)
            /\ C04_Enabled(lastOp.child, lastOp.p1, lastOp.p2) /\ C04_Nodes(lastOp.child, lastOp.p1, lastOp.p2)
      [] OTHER -> TRUE
View == <<pool, reg, nInn, nNode, ops, gens, start>>
=============================================================================

SPECIFICATION Spec
CONSTANTS
  N = 3
  MaxSpecies = 3
  MaxEpochs = 2
  ChampQuota = 2
INVARIANTS SizeConserved NoSurvivor IsPartition NoEmptySpecies UniqueIds FreshIds AgeRule ChampionKept
CHECK_DEADLOCK FALSE

SPECIFICATION Spec
CONSTANTS
  Vals <- ThoroughVals
  MaxLen = 5
  Den = 8
  Grid = 128
  ActNames <- Names
  MaxActs = 3
  ActVals <- QuickVals
INVARIANTS WheelInRange WheelWalkIsDefinition WheelNeverZeroProbability WheelZeroDrawAndZeroWheel WheelMonotone
           WheelTableIsFunction WheelProportional SignLaws ActivatorOK
CHECK_DEADLOCK FALSE

------------------------------- MODULE Orders -------------------------------
(***************************************************************************)
(* X03 - the sort orders used by reproduction and reporting, and the       *)
(* champion / maximum / average selections built on them (growth of the    *)
(* specification beyond the listed properties, DESIGN.md section 3).       *)
(*                                                                         *)
(*   genetics.Organisms.Less        (Fitness, then highestFitness)         *)
(*   genetics.byOrganismOrigFitness (original fitness of the first         *)
(*                                   organism, ties: the OLDER is less)    *)
(*   genetics.ByOrganismFitness     (species maximum as computed by        *)
(*                                   ComputeMaxAndAvgFitness)              *)
(*   experiment.Generations / Trials / Experiments .Less                   *)
(*                                  (most recent evaluation time, then id) *)
(*   Species.findChampion / FindChampion / ComputeMaxAndAvgFitness         *)
(*                                                                         *)
(* Every call site sorts with sort.Sort(sort.Reverse(x)): the result has   *)
(* no element that is Less than a later one.  sort.Sort is not stable, so  *)
(* the specification fixes the sequence of KEYS of the result and that the *)
(* result is a permutation, not the order inside a tie class.  Fitness     *)
(* values are integers (exact in float64).                                 *)
(***************************************************************************)
EXTENDS Integers, Sequences, FiniteSets, FiniteSetsExt, SequencesExt, Functions, TLC

(* ---- the relations ---- *)
\* organism = [fit, hi]
OrgLess(a, b) == a.fit < b.fit \/ (a.fit = b.fit /\ a.hi < b.hi)
\* species seen through its first organism = [orig, age]
SpeciesLess(a, b) == a.orig < b.orig \/ (a.orig = b.orig /\ a.age > b.age)
\* record with an evaluation time and an id = [t, id]   (t = 0 stands for the zero time.Time, before every real time)
TimeIdLess(a, b) == IF a.t = b.t THEN a.id < b.id ELSE a.t < b.t

(* ---- ComputeMaxAndAvgFitness as coded: the running maximum starts at 0 (named result), the average is sum / n,
   both 0 for a species without organisms.  For non-negative fitness (the documented domain: adjustFitness does "not
   allow negative fitness") the maximum is the true maximum ---- *)
SumFit(fits) == FoldSeq(LAMBDA x, acc : acc + x, 0, fits)
CodedMax(fits) == Max(Range(fits) \cup {0})
TrueMax(fits) == Max(Range(fits))
\* species = sequence of organism fitness values
SpMaxLess(a, b) == CodedMax(a) < CodedMax(b)

(* ---- FindChampion (exported) as coded: first organism whose fitness exceeds the running best, which starts at -1;
   0 = none (nil) ---- *)
RECURSIVE FindChampWalk(_, _, _, _)
FindChampWalk(fits, i, best, bestIdx) ==
    IF i > Len(fits) THEN bestIdx
    ELSE IF fits[i] > best THEN FindChampWalk(fits, i + 1, fits[i], i) ELSE FindChampWalk(fits, i + 1, best, bestIdx)
FindChampionIdx(fits) == FindChampWalk(fits, 1, -1, 0)
\* the definition: first position holding the maximal fitness
FirstMaxIdx(fits) == IF fits = <<>> THEN 0 ELSE Min({ i \in DOMAIN fits : fits[i] = TrueMax(fits) })

(* ---- order laws over a finite carrier ---- *)
Irreflexive(R(_, _), S) == \A a \in S : ~R(a, a)
Asymmetric(R(_, _), S) == \A a, b \in S : R(a, b) => ~R(b, a)
Transitive(R(_, _), S) == \A a, b, c \in S : R(a, b) /\ R(b, c) => R(a, c)
Incomparable(R(_, _), a, b) == ~R(a, b) /\ ~R(b, a)
IncomparabilityTransitive(R(_, _), S) ==
    \A a, b, c \in S : Incomparable(R, a, b) /\ Incomparable(R, b, c) => Incomparable(R, a, c)
StrictWeakOrder(R(_, _), S) == Irreflexive(R, S) /\ Asymmetric(R, S) /\ Transitive(R, S) /\ IncomparabilityTransitive(R, S)

(* ---- sorting ---- *)
SortedAsc(R(_, _), s) == \A i, j \in DOMAIN s : i < j => ~R(s[j], s[i])
SortedDesc(R(_, _), s) == \A i, j \in DOMAIN s : i < j => ~R(s[i], s[j])       \* what sort.Reverse produces
IsPermutationOf(s, t) == Len(s) = Len(t) /\ \E p \in Permutations(DOMAIN s) : \A i \in DOMAIN s : s[i] = t[p[i]]
\* a descending arrangement (ties in some order); its key sequence is the same for every such arrangement
Desc(R(_, _), s) == SortSeq(s, LAMBDA a, b : R(b, a))
Asc(R(_, _), s) == SortSeq(s, R)
LessMatrix(R(_, _), s) == [i \in DOMAIN s |-> [j \in DOMAIN s |-> R(s[i], s[j])]]
=============================================================================

SPECIFICATION Spec
CONSTANTS
  RecursiveAddsBias = TRUE
  Inputs = {1, 2}
  Biases = {3}
  Hidden = {5, 6}
  OutSet = {8, 9}
  Shapes = {{1, 5, 8}, {1, 3, 8}}
  Weights <- W2
  PatternW = TRUE
  TdFlags = {FALSE}
  InVecs <- VecsOne
  OrderKinds = {"BIHO"}
  ActSchemes <- SchemesStep
  LinkCaps = {1}
  MinLinks = 0
  Canonical = TRUE
  AcyclicOnly = TRUE
  Tight = FALSE
  ModuleActs = {"max"}
  ModuleActs2 = {"max"}
  MaxMods = 1
  InsSizes = {1}
  OutArities = {1}
  SensorIns = TRUE
  FwdKs = {0, 2}
  ActKs = {0, 1}
  Act0Ks = {}
  UseRec = FALSE
  LoadFirst = TRUE
  MaxHist = 3
  MaxSuf = 2
  Limit = 5000
INVARIANTS Settles SolversAgree FlushRestores SuffixEqual CountsAgree DepthTwoWays Refusals InScope
CHECK_DEADLOCK FALSE

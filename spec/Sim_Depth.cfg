SPECIFICATION Spec
CONSTANTS
  ClearOnError = TRUE
  Sensors = {1, 2}
  Hidden = {3, 4, 5}
  OutSet = {6, 7}
  Caps = {0, 1, 2, 3, 4, 5}
  MaxQ = 3
  MaxEdges = 14
  Canonical = FALSE
INVARIANTS MarksClean DagDepth Bounds CapLaw Stable NoHiddenIsOne
CHECK_DEADLOCK FALSE

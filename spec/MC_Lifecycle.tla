---------------------------- MODULE MC_Lifecycle ----------------------------
(* Design level for X12: every history of MaxEpochs epochs of a population with at most MaxSpecies species, raw best   *)
(* fitness ranks 0..MaxRank per species and epoch, every choice of which species keep a quota, which of them receive    *)
(* offspring, and how many species are founded.  The laws of Lifecycle.tla are invariants.                             *)
EXTENDS Lifecycle
CONSTANTS DropOff, MaxRank, MaxSpecies, MaxEpochs, InitSpecies

VARIABLES sp, hf, ehlc, last, phase, repro, epoch, deltas
vars == <<sp, hf, ehlc, last, phase, repro, epoch, deltas>>

Perms(S) == { f \in [1..Cardinality(S) -> S] : \A i, j \in 1..Cardinality(S) : i # j => f[i] # f[j] }

\* a population as constructed: its species are novel (they do not age in the first turnover)
Init == /\ sp = [k \in 1..InitSpecies |-> [id |-> k, age |-> 1, aoli |-> 0, mx |-> 0, novel |-> TRUE]]
        /\ hf = 0 /\ ehlc = 0 /\ last = InitSpecies /\ phase = "idle" /\ repro = {} /\ epoch = 0 /\ deltas = 0

Prepare ==
    /\ phase = "idle" /\ epoch < MaxEpochs
    /\ \E best \in [Ids(sp) -> 0..MaxRank], kept \in (SUBSET Ids(sp)) \ {{}} :
         \E sorted \in Perms(kept) :
            /\ SortedOK(sorted, Kept(sp, best, kept), best)
            /\ LET r == Prepared(sp, hf, ehlc, best, kept, sorted, DropOff) IN
               /\ sp' = r.sp /\ hf' = r.hf /\ ehlc' = r.ehlc
               /\ repro' = IF r.delta THEN TopTwo(sorted) ELSE kept
               /\ deltas' = IF r.delta THEN deltas + 1 ELSE deltas
    /\ phase' = "prepared"
    /\ UNCHANGED <<last, epoch>>

Finalize ==
    /\ phase = "prepared"
    \* every LISTED species may receive offspring at speciation, also one whose own quota is 0 after delta coding
    /\ \E survivors \in SUBSET Ids(sp), nnew \in 0..MaxSpecies :
         /\ Cardinality(survivors) + nnew >= 1 /\ Cardinality(survivors) + nnew <= MaxSpecies
         /\ sp' = Finalized(sp, survivors, nnew, last)
         /\ last' = last + nnew
    /\ phase' = "idle" /\ repro' = {} /\ epoch' = epoch + 1
    /\ UNCHANGED <<hf, ehlc, deltas>>

Next == Prepare \/ Finalize
Spec == Init /\ [][Next]_vars

Inv_IdsUnique == IdsUnique(sp, last)
Inv_AgesOK == AgesOK(sp)
Inv_RecordBound == RecordBound(sp, hf)
Inv_StagnationBound == StagnationBound(ehlc, DropOff)
\* a species is never older than the population, and a species that has aged at all is no longer novel
Inv_AgeBound == \A i \in DOMAIN sp : sp[i].age <= epoch + 1 /\ (sp[i].novel => sp[i].age = 1)
\* penalty window: a listed species that improved in the epoch just prepared is not penalised when it enters the next one
\* (age - aoli + 1 = 2 at most after ageing) unless DropOff <= 2
Inv_FreshNotPenalised == phase = "idle" /\ DropOff > 2 =>
    \A i \in DOMAIN sp : sp[i].aoli >= sp[i].age - 1 => ~Penalised(sp[i], DropOff)
\* delta coding needs DropOff + 5 epochs without a record each time
Inv_DeltaSpacing == deltas * (DropOff + 5) <= epoch + 1
\* non-vacuity probes (expected to be VIOLATED: see MC_Lifecycle_reach.cfg)
Reach_NoDelta == deltas = 0
Reach_NoPenalty == \A i \in DOMAIN sp : ~(phase = "idle" /\ Penalised(sp[i], DropOff))
=============================================================================

SPECIFICATION Spec
CONSTANTS
  RecursiveAddsBias = TRUE
  Inputs = {1, 2}
  Biases = {3}
  Hidden = {5, 6}
  OutSet = {8, 9}
  Shapes = {{1, 2, 5, 6, 8}}
  Weights <- W2
  PatternW = TRUE
  TdFlags = {FALSE}
  InVecs <- VecsQ
  OrderKinds = {"IBOH"}
  ActSchemes <- SchemesQuick
  LinkCaps = {3}
  MinLinks = 0
  Canonical = TRUE
  AcyclicOnly = TRUE
  Tight = TRUE
  ModuleActs = {"mul", "max", "min"}
  ModuleActs2 = {"mul"}
  MaxMods = 1
  InsSizes = {1, 2}
  OutArities = {1}
  SensorIns = TRUE
  FwdKs = {1, 2}
  ActKs = {2}
  Act0Ks = {}
  UseRec = FALSE
  LoadFirst = TRUE
  MaxHist = 3
  MaxSuf = 2
  Limit = 5000
INVARIANTS Settles SolversAgree FlushRestores SuffixEqual CountsAgree DepthTwoWays Refusals InScope
CHECK_DEADLOCK FALSE

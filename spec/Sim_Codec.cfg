\* simulation scope: up to 3 traits, 8 nodes, 7 genes, 2 modules, everything free (use with -simulate)
SPECIFICATION Spec
CONSTANTS
  PopStartNewline = TRUE
  Modes = {"genome"}
  MinTraits = 0
  MaxTraits = 3
  Pats = {1, 2, 5}
  BiasCounts = {0, 1}
  MinInputs = 0
  MaxInputs = 3
  MaxOutputs = 2
  MinHidden = 0
  MaxHidden = 3
  Acts = {1, 2, 3, 4, 5, 6, 7, 8, 9, 10, 11, 12, 13, 14, 15, 16, 17, 18, 19, 20, 24}
  NodeTraitFree = TRUE
  MaxGenes = 7
  PairSet = {}
  Ws = {1, 2, 3, 4, 5, 6, 7, 8, 10, 11, 12}
  Muts = {1, 2, 5, 6, 7, 12}
  Flags = {0, 1, 2, 3}
  GeneTraitFree = TRUE
  MaxMods = 2
  ModActs = {21, 22, 23, 25}
  ModEnabled = {TRUE, FALSE}
  OrgFits = {1, 5, 8, 9}
  OrgGens = {0, 3}
  MaxPop = 3
  MaxTrials = 2
  MaxGens = 2
  GenChoices = {101, 22, 13, 122}
  Sample = TRUE
INVARIANTS Plain Yaml Organism Population FastModel ExperimentFile ReadIntoUsed TokensTyped
CHECK_DEADLOCK FALSE

\* every node list (0-1 bias, 0-1 input, 1 output, 0-1 hidden; trait pointers nil or set; 2 activation types) with 0-1 traits, one plain gene
SPECIFICATION Spec
CONSTANTS
  PopStartNewline = TRUE
  Modes = {"genome"}
  MinTraits = 0
  MaxTraits = 1
  Pats = {1}
  BiasCounts = {0, 1}
  MinInputs = 0
  MaxInputs = 1
  MaxOutputs = 1
  MinHidden = 0
  MaxHidden = 1
  Acts = {4, 14}
  NodeTraitFree = TRUE
  MaxGenes = 1
  PairSet = {}
  Ws = {1}
  Muts = {2}
  Flags = {1}
  GeneTraitFree = FALSE
  MaxMods = 0
  ModActs = {21}
  ModEnabled = {TRUE}
  OrgFits = {1, 5, 8, 9}
  OrgGens = {0, 3}
  MaxPop = 3
  MaxTrials = 2
  MaxGens = 2
  GenChoices = {101, 22, 13, 122}
  Sample = FALSE
INVARIANTS Plain Yaml Organism Population FastModel ExperimentFile ReadIntoUsed TokensTyped
CHECK_DEADLOCK FALSE

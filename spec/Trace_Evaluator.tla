--------------------------- MODULE Trace_Evaluator ---------------------------
(* X11, binding B1: one line of the trace file (environment variable TRACE) per call of a real example evaluator's       *)
(* GenerationEvaluate on a real population (harness/cmd/vh_x11).  Every line carries the organisms in the order of     *)
(* Population.Organisms with what the evaluation left in them, the species as listed before the call, the generation   *)
(* record afterwards and the files found in the output directory.  Clauses per line:                                   *)
(*   Post     the generation record is the one Evaluator.tla assigns (solved, champion, winner statistics, diversity,   *)
(*            per-species age / best fitness / complexity of a best organism)                                          *)
(*   Files    the output directory holds exactly the files the protocol says                                           *)
(*   Winner   an organism is a winner iff its fitness passes the example's threshold                                   *)
(*   Scale    fitness and error are on the example's scale and consistent with each other                              *)
(*   NoError  the call returned no error                                                                               *)
EXTENDS Evaluator, Json, IOUtils

Trace == ndJsonDeserialize(IOEnv.TRACE)

VARIABLES i, verdict
vars == <<i, verdict>>

SpeciesOf(ev) == [s \in DOMAIN ev.species |-> [age |-> ev.species[s].age,
                                               mem |-> { ev.species[s].mem[k] : k \in DOMAIN ev.species[s].mem }]]
Evaluated(ev) == { k \in DOMAIN ev.orgs : ev.orgs[k].evaluated }
Clauses(ev) ==
    [ NoError |-> ~ev.err,
      Post |-> PostOK(ev.orgs, SpeciesOf(ev), ev.popsize, ev.id, ev.post),
      Files |-> { ev.files[k] : k \in DOMAIN ev.files } = ExpectedFiles(ev.kind, ev.orgs, ev.trial, ev.id, ev.printevery, ev.optn),
      \* (the double-pole evaluator flags only the champion; its winners are those the evaluation function reported)
      Winner |-> \A k \in Evaluated(ev) : CASE ev.kind = "xor" -> XorWinner(ev.orgs[k]) [] ev.kind = "pole" -> PoleWinner(ev.orgs[k])
                                                [] OTHER -> ev.orgs[k].win => ev.post.champ = k,
      Scale |-> \A k \in Evaluated(ev) : IF ev.kind = "xor" THEN XorScale(ev.orgs[k]) ELSE PoleScale(ev.orgs[k]) ]
AllTrue(c) == \A f \in DOMAIN c : c[f]

Init == i = 0 /\ verdict = [ok |-> TRUE, clauses |-> <<>>]
Next == /\ i < Len(Trace)
        /\ i' = i + 1
        /\ LET c == Clauses(Trace[i + 1]) IN verdict' = [ok |-> AllTrue(c), clauses |-> c]
Spec == Init /\ [][Next]_vars

Inv_X11 == verdict.ok
TraceAccepted == TLCGet("stats").diameter = Len(Trace) + 1
=============================================================================

SPECIFICATION Spec
CONSTANTS
  MaxOrgs = 3
  Fits = {1048576, 16252929, 16777216}
  Ids = {0, 3, 4}
  PrintEvery = 2
  Kinds = {"xor", "pole"}
INVARIANTS SolvedIffWinner ChampionIsFirstBestWinner UnsolvedChampionIsBest FilesLaw UpdatesIncrease
CHECK_DEADLOCK FALSE

SPECIFICATION Spec
CONSTANTS
  RecursiveAddsBias = TRUE
  Modes = {"std"}
  Inputs = {1, 2}
  Biases = {3, 4}
  Hidden = {7, 8}
  OutSet = {5, 6}
  Shapes = {{1, 5, 7}}
  WeightScheme <- WS3
  TdFlags = {FALSE}
  RecKinds = {"none", "back", "all"}
  BuildKinds = {"connect", "halves"}
  Variants <- VarQuick
  LinkCaps = {1}
  Canonical = TRUE
  StdOps <- StdOpsCore
  FastOps <- FastOpsCore
  MaxOps = 2
  Thresholds = {2, 30}
  Limit = 100000
  SpKeySets <- SpKeysQuick
  SpAges <- SpAgesQuick
  SpOps <- SpOpsAll
  OrgEnables <- OrgEnQuick
  OrgPre = {FALSE, TRUE}
  OrgOps <- OrgOpsAll
  DamVals = {1, 2, 3}
INVARIANTS ShouldRejectBadLoads StdLaws FastLaws BothAcceptInputs StaticLaws SpeciesLaws OrganismLaws DamagedLaws LogShape ValuesSmall
CHECK_DEADLOCK FALSE

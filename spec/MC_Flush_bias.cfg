SPECIFICATION Spec
CONSTANTS
  RecursiveAddsBias = TRUE
  Inputs = {1, 2}
  Biases = {3, 4}
  Hidden = {7, 8}
  OutSet = {5, 6}
  Shapes = {{1, 3, 5, 7}, {1, 3, 4, 5}}
  Weights <- W1
  TdFlags = {FALSE}
  InVals <- V2
  OrderKinds = {"BIOH"}
  ActSchemes <- SchemesQuick
  LinkCaps = {3}
  SealAtCap = FALSE
  Canonical = TRUE
  FwdKs = {1, 2}
  RelaxKs = {2}
  UseRec = TRUE
  UseAct = FALSE
  MaxHist = 2
  MaxSuf = 2
  Limit = 1000
  FlushWorks = TRUE
INVARIANTS FlushRestores SuffixEqual
CHECK_DEADLOCK FALSE

SPECIFICATION Spec
CONSTANTS
  Inputs = {1}
  Biases = {2}
  Hidden = {4}
  OutSet = {3}
  Weights <- W2
  TdFlags = {FALSE}
  InVals <- V2
  OrderKinds = {"BIOH"}
  ActSchemes <- SchemesQuick
  LinkCaps = {3}
  SealAtCap = FALSE
  Canonical = TRUE
  FwdKs = {1, 2}
  RelaxKs = {2}
  UseRec = TRUE
  UseAct = FALSE
  MaxHist = 2
  MaxSuf = 2
  Limit = 1000
  FlushWorks = TRUE
INVARIANTS FlushRestores SuffixEqual
CHECK_DEADLOCK FALSE

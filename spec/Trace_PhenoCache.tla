------------------------- MODULE Trace_PhenoCache -------------------------
(* C11, cache clause (B1): recorded observations of REAL organisms - after every epoch of the sequential and of the   *)
(* parallel executor every organism of the population, and after every lineage step (duplicate, one mutator,         *)
(* NewOrganism; then UpdatePhenotype; then a further mutation of the living organism's genome + UpdatePhenotype) the *)
(* organism made - each carrying the projection of the organism's CURRENT genome and the projection of what          *)
(* Organism.Phenotype() returned.  The specification's own Genesis decides whether that network is the expression of *)
(* the current genome.  Weights are interned per observation (equal float64 bit patterns <-> equal symbols),         *)
(* activation types are their enum values.  Several runs are concatenated in one file.                               *)
(*                                                                                                                   *)
(* The cache clause relates the two halves of ONE observation and carries no state from one observation to the next, *)
(* so the behaviours of this spec are "nothing observed yet, then observation l" for every l: every counterexample   *)
(* is two states long wherever it sits in the recording, and with TLC's -continue one run lists EVERY stale          *)
(* organism.  TraceAccepted (POSTCONDITION) requires that every recorded line was consumed by Observe: a line no     *)
(* action accepts makes the run an error, not a pass.                                                                *)
EXTENDS Phenotype, TLC, Json, IOUtils

Trace == ndJsonDeserialize(IOEnv.TRACE)

VARIABLE l      \* 0 = nothing observed yet, otherwise the index of the observation being judged

\* Phenotype() may only fail for a genome Genesis refuses (no connection gene / no output)
Fresh(ev) == IF ev.err # "" THEN ~Expressible(ev.genome)
             ELSE CacheFresh(ev.genome, ev.pheno)
\* the quantifier of C11: well-formed genomes; anything else is C01's business and gets no verdict here (counted)
InScope(ev) == WellFormed(ev.genome)

Init == l = 0
Observe == /\ l = 0
           /\ l' \in DOMAIN Trace
           /\ Trace[l'].ev = "org"
Next == Observe
Spec == Init /\ [][Next]_l

Inv_C11_Cache == (l > 0 /\ InScope(Trace[l])) => Fresh(Trace[l])

TraceAccepted ==
    LET n == TLCGet("stats").distinct IN
    IF n = Len(Trace) + 1
    THEN PrintT(<<"observations", Len(Trace), "skipped", Cardinality({i \in DOMAIN Trace : ~InScope(Trace[i])})>>)
    ELSE Print(<<"recorded observations not consumed:", n - 1, "of", Len(Trace)>>, FALSE)
=============================================================================

----------------------------- MODULE Speciation -----------------------------
(***************************************************************************)
(* C08 - speciation: every arriving organism is placed in the existing     *)
(* species whose representative (the FIRST organism of the species) is     *)
(* closest to it among those closer than the compatibility threshold; a    *)
(* new species with a fresh id (LastSpecies + 1) is founded exactly when   *)
(* no representative is closer than the threshold.                         *)
(*                                                                         *)
(* Genomes are abstracted to what the compatibility distance looks at: a   *)
(* set of innovation numbers and a mutation number (shared by the genes of *)
(* one genome, so that the mean mutation difference of two genomes is an   *)
(* integer and every IEEE operation of the implementation is exact).  The  *)
(* distance is the definition of Compat.tla (Def = <<E, D, S, M>>), i.e.   *)
(* the formula C07 binds both implementations to, in QUARTER units:        *)
(* coefficients and thresholds are integers meaning k/4.                   *)
(*                                                                         *)
(* Scan/Assign transcribe Population.speciate (population.go): one pass    *)
(* over the species in list order keeping the best compatible one (strict  *)
(* comparisons: "closer than the threshold", "closer than the best so      *)
(* far", hence the FIRST of several equally close species wins); species   *)
(* without organisms are skipped; a species founded by an earlier organism *)
(* of the same batch is appended at once and is available to later ones.   *)
(* NearestCompatible is the definition the property refers to.             *)
(***************************************************************************)
EXTENDS Compat

\* model genome: [genes |-> set of innovation numbers, mut |-> mutation number of every gene]
GeneList(g) == ListOf(g.genes, [n \in g.genes |-> g.mut])

\* co = [e, d, w]: excess, disjoint and mutation-difference coefficients in quarter units; result in quarter units
MeanDiffExact(a, b) == LET d == Def(GeneList(a), GeneList(b)) IN d.M = 0 \/ d.S % d.M = 0
DistDef(a, b, co) ==
    LET d == Def(GeneList(a), GeneList(b))
    IN  co.e * d.E + co.d * d.D + (IF d.M > 0 THEN co.w * (d.S \div d.M) ELSE 0)
\* the distance as the algorithm below obtains it (model-checking configurations replace it by a table of DistDef)
Dist4(a, b, co) == DistDef(a, b, co)

\* population: [species |-> Seq([id, members : Seq([oid, g])]), last |-> highest species id issued]
Rep(s) == s.members[1]
HasRep(s) == s.members # <<>>
\* distance of genome g to the representative of every species (-1: the species has no organism)
RepDists(pop, g, co) ==
    [i \in DOMAIN pop.species |-> IF HasRep(pop.species[i]) THEN Dist4(g, Rep(pop.species[i]).g, co) ELSE -1]

(* ----- the definition (property C08) ----- *)
Compatible(ds, thr) == { i \in DOMAIN ds : ds[i] >= 0 /\ ds[i] < thr }
NearestCompatible(ds, thr) == { i \in Compatible(ds, thr) : \A j \in Compatible(ds, thr) : ds[i] <= ds[j] }

\* The same rule for distances known only up to tol (fixed-point projection of float64 distances, used by the trace
\* specification): a species may receive the organism if it is possibly compatible and no definitely compatible
\* species is closer by more than tol; a new species may be founded if no species is definitely compatible.
\* With tol = 0 these are exactly NearestCompatible and "NearestCompatible is empty" (checked by MC_Speciation).
DefinitelyCompatible(ds, thr, tol) == { i \in DOMAIN ds : ds[i] >= 0 /\ ds[i] < thr - tol }
MayJoinTol(ds, thr, tol) ==
    { i \in DOMAIN ds : /\ ds[i] >= 0 /\ ds[i] < thr + tol
                        /\ \A j \in DefinitelyCompatible(ds, thr, tol) : ds[i] <= ds[j] + tol }
MayFoundTol(ds, thr, tol) == DefinitelyCompatible(ds, thr, tol) = {}

(* ----- Population.speciate, one organism ----- *)
\* the loop over the species list from position i; best = 0: nothing compatible yet (bestCompatValue = MaxFloat64)
RECURSIVE Scan(_, _, _, _, _)
Scan(ds, thr, i, best, bestVal) ==
    IF i > Len(ds) THEN best
    ELSE IF ds[i] >= 0 /\ ds[i] < thr /\ (best = 0 \/ ds[i] < bestVal) THEN Scan(ds, thr, i + 1, i, ds[i])
    ELSE Scan(ds, thr, i + 1, best, bestVal)

\* createFirstSpecies: LastSpecies++, a species with that id is appended, the organism is its first member
Found(pop, o) ==
    [species |-> Append(pop.species, [id |-> pop.last + 1, members |-> <<o>>]), last |-> pop.last + 1]

\* index (in the species list AFTER the step) of the species that receives organism o, and the new population
Choice(pop, o, thr, co) ==
    IF pop.species = <<>> THEN 0 ELSE Scan(RepDists(pop, o.g, co), thr, 1, 0, 0)
Assign(pop, o, thr, co) ==
    LET b == Choice(pop, o, thr, co)
    IN  IF b = 0 THEN Found(pop, o)
        ELSE [pop EXCEPT !.species[b].members = Append(@, o)]

\* a batch (sequence of organisms) is processed in order
RECURSIVE AssignAll(_, _, _, _)
AssignAll(pop, batch, thr, co) ==
    IF batch = <<>> THEN pop ELSE AssignAll(Assign(pop, Head(batch), thr, co), Tail(batch), thr, co)

SpeciesOf(pop, oid) == { i \in DOMAIN pop.species : \E m \in DOMAIN pop.species[i].members : pop.species[i].members[m].oid = oid }
=============================================================================

------------------------------ MODULE InnovPar ------------------------------
(***************************************************************************)
(* C16 - the innovation-registry protocol of the parallel epoch executor.  *)
(*                                                                         *)
(* One thread per species (the goroutines of                               *)
(* ParallelPopulationEpochExecutor.reproduce) runs a program of structural *)
(* mutations against the shared Population:                                *)
(*   add-link u->v:  Lookup; on a miss IssueInn, Store                     *)
(*   add-node on gene `old` u->v: Lookup; on a miss IssueNode, IssueInn,   *)
(*                                IssueInn, Store                          *)
(* Lookup is Population.Innovations(): it returns the slice as it is at    *)
(* that moment (a snapshot of its length); the scan for a matching record  *)
(* happens on that snapshot, outside any lock.  IssueInn / IssueNode are   *)
(* the atomic counters; Store appends under the mutex.  Every action is    *)
(* one primitive call of the real code, so a behaviour of this module is a *)
(* SCHEDULE that can be forced on real goroutines (binding B3).            *)
(*                                                                         *)
(* LockedRead = TRUE models Innovations() taking the mutex (the repaired   *)
(* code); FALSE models the code as found (an unprotected read of the slice *)
(* header).  AtomicCounters = FALSE splits the increment in read and write *)
(* (used only to show that the model is able to violate NumbersFresh).     *)
(***************************************************************************)
EXTENDS Integers, Sequences, FiniteSets

CONSTANTS Threads, Prog, NInn0, NNode0, LockedRead, AtomicCounters

VARIABLES reg, nInn, nNode, pc, idx, tmp, out, accesses, sched
vars == <<reg, nInn, nNode, pc, idx, tmp, out, accesses, sched>>

Cur(t) == Prog[t][idx[t]]
Match(r, m) == IF m.kind = "node" THEN r.kind = "node" /\ r.src = m.src /\ r.dst = m.dst /\ r.old = m.old
               ELSE r.kind = "link" /\ r.src = m.src /\ r.dst = m.dst /\ r.rec = m.rec
FirstHit(m) == LET S == { i \in DOMAIN reg : Match(reg[i], m) } IN
               IF S = {} THEN 0 ELSE CHOOSE i \in S : \A j \in S : i <= j
Advance(t) == IF idx[t] < Len(Prog[t]) THEN idx' = [idx EXCEPT ![t] = @ + 1] /\ pc' = [pc EXCEPT ![t] = "lookup"]
              ELSE idx' = idx /\ pc' = [pc EXCEPT ![t] = "done"]
Log(t, a) == sched' = Append(sched, <<t, a>>)
Empty == [node |-> 0, inn |-> 0, inn2 |-> 0]

Init == /\ reg = <<>> /\ nInn = NInn0 /\ nNode = NNode0
        /\ pc = [t \in Threads |-> IF Prog[t] = <<>> THEN "done" ELSE "lookup"] /\ idx = [t \in Threads |-> 1]
        /\ tmp = [t \in Threads |-> Empty] /\ out = [t \in Threads |-> <<>>] /\ accesses = {} /\ sched = <<>>

Lookup(t) ==
    /\ pc[t] = "lookup"
    /\ accesses' = accesses \cup {[what |-> "read-registry", locked |-> LockedRead]}
    /\ LET m == Cur(t)  h == FirstHit(m) IN
       IF h # 0
       THEN /\ out' = [out EXCEPT ![t] = Append(@, [m |-> m, node |-> reg[h].node, inn |-> reg[h].inn, inn2 |-> reg[h].inn2, reused |-> TRUE])]
            /\ Advance(t) /\ UNCHANGED tmp
       ELSE /\ pc' = [pc EXCEPT ![t] = IF m.kind = "node" THEN "node" ELSE "inn1"]
            /\ tmp' = [tmp EXCEPT ![t] = Empty] /\ UNCHANGED <<out, idx>>
    /\ Log(t, "lookup") /\ UNCHANGED <<reg, nInn, nNode>>
IssueNode(t) ==
    /\ pc[t] = "node"
    /\ nNode' = nNode + 1 /\ tmp' = [tmp EXCEPT ![t].node = nNode + 1] /\ pc' = [pc EXCEPT ![t] = "inn1"]
    /\ Log(t, "nextnode") /\ UNCHANGED <<reg, nInn, idx, out, accesses>>
IssueInn1(t) ==
    /\ pc[t] = "inn1"
    /\ nInn' = nInn + 1 /\ tmp' = [tmp EXCEPT ![t].inn = nInn + 1]
    /\ pc' = [pc EXCEPT ![t] = IF Cur(t).kind = "node" THEN "inn2" ELSE "store"]
    /\ Log(t, "nextinn") /\ UNCHANGED <<reg, nNode, idx, out, accesses>>
IssueInn2(t) ==
    /\ pc[t] = "inn2"
    /\ nInn' = nInn + 1 /\ tmp' = [tmp EXCEPT ![t].inn2 = nInn + 1] /\ pc' = [pc EXCEPT ![t] = "store"]
    /\ Log(t, "nextinn") /\ UNCHANGED <<reg, nNode, idx, out, accesses>>
Store(t) ==
    /\ pc[t] = "store"
    /\ LET m == Cur(t) IN
       /\ reg' = Append(reg, [kind |-> m.kind, src |-> m.src, dst |-> m.dst, rec |-> m.rec, old |-> m.old,
                              node |-> tmp[t].node, inn |-> tmp[t].inn, inn2 |-> tmp[t].inn2])
       /\ out' = [out EXCEPT ![t] = Append(@, [m |-> m, node |-> tmp[t].node, inn |-> tmp[t].inn, inn2 |-> tmp[t].inn2, reused |-> FALSE])]
    /\ accesses' = accesses \cup {[what |-> "append-registry", locked |-> TRUE]}
    /\ Advance(t) /\ Log(t, "store") /\ UNCHANGED <<nInn, nNode, tmp>>
Next == \E t \in Threads : Lookup(t) \/ IssueNode(t) \/ IssueInn1(t) \/ IssueInn2(t) \/ Store(t)
Spec == Init /\ [][Next]_vars
AllDone == \A t \in Threads : pc[t] = "done"

(* the genes the threads' mutations produce: <<number, src, dst, rec>> *)
GenesOf(o) == IF o.m.kind = "link" THEN { <<o.inn, o.m.src, o.m.dst, o.m.rec>> }
              ELSE { <<o.inn, o.m.src, o.node, o.m.rec>>, <<o.inn2, o.node, o.m.dst, FALSE>> }
Outs == UNION { { out[t][i] : i \in DOMAIN out[t] } : t \in Threads }
Genes == UNION { GenesOf(o) : o \in Outs }
(* C16 / C03: a number denotes one connection, a node id one node; issued numbers are fresh *)
OneMeaningPerNumber == \A a, b \in Genes : a[1] = b[1] => a = b
Fresh == \A o \in Outs : o.inn > NInn0 /\ (o.m.kind = "node" => (o.inn2 > NInn0 /\ o.inn2 # o.inn /\ o.node > NNode0))
NoNumberIssuedTwice == \A o, p \in Outs : (~o.reused /\ ~p.reused /\ o # p) =>
                          ({o.inn, o.inn2} \ {0}) \cap ({p.inn, p.inn2} \ {0}) = {}
NodeIdsOneSplit == \A o, p \in Outs : (o.m.kind = "node" /\ p.m.kind = "node" /\ o.node = p.node) =>
                          (o.m = p.m /\ o.inn = p.inn /\ o.inn2 = p.inn2)
(* lock-set discipline: every access to the registry slice is made under the mutex *)
RaceFree == \A a \in accesses : a.locked
=============================================================================

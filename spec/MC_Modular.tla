------------------------------ MODULE MC_Modular -----------------------------
(* INFORMATION ONLY (modular networks are outside the quantifiers of C12 / C13).  Same experiment as MC_Flush on   *)
(* networks with ONE control node (multiply / max / min module) chosen at sealing time from ModuleChoices: a      *)
(* history of API calls, a flush, and a suffix side by side with a fresh twin.  The invariants say what the       *)
(* SPECIFICATION SolversModular.tla predicts; the replayer reports whether the real code follows the predicted   *)
(* observations and whether instance and twin agree - as information, never as a verdict.                         *)
(*   load v   : LoadSensors                 fwd k : ForwardSteps(k) on both                                       *)
(*   relax k  : Network.ActivateSteps(k)  | fast Relax(k, delta > 0)                                               *)
EXTENDS SolversModular, Json, SequencesExt
CONSTANTS Inputs, Biases, Hidden, OutSet, Shapes,
          Weights, TdFlags, InVals, OrderKinds, ActSchemes, LinkCaps, SealAtCap, Canonical,
          FwdKs, RelaxKs, MaxHist, MaxSuf, Limit, ModuleActs

VARIABLES shape, inc, cap, ph, net, fm, mods, A, T, ops, log, tlog
vars == <<shape, inc, cap, ph, net, fm, mods, A, T, ops, log, tlog>>
\* the nodes of the network under construction are those of `shape`, one of the node sets in Shapes
Ins == Inputs \cap shape
Bis == Biases \cap shape
Hid == Hidden \cap shape
Sensors == Ins \cup Bis
Neurons == Hid \cup (OutSet \cap shape)
Asc(X) == SetToSortSeq(X, <)
Outputs == Asc(OutSet \cap shape)

OrderOf(kind) ==
    CASE kind = "IBHO" -> Asc(Ins) \o Asc(Bis) \o Asc(Hid) \o Outputs
      [] kind = "IBOH" -> Asc(Ins) \o Asc(Bis) \o Outputs \o Asc(Hid)
      [] kind = "BIHO" -> Asc(Bis) \o Asc(Ins) \o Asc(Hid) \o Outputs
      [] kind = "BIOH" -> Asc(Bis) \o Asc(Ins) \o Outputs \o Asc(Hid)
      [] kind = "IBOHr" -> Asc(Ins) \o Asc(Bis) \o Outputs \o Reverse(Asc(Hid))
KindOf(n) == IF n \in Inputs THEN "I" ELSE IF n \in Biases THEN "B" ELSE IF n \in Hidden THEN "H" ELSE "O"
ActsOf(scheme) ==
    LET ns == Asc(Neurons) IN
    [n \in Sensors \cup Neurons |->
        IF n \in Sensors THEN "null"
        ELSE scheme[(((CHOOSE i \in DOMAIN ns : ns[i] = n) - 1) % Len(scheme)) + 1]]
NetOf(order, acts) ==
    [order |-> order, kind |-> [n \in Sensors \cup Neurons |-> KindOf(n)], act |-> acts,
     inputs |-> SelectSeq(order, LAMBDA n : n \in Sensors), outputs |-> Outputs,
     inc |-> [n \in Sensors \cup Neurons |-> IF n \in Neurons THEN inc[n] ELSE <<>>]]
LinkSet == UNION { { <<inc[n][i].src, n>> : i \in DOMAIN inc[n] } : n \in Neurons }
NumLinks == Cardinality(LinkSet)
\* input vectors are drawn with the length of the largest shape (a constant set, so that TLC's simulator can pick one
\* action instance at a time); a smaller shape uses the prefix, the rest being pinned to one value
FullVectors == [1..Cardinality(Inputs) -> InVals]
Padded(v) == \A i \in DOMAIN v : i > Cardinality(Ins) => v[i] = (CHOOSE x \in InVals : TRUE)
Trunc(v) == [i \in 1..Cardinality(Ins) |-> v[i]]
AllNodes == Inputs \cup Biases \cup Hidden \cup OutSet
BoundedActs == \A n \in Neurons : net.act[n] \in {"clip", "null", "sign", "step"}

Op(o, k, v) == [op |-> o, k |-> k, v |-> v]
OpSet == { Op("load", 0, v) : v \in FullVectors } \cup { Op("fwd", k, <<>>) : k \in FwdKs }
         \cup { Op("relax", k, <<>>) : k \in RelaxKs }

\* one API call on an instance X = [std, fast]; the result carries what the caller observes
Obs(nt, m, std, serr, fast) ==
    [so |-> StdOutputs(nt, std), se |-> serr, fo |-> FastOutputs(m, fast), fe |-> FALSE]
Apply(o, X) ==
    CASE o.op = "load" ->
           LET s == StdLoad(net, X.std, o.v)  f == FastLoad(fm, X.fast, o.v)
           IN  [X |-> [std |-> s, fast |-> f], obs |-> Obs(net, fm, s, FALSE, f)]
      [] o.op = "fwd" ->
           LET r == MStdForwardSteps(net, X.std, o.k)  f == MFastForwardSteps(fm, mods, X.fast, o.k)
           IN  [X |-> [std |-> r.st, fast |-> f], obs |-> Obs(net, fm, r.st, r.err, f)]
      [] o.op = "relax" ->
           LET r == MStdActivateSteps(net, X.std, o.k)  f == MFastRelax(fm, mods, X.fast, o.k, TRUE)
           IN  [X |-> [std |-> r.st, fast |-> f], obs |-> Obs(net, fm, r.st, r.err, f)]

\* the control node: inputs = the first two nodes of the network (sensors), output = the first hidden node
ModuleOf(order, act) ==
    LET hs == SelectSeq(order, LAMBDA n : n \in Hid)
    IN  <<[act |-> act, ins |-> <<order[1], order[2]>>, outs |-> <<hs[1]>>]>>

Init == /\ shape \in Shapes /\ inc = [n \in Neurons |-> <<>>] /\ ph = "build" /\ cap \in LinkCaps
        /\ net = <<>> /\ fm = <<>> /\ mods = <<>> /\ A = <<>> /\ T = <<>> /\ ops = <<>> /\ log = <<>> /\ tlog = <<>>

\* any simple digraph: self-loops and cycles are welcome
Addable(u, v) == \A i \in DOMAIN inc[v] : inc[v][i].src # u
CanAdd == NumLinks < cap /\ \E u \in Sensors \cup Neurons, v \in Neurons : Addable(u, v)
AddLink(u, v, w, td) ==
    /\ ph = "build" /\ u \in shape /\ v \in shape /\ NumLinks < cap /\ Addable(u, v)
    /\ Canonical => \A e \in LinkSet : e[2] < v \/ (e[2] = v /\ e[1] < u)
    /\ inc' = [inc EXCEPT ![v] = Append(@, [src |-> u, w |-> w, td |-> td])]
    /\ UNCHANGED <<shape, cap, ph, net, fm, mods, A, T, ops, log, tlog>>
SealGuard == ph = "build" /\ NumLinks >= 1 /\ (SealAtCap => ~CanAdd)
Seal(ok, scheme, mact) ==
    /\ SealGuard
    /\ LET nt == NetOf(OrderOf(ok), ActsOf(scheme)) @@ [ctrl |-> ModuleOf(OrderOf(ok), mact)]
           m  == FastModel(nt)
       IN  /\ net' = nt /\ fm' = m /\ mods' = FastModules(nt, m)
           /\ A' = [std |-> StdFresh(nt), fast |-> FastFresh(m)]
    /\ ph' = "hist"
    /\ UNCHANGED <<shape, inc, cap, T, ops, log, tlog>>
Small(X) == StdSmall(X.std, Limit) /\ FastSmall(X.fast, Limit)
\* a drawn call: load vectors are cut to the shape's number of inputs
Usable(ofull) == ofull.op = "load" => Padded(ofull.v)
Cut(ofull) == IF ofull.op = "load" THEN Op("load", 0, Trunc(ofull.v)) ELSE ofull
Do(ofull) ==
    /\ ph = "hist" /\ Len(ops) < MaxHist /\ Usable(ofull)
    /\ LET o == Cut(ofull)  r == Apply(o, A) IN
         /\ Small(r.X)
         /\ A' = r.X /\ ops' = Append(ops, o) /\ log' = Append(log, r.obs)
    /\ UNCHANGED <<shape, inc, cap, ph, net, fm, mods, T, tlog>>
\* Network.Flush and the fast solver's Flush; the twin is born here
HistCase == [kind |-> "hist", net |-> ModNetJson(net), ops |-> ops, log |-> log]
Flush ==
    /\ ph = "hist" /\ Len(ops) >= 1
    /\ PrintT(ToJson(HistCase))
    /\ A' = [std |-> StdFlush(net, A.std), fast |-> FastFlush(fm, A.fast)]
    /\ T' = [std |-> StdFresh(net), fast |-> FastFresh(fm)]
    /\ ops' = <<>> /\ log' = <<>> /\ tlog' = <<>>
    /\ ph' = "suffix"
    /\ UNCHANGED <<shape, inc, cap, net, fm, mods>>
DoS(ofull) ==
    /\ ph = "suffix" /\ Len(ops) < MaxSuf /\ Usable(ofull)
    /\ LET o == Cut(ofull)  r == Apply(o, A)  t == Apply(o, T) IN
         /\ Small(r.X) /\ Small(t.X)
         /\ A' = r.X /\ T' = t.X /\ ops' = Append(ops, o)
         /\ log' = Append(log, r.obs) /\ tlog' = Append(tlog, t.obs)
    /\ UNCHANGED <<shape, inc, cap, ph, net, fm, mods>>
SufCase == [kind |-> "suffix", net |-> ModNetJson(net), ops |-> ops, log |-> tlog]
EmitS == /\ ph = "suffix" /\ Len(ops) = MaxSuf /\ PrintT(ToJson(SufCase))
         /\ ph' = "done" /\ UNCHANGED <<shape, inc, cap, net, fm, mods, A, T, ops, log, tlog>>

\* (the bound sets are constant so that the simulator draws one action instance at a time)
Next == \/ \E u \in AllNodes, v \in Hidden \cup OutSet, w \in Weights, td \in TdFlags : AddLink(u, v, w, td)
        \/ \E ok \in OrderKinds, sc \in ActSchemes, ma \in ModuleActs : Seal(ok, sc, ma)
        \/ \E o \in OpSet : Do(o) \/ DoS(o)
        \/ Flush \/ EmitS
Spec == Init /\ [][Next]_vars

(* ---- what the specification predicts for modular networks (information) ---- *)
\* right after the flush nothing a later call can observe distinguishes A from a fresh instance
FlushRestores == (ph = "suffix" /\ ops = <<>>) =>
                    /\ A.std = StdFresh(net)
                    /\ FastObservable(A.fast) = FastObservable(FastFresh(fm))
\* ... and indeed no later sequence of calls does
SuffixEqual == ph \in {"suffix", "done"} => log = tlog
W3 == {0 - 1, 1, 2}
W2 == {0 - 1, 2}
W1 == {2}
V3 == {0 - 1, 0, 1}
V2 == {0 - 1, 2}
V1 == {1}
SchemesBounded == {<<"clip">>, <<"step", "clip">>, <<"sign", "step">>}
SchemesQuick   == {<<"linear">>, <<"step", "clip">>}
SchemesLinear  == {<<"linear">>}
SchemesMixed   == {<<"linear">>, <<"clip">>, <<"step", "linear">>}
SchemesAll     == {<<"linear">>, <<"clip">>, <<"step", "linear">>, <<"sign", "step">>, <<"clip", "abs">>,
                   <<"linear", "null", "step">>, <<"step">>}
=============================================================================

SPECIFICATION Spec
CONSTANTS
  Shapes <- ShapesOverlap
  Pats = {0, 1}
  AllowOverlap = TRUE
  MaxIo = 3
  MaxL = 40
INVARIANTS ScopeWellFormed Inv_CyAlgIsDef Inv_CyClosedAndCounted Inv_DotShape Inv_DotAlgIsDef Inv_OverlapLosesAttributes Inv_FileName Inv_Failure
CHECK_DEADLOCK FALSE

------------------------------- MODULE Epoch -------------------------------
(***************************************************************************)
(* C02 / C10 at design level: the turnover protocol of                     *)
(* SequentialPopulationEpochExecutor / ParallelPopulationEpochExecutor     *)
(* (population_epoch.go) on abstract populations.  Organisms are integers  *)
(* (identities), species are records [id, age, novel, members, quota,      *)
(* champ]; genomes are abstracted to lineage tokens: `copyOf[o]` is the    *)
(* organism whose genome o carries unmodified (0 = a modified genome).     *)
(*                                                                         *)
(* One action per phase of NextEpoch: Apportion (adjustFitness +           *)
(* countOffspring + purgeZeroOffspringSpecies + steal/delta, abstracted to *)
(* ANY quota vector that totals N - the arithmetic is Quota.tla's job),    *)
(* Offspring (Species.reproduce: one baby at a time, the champion clone    *)
(* first when the quota exceeds five), Speciate (one baby at a time, in    *)
(* ANY arrival order - this covers the parallel executor - into any        *)
(* existing species or a new one with id lastSpecies+1), PurgeOld,         *)
(* AgeOrDrop (purgeOrAgeSpecies).                                          *)
(***************************************************************************)
EXTENDS Integers, FiniteSets, Sequences

CONSTANTS N,            \* population size
          MaxSpecies,   \* bound on simultaneously existing species
          MaxEpochs,
          ChampQuota    \* the quota above which the champion is cloned (5 in the code)

VARIABLES orgs,         \* set of live organism ids
          species,      \* set of species records
          lastSpecies, nextOid, phase, epoch,
          babies,       \* babies produced and not yet speciated
          copyOf,       \* baby -> organism of the previous generation it is an exact copy of (0 = none)
          prev          \* snapshot [orgs, species] taken at the start of the turnover
vars == <<orgs, species, lastSpecies, nextOid, phase, epoch, babies, copyOf, prev>>

Members(S) == UNION { s.members : s \in S }
SumQuota(S) == LET RECURSIVE Sum(_)
                   Sum(T) == IF T = {} THEN 0 ELSE LET x == CHOOSE y \in T : TRUE IN x.quota + Sum(T \ {x})
               IN Sum(S)

Init == /\ orgs = 1 .. N /\ nextOid = N + 1 /\ lastSpecies = 1 /\ phase = "idle" /\ epoch = 0
        /\ species = { [id |-> 1, age |-> 1, novel |-> TRUE, members |-> 1 .. N, quota |-> 0, champ |-> 1] }
        /\ babies = {} /\ copyOf = <<>> /\ prev = [orgs |-> {}, species |-> {}]

(* any quota vector totalling N; every species names its champion (one of its members) *)
Apportion ==
    /\ phase = "idle" /\ epoch < MaxEpochs
    /\ \E q \in [species -> 0 .. N] : \E ch \in [species -> orgs] :
         /\ \A s \in species : ch[s] \in s.members
         /\ LET S == { [s EXCEPT !.quota = q[s], !.champ = ch[s]] : s \in species } IN
            /\ SumQuota(S) = N
            /\ species' = S
    /\ prev' = [orgs |-> orgs, species |-> species'] /\ phase' = "reproduce"
    /\ babies' = {} /\ copyOf' = <<>>
    /\ UNCHANGED <<orgs, lastSpecies, nextOid, epoch>>

(* Species.reproduce, one baby: the first baby of a species with quota > ChampQuota is the champion clone *)
Produced(s) == Cardinality({ b \in DOMAIN copyOf : copyOf[b].sp = s.id })
Offspring ==
    /\ phase = "reproduce"
    /\ \E s \in prev.species :
         /\ Produced(s) < s.quota
         /\ LET b == nextOid
                clone == s.quota > ChampQuota /\ Produced(s) = 0 IN
            /\ copyOf' = [x \in DOMAIN copyOf \cup {b} |-> IF x = b THEN [sp |-> s.id, of |-> IF clone THEN s.champ ELSE 0] ELSE copyOf[x]]
            /\ babies' = babies \cup {b} /\ nextOid' = nextOid + 1
    /\ UNCHANGED <<orgs, species, lastSpecies, phase, epoch, prev>>
DoneReproducing ==
    /\ phase = "reproduce" /\ \A s \in prev.species : Produced(s) = s.quota
    /\ phase' = "speciate" /\ UNCHANGED <<orgs, species, lastSpecies, nextOid, epoch, babies, copyOf, prev>>

(* Population.speciate, one baby in any arrival order *)
Join(b) == \E s \in species :
    /\ species' = (species \ {s}) \cup { [s EXCEPT !.members = @ \cup {b}] }
    /\ UNCHANGED lastSpecies
Found(b) ==
    /\ Cardinality(species) < MaxSpecies
    /\ species' = species \cup { [id |-> lastSpecies + 1, age |-> 1, novel |-> TRUE, members |-> {b}, quota |-> 0, champ |-> b] }
    /\ lastSpecies' = lastSpecies + 1
Speciate ==
    /\ phase = "speciate" /\ babies # {}
    /\ \E b \in babies : (Join(b) \/ Found(b)) /\ babies' = babies \ {b}
    /\ UNCHANGED <<orgs, nextOid, phase, epoch, copyOf, prev>>
(* purgeOldGeneration + purgeOrAgeSpecies + renumbering *)
Finalize ==
    /\ phase = "speciate" /\ babies = {}
    /\ LET stripped == { [s EXCEPT !.members = @ \ orgs] : s \in species }
           kept == { s \in stripped : s.members # {} } IN
       /\ species' = { [s EXCEPT !.age = IF s.novel THEN s.age ELSE s.age + 1, !.novel = FALSE] : s \in kept }
       /\ orgs' = Members(kept)
    /\ phase' = "idle" /\ epoch' = epoch + 1
    /\ UNCHANGED <<lastSpecies, nextOid, babies, copyOf, prev>>
Next == Apportion \/ Offspring \/ DoneReproducing \/ Speciate \/ Finalize
Spec == Init /\ [][Next]_vars

(* ---- C02 (checked whenever a turnover has completed) ---- *)
Done == phase = "idle" /\ epoch > 0
SizeConserved == Done => Cardinality(orgs) = N
NoSurvivor == Done => orgs \cap prev.orgs = {}
IsPartition == phase = "idle" =>
                  /\ Members(species) = orgs
                  /\ \A s, t \in species : s # t => s.members \cap t.members = {}
NoEmptySpecies == phase = "idle" => \A s \in species : s.members # {}
UniqueIds == \A s, t \in species : s.id = t.id => s = t
MaxPrevId == CHOOSE m \in { p.id : p \in prev.species } : \A p \in prev.species : p.id <= m
FreshIds == Done => \A s \in species : (\A p \in prev.species : p.id # s.id) => s.id > MaxPrevId
AgeRule == Done => \A s \in species :
              IF \E p \in prev.species : p.id = s.id
              THEN LET p == CHOOSE p \in prev.species : p.id = s.id IN s.age = (IF p.novel THEN p.age ELSE p.age + 1)
              ELSE s.age = 1
(* ---- C10 ---- *)
ChampionKept == Done => \A p \in prev.species : p.quota > ChampQuota =>
                   \E o \in orgs : o \in DOMAIN copyOf /\ copyOf[o].of = p.champ
=============================================================================

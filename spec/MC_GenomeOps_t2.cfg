SPECIFICATION Spec
CONSTANTS
  MaxOps = 4
  MaxPool = 5
  MaxGenes = 6
  MaxNodes = 5
  MaxGens = 1
  Starts = {2}
INVARIANTS AllWellFormed AllRetain OneMeaningPerNumber OneRolePerNode CountersAhead RegistryFunctional StepStatements
CHECK_DEADLOCK FALSE

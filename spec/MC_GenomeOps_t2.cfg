SPECIFICATION Spec
CONSTANTS
  MaxOps = 3
  MaxPool = 4
  MaxGenes = 8
  MaxNodes = 7
  MaxGens = 2
  Starts = {2}
INVARIANTS AllWellFormed AllRetain OneMeaningPerNumber OneRolePerNode CountersAhead RegistryFunctional StepStatements
CHECK_DEADLOCK FALSE

SPECIFICATION Spec
CONSTANTS
  NumRuns = 1
  NumGens = 3
INVARIANTS EvalOrder FreshPopulations StopAfterSolved TrialsInOrder Recorded ObserverProtocol NoObserverNoCalls Final SolvedNotTurnedOver
PROPERTIES Terminates
CHECK_DEADLOCK FALSE

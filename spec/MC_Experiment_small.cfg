SPECIFICATION Spec
CONSTANTS
  Lazies = {FALSE, TRUE}
  NumRuns = 1
  NumGens = 3
  ObserverCancels = TRUE
INVARIANTS NoEvalAfterObserverCancel EvalOrder FreshPopulations StopAfterSolved TrialsInOrder Recorded ObserverProtocol NoObserverNoCalls Final SolvedNotTurnedOver
PROPERTIES Terminates
CHECK_DEADLOCK FALSE

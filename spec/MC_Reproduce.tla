---------------------------- MODULE MC_Reproduce ----------------------------
(***************************************************************************)
(* Bounded exhaustive exploration of the branch protocol of                *)
(* Species.reproduce (Part 1 of Reproduce.tla) with genomes abstracted to  *)
(* tokens.  N species reproduce one after the other, as the sequential     *)
(* executor calls them; every species table over the configured quotas,    *)
(* pool sizes and super-champion counters (counter <= quota, as the epoch  *)
(* preparation guarantees), every order of the sorted species list, every  *)
(* class of the three probabilities that enable / disable branches and     *)
(* every outcome of the coins are explored.  One action per branch, so     *)
(* that `-coverage 1` shows that no branch is dead.                        *)
(*                                                                         *)
(* A baby is the token [k, sp, mom, dsp, dad, mutated]:                    *)
(*   k = "super-exact" | "super-mutated" | "champion-clone" |              *)
(*       "mutate-only" | "mate-within" | "mate-inter"                      *)
(*   mom / dad = position in the pool of species sp / dsp (1 = champion).  *)
(* Only the last baby is kept, with counts of what was produced.           *)
(***************************************************************************)
EXTENDS Reproduce, TLC

CONSTANTS N, Quotas, Pools, Counters
Species == 1 .. N
Classes == {NEVER, ALWAYS, SOMETIMES}
Perms == { p \in [Species -> Species] : \A i, j \in Species : i # j => p[i] # p[j] }

VARIABLES P,        \* probability classes [mutateOnly, inter, mateOnly]
          table,    \* species -> [quota, pool, counter] as prepared
          sorted,   \* the sorted species list (a permutation)
          turn,     \* species now reproducing (N + 1 = all done)
          st,       \* species -> protocol state of Reproduce.tla
          cnt,      \* species -> [copies, clones, supers, firstOther]: exact copies of the champion, champion clones, super-champion babies, index of the first baby of another kind (0 = none)
          last      \* the baby produced by the last step (or a marker)
vars == <<P, table, sorted, turn, st, cnt, last>>

NoBaby == [k |-> "none", sp |-> 0, mom |-> 0, dsp |-> 0, dad |-> 0, mutated |-> FALSE]
Start(t) == [quota |-> t.quota, pool |-> t.pool, counter |-> t.counter, cloneDone |-> FALSE, made |-> 0, exact |-> FALSE]

Init ==
    /\ P \in [mutateOnly : Classes, inter : Classes, mateOnly : Classes]
    /\ table \in [Species -> { t \in [quota : Quotas, pool : Pools, counter : Counters] : t.counter <= t.quota }]
    /\ sorted \in Perms
    /\ turn = 1
    /\ st = [i \in Species |-> Start(table[i])]
    /\ cnt = [i \in Species |-> [copies |-> 0, clones |-> 0, supers |-> 0, firstOther |-> 0]]
    /\ last = NoBaby

Produce(i, kind, baby) ==
    /\ st' = [st EXCEPT ![i] = After(@, kind)]
    /\ cnt' = [cnt EXCEPT ![i] = [copies |-> @.copies + (IF baby.k \in {"super-exact", "champion-clone"} THEN 1 ELSE 0),
                                   clones |-> @.clones + (IF baby.k = "champion-clone" THEN 1 ELSE 0),
                                   supers |-> @.supers + (IF kind = "super-champion" THEN 1 ELSE 0),
                                   firstOther |-> IF kind # "super-champion" /\ @.firstOther = 0 THEN st[i].made + 1 ELSE @.firstOther]]
    /\ last' = baby
    /\ UNCHANGED <<P, table, sorted, turn>>

SuperExact(i) ==
    /\ BranchEnabled(st[i], "super-champion", P) /\ ~SuperMutates(st[i])
    /\ Produce(i, "super-champion", [k |-> "super-exact", sp |-> i, mom |-> 1, dsp |-> 0, dad |-> 0, mutated |-> FALSE])
SuperMutated(i) ==
    /\ BranchEnabled(st[i], "super-champion", P) /\ SuperMutates(st[i])
    /\ Produce(i, "super-champion", [k |-> "super-mutated", sp |-> i, mom |-> 1, dsp |-> 0, dad |-> 0, mutated |-> TRUE])
ChampionClone(i) ==
    /\ BranchEnabled(st[i], "champion-clone", P)
    /\ Produce(i, "champion-clone", [k |-> "champion-clone", sp |-> i, mom |-> 1, dsp |-> 0, dad |-> 0, mutated |-> FALSE])
MutateOnly(i) ==
    /\ BranchEnabled(st[i], "mutate-only", P)
    /\ \E m \in 1 .. st[i].pool :
         Produce(i, "mutate-only", [k |-> "mutate-only", sp |-> i, mom |-> m, dsp |-> 0, dad |-> 0, mutated |-> TRUE])
MateWithin(i) ==
    /\ BranchEnabled(st[i], "mate", P) /\ WithinMay(P)
    /\ \E m, d \in 1 .. st[i].pool : \E mut \in BOOLEAN :
         (* same organism: must be mutated; otherwise the coin decides (compatibility 0 is not modelled: it only forces TRUE) *)
         /\ (m = d => mut) /\ (P.mateOnly = NEVER => mut) /\ (P.mateOnly = ALWAYS /\ m # d => mut \in BOOLEAN)
         /\ Produce(i, "mate", [k |-> "mate-within", sp |-> i, mom |-> m, dsp |-> i, dad |-> d, mutated |-> mut])
MateInter(i) ==
    /\ BranchEnabled(st[i], "mate", P) /\ InterMay(P)
    /\ \E m \in 1 .. st[i].pool : \E k \in Species : \E mut \in BOOLEAN :
         /\ \E giveup \in 1 .. 5 : InterPickOK(i, sorted[k], giveup, sorted)
         /\ table[sorted[k]].pool >= 1
         /\ (sorted[k] = i /\ m = 1 => mut) /\ (P.mateOnly = NEVER => mut)
         /\ Produce(i, "mate", [k |-> "mate-inter", sp |-> i, mom |-> m, dsp |-> sorted[k], dad |-> 1, mutated |-> mut])
NextSpecies ==
    /\ turn <= N /\ Finished(st[turn])
    /\ turn' = turn + 1 /\ last' = NoBaby
    /\ UNCHANGED <<P, table, sorted, st, cnt>>
Done == turn = N + 1 /\ UNCHANGED vars

ASuperExact == turn <= N /\ SuperExact(turn)
ASuperMutated == turn <= N /\ SuperMutated(turn)
AChampionClone == turn <= N /\ ChampionClone(turn)
AMutateOnly == turn <= N /\ MutateOnly(turn)
AMateWithin == turn <= N /\ MateWithin(turn)
AMateInter == turn <= N /\ MateInter(turn)
Next == ASuperExact \/ ASuperMutated \/ AChampionClone \/ AMutateOnly \/ AMateWithin \/ AMateInter \/ NextSpecies \/ Done
Spec == Init /\ [][Next]_vars

(* ------------------------------------------------------------ invariants *)
(* the conditions of the branches are exhaustive and exclusive: while a species owes offspring exactly one of            *)
(* super-champion / champion-clone / "draw" is enabled, and under "draw" mutate-only or mating (deadlock checking is on) *)
OneBranch ==
    turn <= N /\ ~Finished(st[turn]) =>
       LET s == st[turn] IN
       /\ Cardinality({ b \in {"super", "clone", "draw"} :
                          CASE b = "super" -> SuperEnabled(s) [] b = "clone" -> CloneEnabled(s) [] b = "draw" -> DrawEnabled(s) }) = 1
       /\ DrawEnabled(s) => (MutateOnlyEnabled(s, P) \/ MateEnabled(s, P))
NeverBeyondQuota == \A i \in Species : st[i].made <= st[i].quota
QuotaExact == \A i \in Species : i < turn => st[i].made = table[i].quota
(* C10 at the level of the protocol: a species with quota > 5 leaves an unmodified copy of its champion *)
ChampionCopy == \A i \in Species : (i < turn /\ table[i].quota > 5) => cnt[i].copies >= 1 /\ st[i].exact
AtMostOneClone == \A i \in Species : cnt[i].clones <= 1 /\ (cnt[i].clones = 1 => table[i].quota > 5)
(* the super-champion offspring are exactly `counter` babies, they come first and the last of them is the exact copy *)
SuperFirst == \A i \in Species :
                 /\ cnt[i].supers <= table[i].counter
                 /\ cnt[i].firstOther # 0 => (cnt[i].supers = table[i].counter /\ cnt[i].firstOther = table[i].counter + 1)
                 /\ i < turn => cnt[i].supers = table[i].counter /\ st[i].counter = 0
SuperExactLast == (last.k = "super-exact" => st[last.sp].counter = 0) /\ (last.k = "super-mutated" => st[last.sp].counter >= 1)
(* parents are survivors; an interspecies dad is the champion of a species of the leading quarter *)
ParentsOK == last.k \in {"mutate-only", "mate-within", "mate-inter"} =>
                /\ last.mom \in 1 .. table[last.sp].pool
                /\ last.k = "mate-within" => last.dad \in 1 .. table[last.sp].pool /\ table[last.sp].pool > 1
                /\ last.k = "mate-inter" => last.dad = 1 /\ \E k \in Species : sorted[k] = last.dsp /\ LeadingQuarter(k, N)
                /\ last.k # "mutate-only" => table[last.sp].pool > 1
(* a child of one organism with itself is always mutated *)
SelfMatingMutated == (last.k \in {"mate-within", "mate-inter"} /\ last.dsp = last.sp /\ last.dad = last.mom) => last.mutated
(* probabilities 0 / 1 switch branches off *)
ClassesRespected ==
    /\ (last.k = "mutate-only" /\ P.mutateOnly = NEVER) => table[last.sp].pool = 1
    /\ (last.k \in {"mate-within", "mate-inter"}) => P.mutateOnly # ALWAYS
    /\ last.k = "mate-within" => P.inter # ALWAYS
    /\ last.k = "mate-inter" => P.inter # NEVER
=============================================================================

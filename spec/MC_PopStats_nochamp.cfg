SPECIFICATION Spec
CONSTANTS
  Fits = {0}
  His = {0}
  MaxOrgs = 1
  MaxSpecies = 0
  ChampFits = {2}
  WithNoChamp = TRUE
  MaxGens = 2
  MaxTrials = 2
  MaxTrialGens = 1
INVARIANTS FillLaws TrialLaws ExperLaws
CHECK_DEADLOCK FALSE

SPECIFICATION MCSpec
CONSTANTS
  Threads = {1, 2, 3}
  Prog <- Progs
  NInn0 = 1
  NNode0 = 4
  LockedRead = TRUE
  AtomicCounters = TRUE
  Scenario = "split-link"
INVARIANTS OneMeaningPerNumber Fresh NoNumberIssuedTwice NodeIdsOneSplit RaceFree
CHECK_DEADLOCK FALSE

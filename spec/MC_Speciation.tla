--------------------------- MODULE MC_Speciation ---------------------------
(* C08: an existing population (0..ns species, each with a representative genome and, for shape "two", a second,    *)
(* maximally different member) receives a batch of nb organisms one after the other; every genome over the          *)
(* innovation numbers 1..K, every arrival order, thresholds/coefficients from Params.  In simulation mode the same  *)
(* actions are taken at random over a larger scope.                                                                 *)
EXTENDS Speciation, TLC, Json
CONSTANTS K,            \* innovation numbers 1..K
          Params,       \* set of [co |-> [e, d, w], thr, muts, ns, nb]: coefficients and threshold in quarter units,
                        \* mutation numbers, number of existing species 0..ns, organisms in the batch nb
          Shapes,       \* subset of {"one", "two", "hole"}: members of an existing species besides its representative
          Ids, Last0    \* ids of the existing species (a sequence, in list order) and LastSpecies when there are any

VARIABLES pop, par, log, nextOid, init
vars == <<pop, par, log, nextOid, init>>

Genomes(muts) == [genes : SUBSET (1..K), mut : muts]
Complement(g) == [genes |-> (1..K) \ g.genes, mut |-> g.mut]
\* all distances in scope, computed once from the definition
Cos == { p.co : p \in Params }
AllMuts == UNION { p.muts : p \in Params }
MutsOf(co) == UNION { p.muts : p \in { q \in Params : q.co = co } }
\* (TLCEval: function constructors are lazy in TLC; this makes the table an explicit value)
DistTable == TLCEval([co \in Cos |-> TLCEval([a \in Genomes(MutsOf(co)) |-> TLCEval([b \in Genomes(MutsOf(co)) |-> DistDef(a, b, co)])])])
DistLookup(a, b, co) == DistTable[co][a][b]
ExactTable == \A co \in Cos : \A a, b \in Genomes(MutsOf(co)) : MeanDiffExact(a, b)
ASSUME ExactTable    \* the abstraction is exact: the mean mutation difference of any two genomes in scope is an integer

\* The existing population is built first, species by species (phase "setup"): shape "one": the representative alone;
\* "two": representative + its complement (a maximally different second member); "hole": as "two" but when the
\* population is sealed one species of the list loses all its organisms (speciate skips such a species).
Init == \E p \in Params, shape \in Shapes :
            /\ par = [p EXCEPT !.shape = shape]
            /\ pop = [species |-> <<>>, last |-> 0]
            /\ init = [species |-> <<>>, last |-> 0, phase |-> "setup"]
            /\ log = <<>>
            /\ nextOid = 1
AddExisting(g) ==
    /\ init.phase = "setup" /\ Len(pop.species) < par.ns
    /\ LET i == Len(pop.species) + 1
           ms == IF par.shape = "one" THEN << [oid |-> i, g |-> g] >>
                 ELSE << [oid |-> i, g |-> g], [oid |-> 100 + i, g |-> Complement(g)] >>
       IN pop' = [species |-> Append(pop.species, [id |-> Ids[i], members |-> ms]), last |-> Last0]
    /\ UNCHANGED <<par, log, nextOid, init>>
Seal ==
    /\ init.phase = "setup"
    /\ par.shape # (CHOOSE s \in Shapes : TRUE) => pop.species # <<>>      \* the empty population once per parameter set
    /\ LET n == Len(pop.species)
           sealed == IF par.shape = "hole" /\ n > 0 THEN [pop EXCEPT !.species[(n + 1) \div 2].members = <<>>] ELSE pop
       IN /\ pop' = sealed
          /\ init' = [species |-> sealed.species, last |-> sealed.last, phase |-> "run"]
    /\ nextOid' = 201
    /\ UNCHANGED <<par, log>>

SortedGenes(g) == SelectSeq([i \in 1..K |-> i], LAMBDA n : n \in g.genes)
OrgJ(o) == [oid |-> o.oid, genes |-> SortedGenes(o.g), mut |-> o.g.mut]
PopJ(p) == [i \in DOMAIN p.species |-> [id |-> p.species[i].id,
                                         members |-> [m \in DOMAIN p.species[i].members |-> p.species[i].members[m].oid]]]
\* B2: a finished behaviour - the existing population, the batch in arrival order, and for every arrival the species
\* it must end up in (position in the species list, id, founded or joined), LastSpecies afterwards, and how many
\* species were compatible / nearest (for the coverage rule of the replayer)
CaseOf(lg, p) ==
    [co |-> par.co, thr |-> par.thr, last0 |-> init.last,
     species |-> [i \in DOMAIN init.species |-> [id |-> init.species[i].id,
                    members |-> [m \in DOMAIN init.species[i].members |-> OrgJ(init.species[i].members[m])]]],
     batch |-> [i \in DOMAIN lg |-> OrgJ(lg[i].o)],
     steps |-> [i \in DOMAIN lg |-> [sid |-> lg[i].sid, founded |-> lg[i].founded, last |-> lg[i].lastAfter,
                                     nspecies |-> Len(lg[i].ds), ncompat |-> Cardinality(Compatible(lg[i].ds, par.thr)),
                                     nnearest |-> Cardinality(NearestCompatible(lg[i].ds, par.thr)),
                                     firstcompat |-> IF Compatible(lg[i].ds, par.thr) = {} THEN 0 ELSE Min(Compatible(lg[i].ds, par.thr)),
                                     near |-> SetToSeq(NearestCompatible(lg[i].ds, par.thr)), idx |-> lg[i].idx]],
     final |-> PopJ(p)]

Arrive(g) ==
    /\ init.phase = "run" /\ Len(log) < par.nb
    /\ LET o == [oid |-> nextOid, g |-> g]
           ds == RepDists(pop, g, par.co)
           b == Choice(pop, o, par.thr, par.co)
           np == Assign(pop, o, par.thr, par.co)
           idx == IF b = 0 THEN Len(np.species) ELSE b
           e == [o |-> o, ds |-> ds, idx |-> idx, sid |-> np.species[idx].id, founded |-> b = 0,
                 lastBefore |-> pop.last, lastAfter |-> np.last]
       IN /\ pop' = np
          /\ log' = Append(log, e)
          /\ (Len(log) + 1 = par.nb) => PrintT(ToJson(CaseOf(log', np)))
    /\ nextOid' = nextOid + 1
    /\ UNCHANGED <<par, init>>
Next == Seal \/ \E g \in Genomes(par.muts) : AddExisting(g) \/ Arrive(g)
Spec == Init /\ [][Next]_vars

(* ---------------- scopes ---------------- *)
Co(e, d, w) == [e |-> e, d |-> d, w |-> w]
P(co, thr, muts, ns, nb) == [co |-> co, thr |-> thr, muts |-> muts, ns |-> ns, nb |-> nb, shape |-> ""]
\* quarter units: Co(4,4,0) = coefficients 1/1/0, thr 8 = threshold 2.0 (distances 0,4,8,... so "distance = threshold" occurs)
ParamsQuick    == { P(Co(4, 4, 0), 8, {0}, 2, 3), P(Co(8, 4, 4), 12, {0, 1}, 1, 2) }                       \* K = 3
ParamsHole     == { P(Co(4, 4, 0), 4, {0}, 3, 2) }                                                        \* K = 2
ParamsThorough == { P(Co(4, 4, 0), 4, {0}, 2, 2), P(Co(4, 4, 0), 8, {0}, 2, 2), P(Co(4, 4, 0), 10, {0}, 2, 2),
                    P(Co(4, 8, 0), 13, {0}, 2, 2), P(Co(8, 4, 4), 12, {0, 1}, 1, 2), P(Co(2, 4, 1), 6, {0, 2}, 1, 2) } \* K = 4
ParamsDeep     == { P(Co(4, 4, 0), 8, {0}, 3, 3), P(Co(8, 4, 4), 12, {0, 1}, 2, 2) }                       \* K = 3
ParamsSim      == { P(Co(4, 4, 0), 8, {0}, 4, 6), P(Co(4, 4, 0), 12, {0}, 2, 6), P(Co(8, 4, 4), 12, {0, 1}, 4, 6),
                    P(Co(2, 4, 1), 6, {0, 2}, 3, 6), P(Co(4, 4, 2), 9, {0, 1, 3}, 4, 6), P(Co(0, 4, 4), 8, {0, 2}, 1, 6),
                    P(Co(4, 4, 0), 1, {0}, 4, 6), P(Co(4, 4, 0), 100, {0}, 4, 6) }                          \* K = 5, simulation
IdsDef == <<2, 5, 7, 11>>

(* ---------------- properties (C08) ---------------- *)
\* BFS visits every prefix of every behaviour, so the per-arrival clauses are evaluated on the newest log entry
Newest == IF log = <<>> THEN {} ELSE {Len(log)}
AllOids(p) == UNION { { p.species[i].members[m].oid : m \in DOMAIN p.species[i].members } : i \in DOMAIN p.species }
\* every organism (old and new) is in exactly one species, once
Partition ==
    /\ init.phase = "run" => AllOids(pop) = AllOids(init) \cup { log[i].o.oid : i \in DOMAIN log }
    /\ \A oid \in AllOids(pop) : Cardinality(SpeciesOf(pop, oid)) = 1
    /\ \A i \in DOMAIN pop.species : \A m1, m2 \in DOMAIN pop.species[i].members :
          m1 # m2 => pop.species[i].members[m1].oid # pop.species[i].members[m2].oid
\* the rule itself, stated on the recorded distances (which come from the definition, not from Scan)
NearestRule ==
    \A i \in Newest :
      LET e == log[i]  near == NearestCompatible(e.ds, par.thr) IN
      IF near = {} THEN e.founded /\ e.sid = e.lastBefore + 1 /\ e.lastAfter = e.lastBefore + 1 /\ e.idx = Len(e.ds) + 1
      ELSE ~e.founded /\ e.idx \in near /\ e.lastAfter = e.lastBefore
\* the tolerance form of the rule used for real (float) distances degenerates to the definition when tol = 0
TolZero == \A i \in Newest : /\ MayJoinTol(log[i].ds, par.thr, 0) = NearestCompatible(log[i].ds, par.thr)
                             /\ MayFoundTol(log[i].ds, par.thr, 0) <=> (NearestCompatible(log[i].ds, par.thr) = {})
\* the code's tie rule (more than the statement demands): the first of several equally close species
FirstOfNearest == \A i \in Newest : ~log[i].founded => log[i].idx = Min(NearestCompatible(log[i].ds, par.thr))
\* consequence clause: every organism of the batch is the founder (first member) of its species or within the
\* threshold of the species' first member
Consequence ==
    \A i \in DOMAIN log :
      LET o == log[i].o  s == pop.species[CHOOSE k \in SpeciesOf(pop, o.oid) : TRUE] IN
      Rep(s).oid = o.oid \/ DistDef(o.g, Rep(s).g, par.co) < par.thr
\* fresh ids: pairwise different, larger than everything issued before, increasing in order of foundation
FreshIds ==
    /\ \A i, j \in DOMAIN pop.species : i # j => pop.species[i].id # pop.species[j].id
    /\ \A i \in DOMAIN pop.species : pop.species[i].id <= pop.last
    /\ \A i \in DOMAIN log : log[i].founded =>
          /\ log[i].sid > init.last
          /\ \A k \in DOMAIN init.species : log[i].sid # init.species[k].id
          /\ \A j \in DOMAIN log : (j < i /\ log[j].founded) => log[j].sid < log[i].sid
\* nothing but the receiving species changes; representatives never change; existing species keep their place
Frame == [][ init.phase = "run" =>
             /\ Len(pop'.species) >= Len(pop.species)
             /\ \A i \in DOMAIN pop.species :
                   /\ pop'.species[i].id = pop.species[i].id
                   /\ HasRep(pop.species[i]) => Rep(pop'.species[i]) = Rep(pop.species[i])
                   /\ i # log'[Len(log')].idx => pop'.species[i] = pop.species[i] ]_vars
=============================================================================

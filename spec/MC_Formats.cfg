SPECIFICATION Spec
CONSTANTS
  Shapes <- ShapesQuick
  Pats = {0, 1, 2}
  AllowOverlap = FALSE
  MaxIo = 3
  MaxL = 40
INVARIANTS ScopeWellFormed Inv_CyAlgIsDef Inv_CyClosedAndCounted Inv_DotShape Inv_DotAlgIsDef Inv_FileName Inv_Failure
CHECK_DEADLOCK FALSE

SPECIFICATION Spec
CONSTANTS
  TypeCodes <- AllBytes
  ProbeNames <- UnknownNames
  G = 12
  XMax = 8
  FineM = 0
  BigExps <- ThoroughBig
  TinyExps <- ThoroughTiny
  Vals <- ThoroughVals
  MaxLen = 4
  Scales <- AllScales
  ProdScales <- AllProdScales
  FirstSeed = TRUE
  FreshMaps = TRUE
INVARIANTS FactoryIndependent RegOneToOne UnknownIsError NameRoundTrip ScalarInRange ScalarMonotone ScalarShape ModuleDefinition ModuleAltDefinition
PROPERTY FactoryStepLaw
CHECK_DEADLOCK FALSE

\* module reducers on longer vectors (length 1..7 over 3 integers); registry and scalar parts as in the other configs but tiny
SPECIFICATION Spec
CONSTANTS
  TypeCodes <- AllBytes
  ProbeNames <- UnknownNames
  G = 0
  XMax = 8
  FineM = 2
  BigExps <- TokenBig
  TinyExps <- TokenTiny
  Vals <- LongVals
  MaxLen = 7
  Scales <- AllScales
  ProdScales <- LongProdScales
  FirstSeed = TRUE
  FreshMaps = TRUE
INVARIANTS FactoryIndependent RegOneToOne UnknownIsError NameRoundTrip ScalarInRange ScalarMonotone ScalarShape ModuleDefinition ModuleAltDefinition
PROPERTY FactoryStepLaw
CHECK_DEADLOCK FALSE

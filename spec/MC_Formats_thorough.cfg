SPECIFICATION Spec
CONSTANTS
  Shapes <- ShapesThorough
  Pats = {0, 1, 2}
  AllowOverlap = FALSE
  MaxIo = 4
  MaxL = 40
INVARIANTS ScopeWellFormed Inv_CyAlgIsDef Inv_CyClosedAndCounted Inv_DotShape Inv_DotAlgIsDef Inv_FileName Inv_Failure
CHECK_DEADLOCK FALSE

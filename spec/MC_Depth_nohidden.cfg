SPECIFICATION Spec
CONSTANTS
  ClearOnError = TRUE
  Sensors = {1, 2}
  Hidden = {}
  OutSet = {3, 4}
  Caps = {0, 1, 2}
  MaxQ = 2
  MaxEdges = 8
  Canonical = FALSE
INVARIANTS MarksClean DagDepth Bounds CapLaw Stable NoHiddenIsOne
CHECK_DEADLOCK FALSE

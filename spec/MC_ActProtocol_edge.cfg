SPECIFICATION Spec
CONSTANTS
  RecursiveAddsBias = TRUE
  Modes = {"std", "fast", "static"}
  Inputs = {1, 2}
  Biases = {3, 4}
  Hidden = {7, 8}
  OutSet = {5, 6}
  Shapes = {{1, 3, 5, 6}, {3, 4, 5}}
  WeightScheme <- WS4
  TdFlags = {FALSE, TRUE}
  RecKinds = {"none", "back", "all"}
  BuildKinds = {"connect", "halves"}
  Variants <- VarEdge
  LinkCaps = {2}
  Canonical = TRUE
  StdOps <- StdOpsEdge
  FastOps <- FastOpsEdge
  MaxOps = 2
  Thresholds = {2, 30}
  Limit = 100000
  SpKeySets <- SpKeysQuick
  SpAges <- SpAgesQuick
  SpOps <- SpOpsAll
  OrgEnables <- OrgEnQuick
  OrgPre = {FALSE, TRUE}
  OrgOps <- OrgOpsAll
  DamVals = {1, 2, 3}
INVARIANTS StdLaws FastLaws BothAcceptInputs StaticLaws SpeciesLaws OrganismLaws DamagedLaws LogShape ValuesSmall
CHECK_DEADLOCK FALSE

SPECIFICATION MCSpec
CONSTANTS
  Threads = {1, 2}
  Prog <- Progs
  NInn0 = 1
  NNode0 = 4
  LockedRead = TRUE
  AtomicCounters = TRUE
  Scenario = "split-linksplit"
INVARIANTS OneMeaningPerNumber Fresh NoNumberIssuedTwice NodeIdsOneSplit RaceFree
CHECK_DEADLOCK FALSE

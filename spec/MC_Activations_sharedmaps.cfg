\* NewNodeActivatorsFactory modelled as a copy of the default factory's struct (shared maps): FactoryIndependent is expected to FAIL
SPECIFICATION Spec
CONSTANTS
  TypeCodes <- AllBytes
  ProbeNames <- UnknownNames
  G = 6
  XMax = 8
  FineM = 16
  BigExps <- QuickBig
  TinyExps <- QuickTiny
  Vals <- QuickVals
  MaxLen = 4
  Scales <- AllScales
  ProdScales <- AllProdScales
  FirstSeed = TRUE
  FreshMaps = FALSE
INVARIANTS FactoryIndependent RegOneToOne UnknownIsError NameRoundTrip ScalarInRange ScalarMonotone ScalarShape ModuleDefinition ModuleAltDefinition
PROPERTY FactoryStepLaw
CHECK_DEADLOCK FALSE

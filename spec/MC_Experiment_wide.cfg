SPECIFICATION Spec
CONSTANTS
  NumRuns = 3
  NumGens = 1
INVARIANTS EvalOrder FreshPopulations StopAfterSolved TrialsInOrder Recorded ObserverProtocol NoObserverNoCalls Final SolvedNotTurnedOver
PROPERTIES Terminates
CHECK_DEADLOCK FALSE

SPECIFICATION Spec
CONSTANTS
  Lazies = {FALSE, TRUE}
  NumRuns = 3
  NumGens = 1
  ObserverCancels = TRUE
INVARIANTS NoEvalAfterObserverCancel EvalOrder FreshPopulations StopAfterSolved TrialsInOrder Recorded ObserverProtocol NoObserverNoCalls Final SolvedNotTurnedOver
PROPERTIES Terminates
CHECK_DEADLOCK FALSE

SPECIFICATION Spec
CONSTANTS
  MaxOps = 4
  MaxPool = 5
  MaxGenes = 6
  MaxNodes = 6
  MaxGens = 1
  Starts = {1}
INVARIANTS AllWellFormed AllRetain OneMeaningPerNumber OneRolePerNode CountersAhead RegistryFunctional StepStatements
CHECK_DEADLOCK FALSE

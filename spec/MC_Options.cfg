SPECIFICATION Spec
CONSTANTS
  Patterns <- QuickPatterns
  PertPatterns <- OnePattern
  ExecVals <- Execs4
  CompatVals <- Compats4
  LevelVals <- Levels6
  ActEntries <- QuickActEntries
  MaxActLines = 3
  MaxStack = 3
INVARIANTS StatusKnown ReadersAgree ValidationExact PlainOrderIndependent PlainLastWins YamlIgnoresUnknownKeys
           OnlyYamlHasActivators ValidateOrder ContextLaws
CHECK_DEADLOCK FALSE

----------------------------- MODULE Experiment -----------------------------
(***************************************************************************)
(* C20 - the trial / generation protocol of Experiment.Execute.            *)
(*                                                                         *)
(* The run is driven by a script: script[r][g] is what the (scripted)      *)
(* evaluator does when it is asked to evaluate generation g of trial r:    *)
(*   "ok"      evaluate, not solved                                        *)
(*   "solved"  evaluate, report the generation solved                      *)
(*   "fail"    return an error                                             *)
(*   "failctx" return an error that wraps context.Canceled while the run   *)
(*             context is alive (the evaluator's own child context died)   *)
(*   "fsolved" report the generation solved (champion set) AND return an    *)
(*             error from the same call (e.g. writing the winner failed)   *)
(*   "cancel"  cancel the context while evaluating, report not solved      *)
(*   "csolved" cancel the context while evaluating, report solved          *)
(* Independently the scripted OBSERVER may cancel the context while it is   *)
(* being notified (ocancel: a set of notifications <<kind, trial, gen>>).   *)
(* The statement of C20 fixes that a population is turned over between two  *)
(* evaluations of a trial and never after a solved generation; it does not  *)
(* fix the MOMENT.  lazy = FALSE is the code as found (turnover right after *)
(* an unsolved evaluation, failing on a cancelled context); lazy = TRUE is  *)
(* the other admissible implementation (turnover just before the next       *)
(* evaluation, after the cancellation test): no turnover after the last     *)
(* generation of a trial, and a generation during whose evaluation the      *)
(* context was cancelled is still recorded and notified.  The conformance   *)
(* check accepts a run that either variant explains.                        *)
(* One action per step of experiment_execute.go that is visible to the     *)
(* evaluator, the observer or the caller.  Populations are abstracted to   *)
(* <<trial, turnovers>>: a fresh spawn gives <<r, 0>>, an epoch turnover   *)
(* increments the second component.                                        *)
(***************************************************************************)
EXTENDS Integers, Sequences, FiniteSets

CONSTANTS NumRuns, NumGens   \* configured trials and maximal generations per trial
VARIABLES script, observer,  \* inputs
          lazy,              \* which admissible turnover discipline the implementation follows (see above)
          ocancel,           \* inputs: the observer notifications during which the (scripted) observer cancels the context
          pc, run, gen, pop, cancelled,
          evals,             \* evaluator log: <<trial, generation, population>>
          calls,             \* observer log: <<"start"|"epoch"|"finish", trial, generation>>
          cur,               \* generations recorded for the running trial: <<id, solved>>
          trials,            \* recorded trials: [id, gens]
          finalPops,         \* population of each recorded trial when the trial finished
          err                \* "" | "fail" | "cancelled"
vars == <<script, observer, ocancel, lazy, pc, run, gen, pop, cancelled, evals, calls, cur, trials, finalPops, err>>

Outcomes == {"ok", "solved", "fail", "failctx", "fsolved", "cancel", "csolved"}
Fails == {"fail", "failctx", "fsolved"}     \* an error is an error, whatever else the call reported
Notify(c) == IF observer THEN Append(calls, c) ELSE calls
CancelledBy(c) == cancelled \/ (observer /\ c \in ocancel)

InitWith(s, o, oc, lz) ==
    /\ script = s /\ observer = o /\ ocancel = oc /\ lazy = lz
    /\ pc = "trial" /\ run = 0 /\ gen = 0 /\ pop = <<-1, 0>> /\ cancelled = FALSE
    /\ evals = <<>> /\ calls = <<>> /\ cur = <<>> /\ trials = <<>> /\ finalPops = <<>> /\ err = ""

\* for run := 0; run < NumRuns: spawn a fresh population, notify TrialRunStarted
StartTrial ==
    /\ pc = "trial"
    /\ IF run < NumRuns
       THEN /\ pop' = <<run, 0>> /\ gen' = 0 /\ cur' = <<>>
            /\ calls' = Notify(<<"start", run, -1>>) /\ cancelled' = CancelledBy(<<"start", run, -1>>)
            /\ pc' = "gen"
       ELSE /\ pc' = "done" /\ UNCHANGED <<pop, gen, cur, calls, cancelled>>
    /\ UNCHANGED <<script, observer, ocancel, lazy, run, evals, trials, finalPops, err>>
\* top of the generation loop: leave the loop at NumGens, stop on a cancelled context
GenLoop ==
    /\ pc = "gen"
    /\ IF gen >= NumGens THEN pc' = "finish" /\ err' = err /\ pop' = pop
       ELSE IF cancelled THEN pc' = "done" /\ err' = "cancelled" /\ pop' = pop
       ELSE /\ pc' = "eval" /\ err' = err
            \* lazy: the postponed turnover of the previous (unsolved) generation happens here
            /\ pop' = IF lazy /\ gen > 0 THEN <<pop[1], pop[2] + 1>> ELSE pop
    /\ UNCHANGED <<script, observer, ocancel, lazy, run, gen, cancelled, evals, calls, cur, trials, finalPops>>
\* evaluator.GenerationEvaluate
Evaluate ==
    /\ pc = "eval"
    /\ evals' = Append(evals, <<run, gen, pop>>)
    /\ LET o == script[run + 1][gen + 1] IN
       /\ cancelled' = (cancelled \/ o \in {"cancel", "csolved"})
       /\ IF o \in Fails THEN pc' = "done" /\ err' = "fail"
          ELSE IF o \in {"solved", "csolved"} THEN pc' = "record" /\ err' = err
          ELSE pc' = (IF lazy THEN "record" ELSE "epoch") /\ err' = err
    /\ UNCHANGED <<script, observer, ocancel, lazy, run, gen, pop, calls, cur, trials, finalPops>>
\* epochExecutor.NextEpoch (only for a generation that was not solved); fails on a cancelled context
Turnover ==
    /\ pc = "epoch"
    /\ IF cancelled THEN pc' = "done" /\ err' = "cancelled" /\ pop' = pop
       ELSE pc' = "record" /\ err' = err /\ pop' = <<pop[1], pop[2] + 1>>
    /\ UNCHANGED <<script, observer, ocancel, lazy, run, gen, cancelled, evals, calls, cur, trials, finalPops>>
\* append the generation to the trial, notify EpochEvaluated; a solved generation ends the trial
Record ==
    /\ pc = "record"
    /\ LET solved == script[run + 1][gen + 1] \in {"solved", "csolved"} IN
       /\ cur' = Append(cur, <<gen, solved>>)
       /\ calls' = Notify(<<"epoch", run, gen>>) /\ cancelled' = CancelledBy(<<"epoch", run, gen>>)
       /\ IF solved THEN pc' = "finish" /\ gen' = gen ELSE pc' = "gen" /\ gen' = gen + 1
    /\ UNCHANGED <<script, observer, ocancel, lazy, run, pop, evals, trials, finalPops, err>>
\* store the trial, notify TrialRunFinished exactly once, next trial
FinishTrial ==
    /\ pc = "finish"
    /\ trials' = Append(trials, [id |-> run, gens |-> cur])
    /\ finalPops' = Append(finalPops, pop)
    /\ calls' = Notify(<<"finish", run, -1>>) /\ cancelled' = CancelledBy(<<"finish", run, -1>>)
    /\ run' = run + 1 /\ pc' = "trial"
    /\ UNCHANGED <<script, observer, ocancel, lazy, gen, pop, evals, cur, err>>
Next == StartTrial \/ GenLoop \/ Evaluate \/ Turnover \/ Record \/ FinishTrial

(* ---------------- C20 as invariants over the logs ---------------- *)
Sel(seq, P(_)) == SelectSeq(seq, P)
CallsOf(r) == SelectSeq(calls, LAMBDA c : c[2] = r)
EvalsOf(r) == SelectSeq(evals, LAMBDA e : e[1] = r)
Completed(r) == \E i \in DOMAIN trials : trials[i].id = r
\* generations of a trial are evaluated in order 0,1,2,... each once, never beyond the maximum
EvalOrder == \A r \in 0..(NumRuns - 1) :
    LET es == EvalsOf(r) IN /\ Len(es) <= NumGens
                            /\ \A i \in DOMAIN es : es[i][2] = i - 1
\* every trial is evaluated on a fresh population; a population is turned over after every unsolved generation
FreshPopulations == \A i \in DOMAIN evals : evals[i][3] = <<evals[i][1], evals[i][2]>>
\* nothing is evaluated after a solved generation of the same trial, and trials never interleave
StopAfterSolved == \A i, j \in DOMAIN evals :
    (i < j /\ evals[i][1] = evals[j][1]) => script[evals[i][1] + 1][evals[i][2] + 1] \notin {"solved", "csolved"}
TrialsInOrder == \A i, j \in DOMAIN evals : i < j => evals[i][1] <= evals[j][1]
\* recorded trials are 0,1,2,... in order and list exactly their evaluated generations with the reported flags
Recorded == /\ \A i \in DOMAIN trials : trials[i].id = i - 1
            /\ \A i \in DOMAIN trials : LET g == trials[i].gens IN
                  \A k \in DOMAIN g : g[k][1] = k - 1 /\ g[k][2] = (script[i][k] \in {"solved", "csolved"})
\* observer protocol
ObserverProtocol == observer => \A r \in 0..(NumRuns - 1) :
    LET cs == CallsOf(r) IN
    /\ Len(Sel(cs, LAMBDA c : c[1] = "start")) <= 1
    /\ Len(Sel(cs, LAMBDA c : c[1] = "finish")) <= 1
    /\ (cs # <<>>) => cs[1][1] = "start"
    /\ LET ep == Sel(cs, LAMBDA c : c[1] = "epoch") IN \A k \in DOMAIN ep : ep[k][3] = k - 1
    /\ \A k \in DOMAIN cs : cs[k][1] = "finish" => k = Len(cs)
    /\ Completed(r) => /\ Len(Sel(cs, LAMBDA c : c[1] = "finish")) = 1
                       /\ Len(Sel(cs, LAMBDA c : c[1] = "epoch")) = Len(EvalsOf(r))
NoObserverNoCalls == ~observer => calls = <<>>
\* the end of a run
Final == pc = "done" =>
    /\ (err = "") => (Len(trials) = NumRuns)
    /\ (err = "fail") => script[evals[Len(evals)][1] + 1][evals[Len(evals)][2] + 1] \in Fails
    /\ (err = "cancelled") => \/ \E i \in DOMAIN evals : script[evals[i][1] + 1][evals[i][2] + 1] \in {"cancel", "csolved"}
                              \/ \E i \in DOMAIN calls : calls[i] \in ocancel
    /\ ((\A i \in DOMAIN evals : script[evals[i][1] + 1][evals[i][2] + 1] \in {"ok", "solved"})
          /\ (\A i \in DOMAIN calls : calls[i] \notin ocancel)) => err = ""
\* a cancelled context stops the run before the next generation: nothing is evaluated after the notification during which
\* the observer cancelled (the evaluator-side cancellations are covered by EvalOrder / Final through the script)
NoEvalAfterObserverCancel ==
    \A i \in DOMAIN calls : calls[i] \in ocancel =>
       \A j \in DOMAIN evals :
          LET c == calls[i]  e == evals[j] IN
          \/ e[1] < c[2]
          \/ (e[1] = c[2] /\ c[1] = "epoch" /\ e[2] <= c[3])
          \/ (e[1] = c[2] /\ c[1] = "finish")
\* a trial that ended with a solved generation leaves its population as it was evaluated (no turnover after solved)
SolvedNotTurnedOver == \A i \in DOMAIN trials :
    LET g == trials[i].gens IN (g # <<>> /\ g[Len(g)][2]) => finalPops[i] = <<i - 1, Len(g) - 1>>
=============================================================================

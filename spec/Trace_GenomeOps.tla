-------------------------- MODULE Trace_GenomeOps --------------------------
(***************************************************************************)
(* B1: validation of a recorded trace of genetic operator applications     *)
(* (harness command `vh_genome record-lineage`) against Genome.tla.        *)
(*                                                                         *)
(* Every line is one operator application with the projected operands      *)
(* before and after.  The specification OWNS the innovation registry, the  *)
(* counters and the history maps (meaning of every innovation number, role *)
(* of every node id, largest numbers seen): it advances them with its own  *)
(* operators and checks the logged ones against them.  Next never blocks   *)
(* on a property: the set of violated clauses of a step is printed (one    *)
(* JSON record per offending line: the check attributes it to C01, C03,    *)
(* C04, C05, C06 or to `conf` = "the step is not explained by the          *)
(* operator as specified", which is information, not a violation) and the  *)
(* state advances with the logged values so that the rest of the trace is  *)
(* still examined.  TraceAccepted guards against a stuck trace.            *)
(***************************************************************************)
EXTENDS Genome, TLC, Json, IOUtils

TraceFile == IF "TRACE" \in DOMAIN IOEnv THEN IOEnv.TRACE ELSE "trace.ndjson"
Trace == ndJsonDeserialize(TraceFile)
ONE == 1        \* the interner gives 0.0 the symbol 0 and 1.0 the symbol 1
ZERO == 0

VARIABLES l, reg, nInn, nNode, dig, meaning, roles, maxInn, maxNode,
          sLink, sNode   \* the innovations of the current generation as the SPECIFICATION derives them from the observed steps
vars == <<l, reg, nInn, nNode, dig, meaning, roles, maxInn, maxNode, sLink, sNode>>

F(cond, tag) == IF cond THEN {} ELSE {tag}
PoolFn(e) == LET ids == { e.pool[i][1] : i \in DOMAIN e.pool }
             IN  [g \in ids |-> e.pool[CHOOSE i \in DOMAIN e.pool : e.pool[i][1] = g][2]]
(* C06 independence: no pool member other than the operands changed its genetic content *)
OthersUnchanged(e, operands) ==
    LET p == PoolFn(e) IN \A g \in DOMAIN p : (g \in DOMAIN dig /\ g \notin operands) => dig[g] = p[g]

(* C03 history maps *)
MeaningOK(g) == \A i \in DOMAIN g.genes : g.genes[i].inn \in DOMAIN meaning => meaning[g.genes[i].inn] = Key(g.genes[i])
RolesOK(g) == \A i \in DOMAIN g.nodes : g.nodes[i].id \in DOMAIN roles => roles[g.nodes[i].id] = g.nodes[i].role
SelfConsistent(G) == \A a, b \in G : \A i \in DOMAIN a.genes : \A j \in DOMAIN b.genes :
                        a.genes[i].inn = b.genes[j].inn => Key(a.genes[i]) = Key(b.genes[j])
Learn(G) ==
    LET newI == UNION { Inns(g) : g \in G } \ DOMAIN meaning
        newN == UNION { NodeIds(g) : g \in G } \ DOMAIN roles
    IN /\ meaning' = [n \in DOMAIN meaning \cup newI |->
                        IF n \in DOMAIN meaning THEN meaning[n]
                        ELSE Key(GeneOf(CHOOSE g \in G : n \in Inns(g), n))]
       /\ roles' = [n \in DOMAIN roles \cup newN |->
                        IF n \in DOMAIN roles THEN roles[n]
                        ELSE RoleOf(CHOOSE g \in G : n \in NodeIds(g), n)]
       /\ maxInn' = MaxOf({maxInn} \cup UNION { Inns(g) : g \in G })
       /\ maxNode' = MaxOf({maxNode} \cup UNION { NodeIds(g) : g \in G })
RegistryFunctional(r) == \A i, j \in DOMAIN r : i # j =>
                          ~(r[i].k = r[j].k /\ r[i].src = r[j].src /\ r[i].dst = r[j].dst /\ r[i].rec = r[j].rec /\ r[i].old = r[j].old)
RegInns(r) == { r[i].inn : i \in DOMAIN r } \cup { r[i].inn2 : i \in { j \in DOMAIN r : r[j].k = "N" } }
RegNodes(r) == { r[i].node : i \in { j \in DOMAIN r : r[j].k = "N" } }
LinkMatch(r, x) == FirstMatch(r, LAMBDA q : q.k = "L" /\ q.src = x.src /\ q.dst = x.dst /\ q.rec = x.rec)
NodeMatch(r, old) == FirstMatch(r, LAMBDA q : q.k = "N" /\ q.src = old.src /\ q.dst = old.dst /\ q.old = old.inn)

(* ------------------------------------------------------------------ reset *)
DoReset(e) ==
    /\ LET fails == F(WellFormed(e.g) /\ WFModCells(e.g) /\ e.gok, "C01:start genome not well-formed or not expressible") IN
       IF fails = {} THEN TRUE ELSE PrintT(ToJson([l |-> l, ev |-> "reset", fails |-> fails]))
    /\ reg' = <<>> /\ nInn' = e.c[1] /\ nNode' = e.c[2] /\ dig' = PoolFn(e) /\ sLink' = {} /\ sNode' = {}
    /\ meaning' = [n \in Inns(e.g) |-> Key(GeneOf(e.g, n))]
    /\ roles' = [n \in NodeIds(e.g) |-> RoleOf(e.g, n)]
    /\ maxInn' = MaxOf({e.c[1]} \cup Inns(e.g)) /\ maxNode' = MaxOf({e.c[2]} \cup NodeIds(e.g))

(* -------------------------------------------------------------------- dup *)
DoDup(e) ==
    /\ LET fails ==
            IF e.err THEN {"C06:duplicate failed"} ELSE
            F(IsDuplicate(e.child, e.pre), "C06:copy differs from the original in a genetic field or shares an object with it")
            \cup F(e.post = e.pre, "C06:duplication modified the original")
            \cup F(OthersUnchanged(e, {e.cid}), "C06:an uninvolved genome changed")
            \cup F(WellFormed(e.child) /\ WFModCells(e.child) /\ Retains(e.child, e.pre) /\ e.gok, "C01:duplicate not well-formed / not expressible")
            \cup F(MeaningOK(e.child) /\ RolesOK(e.child), "C03:number with two meanings")
       IN IF fails = {} THEN TRUE ELSE PrintT(ToJson([l |-> l, ev |-> "dup", fails |-> fails]))
    /\ dig' = PoolFn(e)
    /\ IF e.err THEN UNCHANGED <<meaning, roles, maxInn, maxNode>> ELSE Learn({e.child})
    /\ UNCHANGED <<reg, nInn, nNode, sLink, sNode>>

(* -------------------------------------------------------------------- mut *)
Structural(op) == op \in {"addnode", "addlink", "connect"}
NewInns(e) == Inns(e.post) \ Inns(e.pre)
NewNodes(e) == NodeIds(e.post) \ NodeIds(e.pre)
(* C05: the statement for the operator of this event *)
C05OK(e) ==
    CASE e.op = "addnode" -> (e.ok => AddNodeStatement(e.pre, e.post, ONE))
      [] e.op = "addlink" -> (e.ok => AddLinkStatement(e.pre, e.post))
      [] e.op = "connect" -> (e.ok => (ConnectSensorsStatement(e.pre, e.post) /\ NewInns(e) # {}))
      [] e.op = "toggle" -> ToggleStatement(e.pre, e.post)
      [] e.op = "reenable" -> ReEnableStatement(e.pre, e.post)
      [] OTHER -> ParametricFrame(e.pre, e.post)
(* C03: numbers issued now exceed everything held before, unless they repeat an innovation of this generation.       *)
(* sLink / sNode are the innovations of the current generation derived by the specification from the steps it has     *)
(* seen (NOT the library's own record, which is only compared under `conf`).                                          *)
SInns == { r.inn : r \in sLink } \cup { r.inn : r \in sNode } \cup { r.inn2 : r \in sNode }
SNodes == { r.node : r \in sNode }
FreshOK(e) ==
    /\ \A n \in NewInns(e) : n \in SInns \/ n > maxInn
    /\ \A n \in NewNodes(e) : n \in SNodes \/ n > maxNode
(* C03: an innovation identical to one that arose earlier in this generation gets the same numbers (sequential use) *)
SplitGenes(e) == { i \in DOMAIN e.pre.genes : e.pre.genes[i].en /\ ~e.post.genes[CHOOSE k \in DOMAIN e.post.genes : e.post.genes[k].inn = e.pre.genes[i].inn].en }
ReuseOK(e) ==
    CASE e.op = "addnode" /\ e.ok /\ Inns(e.pre) \subseteq Inns(e.post) ->
            \A i \in SplitGenes(e) : \A r \in sNode :
               (r.src = e.pre.genes[i].src /\ r.dst = e.pre.genes[i].dst /\ r.old = e.pre.genes[i].inn)
                  => (NewNodes(e) = {r.node} /\ NewInns(e) = {r.inn, r.inn2})
      [] e.op \in {"addlink", "connect"} /\ e.ok ->
            \A n \in NewInns(e) : \A r \in sLink : Key(GeneOf(e.post, n)) = <<r.src, r.dst, r.rec>> => n = r.inn
      [] OTHER -> TRUE
(* the innovations this step adds to the generation's record *)
DeriveLinks(e) ==
    IF e.op \in {"addlink", "connect"} /\ e.ok
    THEN { [src |-> GeneOf(e.post, n).src, dst |-> GeneOf(e.post, n).dst, rec |-> GeneOf(e.post, n).rec, inn |-> n] : n \in NewInns(e) }
    ELSE {}
DeriveNodes(e) ==
    IF e.op = "addnode" /\ e.ok /\ Inns(e.pre) \subseteq Inns(e.post) /\ Cardinality(NewNodes(e)) = 1 /\ Cardinality(NewInns(e)) = 2
    THEN LET n == CHOOSE x \in NewNodes(e) : TRUE
             a == CHOOSE x \in NewInns(e) : GeneOf(e.post, x).dst = n \/ \A y \in NewInns(e) : GeneOf(e.post, y).dst # n
             b == CHOOSE x \in NewInns(e) : x # a
         IN { [src |-> e.pre.genes[i].src, dst |-> e.pre.genes[i].dst, old |-> e.pre.genes[i].inn, inn |-> a, inn2 |-> b, node |-> n]
                : i \in SplitGenes(e) }
    ELSE {}
(* conformance: the step is the operator of Genome.tla for some choice *)
SameButAct(a, b) == a.genes = b.genes /\ a.traits = b.traits
                    /\ [i \in DOMAIN a.nodes |-> [a.nodes[i] EXCEPT !.act = 0]] = [i \in DOMAIN b.nodes |-> [b.nodes[i] EXCEPT !.act = 0]]
ConfOK(e) ==
    LET a == Abs(e.pre)  b == Abs(e.post) IN
    CASE e.op = "addnode" /\ e.ok ->
            \E i \in DOMAIN a.genes :
               /\ AddNodeEligible(a, i)
               /\ LET n == IF NewNodes(e) = {} THEN 0 ELSE CHOOSE x \in NewNodes(e) : TRUE
                      act == IF n = 0 THEN 0 ELSE NodeOf(e.post, n).act
                      r == AddNodeStep(a, i, reg, nInn, nNode, act, e.defact, ONE, ZERO) IN
                  r.ok /\ r.g = b /\ r.reg = e.reg1 /\ r.nInn = e.c1[1] /\ r.nNode = e.c1[2]
      [] e.op = "addlink" /\ e.ok ->
            \E n \in NewInns(e) :
               LET x == GeneOf(e.post, n)
                   t == IF x.tr = 0 THEN 0 ELSE (CHOOSE k \in DOMAIN a.traits : a.traits[k].id = x.tr) - 1
                   r == AddLinkStep(a, x.src, x.dst, x.rec, reg, nInn, x.w, t, ZERO) IN
               AddLinkEligible(a, x.src, x.dst, x.rec) /\ r.g = b /\ r.reg = e.reg1 /\ r.nInn = e.c1[1] /\ nNode = e.c1[2]
      [] e.op = "toggle" /\ e.times = 1 -> \E i \in DOMAIN a.genes : ToggleStep(a, i) = b
      [] e.op = "reenable" -> ReEnableStep(a) = b
      [] e.op \in {"weights", "coldweights"} ->
            /\ b.nodes = a.nodes /\ b.traits = a.traits
            /\ \A i \in DOMAIN b.genes : b.genes[i] = [a.genes[i] EXCEPT !.w = b.genes[i].w, !.mut = b.genes[i].w]
      [] e.op \in {"rndtrait"} -> b.nodes = a.nodes /\ b.genes = a.genes
      [] OTHER -> TRUE
DoMut(e) ==
    /\ LET fails ==
            F(~("panic" \in DOMAIN e), "C01:operator panicked")
            \cup F(WellFormed(e.post) /\ Retains(e.post, e.pre) /\ e.gok, "C01:result not well-formed / not expressible")
            \cup F(C05OK(e), "C05:" \o e.op \o " changed something other than documented")
            \cup F(MeaningOK(e.post) /\ RolesOK(e.post), "C03:number with two meanings")
            \cup F(FreshOK(e), "C03:issued number not larger than all held before")
            \cup F(ReuseOK(e), "C03:identical innovation of this generation got different numbers")
            \cup F(RegistryFunctional(e.reg1), "conf:registry holds two records of one innovation")
            \cup F(OthersUnchanged(e, {e.gid}), "C06:an uninvolved genome changed")
            \cup F(e.reg0 = reg /\ e.c0 = <<nInn, nNode>>, "conf:registry / counters differ from the specification's")
            \cup F(ConfOK(e), "conf:step not explained by the operator as specified")
       IN IF fails = {} THEN TRUE ELSE PrintT(ToJson([l |-> l, ev |-> "mut", op |-> e.op, fails |-> fails]))
    /\ reg' = e.reg1 /\ nInn' = e.c1[1] /\ nNode' = e.c1[2] /\ dig' = PoolFn(e)
    /\ sLink' = sLink \cup DeriveLinks(e) /\ sNode' = sNode \cup DeriveNodes(e)
    /\ Learn({e.post})

(* ------------------------------------------------------------------- mate *)
DoMate(e) ==
    /\ LET c == e.child  p1 == e.p1pre  p2 == e.p2pre
           mp == e.op \in {"multipoint", "multipointavg"}
           fails ==
            IF e.err THEN {"C04:crossover failed"} ELSE
            F(C04_FromParents(c, p1, p2), "C04:child gene not a parent's gene, or repeated")
            \cup F(C04_Weights(c, p1, p2, Range(e.avg), e.op # "multipoint"), "C04:weight neither a parent's nor the mean")
            \cup F(mp => C04_FitterOnly(c, p1, p2, e.cmp), "C04:gene of the less fit parent only")
            \cup F(mp => C04_MatchingInherited(c, p1, p2), "C04:matching gene not inherited")
            \cup F(C04_Enabled(c, p1, p2), "C04:enabled flag")
            \cup F(C04_Nodes(c, p1, p2), "C04:child nodes")
            \cup F(C04_Traits(c, p1, p2, Range(e.avg)), "C04:traits")
            \cup F(e.p1post = p1 /\ e.p2post = p2, "C04:parent modified")
            \cup F(WellFormed(c) /\ Retains(c, p1) /\ Retains(c, p2) /\ e.gok, "C01:child not well-formed / not expressible")
            \cup F((Cells(c) \cup Refs(c)) \cap (Cells(p1) \cup Cells(p2)) = {}, "C04:child shares an object with a parent")
            \cup F(MeaningOK(c) /\ RolesOK(c), "C03:number with two meanings")
            \cup F(OthersUnchanged(e, {e.cid}), "C06:an uninvolved genome changed")
            \cup F(mp => TopoSeq(c) = [k \in DOMAIN MultipointInns(p1, p2, P1Better(p1, p2, e.cmp)) |->
                                         LET n == MultipointInns(p1, p2, P1Better(p1, p2, e.cmp))[k]
                                         IN Topo(IF n \in Inns(p1) THEN GeneOf(p1, n) ELSE GeneOf(p2, n))],
                 "conf:child genes differ from the multipoint walk as specified")
       IN IF fails = {} THEN TRUE ELSE PrintT(ToJson([l |-> l, ev |-> "mate", op |-> e.op, fails |-> fails]))
    /\ dig' = PoolFn(e)
    /\ IF e.err THEN UNCHANGED <<meaning, roles, maxInn, maxNode>> ELSE Learn({e.child})
    /\ UNCHANGED <<reg, nInn, nNode, sLink, sNode>>

(* -------------------------------------------------------------------- gen *)
DoGen(e) ==
    /\ LET fails == F(e.reglen = 0, "C03:innovation record not forgotten at the end of the generation")
       IN IF fails = {} THEN TRUE ELSE PrintT(ToJson([l |-> l, ev |-> "gen", fails |-> fails]))
    /\ reg' = <<>> /\ sLink' = {} /\ sNode' = {} /\ UNCHANGED <<nInn, nNode, dig, meaning, roles, maxInn, maxNode>>

Init == /\ l = 1 /\ sLink = {} /\ sNode = {} /\ reg = <<>> /\ nInn = 0 /\ nNode = 0 /\ dig = <<>> /\ meaning = <<>> /\ roles = <<>> /\ maxInn = 0 /\ maxNode = 0
Next == /\ l <= Len(Trace)
        /\ l' = l + 1
        /\ LET e == Trace[l] IN
           CASE e.ev = "reset" -> DoReset(e)
             [] e.ev = "dup" -> DoDup(e)
             [] e.ev = "mut" -> DoMut(e)
             [] e.ev = "mate" -> DoMate(e)
             [] e.ev = "gen" -> DoGen(e)
Spec == Init /\ [][Next]_vars
TraceAccepted == TLCGet("stats").diameter = Len(Trace) + 1
=============================================================================

SPECIFICATION Spec
CONSTANTS
  RecursiveAddsBias = TRUE
  Inputs = {1, 2}
  Biases = {3, 4}
  Hidden = {7, 8}
  OutSet = {5, 6}
  Shapes = {{1, 2, 3, 5, 6}}
  Weights <- W2
  InVals <- V2
  OrderKinds = {"BIOH"}
  ActSchemes <- SchemesTwo
  LinkCaps = {4}
  SealAtCap = FALSE
  Extra = 1
  Canonical = TRUE
INVARIANTS FeedForward InScope DepthAgrees
CHECK_DEADLOCK FALSE

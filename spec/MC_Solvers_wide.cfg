SPECIFICATION Spec
CONSTANTS
  Inputs = {1, 2}
  Biases = {3}
  Hidden = {}
  OutSet = {4, 5}
  Weights <- W2
  InVals <- V2
  OrderKinds = {"BIOH"}
  ActSchemes <- SchemesTwo
  LinkCaps = {4}
  SealAtCap = FALSE
  Extra = 1
  Canonical = TRUE
INVARIANTS FeedForward InScope DepthAgrees
CHECK_DEADLOCK FALSE
